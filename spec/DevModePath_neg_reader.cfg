\* C16 path identity of the text file, ReaderRule = skipsecond (negative config: must be rejected)
CONSTANTS
  Shapes <- ShapesDef
  ReaderRule = "skipsecond"
  WriterRule = "coded"
  EmitCases = FALSE
INIT Init
NEXT Next
VIEW View
ACTION_CONSTRAINT Emit
INVARIANTS WriterReaderAgree NameIsCanonical
CHECK_DEADLOCK FALSE
