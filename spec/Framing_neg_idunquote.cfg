\* C18 framing NEGATIVE config: a quoted numeral decodes as a number -- must violate IdsPreserved (the string id "7" is read back as the number 7).
CONSTANTS
  Cap = 40
  Msgs <- SmallMsgs
  MaxMsgs = 2
  LenMode = "bytes"
  IdDecode = "unquote"
  NullResult = "ok"
  Variants <- VariantsDef
  ChunkMax = 2
  AllCuts = TRUE
INIT Init
NEXT Next
VIEW View
INVARIANTS TypeOK ReadIsPrefixOfSent IdsPreserved
CHECK_DEADLOCK FALSE
