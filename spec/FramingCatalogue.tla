-------------------------- MODULE FramingCatalogue --------------------------
(* Byte and rune lengths and typed ids of the JSON bodies of the harness's message catalogue (harness/c18:
   catalogue()).  This file holds the values measured at the pinned commit; the check regenerates it
   in its scratch directory from `c18 catalogue` on every run, so that wire position i of the model is
   byte i of the real frame.  Id texts are in the harness's tlaSafe spelling (%XX for other bytes).   *)
LOCAL INSTANCE Integers
LOCAL NoNum == 0 - 1000
CatalogueMsgs == <<
  [kind |-> "call", idk |-> "num", id |-> [t |-> "num", v |-> "1", n |-> 1], blen |-> 50, rlen |-> 50],
  [kind |-> "notify", idk |-> "none", id |-> [t |-> "none", v |-> "", n |-> NoNum], blen |-> 44, rlen |-> 43],
  [kind |-> "call", idk |-> "str", id |-> [t |-> "str", v |-> "x%E2%82%ACy", n |-> NoNum], blen |-> 74, rlen |-> 68],
  [kind |-> "response", idk |-> "num", id |-> [t |-> "num", v |-> "7", n |-> 7], blen |-> 40, rlen |-> 37],
  [kind |-> "response", idk |-> "str", id |-> [t |-> "str", v |-> "id-%C3%BC", n |-> NoNum], blen |-> 52, rlen |-> 49],
  [kind |-> "response", idk |-> "num", id |-> [t |-> "num", v |-> "2147483647", n |-> 2147483647], blen |-> 76, rlen |-> 75],
  [kind |-> "notify", idk |-> "none", id |-> [t |-> "none", v |-> "", n |-> NoNum], blen |-> 178, rlen |-> 178],
  [kind |-> "call", idk |-> "num", id |-> [t |-> "num", v |-> "0", n |-> 0], blen |-> 58, rlen |-> 58],
  [kind |-> "call", idk |-> "str", id |-> [t |-> "str", v |-> "7", n |-> 7], blen |-> 53, rlen |-> 52],
  [kind |-> "response", idk |-> "str", id |-> [t |-> "str", v |-> "42", n |-> 42], blen |-> 41, rlen |-> 41],
  [kind |-> "response", idk |-> "str", id |-> [t |-> "str", v |-> "007", n |-> 7], blen |-> 69, rlen |-> 69],
  [kind |-> "call", idk |-> "str", id |-> [t |-> "str", v |-> "-1", n |-> 0 - 1], blen |-> 54, rlen |-> 54],
  [kind |-> "response", idk |-> "num", id |-> [t |-> "num", v |-> "-12", n |-> 0 - 12], blen |-> 41, rlen |-> 41]
>>
=============================================================================
