\* C20 as coded: 204 answers (no body) go through the rewrite (502 for gzip, aborted exchange otherwise): TLC must reject HeadIsUntouched.
CONSTANTS
  UnsupportedRule = "pass"
  HeadRule = "pass"
  StatusRule = "rewrite"
  CtRule = "caseinsensitive"
  ParseRule = "scripting"
  CspRule = "policylist"
  LengthRule = "set"
  EmitCases = FALSE
INIT Init
NEXT Next
INVARIANTS TypeOK PassThroughIsIdentity HtmlGetsExactlyOneScript DocumentOnlyAppendedTo LengthMatchesBody EncodingHeaderDescribesBody HeadIsUntouched
CHECK_DEADLOCK FALSE
