\* Formatter layout model (FmtLayout.tla) over this family; code as it is (after the repairs).
\* Component family: calls with and without child blocks, children slots, nested.
CONSTANTS
  NonTrailerRule = "source"
  ForcedBreaks = "asCoded"
  MaxNodes = 4
  MaxDepth = 4
  Kinds = {"text", "el", "call", "callb", "slot", "expr"}
  InlineNames = {"span"}
  BlockNames = {}
  VoidNames = {}
  AttrChoices <- AttrChoicesNone
  WsChoices = {"", "v"}
  Words = {"w1"}
  Exprs = {"E1"}
  Conds = {"C1", "C2"}
  Lists = {"L1"}
  EnvSeq <- EnvSeqOne
INIT Init
NEXT Next
VIEW View
INVARIANTS TypeOK Idempotent FmtKeepsTokens FmtKeepsMust EmitFmt
CHECK_DEADLOCK FALSE
