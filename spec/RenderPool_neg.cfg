\* C14 negative configs: Bug (and DevMode) are replaced per seeded defect; TLC must reject each.
CONSTANTS
  G <- G2
  M = 2
  DocLen = 2
  NBuf = 2
  FailAt <- Fail11
  DevMode = FALSE
  MaxVer = 2
  Scratch = TRUE
  DestKinds <- PlainOnly
  Stall <- NoStall
  Bug = "putfirst"
INIT Init
NEXT Next
INVARIANTS TypeOK ExclusiveBuffer Isolated OwnDestinationOnly IndependentOfStalledWriters MutexProtectsCache LiteralsAreAVersion UniqueIds
CHECK_DEADLOCK FALSE
