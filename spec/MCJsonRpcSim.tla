---------------------------- MODULE MCJsonRpcSim ----------------------------
(* Simulation instance of JsonRpc: whole behaviours (the labels of the actions taken) are printed when the
   system is settled, and replayed against the real conn -- the harness is the environment (callers'
   contexts, the peer) and steers the real goroutines through the hook points.                     *)
EXTENDS JsonRpc
VARIABLES hist, cbudget
\* Cancel is enabled almost everywhere, so a uniform random walk would cancel every call early; each
\* behaviour draws the number of cancellations it may use (0..NC) with its initial state.
SimInit == Init /\ hist = <<>> /\ cbudget \in 0..NC
SimNext == \E l \in Labels : /\ Do(l)
                             /\ hist' = Append(hist, l)
                             /\ IF l.a = "cancel" THEN cbudget > 0 /\ cbudget' = cbudget - 1 ELSE cbudget' = cbudget
\* nothing is in progress: every call has returned or waits for a response the peer has not sent
Settled == /\ \A c \in Callers : pc[c] = "done" \/ (pc[c] = "wait" /\ c \notin replied /\ ~cancelled[c])
           /\ \A n \in Notifiers : pc[n] = "done"
           /\ rd.pc = "read" /\ inq = <<>> /\ mu = None
ResultSeq == [c \in Callers |-> result[c]]
PrintHist == Settled => PrintT(<<"HIST", ToJson([hist |-> hist, result |-> ResultSeq, nc |-> NC, nn |-> NN])>>)
=============================================================================
