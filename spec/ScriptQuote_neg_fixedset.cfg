\* C03 negative: a parser that knows only a fixed set of escapes (an escaped backtick is not one) must be rejected
CONSTANTS
  EscMode = "fixed"
  CommentGuard = TRUE
  NlReset = FALSE
  MaxPre = 1
  EmitCases = FALSE
INIT Init
NEXT Next
VIEW View
INVARIANTS QuoteStateAgrees
CHECK_DEADLOCK FALSE
