\* Long else-if chains (seeded simulation): if / else-if / else-if over three conditions, every arm taken once.
\* Formatter layout model (FmtLayout.tla) over this family; code as it is (after the repairs).
CONSTANTS
  NonTrailerRule = "source"
  ForcedBreaks = "asCoded"
  MaxNodes = 3
  MaxDepth = 3
  Kinds = {"expr", "if", "elif"}
  InlineNames = {}
  BlockNames = {}
  VoidNames = {}
  AttrChoices <- AttrChoicesNone
  WsChoices = {"v"}
  Words = {"w1"}
  Exprs = {"E1"}
  Conds = {"C1", "C2", "C3"}
  Lists = {"L1"}
  EnvSeq <- EnvSeq3
INIT Init
NEXT Next
VIEW View
INVARIANTS TypeOK Idempotent FmtKeepsTokens FmtKeepsMust EmitFmt
CHECK_DEADLOCK FALSE
