package main

import (
	"fmt"
	"strings"
)

// Concretisation of a TLC-generated case (slot, pre, shape) to a .templ file.
//
// A shape line (a sequence of rune byte widths) becomes a Go identifier whose runes have exactly
// these widths; a one-line shape is that identifier, a multi-line shape is the call
// fn(L0,\nL1,\nL2) with one identifier per line (an empty line stays empty).  `pre` becomes
// multi-byte text on the same source line in front of the expression.

var runesByWidth = map[int][]string{
	1: {"x", "y", "z", "w", "q"},
	2: {"é", "ñ", "ü", "ß", "ø"},
	3: {"世", "界", "ก", "あ", "中"},
	4: {"𝑥", "𠀀", "𝒚", "𐐷", "𝓏"},
}

func ident(ws []int, salt int) (string, error) {
	var sb strings.Builder
	for i, w := range ws {
		rs, ok := runesByWidth[w]
		if !ok {
			return "", fmt.Errorf("no rune of width %d", w)
		}
		sb.WriteString(rs[(i+salt)%len(rs)])
	}
	return sb.String(), nil
}

// expression prints the shape: suffix is appended to every identifier (" int" for parameters).
func expression(shape [][]int, head string, suffix string) (string, error) {
	if len(shape) == 1 {
		return ident(shape[0], 0)
	}
	var sb strings.Builder
	sb.WriteString(head + "(")
	for i, l := range shape {
		id, err := ident(l, i)
		if err != nil {
			return "", err
		}
		if id != "" {
			sb.WriteString(id + suffix)
			if i < len(shape)-1 {
				sb.WriteString(",")
			}
		}
		if i < len(shape)-1 {
			sb.WriteString("\n")
		}
	}
	sb.WriteString(")")
	return sb.String(), nil
}

// concretise applies the two file-level dimensions of a case on top of the slot/shape concretisation: a composite
// literal inside a one-line expression (flavour "brace") and CRLF line endings (eol "crlf").
func concretise(c genCase) (src string, expr string, err error) {
	src, expr, err = concretiseLF(c)
	if err != nil {
		return
	}
	if c.EOL == "crlf" {
		src = strings.ReplaceAll(src, "\n", "\r\n")
		expr = strings.ReplaceAll(expr, "\n", "\r\n")
	}
	return
}

func concretiseLF(c genCase) (src string, expr string, err error) {
	pre, err := ident(c.Pre, 2)
	if err != nil {
		return "", "", err
	}
	e, err := expression(c.Shape, "fn", "")
	if err != nil {
		return "", "", err
	}
	if c.Flavour == "brace" {
		e = "fn([]T{" + e + "})"
	}
	inl := "" // an inline element holding the multi-byte text in front of a statement
	if pre != "" {
		inl = "<b>" + pre + "</b>"
	}
	title := ""
	if pre != "" {
		title = ` title="` + pre + `"`
	}
	body := func(nodes string) string {
		return "package main\n\ntempl t() {\n" + nodes + "\n}\n"
	}
	switch c.Slot {
	case "package":
		return "package " + e + "\n\ntempl t() {\n\t<p>x</p>\n}\n", "package " + e, nil
	case "signature":
		var sig string
		if len(c.Shape) == 1 {
			sig = e + "()"
		} else {
			sig, err = expression(c.Shape, "t", " int")
			if err != nil {
				return "", "", err
			}
		}
		return "package main\n\ntempl " + sig + " {\n\t<p>x</p>\n}\n", sig, nil
	case "twodecls":
		// both templates start on source line 2; the second one after the closing brace of the first
		return "package main\n\ntempl " + e + "() { <p>a</p> } templ t2() { <i>b</i> }\n", e + "()", nil
	case "csssig":
		var sig string
		if len(c.Shape) == 1 {
			sig = e + "()"
		} else {
			sig, err = expression(c.Shape, "c", " int")
			if err != nil {
				return "", "", err
			}
		}
		return "package main\n\ncss " + sig + " {\n\tcolor: red;\n}\n", sig, nil
	case "scripttempl":
		// script NAME(PARAMS): the first shape line gives the name, all lines are parameters
		// (script names are ASCII letters: the name keeps the rune count of the line, not its widths)
		name := "s" + strings.Repeat("n", len(c.Shape[0]))
		var ps []string
		for i, l := range c.Shape {
			id, err := ident(l, i)
			if err != nil {
				return "", "", err
			}
			if id == "" {
				ps = append(ps, "")
			} else {
				ps = append(ps, id+" int")
			}
		}
		params := ""
		for i, p := range ps {
			params += p
			if i < len(ps)-1 {
				if p != "" {
					params += ","
				}
				params += "\n"
			}
		}
		return "package main\n\nscript " + name + "(" + params + ") {\n\talert(1);\n}\n", name, nil
	case "if":
		return body("\t" + inl + "if " + e + " {\n\t\t<p>x</p>\n\t}"), e, nil
	case "elseif":
		return body("\tif a {\n\t\t<p>x</p>\n\t} else if " + e + " {\n\t\t<p>y</p>\n\t}"), e, nil
	case "for":
		x := "_, v := range " + e
		return body("\t" + inl + "for " + x + " {\n\t\t<p>{ v }</p>\n\t}"), x, nil
	case "switch":
		return body("\t" + inl + "switch " + e + " {\n\t\tcase 1:\n\t\t\t<p>x</p>\n\t}"), e, nil
	case "case":
		return body("\tswitch a {\n\t\tcase " + e + ":\n\t\t\t<p>x</p>\n\t}"), "case " + e + ":", nil
	case "string":
		return body("\t<p>" + pre + "{ " + e + " }</p>"), e, nil
	case "attr":
		return body("\t<p" + title + " data-x={ " + e + " }></p>"), e, nil
	case "classattr":
		return body("\t<p" + title + " class={ " + e + " }></p>"), e, nil
	case "hrefattr":
		return body("\t<a" + title + " href={ " + e + " }>l</a>"), e, nil
	case "styleattr":
		return body("\t<p" + title + " style={ " + e + " }></p>"), e, nil
	case "onattr":
		return body("\t<button" + title + " onclick={ " + e + " }>b</button>"), e, nil
	case "boolattr":
		return body("\t<input" + title + " disabled?={ " + e + " }/>"), e, nil
	case "spread":
		return body("\t<p" + title + " { " + e + "... }></p>"), e, nil
	case "condattr":
		return body("\t<p" + title + " if " + e + " {\n\t\tclass=\"c\"\n\t}></p>"), e, nil
	case "call":
		return body("\t" + inl + "@" + e), e, nil
	case "blockcall":
		return body("\t" + inl + "@" + e + " {\n\t\t<p>c</p>\n\t}"), e, nil
	case "rawgo":
		x := "v := " + e
		return body("\t" + inl + "{{ " + x + " }}"), x, nil
	case "script":
		return body("\t<script>var v" + pre + " = {{ " + e + " }};</script>"), e, nil
	case "cssvalue":
		return "package main\n\ncss c() {\n\tcolor: { " + e + " };\n}\n", e, nil
	case "gobefore":
		var sb strings.Builder
		for i, l := range c.Shape {
			id, err := ident(l, i)
			if err != nil {
				return "", "", err
			}
			if id == "" {
				sb.WriteString("//\n")
			} else {
				sb.WriteString("// " + id + "\n")
			}
		}
		return sb.String() + "package main\n\ntempl t() {\n\t<p>x</p>\n}\n", sb.String(), nil
	case "goafter":
		x := "var v = " + e
		return "package main\n\n" + x + "\n\ntempl t() {\n\t<p>x</p>\n}\n", x, nil
	}
	return "", "", fmt.Errorf("unknown slot %q", c.Slot)
}
