\* negative config: a newline attributed to the following line must be rejected.
CONSTANTS
  MaxLen = 4
  Widths = {1, 2}
  NewlineRule = "lt"
  ColMode = "bytes"
  EolEntry = TRUE
INIT Init
NEXT Next
INVARIANTS PositionIsAdvance
CHECK_DEADLOCK FALSE
