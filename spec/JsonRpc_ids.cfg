\* C18 conn: design check of the id handling: typed ids, stray responses with confusable ids, peer calls with numeric-looking string ids (thorough: IdVocab = "full").
CONSTANTS
  NC = 2
  NN = 0
  MaxPN = 0
  MaxPC = 1
  MaxStray = 1
  UseWriteMu = TRUE
  ChanCap = 1
  RegisterFirst = TRUE
  AtomicAlloc = TRUE
  IdDecode = "strict"
  IdVocab = "small"
  KindShift = 0
  NullResult = "ok"
INIT Init
NEXT Next
INVARIANTS TypeOK Matched NoInventedResponse UniqueIds PendingIsMap PendingOwned IdTypePreserved DispatchedToOwner PeerCallsEchoed FramesNeverInterleave MutexOK ReaderNeverBlocks ReaderAlive PendingExact RegisteredBeforeSending PendingEmptyAtQuiescence
CHECK_DEADLOCK FALSE
