package main

// Second key for JavaScript: V8 (rogchap.com/v8go) evaluates the emitted script bodies / attribute values
// with the called function bound to a recorder and reports the values that arrived.

import (
	"encoding/json"
	"fmt"
	"strings"
	"time"

	v8 "rogchap.com/v8go"
)

type jsKey struct {
	iso  *v8.Isolate
	ctx  *v8.Context
	uses int
}

const prelude = `__r = []; Rec = function(){ __r.push(Array.prototype.slice.call(arguments)); }
RecFC = function(){ __r.push(["fc"].concat(Array.prototype.slice.call(arguments))); }`

func newJSKey() *jsKey {
	k := &jsKey{iso: v8.NewIsolate()}
	k.fresh()
	return k
}

func (k *jsKey) fresh() {
	if k.ctx != nil {
		// All isolates of the process share one pointer-compression cage (4 GB) and an isolate's old space is collected
		// lazily, so 16 long-lived isolates exhaust the cage: the isolate is replaced together with the context.
		k.ctx.Close()
		k.iso.Dispose()
		k.iso = v8.NewIsolate()
	}
	k.ctx = v8.NewContext(k.iso)
	k.uses = 0
	if _, err := k.ctx.RunScript(prelude, "prelude.js"); err != nil {
		panic(err)
	}
}

func (k *jsKey) close() {
	k.ctx.Close()
	k.iso.Dispose()
}

// browserText applies what the HTML parser does to the character stream before JavaScript sees it
// (U+0000 in script data becomes U+FFFD); v8go passes the source as a C string, so a NUL must not remain.
func browserText(s string) string {
	return strings.ReplaceAll(s, "\x00", "�")
}

// run evaluates the bodies in order and returns the recorded calls.
func (k *jsKey) run(bodies []string) (rec []any, err error) {
	k.uses++
	if k.uses > 20000 {
		k.fresh()
	}
	// a broken-out script of an earlier evaluation may have redefined the recorder: define it again every time
	// (replacing the whole context after every failed evaluation exhausts V8's heap on a tree where most fail)
	pv, err := k.ctx.RunScript(prelude, "prelude.js")
	if err != nil {
		return nil, err
	}
	pv.Release()
	// a runaway script must not hang the check
	watchdog := time.AfterFunc(5*time.Second, k.iso.TerminateExecution)
	defer watchdog.Stop()
	for i, b := range bodies {
		bv, err := k.ctx.RunScript(browserText(b), fmt.Sprintf("body%d.js", i))
		if err != nil {
			return nil, err
		}
		bv.Release()
	}
	v, err := k.ctx.RunScript("JSON.stringify(__r)", "result.js")
	if err != nil {
		return nil, err
	}
	res := v.String()
	v.Release()
	if err = json.Unmarshal([]byte(res), &rec); err != nil {
		return nil, err
	}
	return rec, nil
}

// parseJSON returns JSON.parse(text) as V8 sees it.
func (k *jsKey) parseJSON(text string) (out any, err error) {
	k.uses++
	if k.uses > 20000 {
		k.fresh()
	}
	if err = k.ctx.Global().Set("__body", browserText(text)); err != nil {
		return nil, err
	}
	v, err := k.ctx.RunScript("JSON.stringify(JSON.parse(__body))", "json.js")
	if err != nil {
		return nil, err
	}
	res := v.String()
	v.Release()
	if err = json.Unmarshal([]byte(res), &out); err != nil {
		return nil, err
	}
	return out, nil
}
