\* Long else-if chains (seeded simulation): if / else-if / else-if over three conditions, every arm taken once.
CONSTANTS
  MaxNodes = 3
  MaxDepth = 3
  Kinds = {"expr", "if", "elif"}
  InlineNames = {}
  BlockNames = {}
  VoidNames = {}
  AttrChoices <- AttrChoicesNone
  WsChoices = {"v"}
  Words = {"w1"}
  Exprs = {"E1"}
  Conds = {"C1", "C2", "C3"}
  Lists = {"L1"}
  EnvSeq <- EnvSeq3
INIT Init
NEXT Next
VIEW View
INVARIANTS TypeOK MustOnlyBetweenInline DenotedDocumentsBalanced EmitProgram
CHECK_DEADLOCK FALSE
