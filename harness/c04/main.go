// c04 binds spec/SinksUrl.tla (C04: the URL sanitiser admits only relative references and allow-listed
// schemes) to the real templ.URL and to the generated href/action sinks.
//
//	c04 run <chars.json> <edges.ndjson> <seed> <quick|thorough> <outdir> <shards>
//
// The product automaton TLC explored (acceptor x escaper x HTML attribute decoder x WHATWG scheme state,
// every transition printed by the ACTION_CONSTRAINT) is loaded as a table; the harness does not know any
// URL rule itself: for a concrete string it walks the automaton and reads the model's verdict, the acceptor
// branch and the browser-resolved scheme off the state TLC annotated.
//
//	fold     every Unicode scalar value and invalid byte inside scheme-shaped templates (class uniformity:
//	         the analogue of the per-symbol table conformance, catches a folding the partition does not know)
//	exhaust  EVERY string up to length L over the property's adversarial alphabet, directly on templ.URL
//	cover    transition cover of the product automaton (witness x symbol x suffixes <= 2)
//	vectors  known XSS vectors, seeded mutations of them, seeded random long strings
//	render   a subset (and every rejected case) rendered through the generated gallery; (input, output)
//	         written as trace shards for TraceSinksUrl.tla; the second key (x/net/html) checks that the
//	         attribute value decodes to exactly string(templ.URL(s))
package main

import (
	"bufio"
	"bytes"
	"context"
	"encoding/json"
	"fmt"
	"math/rand"
	"os"
	"path/filepath"
	"sort"
	"strconv"
	"strings"
	"sync"
	"sync/atomic"
	"unicode/utf8"

	"github.com/a-h/templ"

	. "verifharness/c01/sinklib"
	"verifharness/vhlib"
)

type stateRec struct {
	A struct {
		Ph  string `json:"ph"`
		Pre []int  `json:"pre"`
		Why string `json:"why"`
	} `json:"a"`
	Q string `json:"q"`
	P bool   `json:"p"`
	U struct {
		Ph  string `json:"ph"`
		Sch []int  `json:"sch"`
	} `json:"u"`
	Verdict string `json:"verdict"`
	Why     string `json:"why"`
	Scheme  []int  `json:"scheme"`
	Safe    bool   `json:"safe"`
}

func (s *stateRec) key() string {
	return fmt.Sprintf("%s|%v|%s|%s|%v|%s|%v", s.A.Ph, s.A.Pre, s.A.Why, s.Q, s.P, s.U.Ph, s.U.Sch)
}

type automaton struct {
	nsym   int
	states []stateRec
	trans  [][]int32
	start  int
}

func loadAutomaton(path string, nsym int) *automaton {
	a := &automaton{nsym: nsym, start: -1}
	ids := map[string]int{}
	id := func(s *stateRec) int {
		k := s.key()
		if i, ok := ids[k]; ok {
			return i
		}
		ids[k] = len(a.states)
		a.states = append(a.states, *s)
		row := make([]int32, nsym)
		for i := range row {
			row[i] = -1
		}
		a.trans = append(a.trans, row)
		return len(a.states) - 1
	}
	n := 0
	err := vhlib.Each(path, func(line []byte) error {
		var e struct {
			From stateRec `json:"from"`
			Sym  int      `json:"sym"`
			To   stateRec `json:"to"`
		}
		if err := json.Unmarshal(line, &e); err != nil {
			return err
		}
		f := id(&e.From)
		if a.start < 0 {
			a.start = f // TLC explores breadth-first: the first edge leaves the initial state
		}
		t := id(&e.To)
		if e.Sym < 0 || e.Sym >= nsym {
			return fmt.Errorf("symbol %d out of range", e.Sym)
		}
		if a.trans[f][e.Sym] >= 0 && int(a.trans[f][e.Sym]) != t {
			return fmt.Errorf("automaton is not deterministic at state %d symbol %d", f, e.Sym)
		}
		a.trans[f][e.Sym] = int32(t)
		n++
		return nil
	})
	if err != nil {
		vhlib.Fatal("%v", err)
	}
	for s, row := range a.trans {
		for c, t := range row {
			if t < 0 {
				vhlib.Fatal("edge dump incomplete: state %d (%s) has no transition for symbol %d", s, a.states[s].key(), c)
			}
		}
	}
	st := a.states[a.start]
	if st.A.Ph != "scan" || len(st.A.Pre) != 0 || st.U.Ph != "lead" {
		vhlib.Fatal("first emitted edge does not leave the initial state: %s", st.key())
	}
	return a
}

func (a *automaton) walk(t *Table, s string) int {
	st := a.start
	for i := 0; i < len(s); {
		r, w := utf8.DecodeRuneInString(s[i:])
		sym := t.BadByte
		if r == utf8.RuneError && w <= 1 {
			w = 1
		} else {
			sym = t.SymOfRune(r)
		}
		st = int(a.trans[st][sym])
		i += w
	}
	return st
}

const failURL = string(templ.FailedSanitizationURL)

type counters struct {
	n, pass, fail, drift, cand int64
}

type candidate struct {
	S      string
	Sig    string
	What   string
	Scheme string
}

type checker struct {
	t    *Table
	a    *automaton
	mu   sync.Mutex
	cand []candidate
	dsmp int
}

func schemeName(t *Table, sch []int) string {
	if len(sch) == 0 {
		return "none"
	}
	if sch[0] < 0 {
		return "other"
	}
	return t.Concrete(sch)
}

// judge compares the real sanitiser with the state the automaton reaches for s.
// It returns a candidate violation (confirmed later by trace validation of the rendered value), or drift.
func (c *checker) judge(s string, st int) (realPass bool, cand *candidate, drift bool) {
	got := string(templ.URL(s))
	ann := &c.a.states[st]
	realPass = got == s
	if s == failURL {
		return realPass, nil, false
	}
	if !realPass && got != failURL {
		return realPass, &candidate{S: s, Sig: "FailIsFixed." + ann.Why, What: fmt.Sprintf("templ.URL(%q) = %q: neither the input nor the fixed failure URL", s, got)}, false
	}
	if realPass && !ann.Safe {
		return realPass, &candidate{S: s, Sig: "PassImpliesSafe." + ann.Why + "." + schemeName(c.t, ann.Scheme), Scheme: schemeName(c.t, ann.Scheme),
			What: fmt.Sprintf("templ.URL(%q) returns its input, a browser resolves it with scheme %q", s, schemeName(c.t, ann.Scheme))}, false
	}
	return realPass, nil, realPass != (ann.Verdict == "pass")
}

func (c *checker) check(s string, st int, k *counters) {
	realPass, cand, drift := c.judge(s, st)
	k.n++
	if realPass {
		k.pass++
	} else {
		k.fail++
	}
	if cand != nil {
		k.cand++
		c.add(*cand)
		return
	}
	if drift {
		ann := &c.a.states[st]
		k.drift++
		c.mu.Lock()
		if c.dsmp < 3 {
			c.dsmp++
			vhlib.Drift("templ.URL's verdict differs from the acceptor model although the outcome is allowed by the property",
				map[string]string{"in": strconv.Quote(s), "real": map[bool]string{true: "pass", false: "fail"}[realPass], "model": ann.Verdict + " (" + ann.Why + ")"})
		}
		c.mu.Unlock()
	}
}

func (c *checker) add(x candidate) {
	c.mu.Lock()
	if len(c.cand) < 400 {
		c.cand = append(c.cand, x)
	}
	c.mu.Unlock()
}

// ---------------------------------------------------------------------------------------------------

var vectors = []string{
	"javascript:alert(1)", "JaVaScRiPt:alert(1)", " javascript:alert(1)", "\x01javascript:alert(1)", "\x1f\x20javascript:alert(1)",
	"java\tscript:alert(1)", "java\nscript:alert(1)", "java\rscript:alert(1)", "java\r\nscript:alert(1)", "javascript\t:alert(1)",
	"\tjavascript:alert(1)", "javascript&colon;alert(1)", "javascript&#58;alert(1)", "javascript&#x3A;alert(1)", "javascript&#x3a",
	"&#106;avascript:alert(1)", "&#x6A;avascript:alert(1)", "jav&#x09;ascript:alert(1)", "jav&Tab;ascript:alert(1)", "javascript&NewLine;:alert(1)",
	"data:text/html,<script>alert(1)</script>", "DATA:text/html;base64,PHNjcmlwdD4=", "vbscript:msgbox(1)", "VbScRiPt:msgbox(1)",
	"//evil.example/javascript:alert(1)", "/javascript:alert(1)", "?javascript:alert(1)", "#javascript:alert(1)", "\\javascript:alert(1)",
	"\\/javascript:alert(1)", "/\\javascript:alert(1)", "./javascript:alert(1)", "http://a/javascript:alert(1)", "http://a", "https://a/b?c=d&e=f#g",
	"http\u017f://x", "\u017fms:1", "ftp\u017f://x", "\u212Aelvin:1", "tel:+123", "mailto:a@b.c", "ftp://x", "ftps://x", "HTTPS://x", "hTtP:x",
	"htTp:javascript:alert(1)", "javascript\x00:alert(1)", "\x00javascript:alert(1)", "java\x00script:alert(1)", "feed:javascript:alert(1)",
	"view-source:javascript:alert(1)", "blob:x", "file:///etc/passwd", "about:blank", "about:invalid#TemplFailedSanitizationURL", "ws://x", "http\t:x",
	"http :x", ":javascript:alert(1)", "a/b:c", "a:b/c", "%6Aavascript:alert(1)", "javascript%3Aalert(1)", "javascript\uff1aalert(1)",
	"\uff4aavascript:alert(1)", "httpx:y", "https:", "http:", "ht\u00adtp:x", "\ufeffjavascript:alert(1)", "\u2028javascript:alert(1)",
	"\u00a0javascript:alert(1)", "javascript:alert(1)//http://x", "x\" onclick=\"alert(1)", "x'><script>alert(1)</script>", "", "relative/path",
	"relative", "mailto", "tel", "?q=a:b", "#frag:ment", "a+b-c.d:e", "1http:x", "+http:x", "http+:x", "h\xffttp:x", "\xffjavascript:alert(1)",
	"javascript\xff:alert(1)", "java\u0131script:alert(1)", "JAVA\u0130SCRIPT:alert(1)", "tel\t:1", "t\ne\rl:1", "\r\nhttp://x", "http:\\\\x",
}

func mutate(rng *rand.Rand, s string, t *Table) string {
	b := []byte(s)
	pieces := []string{"\t", "\n", "\r", " ", "\x00", ":", "/", "\\", "?", "#", "%", "&", ";", "&#58;", "&colon;", "&#x3a;", "&Tab;", "&#9;", "\x01", "\x1f",
		"\u017f", "\u212a", "\u00e9", "\xff", "\u2028", "\ufeff", "http", "javascript", "s", "S", "x"}
	for n := 1 + rng.Intn(3); n > 0; n-- {
		switch rng.Intn(6) {
		case 0, 1: // insert
			p := rng.Intn(len(b) + 1)
			ins := pieces[rng.Intn(len(pieces))]
			b = append(b[:p], append([]byte(ins), b[p:]...)...)
		case 2: // delete
			if len(b) > 0 {
				p := rng.Intn(len(b))
				b = append(b[:p], b[p+1:]...)
			}
		case 3: // flip case
			if len(b) > 0 {
				p := rng.Intn(len(b))
				if b[p] >= 'a' && b[p] <= 'z' {
					b[p] -= 32
				} else if b[p] >= 'A' && b[p] <= 'Z' {
					b[p] += 32
				}
			}
		case 4: // entity-encode one character
			if len(b) > 0 {
				p := rng.Intn(len(b))
				enc := fmt.Sprintf("&#%d;", b[p])
				if rng.Intn(2) == 0 {
					enc = fmt.Sprintf("&#x%x", b[p])
				}
				b = append(b[:p], append([]byte(enc), b[p+1:]...)...)
			}
		case 5: // prefix
			b = append([]byte(pieces[rng.Intn(len(pieces))]), b...)
		}
	}
	return string(b)
}

// ---------------------------------------------------------------------------------------------------

type traceLine struct {
	ID   int   `json:"id"`
	Sink int   `json:"sink"`
	In   []int `json:"in"`
	Out  []int `json:"out"`
}

type gsink struct {
	id     string
	render func(s string) templ.Component
	pat    []PTok
}

func main() {
	if len(os.Args) < 8 || os.Args[1] != "run" {
		vhlib.Fatal("usage: c04 run <chars.json> <edges.ndjson> <seed> <quick|thorough> <outdir> <shards>")
	}
	t, err := LoadTable(os.Args[2])
	if err != nil {
		vhlib.Fatal("%v", err)
	}
	nsym := 128 + len(t.Classes)
	a := loadAutomaton(os.Args[3], nsym)
	seed, _ := strconv.ParseInt(os.Args[4], 10, 64)
	thorough := os.Args[5] == "thorough"
	outdir := os.Args[6]
	nshards, _ := strconv.Atoi(os.Args[7])
	rng := rand.New(rand.NewSource(seed))
	c := &checker{t: t, a: a}
	// sanity of the loaded automaton (the oracle): three strings whose classification is not in doubt
	for _, x := range []struct {
		s       string
		verdict string
		safe    bool
	}{{"javascript:alert(1)", "fail", false}, {"https://example.com/", "pass", true}, {"/javascript:alert(1)", "pass", true}, {"java\tscript:x", "fail", false}} {
		st := &a.states[a.walk(t, x.s)]
		if st.Verdict != x.verdict || st.Safe != x.safe {
			vhlib.Fatal("automaton sanity: %q is classified verdict=%s safe=%v by the TLC-generated automaton", x.s, st.Verdict, st.Safe)
		}
	}

	// --- fold: class uniformity of the real sanitiser over every scalar and invalid byte -----------------
	var kFold counters
	templates := [][2]string{{"", ":x"}, {"http", ":x"}, {"", "ttp:x"}, {"ft", ":x"}, {"ftp", ":x"}, {"", "ms:x"}, {"tel", "x"}, {"", "/:x"}, {"mailt", ":x"}, {"te", ":1"}}
	for r := rune(0); r <= 0x10FFFF; r++ {
		if r >= 0xD800 && r <= 0xDFFF {
			continue
		}
		for _, tp := range templates {
			s := tp[0] + string(r) + tp[1]
			c.check(s, a.walk(t, s), &kFold)
		}
	}
	for b := 0x80; b <= 0xFF; b++ {
		for _, tp := range templates {
			s := tp[0] + string([]byte{byte(b)}) + tp[1]
			c.check(s, a.walk(t, s), &kFold)
		}
	}

	// --- exhaust: every string up to length L over the adversarial alphabet --------------------------------
	alpha := []string{"h", "t", "p", "s", "f", "j", "T", "S", ":", "/", "\\", "?", "#", "%", "&", ";", "\t", "\n", "\r", " ", "\x00", "\u017f", "\u00e9", "\u212a"}
	L := 5
	if thorough {
		L = 6
	}
	asym := make([]int, len(alpha))
	for i, x := range alpha {
		sy := t.Syms(x)
		if len(sy) != 1 {
			vhlib.Fatal("alphabet entry %q is not one symbol", x)
		}
		asym[i] = sy[0]
	}
	var kEx counters
	var exTotal int64
	{
		var wg sync.WaitGroup
		for i0 := range alpha {
			wg.Add(1)
			go func(i0 int) {
				defer wg.Done()
				var k counters
				buf := make([]byte, 0, 32)
				var rec func(st int, depth int)
				rec = func(st int, depth int) {
					c.check(string(buf), st, &k)
					if depth == L {
						return
					}
					for i, x := range alpha {
						n := len(buf)
						buf = append(buf, x...)
						rec(int(a.trans[st][asym[i]]), depth+1)
						buf = buf[:n]
					}
				}
				buf = append(buf, alpha[i0]...)
				rec(int(a.trans[a.start][asym[i0]]), 1)
				atomic.AddInt64(&kEx.n, k.n)
				atomic.AddInt64(&kEx.pass, k.pass)
				atomic.AddInt64(&kEx.fail, k.fail)
				atomic.AddInt64(&kEx.drift, k.drift)
				atomic.AddInt64(&kEx.cand, k.cand)
			}(i0)
		}
		wg.Wait()
		var k counters
		c.check("", a.start, &k)
		kEx.n += k.n
		kEx.pass += k.pass
		exTotal = 1
		pw := int64(1)
		for l := 1; l <= L; l++ {
			pw *= int64(len(alpha))
			exTotal += pw
		}
		if kEx.n != exTotal {
			vhlib.Fatal("exhaustive enumeration visited %d of %d strings", kEx.n, exTotal)
		}
	}

	// --- cover: witness x symbol x suffixes <= 2 ----------------------------------------------------------------
	wit := make([][]int, len(a.states))
	seen := make([]bool, len(a.states))
	seen[a.start] = true
	queue := []int{a.start}
	for len(queue) > 0 {
		s := queue[0]
		queue = queue[1:]
		for sym := 0; sym < nsym; sym++ {
			n := int(a.trans[s][sym])
			if !seen[n] {
				seen[n] = true
				wit[n] = append(append([]int{}, wit[s]...), sym)
				queue = append(queue, n)
			}
		}
	}
	for s := range seen {
		if !seen[s] {
			vhlib.Fatal("state %d of the edge dump is unreachable from the initial state", s)
		}
	}
	sufAlpha := []int{':', '/', '\\', '?', '#', '&', ';', '\t', '\n', ' ', 0, 's', 'S', 'x', t.Syms("\u017f")[0], t.BadByte}
	if thorough {
		sufAlpha = append(sufAlpha, '%', '\r', 'h', 't', 'p', '3', 'a', '.', '+', '-', t.Syms("\u212a")[0], t.Syms("\u00e9")[0])
	}
	var suffixes [][]int
	suffixes = append(suffixes, nil)
	for _, x := range sufAlpha {
		suffixes = append(suffixes, []int{x})
	}
	for _, x := range sufAlpha {
		for _, y := range sufAlpha {
			suffixes = append(suffixes, []int{x, y})
		}
	}
	var kCov counters
	var coverCore []string
	for s := range a.states {
		for sym := 0; sym < nsym; sym++ {
			base := append(append([]int{}, wit[s]...), sym)
			for si, sf := range suffixes {
				str := t.Concrete(append(append([]int{}, base...), sf...))
				c.check(str, a.walk(t, str), &kCov)
				if si == 0 {
					coverCore = append(coverCore, str)
				}
			}
		}
	}

	// --- vectors, mutations, random long strings ----------------------------------------------------------------
	var kVec counters
	var vecs []string
	vecs = append(vecs, vectors...)
	nmut, nrand := 20000, 2000
	if thorough {
		nmut, nrand = 300000, 20000
	}
	for i := 0; i < nmut; i++ {
		vecs = append(vecs, mutate(rng, vectors[rng.Intn(len(vectors))], t))
	}
	pool := []string{"http", "https", "mailto", "tel", "ftp", "ftps", "javascript", "data", "vbscript", ":", ":", "/", "\\", "?", "#", "%", "&", ";", "\t", "\n", "\r", " ", "\x00",
		"\u017f", "\u212a", "\u00e9", "\xff", "&#58;", "&colon;", "x", "S", "s", "//", "a", "1", "+", "-", "."}
	for i := 0; i < nrand; i++ {
		var sb strings.Builder
		for n := 1 + rng.Intn(40); n > 0; n-- {
			sb.WriteString(pool[rng.Intn(len(pool))])
		}
		vecs = append(vecs, sb.String())
	}
	for _, s := range vecs {
		c.check(s, a.walk(t, s), &kVec)
	}

	// --- render: gallery + trace for TraceSinksUrl ------------------------------------------------------------------
	sinks := []gsink{
		{"href-url", func(s string) templ.Component { return hrefURL(s) }, []PTok{Start("a", "href", "$A"), Text("x"), End("a")}},
		{"action-url", func(s string) templ.Component { return actionURL(s) }, []PTok{Start("form", "action", "$A"), Text("x"), End("form")}},
		{"href-safeurl-param", func(s string) templ.Component { return hrefSafeURLParam(templ.URL(s)) }, []PTok{Start("a", "href", "$A", "class", "k"), Text("x"), End("a")}},
	}
	type patReg struct {
		ID  string      `json:"id"`
		Pat []SpecEvent `json:"pat"`
	}
	var pats []patReg
	for _, sk := range sinks {
		pats = append(pats, patReg{sk.id, SpecPattern(sk.pat)})
	}
	pb, _ := json.Marshal(pats)
	if err := os.WriteFile(filepath.Join(outdir, "sinks.json"), pb, 0o644); err != nil {
		vhlib.Fatal("%v", err)
	}
	// the strings that are rendered
	var rs []string
	rs = append(rs, coverCore...)
	rs = append(rs, vectors...)
	nm := 3000
	if thorough {
		nm = 30000
	}
	for i := 0; i < nm && len(vectors)+i < len(vecs); i++ {
		rs = append(rs, vecs[len(vectors)+i])
	}
	exR := 2
	if thorough {
		exR = 3
	}
	var recx func(prefix string, d int)
	recx = func(prefix string, d int) {
		rs = append(rs, prefix)
		if d == exR {
			return
		}
		for _, x := range alpha {
			recx(prefix+x, d+1)
		}
	}
	recx("", 0)
	candStart := len(rs)
	sort.SliceStable(c.cand, func(i, j int) bool { return len(c.cand[i].S) < len(c.cand[j].S) })
	for _, x := range c.cand {
		rs = append(rs, x.S)
	}
	shardW := make([]*bufio.Writer, nshards)
	shardN := make([]int, nshards)
	for i := range shardW {
		f, err := os.Create(filepath.Join(outdir, fmt.Sprintf("trace-%d.ndjson", i)))
		if err != nil {
			vhlib.Fatal("%v", err)
		}
		defer f.Close()
		shardW[i] = bufio.NewWriterSize(f, 1<<20)
	}
	renders, goFails, lines := 0, 0, 0
	ctx := context.Background()
	for xi, s := range rs {
		for si, sk := range sinks {
			if xi < candStart && ((si == 1 && xi%4 != 0) || (si >= 2 && xi%8 != 0)) {
				continue // the secondary sinks see every 4th / 8th string (and every candidate)
			}
			var buf bytes.Buffer
			if err := sk.render(s).Render(ctx, &buf); err != nil {
				vhlib.Fatal("render error: %v", err)
			}
			out := buf.String()
			renders++
			// second key: the attribute decodes to exactly string(templ.URL(s)) and nothing else changed
			want := string(templ.URL(s))
			p := make([]PTok, len(sk.pat))
			copy(p, sk.pat)
			p[0] = Start(p[0].Name, append([]string{p[0].Attrs[0].Name, "$V"}, flat(p[0].Attrs[1:])...)...)
			idn := (si+1)*100_000_000 + xi
			if why, desc := MatchGo(out, p, want); why != "" {
				goFails++
				vhlib.Emit(map[string]any{"kind": "gofail", "f": map[string]any{"id": idn, "sink": sk.id, "why": why, "desc": desc,
					"in": strconv.Quote(s), "out": strconv.Quote(out)}})
			}
			b, _ := json.Marshal(traceLine{ID: idn, Sink: si + 1, In: t.Syms(s), Out: t.Syms(out)})
			k := lines % nshards
			shardW[k].Write(b)
			shardW[k].WriteByte('\n')
			shardN[k]++
			lines++
		}
	}
	for i := range shardW {
		shardW[i].Flush()
	}
	// candidates (unsafe pass / not fixed) among the rendered strings, keyed by the string index that the
	// trace ids carry (id % 100000000): TLC must confirm exactly these
	ncand := 0
	for xi, str := range rs {
		if _, cand, _ := c.judge(str, a.walk(t, str)); cand != nil {
			ncand++
			vhlib.Emit(map[string]any{"kind": "candidate", "xi": xi, "sig": cand.Sig, "what": cand.What, "in": strconv.Quote(str)})
		}
	}
	// spread maps on <a>: what a plain string / a SafeURL value under the key "href" renders (judged by the trace spec)
	for _, v := range []any{"javascript:alert(1)", "https://example.com/", templ.URL("javascript:alert(1)"), templ.SafeURL("/ok")} {
		var buf bytes.Buffer
		if err := hrefSpread(templ.Attributes{"href": v}).Render(ctx, &buf); err != nil {
			vhlib.Fatal("render error: %v", err)
		}
		vhlib.Emit(map[string]any{"kind": "spread", "type": fmt.Sprintf("%T", v), "in": fmt.Sprint(v), "out": buf.String()})
	}
	vhlib.Sample(map[string]string{"in": strconv.Quote("java\tscript:alert(1)"), "out": string(templ.URL("java\tscript:alert(1)"))})
	vhlib.Sample(map[string]string{"in": strconv.Quote("http\u017f://x"), "out": string(templ.URL("http\u017f://x")), "note": "EqualFold accepts LONG S; a browser sees no scheme: relative reference"})
	vhlib.Sample(map[string]string{"in": strconv.Quote("/javascript:alert(1)"), "out": string(templ.URL("/javascript:alert(1)"))})
	tot := func(k counters) map[string]int64 {
		return map[string]int64{"strings": k.n, "pass": k.pass, "fail": k.fail, "drift": k.drift, "unsafe_pass": k.cand}
	}
	vhlib.Summary(map[string]any{"states": len(a.states), "fold": tot(kFold), "exhaustive": tot(kEx), "exhaustive_len": L, "alphabet": len(alpha),
		"cover": tot(kCov), "vectors": tot(kVec), "candidates": ncand, "candidates_direct": kFold.cand + kEx.cand + kCov.cand + kVec.cand, "renders": renders, "go_fails": goFails, "trace_lines": lines,
		"shard_lines": shardN, "drift": kFold.drift + kEx.drift + kCov.drift + kVec.drift,
		"evaluations": kFold.n + kEx.n + kCov.n + kVec.n})
}

func flat(as []PAttr) []string {
	var out []string
	for _, a := range as {
		out = append(out, a.Name, a.Val)
	}
	return out
}
