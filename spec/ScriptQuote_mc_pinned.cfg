\* C03 as pinned: TLC is EXPECTED to report QuoteStateAgrees (a comment opener after an expression inside a literal; finding ScriptParser.CommentAfterExpressionInLiteral)
CONSTANTS
  EscMode = "any"
  CommentGuard = FALSE
  NlReset = FALSE
  MaxPre = 1
  EmitCases = FALSE
INIT Init
NEXT Next
VIEW View
INVARIANTS QuoteStateAgrees
CHECK_DEADLOCK FALSE
