// c17 replays TLC-generated transitions and behaviours of spec/LspDoc.tla on the real
// proxy.Document / proxy.DocumentContents of the repository under test.
//
//	c17 edges <edges.ndjson> <seed> <walks> <walklen>   every explored transition + random walks over the emitted graph
//	c17 hist  <hist.ndjson>                             simulated long behaviours (one JSON array of labels per line)
//	c17 session <hist.ndjson>                           LspSession.tla behaviours on a real proxy.Server (session.go)
package main

import (
	"encoding/json"
	"fmt"
	"io"
	"log/slog"
	"math/rand"
	"os"
	"strconv"
	"strings"

	"github.com/a-h/templ/cmd/templ/lspcmd/proxy"
	lsp "github.com/a-h/templ/lsp/protocol"

	"verifharness/vhlib"
)

type label struct {
	Op      string   `json:"op"`
	SL      uint32   `json:"sl"`
	SC      uint32   `json:"sc"`
	EL      uint32   `json:"el"`
	EC      uint32   `json:"ec"`
	Text    []string `json:"text"`
	Branch  string   `json:"branch"`
	A       int      `json:"a"`
	B       int      `json:"b"`
	OrWhole bool     `json:"orwhole"`
}

type edge struct {
	From []string `json:"from"`
	Lbl  label    `json:"lbl"`
	To   []string `json:"to"`
	Impl []string `json:"impl"`
}

var logger = slog.New(slog.NewTextHandler(io.Discard, nil))

// abstract maps a concrete document to the spec's alphabet.
func abstract(s string) string {
	var sb strings.Builder
	for i := 0; i < len(s); i++ {
		if s[i] == '\n' {
			sb.WriteByte('n')
		} else {
			sb.WriteByte('a')
		}
	}
	return sb.String()
}

// concretise gives every non-newline symbol its own letter so misplaced text is visible.
func concretise(sym []string, alphabet string, off int) string {
	var sb strings.Builder
	for i, c := range sym {
		if c == "n" {
			sb.WriteByte('\n')
		} else {
			sb.WriteByte(alphabet[(i+off)%len(alphabet)])
		}
	}
	return sb.String()
}

// concretiseCR is concretise for replacement texts of the long walks and behaviours: a symbol directly before a newline
// is a carriage return in one of two walk steps (editors on Windows send CRLF). To the specification and to
// Document a carriage return is an ordinary byte of its line, so offsets and positions are unchanged.
func concretiseCR(sym []string, alphabet string, off int) string {
	b := []byte(concretise(sym, alphabet, off))
	if off%2 == 1 {
		for i := 0; i+1 < len(b); i++ {
			if b[i] != '\n' && b[i+1] == '\n' {
				b[i] = '\r'
			}
		}
	}
	return string(b)
}

const lower = "bcdefghijklmopqrstuvwxyz"
const upper = "ABCDEFGHIJKLMOPQRSTUVWXYZ"

type caseReport struct {
	From   string `json:"from"`
	Range  string `json:"range"`
	Text   string `json:"text"`
	Want   string `json:"want"`
	Got    string `json:"got"`
	Branch string `json:"spec_branch"`
	Path   any    `json:"path,omitempty"`
}

func applyReal(d *proxy.Document, l label, text string) (panicked any) {
	defer func() { panicked = recover() }()
	if l.Op == "replace" {
		d.Apply(nil, text)
		return
	}
	r := &lsp.Range{Start: lsp.Position{Line: l.SL, Character: l.SC}, End: lsp.Position{Line: l.EL, Character: l.EC}}
	d.Apply(r, text)
	return
}

func rangeString(l label) string {
	if l.Op == "replace" {
		return "nil"
	}
	return fmt.Sprintf("%d:%d-%d:%d", l.SL, l.SC, l.EL, l.EC)
}

// signature attributes a failing case to the branch of the implementation model that handled it.
func signature(l label, got, text string) string {
	if l.OrWhole && l.Branch != "whole" && got == text {
		// the only way the original `||` rule and the repaired `&&` rule differ
		return "IsWholeDocument.EndCharEqualsLastLineLen"
	}
	return "Apply." + l.Branch
}

func main() {
	if len(os.Args) < 3 {
		vhlib.Fatal("usage")
	}
	switch os.Args[1] {
	case "edges":
		edges(os.Args[2:])
	case "hist":
		hist(os.Args[2])
	case "session":
		session(os.Args[2])
	default:
		vhlib.Fatal("unknown mode %s", os.Args[1])
	}
}

func edges(args []string) {
	seed, _ := strconv.ParseInt(args[1], 10, 64)
	walks, _ := strconv.Atoi(args[2])
	walklen, _ := strconv.Atoi(args[3])
	byFrom := map[string][]edge{}
	var n, fails, drift, samples int
	branches := map[string]int{}
	err := vhlib.Each(args[0], func(line []byte) error {
		var e edge
		if err := json.Unmarshal(line, &e); err != nil {
			return err
		}
		n++
		branches[e.Lbl.Branch]++
		from := concretise(e.From, lower, 0)
		text := concretise(e.Lbl.Text, upper, 0)
		var want string
		if e.Lbl.Op == "replace" {
			want = text
		} else {
			want = from[:e.Lbl.A] + text + from[e.Lbl.B:]
		}
		if abstract(want) != strings.Join(e.To, "") {
			vhlib.Fatal("concretisation disagrees with the spec's successor: %s vs %v", want, e.To)
		}
		d := proxy.NewDocument(logger, from)
		p := applyReal(d, e.Lbl, text)
		got := ""
		if p == nil {
			got = d.String()
		} else {
			got = fmt.Sprintf("panic: %v", p)
		}
		if got != want {
			fails++
			vhlib.Fail(signature(e.Lbl, got, text), "server copy differs from the editor's buffer after one content change",
				caseReport{From: from, Range: rangeString(e.Lbl), Text: text, Want: want, Got: got, Branch: e.Lbl.Branch})
		} else if abstract(got) != strings.Join(e.Impl, "") {
			drift++
		}
		if samples < 4 && e.Lbl.Op == "edit" && len(e.From) >= 3 && n%977 == 0 {
			samples++
			vhlib.Sample(caseReport{From: from, Range: rangeString(e.Lbl), Text: text, Want: want, Got: got, Branch: e.Lbl.Branch})
		}
		k := strings.Join(e.From, "")
		byFrom[k] = append(byFrom[k], e)
		return nil
	})
	if err != nil {
		vhlib.Fatal("%v", err)
	}
	// Random walks over the emitted graph on ONE live Document (slice aliasing, state carried between edits)
	// and through DocumentContents.Apply with batches of changes.
	rng := rand.New(rand.NewSource(seed))
	walkSteps, walkFails := 0, 0
	for w := 0; w < walks; w++ {
		cur := ""
		concrete := ""
		d := proxy.NewDocument(logger, concrete)
		dc := proxy.NewServer(logger, nil, nil, nil, true).TemplSource
		dcDoc := proxy.NewDocument(logger, concrete)
		dc.Set("u", dcDoc)
		var path []string
		var batch []lsp.TextDocumentContentChangeEvent
		for s := 0; s < walklen; s++ {
			es := byFrom[cur]
			if len(es) == 0 {
				break // left the explored bound
			}
			e := es[rng.Intn(len(es))]
			text := concretiseCR(e.Lbl.Text, upper, s)
			var want string
			if e.Lbl.Op == "replace" {
				want = text
			} else {
				want = concrete[:e.Lbl.A] + text + concrete[e.Lbl.B:]
			}
			path = append(path, rangeString(e.Lbl)+"<-"+strconv.Quote(text))
			p := applyReal(d, e.Lbl, text)
			walkSteps++
			got := ""
			if p == nil {
				got = d.String()
			} else {
				got = fmt.Sprintf("panic: %v", p)
			}
			ch := lsp.TextDocumentContentChangeEvent{Text: text}
			if e.Lbl.Op != "replace" {
				ch.Range = &lsp.Range{Start: lsp.Position{Line: e.Lbl.SL, Character: e.Lbl.SC}, End: lsp.Position{Line: e.Lbl.EL, Character: e.Lbl.EC}}
			}
			batch = append(batch, ch)
			gotDC := want
			if len(batch) == 3 || s == walklen-1 {
				func() {
					defer func() {
						if r := recover(); r != nil {
							gotDC = fmt.Sprintf("panic: %v", r)
						}
					}()
					nd, err := dc.Apply("u", batch)
					if err != nil {
						gotDC = "error: " + err.Error()
					} else {
						gotDC = nd.String()
					}
				}()
				batch = nil
			}
			if got != want || gotDC != want {
				walkFails++
				fails++
				vhlib.Fail(signature(e.Lbl, got, text), "server copy differs from the editor's buffer after a sequence of content changes",
					caseReport{From: concrete, Range: rangeString(e.Lbl), Text: text, Want: want, Got: got + " / batched: " + gotDC, Branch: e.Lbl.Branch, Path: path})
				break
			}
			concrete = want
			cur = strings.Join(e.To, "")
		}
	}
	vhlib.Summary(map[string]any{"edges": n, "fails": fails, "drift": drift, "walk_steps": walkSteps, "walk_fails": walkFails, "branches": branches})
}

type histLine struct {
	Hist []struct {
		Lbl label    `json:"lbl"`
		Doc []string `json:"doc"`
	} `json:"hist"`
}

func hist(path string) {
	var n, steps, fails int
	maxDoc := 0
	err := vhlib.Each(path, func(line []byte) error {
		var h histLine
		if err := json.Unmarshal(line, &h); err != nil {
			return err
		}
		n++
		concrete := ""
		d := proxy.NewDocument(logger, concrete)
		var pth []string
		for i, st := range h.Hist {
			if st.Lbl.Op == "init" {
				continue
			}
			text := concretiseCR(st.Lbl.Text, upper, i)
			var want string
			if st.Lbl.Op == "replace" {
				want = text
			} else {
				want = concrete[:st.Lbl.A] + text + concrete[st.Lbl.B:]
			}
			if abstract(want) != strings.Join(st.Doc, "") {
				vhlib.Fatal("concretisation disagrees with the spec's state: %q vs %v", want, st.Doc)
			}
			pth = append(pth, rangeString(st.Lbl)+"<-"+strconv.Quote(text))
			p := applyReal(d, st.Lbl, text)
			steps++
			got := ""
			if p == nil {
				got = d.String()
			} else {
				got = fmt.Sprintf("panic: %v", p)
			}
			if got != want {
				fails++
				vhlib.Fail(signature(st.Lbl, got, text), "server copy differs from the editor's buffer in a simulated long behaviour",
					caseReport{From: concrete, Range: rangeString(st.Lbl), Text: text, Want: want, Got: got, Branch: st.Lbl.Branch, Path: pth})
				break
			}
			concrete = want
			if len(concrete) > maxDoc {
				maxDoc = len(concrete)
			}
		}
		return nil
	})
	if err != nil {
		vhlib.Fatal("%v", err)
	}
	vhlib.Summary(map[string]any{"behaviours": n, "steps": steps, "fails": fails, "max_doc_len": maxDoc})
}
