------------------------------- MODULE CssTok -------------------------------
(* C05 -- the consumer of dynamic CSS values: CSS Syntax Level 3 tokenisation and declaration parsing in
   DECLARATION-VALUE position, as a per-symbol step function, plus the RAWTEXT end detection of a <style>
   element and html.EscapeString for the style-attribute path.

   Self-contained (no dependency on Chars.tla / HtmlTok.tla). Symbols are one-character strings for the ASCII
   characters that matter to the sanitiser, the CSS tokenizer or a URL parser, and names for classes:
     "z"  other lower-case letters    "f" other hex letters (b c d f)    "Z" other upper-case letters
     "0"  digits                      "PCT" is "%"                       "OP" other ASCII punctuation ($ ^ ` | ~ =)
     "SP" space  "TAB"  "LF"  "CR"  "FF"   (CSS whitespace / newlines)
     "CTL" other C0 controls and DEL (non-printable: bad-url in CSS, rejected by net/url)
     "VT"  U+000B: like CTL for CSS and net/url, but strings.TrimSpace trims it
     "UWS" non-ASCII white space that strings.TrimSpace trims (U+0085 U+00A0 U+2028 ...): an ident character in CSS
     "NA"  any other non-ASCII scalar                                                                  *)
EXTENDS Integers, Sequences, TLC

CDQ  == "\""
CBSL == "\\"

CssLower == {"a","e","h","i","l","m","n","o","p","r","s","t","u","y","f","z"}     \* n: for `!important`
CssUpper == {"U","R","L","S","Z"}            \* U R L S: case-insensitive matches of url( and </style, https
CssPunct == {";", ":", "{", "}", "(", ")", "[", "]", CDQ, "'", CBSL, "/", "*", "<", ">", ",", "@", "!", "#", "PCT",
             "-", "+", ".", "_", "&", "?", "OP"}
CssWs == {"SP", "TAB", "LF", "CR", "FF"}
CssNl == {"LF", "CR", "FF"}
CssSym == CssLower \cup CssUpper \cup CssPunct \cup CssWs \cup {"0", "CTL", "VT", "UWS", "NA"}
CssCtl == {"CTL", "VT"}

CLower(c) == CASE c = "U" -> "u" [] c = "R" -> "r" [] c = "L" -> "l" [] c = "S" -> "s" [] c = "Z" -> "z" [] OTHER -> c
CIsLetter(c) == c \in CssLower \cup CssUpper
CIsHex(c) == c \in {"0", "a", "e", "f"}
CIsIdent(c) == CIsLetter(c) \/ c \in {"0", "-", "_", "NA", "UWS"}

-----------------------------------------------------------------------------
(* URL scheme as a browser extracts it from the (unescaped) url value: leading C0/space stripped, TAB/LF/CR
   ignored, scheme = alpha (alnum + - .)* ':'. Allowed: http https mailto, or no scheme.
   States (sequences): <<"off">> <<"lead">> <<"other">> <<"done">> <<"BAD">> or a prefix of an allowed name. *)
SchemeNames == {<<"h","t","t","p">>, <<"h","t","t","p","s">>, <<"m","a","i","l","t","o">>}
SchIsPrefix(p) == \E n \in SchemeNames : Len(p) <= Len(n) /\ \A i \in 1..Len(p) : p[i] = n[i]
SchStep(s, c0) ==
    LET c == CLower(c0) IN
    IF s \in {<<"off">>, <<"done">>, <<"BAD">>} THEN s
    ELSE IF c \in {"TAB", "LF", "CR"} THEN s
    ELSE IF s = <<"lead">> THEN
         IF c \in {"SP", "CTL", "VT", "FF"} THEN <<"lead">>
         ELSE IF CIsLetter(c) THEN (IF SchIsPrefix(<<c>>) THEN <<c>> ELSE <<"other">>) ELSE <<"done">>
    ELSE IF c = ":" THEN (IF s \in SchemeNames THEN <<"done">> ELSE <<"BAD">>)
    ELSE IF CIsLetter(c) \/ c \in {"0", "+", "-", "."} THEN
         (IF s # <<"other">> /\ SchIsPrefix(Append(s, c)) THEN Append(s, c) ELSE <<"other">>)
    ELSE <<"done">>

-----------------------------------------------------------------------------
(* Tokenizer/parser state:
     m    "val" | "str" | "urlstart" | "url" | "urlws" | "badurl" | "cmt" | "cmtstar"
     q    quote of the current string ("-" if none)
     e    escape sub-state: 0 none | -1 just after a backslash | 1..6 hex digits read
     st   stack of open blocks: "(" "[" "{" and "u(" for url( with a string argument / url token; depth <= MaxDepth
     id   identifier progress in "val": "" | "u" | "ur" | "url" | "x"
     sl   a '/' is pending (comment detection)
     sc   URL scheme state of the url currently being read
     ev   first event that breaks OneDeclaration ("" = none), sticky                                      *)
MaxDepth == 3
CssInit == [m |-> "val", q |-> "-", e |-> 0, st |-> <<>>, id |-> "", sl |-> FALSE, sc |-> <<"off">>, ev |-> ""]

Ev(s, name) == IF s.ev = "" THEN name ELSE s.ev
Push(s, b) == IF Len(s.st) >= MaxDepth THEN [s EXCEPT !.ev = Ev(s, "TooDeep")] ELSE [s EXCEPT !.st = Append(s.st, b)]
Pop(s) == [s EXCEPT !.st = SubSeq(s.st, 1, Len(s.st) - 1)]
Top(s) == IF s.st = <<>> THEN "-" ELSE s.st[Len(s.st)]
InUrl(s) == Top(s) = "u("
SchFeed(s, c) == LET n == SchStep(s.sc, c) IN
                 IF n = <<"BAD">> THEN [s EXCEPT !.sc = <<"done">>, !.ev = Ev(s, "ForeignScheme")] ELSE [s EXCEPT !.sc = n]
\* an escaped character inside a url value: some character the model does not decode (conservatively a letter)
SchFeedEscaped(s) == SchFeed(s, "z")

IdStep(id, c) == LET l == CLower(c) IN
                 IF id = "" /\ l = "u" THEN "u" ELSE IF id = "u" /\ l = "r" THEN "ur"
                 ELSE IF id = "ur" /\ l = "l" THEN "url" ELSE "x"

RECURSIVE CssStep(_, _)
CssStep(s, c) ==
    IF s.e = -1 THEN
        \* the character after a backslash
        IF c \in CssNl THEN
            (IF s.m = "str" THEN [s EXCEPT !.e = 0]                               \* line continuation
             ELSE IF s.m = "url" THEN [s EXCEPT !.e = 0, !.m = "badurl", !.ev = Ev(s, "BadUrl")]
             ELSE CssStep([s EXCEPT !.e = 0], c))                                  \* not an escape: '\' was a delim
        ELSE IF CIsHex(c) THEN [s EXCEPT !.e = 1]
        ELSE [s EXCEPT !.e = 0]
    ELSE IF s.e \in 1..6 THEN
        IF CIsHex(c) /\ s.e < 6 THEN [s EXCEPT !.e = s.e + 1]
        ELSE IF c \in CssWs THEN [s EXCEPT !.e = 0]                                \* one white space ends the escape
        ELSE CssStep([s EXCEPT !.e = 0], c)
    ELSE IF s.m = "cmt" THEN (IF c = "*" THEN [s EXCEPT !.m = "cmtstar"] ELSE s)
    ELSE IF s.m = "cmtstar" THEN
        (IF c = "/" THEN [s EXCEPT !.m = "val"] ELSE IF c = "*" THEN s ELSE [s EXCEPT !.m = "cmt"])
    ELSE IF s.m = "str" THEN
        IF c = s.q THEN [s EXCEPT !.m = "val", !.q = "-", !.sc = <<"off">>]
        ELSE IF c \in CssNl THEN [s EXCEPT !.m = "val", !.q = "-", !.sc = <<"off">>, !.ev = Ev(s, "BadString")]
        ELSE IF c = CBSL THEN (IF InUrl(s) THEN [SchFeedEscaped(s) EXCEPT !.e = -1] ELSE [s EXCEPT !.e = -1])
        ELSE IF InUrl(s) THEN SchFeed(s, c) ELSE s
    ELSE IF s.m = "urlstart" THEN
        IF c \in CssWs THEN s
        ELSE IF c \in {CDQ, "'"} THEN [s EXCEPT !.m = "str", !.q = c, !.sc = <<"lead">>]
        ELSE IF c = ")" THEN [Pop(s) EXCEPT !.m = "val", !.sc = <<"off">>]
        ELSE CssStep([s EXCEPT !.m = "url", !.sc = <<"lead">>], c)
    ELSE IF s.m = "url" THEN
        IF c = ")" THEN [Pop(s) EXCEPT !.m = "val", !.sc = <<"off">>]
        ELSE IF c \in CssWs THEN [s EXCEPT !.m = "urlws"]
        ELSE IF c \in {CDQ, "'", "(", "CTL", "VT"} THEN [s EXCEPT !.m = "badurl", !.ev = Ev(s, "BadUrl")]
        ELSE IF c = CBSL THEN [SchFeedEscaped(s) EXCEPT !.e = -1]
        ELSE SchFeed(s, c)
    ELSE IF s.m = "urlws" THEN
        IF c \in CssWs THEN s
        ELSE IF c = ")" THEN [Pop(s) EXCEPT !.m = "val", !.sc = <<"off">>]
        ELSE [s EXCEPT !.m = "badurl", !.ev = Ev(s, "BadUrl")]
    ELSE IF s.m = "badurl" THEN
        IF c = ")" THEN [Pop(s) EXCEPT !.m = "val", !.sc = <<"off">>]
        ELSE IF c = CBSL THEN [s EXCEPT !.e = -1] ELSE s
    ELSE \* "val": component values of the declaration
        IF s.sl /\ c = "*" THEN [s EXCEPT !.m = "cmt", !.sl = FALSE, !.id = "", !.ev = Ev(s, "Comment")]
        ELSE LET t == [s EXCEPT !.sl = FALSE] IN
        IF CIsIdent(c) THEN [t EXCEPT !.id = IdStep(t.id, c)]
        ELSE IF c = CBSL THEN [t EXCEPT !.e = -1, !.id = "x"]            \* an escape starts / continues an identifier
        ELSE IF c = "(" THEN
             (IF t.id = "url" THEN [Push(t, "u(") EXCEPT !.m = "urlstart", !.id = ""]
              ELSE IF t.id # "" THEN [Push([t EXCEPT !.ev = Ev(t, "ForeignFunction")], "(") EXCEPT !.id = ""]
              ELSE Push(t, "("))
        ELSE LET u == [t EXCEPT !.id = ""] IN
        IF c = "/" THEN [u EXCEPT !.sl = TRUE]
        ELSE IF c \in {CDQ, "'"} THEN [u EXCEPT !.m = "str", !.q = c]
        ELSE IF c = "[" THEN Push(u, "[")
        ELSE IF c = "{" THEN (IF u.st = <<>> THEN Push([u EXCEPT !.ev = Ev(u, "BlockOpen")], "{") ELSE Push(u, "{"))
        ELSE IF c = ")" THEN (IF Top(u) \in {"(", "u("} THEN Pop(u) ELSE u)
        ELSE IF c = "]" THEN (IF Top(u) = "[" THEN Pop(u) ELSE u)
        ELSE IF c = "}" THEN (IF u.st = <<>> THEN [u EXCEPT !.ev = Ev(u, "RuleEnd")]
                              ELSE IF Top(u) = "{" THEN Pop(u) ELSE u)
        ELSE IF c = ";" THEN (IF u.st = <<>> THEN [u EXCEPT !.ev = Ev(u, "TopSemicolon")] ELSE u)
        ELSE u

\* the consumer is at the top level of the declaration value: a ';' written now ends exactly this declaration
CssAtTop(s) == s.m = "val" /\ s.st = <<>> /\ s.e # -1
\* verdict when templ appends its ';' after the value
CssEndEvent(s) == IF s.ev # "" THEN s.ev ELSE IF ~CssAtTop(s) THEN "NotAtTopAtEnd" ELSE ""

RECURSIVE CssRun(_, _)
CssRun(s, cs) == IF cs = <<>> THEN s ELSE CssRun(CssStep(s, Head(cs)), Tail(cs))

-----------------------------------------------------------------------------
(* RAWTEXT end detection inside <style>: `</style` (case-insensitive). State = matched prefix, <<"END">> sticky. *)
StyleEndTag == <<"<", "/", "s", "t", "y", "l", "e">>
RawIsPrefix(p) == Len(p) <= Len(StyleEndTag) /\ \A i \in 1..Len(p) : p[i] = StyleEndTag[i]
CssRawStep(q, c) ==
    IF q = <<"END">> THEN q
    ELSE LET n == Append(q, CLower(c)) IN
         IF n = StyleEndTag THEN <<"END">>
         ELSE IF RawIsPrefix(n) THEN n
         ELSE IF c = "<" THEN <<"<">> ELSE <<>>

(* html.EscapeString on CSS symbols; the attribute path applies it twice and the browser decodes once *)
CssHtmlEsc(c) ==
    CASE c = "<" -> <<"&", "l", "t", ";">>
      [] c = ">" -> <<"&", "z", "t", ";">>          \* &gt; ("g" is class z)
      [] c = "&" -> <<"&", "a", "m", "p", ";">>
      [] c = "'" -> <<"&", "#", "0", "0", ";">>      \* &#39;
      [] c = CDQ -> <<"&", "#", "0", "0", ";">>      \* &#34;
      [] OTHER   -> <<c>>
=============================================================================
