\* C19 negative config: the serving layer ends the stream of a client whose browser is still connected: TLC must reject LiveClientStaysRegistered.
CONSTANTS
  Clients = {"c1", "c2"}
  NB = 2
  Design = "done"
  MaxPings = 0
  PingFirst = FALSE
  NoRaces = FALSE
  ServerCuts = TRUE
  Slow = {"c1"}
  EmitEdges = FALSE
SPECIFICATION Spec
VIEW View
INVARIANTS TypeOK
PROPERTIES LiveClientStaysRegistered
CHECK_DEADLOCK FALSE
