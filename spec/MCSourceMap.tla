---------------------------- MODULE MCSourceMap ----------------------------
(* Model-checking instance of SourceMap: texts in front of the expression (0-2 multi-byte runes). *)
EXTENDS SourceMap
PresAll == { <<>> } \cup { <<a>> : a \in {2, 3, 4} } \cup { <<a, b>> : a \in {2, 3, 4}, b \in {2, 3, 4} }
PresSome == { <<>>, <<3>>, <<2, 4>> }
=============================================================================
