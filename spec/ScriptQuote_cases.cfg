\* C03 GEN: static-prefix shapes x position, each becomes a gallery component generated at check time.
CONSTANTS
  EscMode = "any"
  MaxPre = 1
  EmitCases = TRUE
INIT GInit
NEXT GNext
VIEW GView
ACTION_CONSTRAINT GEmit
INVARIANTS ShapesAgree
CHECK_DEADLOCK FALSE
