\* Formatter layout model (FmtLayout.tla) over this family; code as it is (after the repairs).
\* Control-flow family: if / else-if / else, for, switch around text, expressions and elements.
CONSTANTS
  NonTrailerRule = "source"
  ForcedBreaks = "asCoded"
  MaxNodes = 3
  MaxDepth = 3
  Kinds = {"text", "expr", "el", "if", "elif", "else", "for", "switch"}
  InlineNames = {"span"}
  BlockNames = {}
  VoidNames = {}
  AttrChoices <- AttrChoicesNone
  WsChoices = {"", "v"}
  Words = {"w1"}
  Exprs = {"E1", "E3"}
  Conds = {"C1", "C2"}
  Lists = {"L1"}
  EnvSeq <- EnvSeqDef
INIT Init
NEXT Next
VIEW View
INVARIANTS TypeOK Idempotent FmtKeepsTokens FmtKeepsMust EmitFmt
CHECK_DEADLOCK FALSE
