//go:build c18hooks

package main

// Conn half of C18: the harness IS the environment of spec/JsonRpc.tla -- it owns the callers'
// contexts and plays the peer on the other end of an in-memory pipe.  A TLC behaviour (the labels of
// the actions taken) is the script: environment actions (start a call / a notifier, cancel, reply,
// peer notification, peer call) are executed at the hook event that precedes them in the behaviour, by
// the goroutine that is inside that critical section, so their position relative to the conn's own
// steps is the scripted one.  Everything the real conn does is recorded (verif hooks, ordered by the
// global sequence counter) together with the harness's own events and validated afterwards by TLC
// against TraceJsonRpc.tla; hangs, garbage on the wire, leftovers in pending and leaked goroutines are
// observed here directly.

import (
	"bufio"
	"bytes"
	"context"
	"encoding/json"
	"errors"
	"fmt"
	"io"
	"math/rand"
	"os"
	"runtime"
	"sort"
	"strconv"
	"strings"
	"sync"
	"sync/atomic"
	"time"

	"github.com/a-h/templ/lsp/jsonrpc2"

	"verifharness/vhlib"
)

type label struct {
	A string `json:"a"`
	W int    `json:"w"`
}

type script struct {
	Hist     []label `json:"hist"`
	Result   []int   `json:"result"`
	NC       int     `json:"nc"`
	NN       int     `json:"nn"`
	StrayIDs []tid   `json:"strayIds"` // the spec's StrayIdSeq: a "stray" label names its id by 1-based index
	PcallIDs []tid   `json:"pcallIds"` // the spec's PeerCallIdSeq
}

// ---------------------------------------------------------------------------------------------
// in-memory pipe with an unbounded buffer: writes never block, so the harness can act inside hooks

type bufPipe struct {
	mu     sync.Mutex
	cond   *sync.Cond
	buf    []byte
	closed bool
}

func newBufPipe() *bufPipe { p := &bufPipe{}; p.cond = sync.NewCond(&p.mu); return p }
func (p *bufPipe) Write(b []byte) (int, error) {
	p.mu.Lock()
	defer p.mu.Unlock()
	if p.closed {
		return 0, io.ErrClosedPipe
	}
	p.buf = append(p.buf, b...)
	p.cond.Broadcast()
	return len(b), nil
}
func (p *bufPipe) Read(b []byte) (int, error) {
	p.mu.Lock()
	defer p.mu.Unlock()
	for len(p.buf) == 0 && !p.closed {
		p.cond.Wait()
	}
	if len(p.buf) == 0 {
		return 0, io.EOF
	}
	n := copy(b, p.buf)
	p.buf = p.buf[n:]
	return n, nil
}
func (p *bufPipe) Close() error {
	p.mu.Lock()
	p.closed = true
	p.cond.Broadcast()
	p.mu.Unlock()
	return nil
}

type duplex struct{ in, out *bufPipe }

func (d duplex) Read(b []byte) (int, error)  { return d.in.Read(b) }
func (d duplex) Write(b []byte) (int, error) { return d.out.Write(b) }
func (d duplex) Close() error                { d.in.Close(); d.out.Close(); return nil }

// ---------------------------------------------------------------------------------------------

func goid() int64 {
	var buf [64]byte
	n := runtime.Stack(buf[:], false)
	f := strings.Fields(string(buf[:n]))
	if len(f) < 2 {
		return -1
	}
	id, _ := strconv.ParseInt(f[1], 10, 64)
	return id
}

type event struct {
	Seq    int64  `json:"-"`
	E      string `json:"e"`
	W      int    `json:"w"`
	ID     tid    `json:"id"`
	Found  bool   `json:"found"`
	Failed bool   `json:"failed"`
	Pend   []tid  `json:"pend"`
	Res    int    `json:"res"`
	K      string `json:"k"` // reply / ret / pong: the kind of result the response carries ("" otherwise)
	rawID  string
	rawPnd []string
}

type obsStep struct {
	kind    string // reg | wbeg | wend | disp | del
	w       int
	matched atomic.Bool
	batch   []label // environment actions that follow this step in the behaviour
	ran     atomic.Bool
}

const (
	gateWait     = 2 * time.Millisecond   // a write-side hook waits this long for earlier pendingMu steps of the script
	probeWait    = 300 * time.Microsecond // a writer inside writeMu waits this long for a second writer to show up
	settle       = 300 * time.Microsecond // after cancelling a call inside its dispatch, let the caller leave its select
	fallbackTick = 3 * time.Millisecond   // no progress for this long: run the next batch from outside
	hangTimeout  = 8 * time.Second
)

type run struct {
	id      int
	sc      *script
	conn    jsonrpc2.Conn
	toConn  *bufPipe // peer -> conn
	toPeer  *bufPipe // conn -> peer
	ncall   int      // callers incl. the probe
	ctxs    []context.Context
	cancels []context.CancelFunc

	pw        sync.Mutex // serialises the peer's sends (event + bytes)
	mu        sync.Mutex
	roles     map[int64]int // goroutine id -> writer (caller 1.., notifier 11..)
	log       []event
	idOf      map[int]string // caller -> real id (%q form)
	callerOf  map[string]int // real id -> caller
	peerGot   map[int]bool
	deferred  map[int]bool
	replied   map[int]bool
	cancelled map[int]bool
	started   map[int]bool
	returned  map[int]int // caller -> result code
	retErr    map[int]string
	peerErr   []string
	pongs     int
	shift     int          // result kinds: KindAt(shift, marker)
	handled   atomic.Int64 // calls of the peer the handler has answered
	pcallsOut int
	strayQ    map[string]bool // %q forms of the ids of the stray responses the peer has sent
	paramOf   map[int]string  // caller -> params of its request as the peer received them (the call's marker)
	timedOut  []int           // burst: callers the watchdog had to cancel
	hangSig   string          // burst: a goroutine of the conn was found blocked after Close (signature, description)
	hangWhat  string
	// burst mode: callers and notifiers spin on gate and enter the conn together; the peer holds its answers
	// until it has received `hold` requests and then answers in a shuffled order
	gate      *atomic.Bool
	ready     atomic.Int32
	burst     bool
	hold      int
	held      []int
	burstRng  *rand.Rand
	notesIn   int
	nextNote  int
	probePend []string

	initial   []label
	initRan   atomic.Bool
	steps     []*obsStep
	progress  atomic.Int64
	wantWrite atomic.Int64
	inWrite   atomic.Int64
	wg        sync.WaitGroup // callers and notifiers
	unreal    int
}

const (
	resCancel = -1
	resWerr   = -2
	resOther  = -99
	strayTok  = 99 // the spec's STRAY marker
)

var (
	runsMu sync.RWMutex
	runs   = map[jsonrpc2.Conn]*run{}
)

func hook(ev jsonrpc2.VerifEvent) {
	runsMu.RLock()
	r := runs[ev.Conn]
	runsMu.RUnlock()
	if r == nil {
		return
	}
	r.onHook(ev)
}

func (r *run) role() int {
	g := goid()
	r.mu.Lock()
	defer r.mu.Unlock()
	return r.roles[g] // 0: run loop (or a goroutine the harness did not start)
}

func (r *run) onHook(ev jsonrpc2.VerifEvent) {
	who := r.role()
	e := event{Seq: ev.Seq, E: ev.Ev, W: who, ID: tidOfQ(ev.ID), Found: ev.Found, Failed: ev.Failed, rawID: ev.ID, rawPnd: ev.Pending}
	r.mu.Lock()
	switch ev.Ev {
	case "reg":
		r.idOf[who], r.callerOf[ev.ID] = ev.ID, who
		if who == r.ncall {
			r.probePend = append([]string(nil), ev.Pending...)
		}
	case "wbeg":
		if ev.Kind == "call" && who > 0 {
			if _, ok := r.callerOf[ev.ID]; !ok {
				r.idOf[who], r.callerOf[ev.ID] = ev.ID, who
			}
		}
	case "disp":
		e.W = r.callerOf[ev.ID] // 0 when the id is not a call of this conn
		if _, ok := r.callerOf[ev.ID]; !ok && r.strayQ[ev.ID] {
			e.W = strayTok
		}
	}
	r.log = append(r.log, e)
	r.mu.Unlock()

	switch ev.Ev {
	case "wbeg":
		r.wantWrite.Add(-1)
		r.inWrite.Add(1)
	case "wend":
		r.inWrite.Add(-1)
	}
	if len(r.steps) == 0 {
		return
	}
	var st *obsStep
	idx := -1
	for i, s := range r.steps {
		if s.kind == ev.Ev && s.w == e.W && !s.matched.Load() {
			if s.matched.CompareAndSwap(false, true) {
				st, idx = s, i
				break
			}
		}
	}
	if st == nil {
		return
	}
	r.progress.Add(1)
	if ev.Ev == "wbeg" || ev.Ev == "wend" {
		// holding writeMu: steps of the script that come first and need only pendingMu may still catch up
		deadline := time.Now().Add(gateWait)
		for time.Now().Before(deadline) {
			ok := true
			for _, s := range r.steps[:idx] {
				if (s.kind == "reg" || s.kind == "disp" || s.kind == "del") && !s.matched.Load() {
					ok = false
					break
				}
			}
			if ok {
				break
			}
			runtime.Gosched()
		}
	}
	if ev.Ev == "wbeg" && r.wantWrite.Load() > 0 {
		// somebody else wants to write: with writeMu it cannot get here while we are inside
		deadline := time.Now().Add(probeWait)
		for r.inWrite.Load() < 2 && time.Now().Before(deadline) {
			runtime.Gosched()
		}
	}
	cancelledHere := r.runBatch(st)
	if ev.Ev == "disp" && cancelledHere[e.W] {
		time.Sleep(settle)
	}
}

func (r *run) runBatch(st *obsStep) map[int]bool {
	if !st.ran.CompareAndSwap(false, true) {
		return nil
	}
	c := r.exec(st.batch)
	r.progress.Add(1)
	return c
}

func (r *run) exec(batch []label) map[int]bool {
	cancelled := map[int]bool{}
	for _, l := range batch {
		switch l.A {
		case "start":
			r.startCaller(l.W)
		case "startn":
			r.startNotifier(l.W)
		case "cancel":
			r.cancel(l.W)
			cancelled[l.W] = true
		case "reply":
			r.reply(l.W)
		case "pnotify":
			r.peerNotify()
		case "pcall":
			r.peerCall(l.W)
		case "stray":
			r.stray(l.W)
		}
	}
	return cancelled
}

func (r *run) add(e event) {
	r.mu.Lock()
	r.log = append(r.log, e)
	r.mu.Unlock()
}

func (r *run) startCaller(c int) {
	r.mu.Lock()
	if r.started[c] {
		r.mu.Unlock()
		return
	}
	r.started[c] = true
	r.mu.Unlock()
	r.wantWrite.Add(1)
	r.wg.Add(1)
	go func() {
		defer r.wg.Done()
		g := goid()
		r.mu.Lock()
		r.roles[g] = c
		r.mu.Unlock()
		r.waitGate()
		var got json.RawMessage
		_, err := r.conn.Call(r.ctxs[c], "c"+strconv.Itoa(c), "p"+strconv.Itoa(c), &got)
		seq := jsonrpc2.VerifSeq()
		res, txt, kind := resOther, "", ""
		var je *jsonrpc2.Error
		switch {
		case errors.Is(err, context.Canceled) && strings.Contains(err.Error(), "write to stream"):
			res, txt = resWerr, err.Error()
		case errors.Is(err, context.Canceled):
			res, txt = resCancel, err.Error()
		case err == nil || errors.As(err, &je):
			// a response (successful or an error response): which kind of result, echoing whose marker?
			kind, res, txt = readResponse(got, err)
			if res == -1 { // null / true / false carry no marker: the request the spec gives that kind to
				res = resOther
				for m := 1; m <= r.ncall; m++ {
					if kindAt(r.shift, m) == kind {
						res = m
					}
				}
			}
		default:
			txt = err.Error()
		}
		r.mu.Lock()
		r.log = append(r.log, event{Seq: seq, E: "ret", W: c, Res: res, K: kind})
		r.returned[c], r.retErr[c] = res, txt
		r.mu.Unlock()
	}()
}

func (r *run) startNotifier(n int) {
	r.wantWrite.Add(1)
	r.wg.Add(1)
	go func() {
		defer r.wg.Done()
		g := goid()
		r.mu.Lock()
		r.roles[g] = n
		r.mu.Unlock()
		r.waitGate()
		if err := r.conn.Notify(context.Background(), "note", n); err != nil {
			r.mu.Lock()
			r.peerErr = append(r.peerErr, "Notify failed: "+err.Error())
			r.mu.Unlock()
		}
	}()
}

// waitGate: in a burst every caller and notifier spins here until all of them are ready, so that they enter
// Call / Notify within nanoseconds of each other on different CPUs.
func (r *run) waitGate() {
	if r.gate == nil {
		return
	}
	r.ready.Add(1)
	for !r.gate.Load() {
	}
}

func (r *run) cancel(c int) {
	r.mu.Lock()
	r.cancelled[c] = true
	r.log = append(r.log, event{Seq: jsonrpc2.VerifSeq(), E: "cancel", W: c})
	r.mu.Unlock()
	r.cancels[c]()
}

// reply: the peer answers call c now if it has received it, otherwise as soon as it has
func (r *run) reply(c int) {
	r.mu.Lock()
	if r.replied[c] {
		r.mu.Unlock()
		return
	}
	if !r.peerGot[c] {
		r.deferred[c] = true
		r.mu.Unlock()
		return
	}
	r.replied[c] = true
	id := tidOfQ(r.idOf[c])
	// the peer echoes the marker of the request it answers: params "p<k>" -> result "r<k>"
	tok := "r" + strings.TrimPrefix(strings.Trim(r.paramOf[c], `"`), "p")
	r.mu.Unlock()
	marker, err := strconv.Atoi(tok[1:])
	if err != nil {
		marker = c
	}
	kind := kindAt(r.shift, marker)
	r.peerSendK("reply", c, id, kind, fmt.Sprintf(`{"jsonrpc":"2.0","id":%s,%s}`, id.wire(), responseMembers(kind, tok)))
}

// stray: the peer sends a response nobody asked for, with the k-th id of the spec's StrayIdSeq -- e.g. the
// STRING "1" while the call with the NUMBER 1 is pending.
func (r *run) stray(k int) {
	if k < 1 || k > len(r.sc.StrayIDs) {
		vhlib.Fatal("case %d: stray id index %d outside the vocabulary", r.id, k)
	}
	id := r.sc.StrayIDs[k-1]
	r.mu.Lock()
	r.strayQ[id.q()] = true
	r.mu.Unlock()
	r.peerSend("stray", strayTok, id, fmt.Sprintf(`{"jsonrpc":"2.0","id":%s,"result":%q}`, id.wire(), "r"+strconv.Itoa(strayTok)))
}

// peerSend logs the event and puts the frame on the wire in one step: the order of the peer's events in
// the trace is the order of its messages in the byte stream.
func (r *run) peerSend(ev string, w int, id tid, body string) { r.peerSendK(ev, w, id, "", body) }

func (r *run) peerSendK(ev string, w int, id tid, kind, body string) {
	r.pw.Lock()
	defer r.pw.Unlock()
	r.add(event{Seq: jsonrpc2.VerifSeq(), E: ev, W: w, ID: id, K: kind})
	r.toConn.Write([]byte(fmt.Sprintf("Content-Length: %d\r\n\r\n%s", len(body), body)))
}

func (r *run) peerNotify() {
	r.peerSend("pnotify", 0, noTid, `{"jsonrpc":"2.0","method":"peer/note","params":"é"}`)
}

// peerCall: the peer calls the conn with the k-th id of the spec's PeerCallIdSeq (numbers equal to the conn's
// own call ids, numeric-looking strings, ordinary strings).
func (r *run) peerCall(k int) {
	if k < 1 || k > len(r.sc.PcallIDs) {
		vhlib.Fatal("case %d: peer call id index %d outside the vocabulary", r.id, k)
	}
	id := r.sc.PcallIDs[k-1]
	r.wantWrite.Add(1)
	r.mu.Lock()
	r.pcallsOut++
	n := r.pcallsOut
	r.mu.Unlock()
	r.peerSend("pcall", 0, id, fmt.Sprintf(`{"jsonrpc":"2.0","id":%s,"method":"peer/ping","params":%d}`, id.wire(), n))
}

// peerLoop reads what the conn writes with an independent minimal frame parser.
func (r *run) peerLoop(done chan<- struct{}) {
	defer close(done)
	br := bufio.NewReader(r.toPeer)
	fail := func(s string) {
		r.mu.Lock()
		r.peerErr = append(r.peerErr, s)
		r.mu.Unlock()
	}
	for {
		n := -1
		for {
			line, err := br.ReadString('\n')
			if err != nil {
				if line != "" {
					fail(fmt.Sprintf("stream ended inside a header line %q", line))
				}
				return
			}
			line = strings.TrimRight(line, "\r\n")
			if line == "" {
				break
			}
			if v, ok := strings.CutPrefix(line, "Content-Length: "); ok {
				k, err := strconv.Atoi(v)
				if err != nil {
					fail(fmt.Sprintf("bad Content-Length line %q", line))
					return
				}
				n = k
			} else {
				fail(fmt.Sprintf("not a header line: %q", line))
				return
			}
		}
		if n < 0 {
			fail("frame without Content-Length")
			return
		}
		body := make([]byte, n)
		if _, err := io.ReadFull(br, body); err != nil {
			fail("stream ended inside a body")
			return
		}
		var m struct {
			ID     *json.RawMessage `json:"id"`
			Method string           `json:"method"`
			Params json.RawMessage  `json:"params"`
			Result json.RawMessage  `json:"result"`
			Error  json.RawMessage  `json:"error"`
		}
		if err := json.Unmarshal(body, &m); err != nil {
			fail(fmt.Sprintf("frame body is not one JSON value: %q", body))
			return
		}
		switch {
		case m.Method != "" && m.ID != nil: // a call of ours
			c, err := strconv.Atoi(strings.TrimPrefix(m.Method, "c"))
			if err != nil || c < 1 || c > r.ncall {
				fail(fmt.Sprintf("unexpected call %q", body))
				continue
			}
			r.mu.Lock()
			r.peerGot[c] = true
			r.paramOf[c] = string(m.Params)
			q := tidOfRaw(*m.ID).q()
			// the id the peer answers with is the id it found in the request; the trace spec compares it
			// with the id the call registered (reply: e.id = MyId(c))
			r.idOf[c] = q
			if _, ok := r.callerOf[q]; !ok {
				r.callerOf[q] = c
			}
			d := r.deferred[c]
			var release []int
			if r.burst {
				r.held = append(r.held, c)
				if len(r.held) >= r.hold {
					release = r.held
					r.held, r.hold = nil, 1 // the rest is answered on arrival
					r.burstRng.Shuffle(len(release), func(i, j int) { release[i], release[j] = release[j], release[i] })
				}
			}
			r.mu.Unlock()
			if d {
				r.reply(c)
			}
			for _, x := range release {
				r.reply(x)
			}
		case m.Method != "":
			r.mu.Lock()
			r.notesIn++
			r.mu.Unlock()
		default: // answer to a call of the peer
			// which id it carries (type and text) is recorded as a pong event and judged by the trace spec
			r.mu.Lock()
			if m.ID == nil {
				r.peerErr = append(r.peerErr, fmt.Sprintf("unexpected response %q", body))
			} else {
				// which kind of result it carries is judged by the trace spec too (the handler's null result must
				// be on the wire as "result":null)
				r.pongs++
				r.log = append(r.log, event{Seq: jsonrpc2.VerifSeq(), E: "pong", W: 0, ID: tidOfRaw(*m.ID),
					K: wireKind(m.Result, m.Error, bytes.Contains(body, []byte(`"result"`)))})
			}
			r.mu.Unlock()
		}
	}
}

// ---------------------------------------------------------------------------------------------

func compile(sc *script) (initial []label, steps []*obsStep) {
	nc := sc.NC
	cur := &initial
	push := func(l label) { *cur = append(*cur, l) }
	obs := func(kind string, w int) {
		s := &obsStep{kind: kind, w: w}
		steps = append(steps, s)
		cur = &s.batch
	}
	for _, l := range sc.Hist {
		switch l.A {
		case "reg":
			push(label{"start", l.W})
			obs("reg", l.W)
		case "acq":
			if l.W > nc {
				push(label{"startn", l.W})
			}
			obs("wbeg", l.W)
		case "rel":
			obs("wend", l.W)
		case "lookup":
			obs("disp", l.W)
		case "del":
			obs("del", l.W)
		case "cancel", "reply", "pnotify", "pcall", "stray":
			push(l)
		}
	}
	return
}

type connCase struct {
	Script  []string       `json:"script"`
	Events  []string       `json:"events"`
	Results map[string]any `json:"results"`
	Detail  string         `json:"detail,omitempty"`
}

func (r *run) describeCase(detail string) connCase {
	var s []string
	for _, l := range r.sc.Hist {
		switch l.A {
		case "whdr", "wbody", "take", "send", "recv", "cancelled", "refuse":
		default:
			s = append(s, fmt.Sprintf("%s(%d)", l.A, l.W))
		}
	}
	r.mu.Lock()
	defer r.mu.Unlock()
	evs := append([]event(nil), r.log...)
	sort.Slice(evs, func(i, j int) bool { return evs[i].Seq < evs[j].Seq })
	var es []string
	for _, e := range evs {
		x := fmt.Sprintf("%s(%d)", e.E, e.W)
		switch e.E {
		case "reg", "del":
			x += fmt.Sprintf(" id=%s pending=%v", e.rawID, e.rawPnd)
		case "disp":
			x += fmt.Sprintf(" id=%s found=%v pending=%v", e.rawID, e.Found, e.rawPnd)
		case "wend":
			if e.Failed {
				x += " failed"
			}
		case "ret":
			x += fmt.Sprintf(" res=%d", e.Res)
		case "reply", "stray", "pcall", "pong":
			x += " id=" + e.ID.q()
		case "wbeg":
			if e.ID.T != "none" {
				x += " id=" + e.ID.q()
			}
		}
		es = append(es, x)
	}
	res := map[string]any{}
	for c := 1; c <= r.ncall; c++ {
		if !r.started[c] {
			continue
		}
		v, ok := r.returned[c]
		res[fmt.Sprintf("c%d", c)] = map[string]any{"returned": ok, "res": v, "text": r.retErr[c], "replied": r.replied[c], "cancelled": r.cancelled[c]}
	}
	return connCase{Script: s, Events: es, Results: res, Detail: detail}
}

type caseResult struct {
	trace    []byte // one ndjson line for TraceJsonRpc, nil if the case failed here
	failed   bool
	diverged bool
	unreal   int
	steps    int
	events   int
}

// waitCallers waits until the given callers have returned.
func (r *run) waitCallers(cs []int, d time.Duration) bool {
	deadline := time.Now().Add(d)
	for {
		r.mu.Lock()
		all := true
		for _, c := range cs {
			if _, ok := r.returned[c]; !ok {
				all = false
			}
		}
		r.mu.Unlock()
		if all {
			return true
		}
		if time.Now().After(deadline) {
			return false
		}
		time.Sleep(50 * time.Microsecond)
	}
}

// diagnose a hang from the goroutine dump: only a goroutine of the conn blocked where the property says
// it must not be is a violation; anything else is a harness problem.
func (r *run) hang(what string, cs []int) (sig, msg string) {
	select {
	case <-r.conn.Done():
		// nobody closed the conn: run gave up on a message of the peer (stream.Read / DecodeMessage returned an
		// error), the stream is closed and the calls in flight never get their responses
		if err := r.conn.Err(); err != nil {
			last := ""
			r.mu.Lock()
			for _, e := range r.log {
				if e.E == "reply" || e.E == "stray" || e.E == "pcall" || e.E == "pnotify" {
					last = fmt.Sprintf("%s(%d) kind=%s", e.E, e.W, e.K)
				}
			}
			r.mu.Unlock()
			return "JsonRpc.ReaderAlive", fmt.Sprintf("%s: the run loop stopped with %q on a well-formed message of the peer (last sent: %s); calls %v never return", what, err.Error(), last, cs)
		}
	default:
	}
	r.mu.Lock()
	peerErr := append([]string(nil), r.peerErr...)
	r.mu.Unlock()
	if len(peerErr) > 0 {
		// the peer stopped because the byte stream from the conn is not a sequence of frames
		return "JsonRpc.FramesNeverInterleave", what + ": the peer could not parse what the conn wrote: " + strings.Join(peerErr, "; ")
	}
	d := goroutineDump()
	var blocks []string
	for _, g := range strings.Split(d, "\n\n") {
		if strings.Contains(g, "jsonrpc2.(*conn).") {
			blocks = append(blocks, g)
		}
	}
	for _, g := range blocks {
		if strings.Contains(g, "[chan send") && strings.Contains(g, "jsonrpc2.(*conn).run") {
			return "JsonRpc.ReaderNeverBlocks", what + ": the run loop is blocked sending on a reply channel:\n" + firstLines(g, 8)
		}
	}
	for _, g := range blocks {
		if strings.Contains(g, "jsonrpc2.(*conn).Call") && strings.Contains(g, "[select") {
			return "JsonRpc.CallsReturn", fmt.Sprintf("%s: Call (callers %v) does not return although its response was sent or its context was cancelled:\n%s", what, cs, firstLines(g, 8))
		}
	}
	for _, g := range blocks {
		if strings.Contains(g, "sync.(*Mutex).Lock") {
			return "JsonRpc.CallsReturn", what + ": a goroutine of the conn is stuck on a mutex:\n" + firstLines(g, 10)
		}
	}
	vhlib.Fatal("case %d: %s, but no goroutine of the conn is blocked in Call/run:\n%s", r.id, what, d)
	return
}

func firstLines(s string, n int) string {
	l := strings.Split(s, "\n")
	if len(l) > n {
		l = l[:n]
	}
	return strings.Join(l, "\n")
}

// ---------------------------------------------------------------------------------------------
// result kinds (JsonRpc.tla: ResKindSeq, KindAt): the response to the request with marker m carries a result of
// kind KindAt(shift, m); the handler answers the j-th call of the peer with kind KindAt(shift, j).

var resKindSeq = []string{"null", "object", "errdata", "array", "number", "true", "false", "string", "error"}

func kindAt(shift, m int) string {
	if m == strayTok || m < 1 {
		return "string"
	}
	return resKindSeq[(m-1+shift)%len(resKindSeq)]
}

// responseBody: the JSON members (after jsonrpc and id) of a response of the given kind echoing marker tok.
func responseMembers(kind, tok string) string {
	n := strings.TrimPrefix(tok, "r")
	switch kind {
	case "null":
		return `"result":null`
	case "object":
		return fmt.Sprintf(`"result":{"m":%q,"x":[1,{"y":null}]}`, tok)
	case "array":
		return fmt.Sprintf(`"result":[%q,null,2]`, tok)
	case "number":
		return `"result":` + n
	case "true", "false":
		return `"result":` + kind
	case "error":
		return fmt.Sprintf(`"error":{"code":-32602,"message":%q}`, tok)
	case "errdata":
		return fmt.Sprintf(`"error":{"code":-32603,"message":"with data","data":{"m":%q}}`, tok)
	}
	return fmt.Sprintf(`"result":%q`, tok)
}

// readResponse: kind and marker of what Call returned (raw result, or the error of an error response).
// marker -1: the kind cannot carry one (null, true, false).
func readResponse(raw json.RawMessage, err error) (kind string, marker int, text string) {
	mk := func(tok string) int {
		if k, e := strconv.Atoi(strings.TrimPrefix(tok, "r")); e == nil && strings.HasPrefix(tok, "r") {
			return k
		}
		return resOther
	}
	if err != nil {
		var je *jsonrpc2.Error
		if !errors.As(err, &je) {
			return "other", resOther, err.Error()
		}
		if je.Data != nil {
			var d struct {
				M string `json:"m"`
			}
			_ = json.Unmarshal(*je.Data, &d)
			return "errdata", mk(d.M), je.Message + " data=" + string(*je.Data)
		}
		return "error", mk(je.Message), je.Message
	}
	t := strings.TrimSpace(string(raw))
	switch {
	case t == "" || t == "null":
		return "null", -1, t
	case t == "true" || t == "false":
		return t, -1, t
	case t[0] == '{':
		var d struct {
			M string `json:"m"`
		}
		_ = json.Unmarshal(raw, &d)
		return "object", mk(d.M), t
	case t[0] == '[':
		var a []any
		_ = json.Unmarshal(raw, &a)
		if len(a) > 0 {
			if s0, ok := a[0].(string); ok {
				return "array", mk(s0), t
			}
		}
		return "array", resOther, t
	case t[0] == '"':
		var s0 string
		_ = json.Unmarshal(raw, &s0)
		return "string", mk(s0), t
	}
	if k, e := strconv.Atoi(t); e == nil {
		return "number", k, t
	}
	return "number", resOther, t
}

// handlerReply answers the j-th call of the peer with a result of kind KindAt(shift, j): reply(ctx, nil, nil) for null.
func (r *run) handlerReply(ctx context.Context, reply jsonrpc2.Replier) error {
	j := int(r.handled.Add(1))
	switch kindAt(r.shift, j) {
	case "null":
		return reply(ctx, nil, nil)
	case "object":
		return reply(ctx, map[string]any{"m": "pong"}, nil)
	case "array":
		return reply(ctx, []any{"pong", nil}, nil)
	case "number":
		return reply(ctx, 7, nil)
	case "true":
		return reply(ctx, true, nil)
	case "false":
		return reply(ctx, false, nil)
	case "error":
		return reply(ctx, nil, jsonrpc2.NewError(jsonrpc2.InvalidParams, "pong"))
	case "errdata":
		d := json.RawMessage(`{"m":"pong"}`)
		return reply(ctx, nil, &jsonrpc2.Error{Code: jsonrpc2.InternalError, Message: "pong", Data: &d})
	}
	return reply(ctx, "pong", nil)
}

// wireKind: the kind of result / error a response frame carries, as the peer's independent parser sees it.
func wireKind(result, errm json.RawMessage, hasResult bool) string {
	if len(errm) > 0 && string(errm) != "null" {
		var e struct {
			Data *json.RawMessage `json:"data"`
		}
		_ = json.Unmarshal(errm, &e)
		if e.Data != nil {
			return "errdata"
		}
		return "error"
	}
	if !hasResult {
		return "absent"
	}
	k, _, _ := readResponse(result, nil)
	return k
}

func newRun(id int, sc *script, ncall int) *run {
	r := &run{id: id, sc: sc, ncall: ncall, shift: id % len(resKindSeq), toConn: newBufPipe(), toPeer: newBufPipe(),
		roles: map[int64]int{}, idOf: map[int]string{}, callerOf: map[string]int{}, peerGot: map[int]bool{}, deferred: map[int]bool{},
		replied: map[int]bool{}, cancelled: map[int]bool{}, started: map[int]bool{}, returned: map[int]int{}, retErr: map[int]string{},
		strayQ: map[string]bool{}, paramOf: map[int]string{}}
	r.ctxs = make([]context.Context, ncall+1)
	r.cancels = make([]context.CancelFunc, ncall+1)
	for c := 1; c <= ncall; c++ {
		r.ctxs[c], r.cancels[c] = context.WithCancel(context.Background())
	}
	return r
}

// traceNC is NC of spec/JsonRpc_trace.cfg: the callers of a script plus the probe, or the callers of a burst.
const traceNC = 4

// traceLine renders the recorded execution as one case for TraceJsonRpc.tla: the events in the order of the
// global sequence counter, real ids as typed values; regnum[c] is the number in c's reg event (the id
// allocation itself has no hook), lazy the callers that were cancelled.
func (r *run) traceLine(eager bool) ([]byte, int) {
	r.mu.Lock()
	evs := append([]event(nil), r.log...)
	r.mu.Unlock()
	sort.SliceStable(evs, func(i, j int) bool { return evs[i].Seq < evs[j].Seq })
	nnote := 0
	noteOf := map[int]int{}
	regnum := make([]int, traceNC)
	lazy := []int{}
	for i := range evs {
		e := &evs[i]
		e.Pend = []tid{}
		for _, p := range e.rawPnd {
			e.Pend = append(e.Pend, tidOfQ(p))
		}
		// notifiers are interchangeable: number their writes in the order they happen
		if e.W > 10 && (e.E == "wbeg" || e.E == "wend") {
			if _, ok := noteOf[e.W]; !ok {
				nnote++
				noteOf[e.W] = 10 + nnote
			}
			e.W = noteOf[e.W]
		}
		if e.E == "reg" && e.W >= 1 && e.W <= traceNC && e.ID.T == "num" && e.ID.N != noNum {
			regnum[e.W-1] = e.ID.N
		}
		if e.E == "cancel" {
			seen := false
			for _, c := range lazy {
				seen = seen || c == e.W
			}
			if !seen {
				lazy = append(lazy, e.W)
			}
		}
	}
	timedOut := append([]int{}, r.timedOut...)
	line, _ := json.Marshal(map[string]any{"id": r.id, "shift": r.shift, "eager": eager, "regnum": regnum, "lazy": lazy, "ev": evs, "timedout": timedOut,
		"hang": map[string]string{"sig": r.hangSig, "what": r.hangWhat}})
	return line, len(evs)
}

func runCase(id int, sc *script) (cr caseResult) {
	ncall := sc.NC + 1 // the last caller is the probe
	r := newRun(id, sc, ncall)
	r.initial, r.steps = compile(sc)
	cr.steps = len(r.steps)
	r.conn = jsonrpc2.NewConn(jsonrpc2.NewStream(duplex{in: r.toConn, out: r.toPeer}))
	runsMu.Lock()
	runs[r.conn] = r
	runsMu.Unlock()
	defer func() {
		runsMu.Lock()
		delete(runs, r.conn)
		runsMu.Unlock()
		for c := 1; c <= ncall; c++ {
			r.cancels[c]()
		}
	}()
	handler := func(ctx context.Context, reply jsonrpc2.Replier, req jsonrpc2.Request) error {
		if _, ok := req.(*jsonrpc2.Call); ok {
			return r.handlerReply(ctx, reply)
		}
		return nil
	}
	r.conn.Go(context.Background(), handler)
	peerDone := make(chan struct{})
	go r.peerLoop(peerDone)

	fail := func(sig, what string) caseResult {
		vhlib.Fail(sig, what, r.describeCase(what))
		r.conn.Close()
		cr.failed = true
		return cr
	}

	// run the script: the initial batch from here, the others inside the hooks; from here only when stuck
	r.exec(r.initial)
	last := r.progress.Load()
	for {
		pendingBatch := -1
		for i, s := range r.steps {
			if !s.ran.Load() {
				pendingBatch = i
				break
			}
		}
		if pendingBatch < 0 {
			break
		}
		time.Sleep(fallbackTick)
		if p := r.progress.Load(); p != last {
			last = p
			continue
		}
		// no hook event for a while: the scripted order was not realised here; go on from outside
		cr.unreal++
		r.runBatch(r.steps[pendingBatch])
		last = r.progress.Load()
	}

	// quiescence: every call that was answered or cancelled returns
	var due, rest []int
	r.mu.Lock()
	for c := 1; c <= sc.NC; c++ {
		if !r.started[c] {
			continue
		}
		if r.replied[c] || r.cancelled[c] {
			due = append(due, c)
		} else {
			rest = append(rest, c)
		}
	}
	r.mu.Unlock()
	if !r.waitCallers(due, hangTimeout) {
		sig, msg := r.hang("after the script", due)
		return fail(sig, msg)
	}
	for _, c := range rest { // never answered: end them by cancellation
		r.cancel(c)
	}
	if !r.waitCallers(rest, hangTimeout) {
		sig, msg := r.hang("after cancelling the unanswered calls", rest)
		return fail(sig, msg)
	}
	// probe call: the run loop still dispatches, and pending holds nothing but the probe
	r.mu.Lock()
	r.deferred[ncall] = true
	r.mu.Unlock()
	r.startCaller(ncall)
	if !r.waitCallers([]int{ncall}, hangTimeout) {
		sig, msg := r.hang("probe call after quiescence", []int{ncall})
		return fail(sig, msg)
	}
	done := make(chan struct{})
	go func() { r.wg.Wait(); close(done) }()
	select {
	case <-done:
	case <-time.After(hangTimeout):
		sig, msg := r.hang("notifiers did not finish", nil)
		return fail(sig, msg)
	}
	// answers to the peer's calls
	deadline := time.Now().Add(hangTimeout)
	for {
		r.mu.Lock()
		ok := r.pongs == r.pcallsOut
		r.mu.Unlock()
		if ok {
			break
		}
		if time.Now().After(deadline) {
			sig, msg := r.hang("the peer's call was not answered", nil)
			return fail(sig, msg)
		}
		time.Sleep(50 * time.Microsecond)
	}
	r.conn.Close()
	select {
	case <-r.conn.Done():
	case <-time.After(hangTimeout):
		vhlib.Fatal("case %d: conn.Done() not closed after Close", id)
	}
	<-peerDone

	r.mu.Lock()
	peerErr := append([]string(nil), r.peerErr...)
	probePend := r.probePend
	probeID := r.idOf[ncall]
	r.mu.Unlock()
	if len(peerErr) > 0 {
		return fail("JsonRpc.FramesNeverInterleave", "the peer could not parse what the conn wrote: "+strings.Join(peerErr, "; "))
	}
	if len(probePend) != 1 || probePend[0] != probeID {
		return fail("JsonRpc.PendingEmptyAtQuiescence", fmt.Sprintf("after all calls returned, pending holds %v when the probe call %s registers", probePend, probeID))
	}

	// the trace for TLC
	cr.trace, cr.events = r.traceLine(false)
	for c := 1; c <= sc.NC; c++ {
		if v, ok := r.returned[c]; ok && c-1 < len(sc.Result) && sc.Result[c-1] != 0 && sc.Result[c-1] != v {
			cr.diverged = true // the other outcome of a race the spec allows; the trace decides
		}
	}
	return cr
}

// runBurst: traceNC callers and two notifiers enter one fresh conn at the same instant (spin barrier, one CPU
// each); every request carries its caller's marker and the peer echoes it, holding its answers until it has
// `hold` requests and then answering in a shuffled order.  Nothing is steered: the schedule is whatever the
// real goroutines do, and the recorded execution is validated by TLC (eager mode of TraceJsonRpc.tla).  The
// harness itself only watches for calls that do not return.
const burstWatchdog = 3 * time.Second

func runBurst(id int, rng *rand.Rand) (cr caseResult) {
	const nnote = 2
	sc := &script{NC: traceNC, NN: nnote}
	r := newRun(id, sc, traceNC)
	r.burst, r.hold, r.burstRng = true, 1+rng.Intn(traceNC), rand.New(rand.NewSource(rng.Int63()))
	r.gate = &atomic.Bool{}
	r.conn = jsonrpc2.NewConn(jsonrpc2.NewStream(duplex{in: r.toConn, out: r.toPeer}))
	runsMu.Lock()
	runs[r.conn] = r
	runsMu.Unlock()
	defer func() {
		runsMu.Lock()
		delete(runs, r.conn)
		runsMu.Unlock()
		for c := 1; c <= traceNC; c++ {
			r.cancels[c]()
		}
	}()
	r.conn.Go(context.Background(), func(ctx context.Context, reply jsonrpc2.Replier, req jsonrpc2.Request) error { return nil })
	peerDone := make(chan struct{})
	go r.peerLoop(peerDone)
	fail := func(sig, what string) caseResult {
		vhlib.Fail(sig, what, r.describeCase(what))
		r.conn.Close()
		cr.failed = true
		return cr
	}

	// callers and notifiers in a shuffled start order, released together
	who := []int{}
	for c := 1; c <= traceNC; c++ {
		who = append(who, c)
	}
	for n := 1; n <= nnote; n++ {
		who = append(who, 10+n)
	}
	rng.Shuffle(len(who), func(i, j int) { who[i], who[j] = who[j], who[i] })
	for _, w := range who {
		if w > 10 {
			r.startNotifier(w)
		} else {
			r.startCaller(w)
		}
	}
	for int(r.ready.Load()) < len(who) {
		runtime.Gosched()
	}
	r.gate.Store(true)

	all := who[:0:0]
	for c := 1; c <= traceNC; c++ {
		all = append(all, c)
	}
	if !r.waitCallers(all, burstWatchdog) {
		// every request was answered: a call that is still waiting is cancelled by the watchdog and reported
		r.mu.Lock()
		var late []int
		for _, c := range all {
			if _, ok := r.returned[c]; !ok {
				late = append(late, c)
			}
		}
		r.timedOut = late
		r.mu.Unlock()
		for _, c := range late {
			r.cancel(c)
		}
		if !r.waitCallers(all, hangTimeout) {
			sig, msg := r.hang("burst: calls cancelled by the watchdog", late)
			return fail(sig, msg)
		}
		cr.unreal = len(late)
	}
	done := make(chan struct{})
	go func() { r.wg.Wait(); close(done) }()
	select {
	case <-done:
	case <-time.After(hangTimeout):
		sig, msg := r.hang("burst: notifiers did not finish", nil)
		return fail(sig, msg)
	}
	r.conn.Close()
	select {
	case <-r.conn.Done():
	case <-time.After(hangTimeout):
		// the run loop did not see the closed stream: it is blocked somewhere (hang names where, or stops the
		// harness if no goroutine of the conn is blocked); the recorded execution still goes to TLC
		// (the hang is reported by the check after TLC has judged the trace, so that the root cause comes first)
		sig, msg := r.hang("burst: the run loop did not stop after Close", nil)
		r.hangSig, r.hangWhat = sig, msg
		cr.failed = true
		cr.trace, cr.events = r.traceLine(true)
		return cr
	}
	<-peerDone
	r.mu.Lock()
	peerErr := append([]string(nil), r.peerErr...)
	r.mu.Unlock()
	if len(peerErr) > 0 {
		return fail("JsonRpc.FramesNeverInterleave", "the peer could not parse what the conn wrote: "+strings.Join(peerErr, "; "))
	}
	cr.trace, cr.events = r.traceLine(true)
	return cr
}

func connMain(args []string) {
	if len(args) < 5 {
		vhlib.Fatal("usage: c18 conn <hist.ndjson> <seed> <trace-out> <workers> <bursts>")
	}
	nbursts, _ := strconv.Atoi(args[4])
	if runtime.GOMAXPROCS(0) < 2*traceNC {
		runtime.GOMAXPROCS(2 * traceNC) // the burst callers spin: one thread each, even on a small machine
	}
	seed, _ := strconv.ParseInt(args[1], 10, 64)
	workers, _ := strconv.Atoi(args[3])
	if workers < 1 {
		workers = 1
	}
	rng := rand.New(rand.NewSource(seed))
	var scripts []*script
	seen := map[string]bool{}
	err := vhlib.Each(args[0], func(line []byte) error {
		if seen[string(line)] {
			return nil
		}
		seen[string(line)] = true
		var s script
		if err := json.Unmarshal(line, &s); err != nil {
			return err
		}
		if s.NC+1 != traceNC {
			return fmt.Errorf("script with %d callers: the trace configuration expects %d plus the probe", s.NC, traceNC-1)
		}
		scripts = append(scripts, &s)
		return nil
	})
	if err != nil {
		vhlib.Fatal("%v", err)
	}
	jsonrpc2.SetVerifHook(hook)
	out, err := os.Create(args[2])
	if err != nil {
		vhlib.Fatal("%v", err)
	}
	defer out.Close()
	w := bufio.NewWriter(out)
	var mu sync.Mutex
	var cases, fails, diverged, unreal, steps, events, traces int
	var aborted atomic.Bool
	jobs := make(chan int)
	var wg sync.WaitGroup
	for k := 0; k < workers; k++ {
		wg.Add(1)
		go func() {
			defer wg.Done()
			for i := range jobs {
				if aborted.Load() {
					continue
				}
				cr := runCase(i+1, scripts[i])
				mu.Lock()
				cases++
				steps += cr.steps
				events += cr.events
				unreal += cr.unreal
				if cr.diverged {
					diverged++
				}
				if cr.failed {
					fails++
					if fails >= 3 {
						aborted.Store(true)
					}
				} else {
					traces++
					w.Write(cr.trace)
					w.WriteByte('\n')
				}
				mu.Unlock()
			}
		}()
	}
	for i := range scripts {
		jobs <- i
	}
	close(jobs)
	wg.Wait()
	// bursts: one at a time, so that every spinning caller has a CPU of its own
	var bursts, burstEvents, burstTimeouts int
	for b := 0; b < nbursts && fails == 0 && burstTimeouts < 3; b++ {
		cr := runBurst(100001+b, rng)
		bursts++
		if cr.failed {
			fails++
			if cr.trace != nil {
				w.Write(cr.trace)
				w.WriteByte('\n')
			}
			break
		}
		if cr.unreal > 0 {
			burstTimeouts++
		}
		burstEvents += cr.events
		w.Write(cr.trace)
		w.WriteByte('\n')
	}
	w.Flush()
	jsonrpc2.SetVerifHook(nil)
	// goroutine leftovers: nothing of the conn may survive its Close
	leak := ""
	for try := 0; try < 200; try++ {
		leak = ""
		for _, g := range strings.Split(goroutineDump(), "\n\n") {
			if strings.Contains(g, "lsp/jsonrpc2.") {
				leak = g
				break
			}
		}
		if leak == "" || fails > 0 {
			break
		}
		time.Sleep(5 * time.Millisecond)
	}
	if leak != "" && fails == 0 {
		fails++
		vhlib.Fail("JsonRpc.GoroutineLeak", "a goroutine of lsp/jsonrpc2 is still alive after every conn was closed and every call returned", map[string]any{"goroutine": firstLines(leak, 14)})
	}
	vhlib.Summary(map[string]any{"scripts": len(scripts), "cases": cases, "fails": fails, "diverged": diverged, "unrealised_steps": unreal,
		"script_steps": steps, "events": events, "traces": traces, "aborted": aborted.Load(),
		"bursts": bursts, "burst_events": burstEvents, "burst_watchdog_rounds": burstTimeouts, "burst_callers": traceNC})
}
