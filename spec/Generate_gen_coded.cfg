\* C15 case emission with the three deviations of the pinned code switched on (path-shape universe only): what the code as pinned
\* does, for the attribution of a failing case to its root cause. No property invariant is listed: they do not hold here.
CONSTANTS
  MaxFiles = 2
  Trees <- TreesPathRoot
  Ws = {1}
  FlagSets <- RootFlags
  Mutex = TRUE
  ErrsCloser = "postgen"
  MainReadsErrs = TRUE
  GenVariants = {1}
  SlotRelease = "deferred"
  TargetRule = "trimsuffix"
  WalkRule = "coded"
  OrphanStat = "coded"
  RootRule = "coded"
  RootTrees <- TreesRoot
  SkipRule = "coded"
  TwoRuns = TRUE
  EmitCases = TRUE
INIT Init
NEXT Next
VIEW View
ACTION_CONSTRAINT Emit
INVARIANTS TypeOK
