------------------------------ MODULE MCGenerate ------------------------------
(* Model-checking instances of Generate: tree universes, flag sets. *)
EXTENDS Generate
CONSTANT MaxFiles

F(dir, name, c, m) == [dir |-> dir, name |-> name, c |-> c, m |-> m]
AllFlags  == [keep : BOOLEAN, lazy : BOOLEAN, ver : BOOLEAN, root : {"d"}]
\* the root directory itself has a name the skip rule knows (only explored for TreesRoot)
RootFlags == [keep : BOOLEAN, lazy : BOOLEAN, ver : BOOLEAN, root : {"d", "_x", "vendor", ".x"}]

\* every tree with at most MaxFiles files that picks at most one option per path
RECURSIVE Pick(_, _)
Pick(opts, k) == IF k = 0 THEN { {} }
                 ELSE { t \cup o : t \in Pick(opts, k - 1), o \in { {} } \cup { {x} : x \in opts[k] } }
Bounded(S) == { t \in S : Cardinality(t) <= MaxFiles }
RECURSIVE PickB(_, _)
PickB(opts, k) == IF k = 0 THEN { {} }
                  ELSE Bounded({ t \cup o : t \in PickB(opts, k - 1), o \in { {} } \cup { {x} : x \in opts[k] } })

\* protocol universe: every path of HandleEvent, a plain and a skipped sub-directory
R == << >>
OptsProto == <<
    { F(R, "a.templ", "good", 1), F(R, "a.templ", "unparsable", 1), F(R, "a.templ", "badgo", 1) },
    { F(R, "a_templ.go", "junk", 2), F(R, "a_templ.go", "junk", 0), F(R, "a_templ.go", "genV", 2), F(R, "a_templ.go", "genN", 2) },
    { F(R, "b.templ", "good", 1), F(R, "b.templ", "unparsable", 1) },
    { F(R, "b_templ.go", "junk", 2) },
    { F(R, "o.go", "src", 1) },
    { F(R, "n.txt", "text", 1) },
    { F(<<"d">>, "a.templ", "good", 1), F(<<"d">>, "a.templ", "badgo", 1) },
    { F(<<"_x">>, "a.templ", "good", 1) },
    { F(<<"_x">>, "b_templ.go", "junk", 2) } >>
TreesProto == PickB(OptsProto, Len(OptsProto))

\* skip-rule universe: every directory path of depth <= 2 over the five basic names, each alone (PerDir), and one forest
\* (root, every name at depth 1, every name below and above a plain directory) with a template, a stale sibling,
\* an orphan and an unrelated file in every directory
DirNames == {"d", "vendor", "node_modules", ".x", "_x"}
DirPaths == { << >> } \cup { <<a>> : a \in DirNames } \cup { <<a, b>> : a \in DirNames, b \in DirNames }
ForestPaths == { << >> } \cup { <<a>> : a \in DirNames } \cup { <<"d", b>> : b \in DirNames } \cup { <<a, "d">> : a \in DirNames }
Forest == UNION { { F(p, "a.templ", "good", 1), F(p, "a_templ.go", "junk", 0), F(p, "b_templ.go", "junk", 2), F(p, "n.txt", "text", 1) } : p \in ForestPaths }
\* one directory at a time, with a failing file in the root
PerDir == { { F(p, "a.templ", "good", 1), F(p, "b_templ.go", "junk", 2), F(R, "b.templ", "unparsable", 1) } : p \in DirPaths }
\* near misses of the skip rule (Generate.tla: AllDirNames): none of them is skipped, at depth 1, below a plain and
\* below a skipped parent (where they stay skipped), above a plain child; skipped names below a near-miss parent
NearMiss == (AllDirNames \ DirNames) \ TemplPathNames
NearPaths == { <<a>> : a \in NearMiss } \cup { <<"d", a>> : a \in NearMiss } \cup { <<"vendor", a>> : a \in NearMiss }
             \cup { <<a, "d">> : a \in NearMiss } \cup { <<"multivendor", b>> : b \in DirNames \ {"d"} }
PerDirNear == { { F(p, "a.templ", "good", 1), F(p, "b_templ.go", "junk", 2), F(R, "b.templ", "unparsable", 1) } : p \in NearPaths }
\* a forest of near-miss directories at depth 1 (kept below the size of Forest: the property operators are polynomial
\* in the tree size); nesting is covered one path at a time by PerDirNear
ForestNear == UNION { { F(p, "a.templ", "good", 1), F(p, "a_templ.go", "junk", 0), F(p, "b_templ.go", "junk", 2), F(p, "n.txt", "text", 1) }
                      : p \in { << >> } \cup { <<a>> : a \in NearMiss } }
TreesSkip == PerDir \cup PerDirNear
TreesForest == { Forest, ForestNear }

\* a tree that makes every negative configuration fail: two files generated concurrently, one failing file
TreesNeg == { { F(R, "a.templ", "good", 1), F(R, "b.templ", "good", 1), F(<<"d">>, "a.templ", "badgo", 1) } }
\* failing files first, as many as workers (W = 1: first tree, W = 2: second tree), then a file that must still be generated
TreesNegSlot == { { F(R, "a.templ", "unparsable", 1), F(R, "b.templ", "good", 1) },
                  { F(R, "a.templ", "unparsable", 1), F(R, "b.templ", "unparsable", 1), F(<<"d">>, "a.templ", "good", 1) } }
\* focused three- and four-file trees (all schedules with W up to 3 stay affordable in the quick tier)
TreesFocus == { { F(R, "a.templ", "good", 1), F(R, "b.templ", "unparsable", 1), F(<<"d">>, "a.templ", "good", 1) },
                { F(R, "a.templ", "good", 1), F(R, "a_templ.go", "junk", 2), F(R, "b_templ.go", "junk", 2), F(R, "o.go", "src", 1) },
                { F(R, "a.templ", "badgo", 1), F(R, "b.templ", "good", 1), F(<<"d">>, "a.templ", "good", 1), F(<<"_x">>, "a.templ", "good", 1) },
                \* as many failing files as workers (W = 2) in front of a file that must still be generated
                { F(R, "a.templ", "unparsable", 1), F(R, "b.templ", "badgo", 1), F(<<"d">>, "a.templ", "good", 1) } }
\* one file that is generated (negative config: nondeterministic generator)
TreesNegNondet == { { F(R, "a.templ", "good", 1) } }
\* reduced universe for four files
OptsFour == <<
    { F(R, "a.templ", "good", 1), F(R, "a.templ", "unparsable", 1) },
    { F(R, "b.templ", "good", 1) },
    { F(<<"d">>, "a.templ", "good", 1), F(<<"d">>, "a.templ", "badgo", 1) },
    { F(<<"d">>, "b_templ.go", "junk", 2) },
    { F(R, "o.go", "src", 1) } >>
TreesFour == { t \in PickB(OptsFour, Len(OptsFour)) : Cardinality(t) = 4 }
\* path shapes with ".templ" elsewhere than as the final extension (Generate.tla: TemplPathNames, a.templ.templ, v.templ):
\* every template must get its own _templ.go next to it, whatever the path looks like; a directory is not a template
TreesPath == { { F(<<"v.templates">>, "a.templ", "good", 1), F(<<"v.templates">>, "b.templ", "good", 1), F(R, "v.templ", "good", 1), F(<<"d">>, "a.templ", "good", 1) },
               { F(<<"v.templates">>, "a.templ", "good", 1), F(R, "v_templ.go", "junk", 2) },
               { F(<<"v.templates", "d">>, "a.templ", "good", 1), F(<<"v.templates">>, "a_templ.go", "junk", 0) },
               { F(<<"d", "v.templates">>, "a.templ", "good", 1), F(<<"d">>, "v.templ", "unparsable", 1), F(<<"d">>, "v_templ.go", "junk", 2) },
               { F(R, "a.templ", "good", 1), F(R, "a.templ.templ", "good", 1) },
               { F(R, "a.templ.templ", "good", 1), F(R, "a_templ.go", "junk", 2) },
               { F(<<"d">>, "a.templ.templ", "badgo", 1), F(<<"d">>, "a.templ_templ.go", "junk", 0), F(<<"d">>, "a.templ", "good", 1) },
               \* a DIRECTORY whose name ends in .templ (matches the watch pattern), alone, with a *_templ.go of that name next to it
               { F(<<"d", "p.templ">>, "a.templ", "good", 1) },
               { F(<<"p.templ">>, "a.templ", "good", 1), F(R, "p_templ.go", "junk", 2) },
               { F(<<"p.templ">>, "b.templ", "unparsable", 1), F(<<"p.templ">>, "n.txt", "text", 1), F(R, "a.templ", "good", 1) },
               { F(<<"_x", "p.templ">>, "a.templ", "good", 1), F(R, "a.templ", "good", 1) },
               \* an orphaned b_templ.go next to a DIRECTORY b.templ
               { F(<<"b.templ">>, "n.txt", "text", 1), F(R, "b_templ.go", "junk", 2) },
               { F(<<"d", "b.templ">>, "a.templ", "good", 1), F(<<"d">>, "b_templ.go", "junk", 0) } }
\* trees explored below a root whose own name the skip rule knows
TreesRoot == { { F(R, "a.templ", "good", 1), F(R, "b_templ.go", "junk", 2), F(<<"d">>, "a.templ", "good", 1) },
               { F(R, "a.templ", "unparsable", 1), F(<<"_x">>, "a.templ", "good", 1) } }
TreesPathRoot == TreesPath \cup TreesRoot
\* one small tree per negative configuration
TreesNegTarget == { { F(<<"v.templates">>, "a.templ", "good", 1), F(R, "v.templ", "good", 1) }, { F(R, "a.templ", "good", 1), F(R, "a.templ.templ", "good", 1) } }
TreesNegWalk   == { { F(<<"d", "p.templ">>, "a.templ", "good", 1) } }
TreesNegOrphan == { { F(<<"b.templ">>, "n.txt", "text", 1), F(R, "b_templ.go", "junk", 2) } }
\* emission
TreesGen == TreesPath \cup TreesRoot \cup TreesProto \cup TreesSkip \cup TreesForest \cup TreesFocus
=============================================================================
