\* C01 edge emission: symbol table, escaper table and every explored transition, for the harness.
CONSTANTS
  EscOverride <- NoOverride
  EmitEdges = TRUE
INIT Init
NEXT Next
VIEW View
ACTION_CONSTRAINT Emit
INVARIANTS TypeOK InContext Verbatim NeutralAfterFeed SuffixTokenises
CHECK_DEADLOCK FALSE
