package main

// Second key for JavaScript: V8 (rogchap.com/v8go) evaluates the emitted script bodies / attribute values
// with the called function bound to a recorder and reports the values that arrived.

import (
	"encoding/json"
	"fmt"
	"strings"

	v8 "rogchap.com/v8go"
)

type jsKey struct {
	iso  *v8.Isolate
	ctx  *v8.Context
	uses int
	gens int // contexts created on this isolate
}

const prelude = `var __r = []; function Rec(){ __r.push(Array.prototype.slice.call(arguments)); }
function RecFC(){ __r.push(["fc"].concat(Array.prototype.slice.call(arguments))); }`

func newJSKey() *jsKey {
	k := &jsKey{iso: v8.NewIsolate()}
	k.fresh()
	return k
}

func (k *jsKey) fresh() {
	if k.ctx != nil {
		k.ctx.Close()
	}
	// a tree that breaks the property makes most evaluations fail, each of which replaces the context; an isolate that
	// has seen many contexts is replaced as well so that its heap cannot grow without bound
	k.gens++
	if k.gens > 100 {
		k.iso.Dispose()
		k.iso = v8.NewIsolate()
		k.gens = 0
	}
	k.ctx = v8.NewContext(k.iso)
	k.uses = 0
	if _, err := k.ctx.RunScript(prelude, "prelude.js"); err != nil {
		panic(err)
	}
}

func (k *jsKey) close() {
	k.ctx.Close()
	k.iso.Dispose()
}

// browserText applies what the HTML parser does to the character stream before JavaScript sees it
// (U+0000 in script data becomes U+FFFD); v8go passes the source as a C string, so a NUL must not remain.
func browserText(s string) string {
	return strings.ReplaceAll(s, "\x00", "�")
}

// run evaluates the bodies in order and returns the recorded calls.
func (k *jsKey) run(bodies []string) (rec []any, err error) {
	k.uses++
	if k.uses > 1500 {
		k.fresh()
	}
	defer func() {
		if err != nil {
			k.fresh() // a broken-out script may have changed the global object
		}
	}()
	if _, err = k.ctx.RunScript("__r = [];", "reset.js"); err != nil {
		return nil, err
	}
	for i, b := range bodies {
		if _, err = k.ctx.RunScript(browserText(b), fmt.Sprintf("body%d.js", i)); err != nil {
			return nil, err
		}
	}
	v, err := k.ctx.RunScript("JSON.stringify(__r)", "result.js")
	if err != nil {
		return nil, err
	}
	if err = json.Unmarshal([]byte(v.String()), &rec); err != nil {
		return nil, err
	}
	return rec, nil
}

// parseJSON returns JSON.parse(text) as V8 sees it.
func (k *jsKey) parseJSON(text string) (out any, err error) {
	k.uses++
	if k.uses > 1500 {
		k.fresh()
	}
	if err = k.ctx.Global().Set("__body", browserText(text)); err != nil {
		return nil, err
	}
	v, err := k.ctx.RunScript("JSON.stringify(JSON.parse(__body))", "json.js")
	if err != nil {
		k.fresh()
		return nil, err
	}
	if err = json.Unmarshal([]byte(v.String()), &out); err != nil {
		return nil, err
	}
	return out, nil
}
