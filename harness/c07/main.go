// c07 binds spec/SourceMap.tla to the real parser + generator + source map of the repository under test.
//
//	c07 run <cases.ndjson> <repo> <outdir> <chunk>
//
// cases.ndjson: one TLC-generated case per line {"slot":..,"pre":[..],"shape":[[..],..]} (spec/SourceMapGen.tla).
// Every case is concretised to a .templ file (concretise.go); every .templ file below <repo> is added.
// Each file is parsed with parser.ParseString and generated with generator.Generate (the UNFORMATTED
// output and its source map are what the LSP proxy hands to gopls).  For every Go expression of the
// tree the harness walks every rune-boundary position and the position past the end of each
// expression line, performs the real TargetPositionFromSource / SourcePositionFromTarget lookups
// and logs the observed tuples together with the runes found at both ends (ndjson, <outdir>/trace-N.ndjson,
// <chunk> events per file).  The harness does NOT judge: spec/TraceSourceMap.tla evaluates the
// invariants on these tuples with TLC.  A concretised template that the real parser or generator
// rejects is a concretiser bug (exit 2).
package main

import (
	"bufio"
	"encoding/json"
	"fmt"
	"go/ast"
	goparser "go/parser"
	"go/token"
	"os"
	"path/filepath"
	"reflect"
	"sort"
	"strconv"
	"strings"
	"unicode/utf8"

	"github.com/a-h/templ/generator"
	"github.com/a-h/templ/parser/v2"

	"verifharness/vhlib"
)

type genCase struct {
	Slot    string  `json:"slot"`
	Pre     []int   `json:"pre"`
	Shape   [][]int `json:"shape"`
	EOL     string  `json:"eol"`
	Flavour string  `json:"flavour"`
}

// lineTable gives byte offsets of line starts of a text.
type lineTable struct {
	text   string
	starts []int
}

func newLineTable(s string) *lineTable {
	lt := &lineTable{text: s, starts: []int{0}}
	for i := 0; i < len(s); i++ {
		if s[i] == '\n' {
			lt.starts = append(lt.starts, i+1)
		}
	}
	return lt
}

// lineCol returns the (line, byte column) of a byte offset (a newline belongs to the line it ends).
func (lt *lineTable) lineCol(off int) (int, int) {
	l := sort.Search(len(lt.starts), func(i int) bool { return lt.starts[i] > off }) - 1
	return l, off - lt.starts[l]
}

// offset returns the byte offset of (line, col) or -1 if there is no such position in the text.
func (lt *lineTable) offset(line, col int) int {
	if line < 0 || line >= len(lt.starts) {
		return -1
	}
	end := len(lt.text)
	if line+1 < len(lt.starts) {
		end = lt.starts[line+1] - 1 // the newline itself is the last column of the line
	}
	o := lt.starts[line] + col
	if col < 0 || o > end {
		return -1
	}
	return o
}

// runeAt returns the rune starting at byte offset off: -1 = end of text, -2 = outside, -3 = not a rune boundary.
func runeAt(s string, off int) int {
	if off == len(s) {
		return -1
	}
	if off < 0 || off > len(s) {
		return -2
	}
	if !utf8.RuneStart(s[off]) {
		return -3
	}
	r, _ := utf8.DecodeRuneInString(s[off:])
	return int(r)
}

type exprRef struct {
	path string
	kind string // type name of the struct holding the expression
	e    parser.Expression
}

var exprType = reflect.TypeOf(parser.Expression{})

// walkExpressions collects every parser.Expression of the tree by reflection.
func walkExpressions(v reflect.Value, path string, holder string, out *[]exprRef) {
	switch v.Kind() {
	case reflect.Interface, reflect.Ptr:
		if v.IsNil() {
			return
		}
		walkExpressions(v.Elem(), path, holder, out)
	case reflect.Struct:
		if v.Type() == exprType {
			*out = append(*out, exprRef{path: path, kind: holder, e: v.Interface().(parser.Expression)})
			return
		}
		for i := 0; i < v.NumField(); i++ {
			f := v.Type().Field(i)
			if !f.IsExported() {
				continue
			}
			walkExpressions(v.Field(i), path+"."+f.Name, v.Type().Name(), out)
		}
	case reflect.Slice, reflect.Array:
		for i := 0; i < v.Len(); i++ {
			walkExpressions(v.Index(i), path+"["+strconv.Itoa(i)+"]", holder, out)
		}
	}
}

type fileInfo struct {
	ID   int    `json:"id"`
	Name string `json:"name"`
	Slot string `json:"slot,omitempty"`
	Src  string `json:"src,omitempty"`
	Case any    `json:"case,omitempty"`
}

type traceWriter struct {
	dir    string
	chunk  int
	n      int
	files  []string
	counts []int
	f      *os.File
	w      *bufio.Writer
}

func (t *traceWriter) emit(v any) {
	if t.w == nil || t.n >= t.chunk {
		t.close()
		name := filepath.Join(t.dir, fmt.Sprintf("trace-%03d.ndjson", len(t.files)))
		f, err := os.Create(name)
		if err != nil {
			vhlib.Fatal("%v", err)
		}
		t.f, t.w, t.n = f, bufio.NewWriterSize(f, 1<<20), 0
		t.files = append(t.files, name)
		t.counts = append(t.counts, 0)
	}
	b, err := json.Marshal(v)
	if err != nil {
		vhlib.Fatal("%v", err)
	}
	t.w.Write(b)
	t.w.WriteByte('\n')
	t.n++
	t.counts[len(t.counts)-1]++
}

func (t *traceWriter) close() {
	if t.w != nil {
		t.w.Flush()
		t.f.Close()
		t.w = nil
	}
}

type stats struct {
	files, exprs, positions, syms, skippedEmpty, unfaithful, multiline, multibyte int
	perSlot                                                                       map[string]int
	perHolder                                                                     map[string]int
}

func b2i(b bool) int {
	if b {
		return 1
	}
	return 0
}

// process parses + generates one file and logs its expression and symbol events. ok=false: rejected.
func process(fi fileInfo, src string, tw *traceWriter, st *stats, nextID *int) (ok bool, why string) {
	tf, err := parser.ParseString(src)
	if err != nil {
		return false, "parse: " + err.Error()
	}
	var sb strings.Builder
	out, err := generator.Generate(tf, &sb)
	if err != nil {
		return false, "generate: " + err.Error()
	}
	tgt := sb.String()
	sm := out.SourceMap
	slt, tlt := newLineTable(src), newLineTable(tgt)

	var refs []exprRef
	walkExpressions(reflect.ValueOf(tf), "tf", "TemplateFile", &refs)

	// multiset of the values the source map lists
	listed := map[string]int{}
	for _, v := range sm.Expressions {
		listed[v]++
	}
	// start offsets of all expressions (a position shared by two expressions is ambiguous)
	starts := map[int]int{}
	type span struct{ from, to int }
	var spans []span
	for _, r := range refs {
		if strings.TrimSpace(r.e.Value) == "" {
			continue
		}
		starts[int(r.e.Range.From.Index)]++
		spans = append(spans, span{int(r.e.Range.From.Index), int(r.e.Range.From.Index) + len(r.e.Value)})
	}

	// expressions the generator added to the source map although they are not in the source
	// (values listed by the map that no expression of the tree has): their spans in the target
	for _, r := range refs {
		if listed[r.e.Value] > 0 {
			listed[r.e.Value]--
		}
	}
	var synth []span
	for v, n := range listed {
		if n <= 0 || v == "" {
			continue
		}
		for o := 0; ; {
			i := strings.Index(tgt[o:], v)
			if i < 0 {
				break
			}
			synth = append(synth, span{o + i, o + i + len(v)})
			o += i + len(v)
		}
	}
	listed = map[string]int{}
	for _, v := range sm.Expressions {
		listed[v]++
	}

	st.files++
	for _, r := range refs {
		v := r.e.Value
		if strings.TrimSpace(v) == "" {
			st.skippedEmpty++ // nothing to map: the generator writes nothing for it
			continue
		}
		from := int(r.e.Range.From.Index)
		if from < 0 || from+len(v) > len(src) || src[from:from+len(v)] != v {
			// the parser's range does not hold the value: C06's business, positions are undefined here
			st.unfaithful++
			continue
		}
		*nextID++
		st.exprs++
		st.perHolder[r.kind]++
		isListed := listed[v] > 0
		if isListed {
			listed[v]--
		}
		var widths [][]int
		var pos [][]int
		syn := 0
		cur := []int{}
		li := 0
		add := func(kind, off int) {
			sl, sc := slt.lineCol(off)
			p, ok := sm.TargetPositionFromSource(uint32(sl), uint32(sc))
			shared := 0
			if off != from && starts[off] > 0 {
				shared = 1
			}
			if off == from && starts[off] > 1 {
				shared = 1
			}
			for _, s := range spans {
				if (s.from != from || s.to != from+len(v)) && off >= s.from && off <= s.to {
					shared = 1 // inside or at the edge of another expression of the tree
				}
			}
			row := []int{kind, li, sl, sc, off, runeAt(src, off), b2i(ok), -1, -1, -1, -9, -1, 0, -1, -1, -1, shared}
			if ok {
				toff := tlt.offset(int(p.Line), int(p.Col))
				row[7], row[8], row[9] = int(p.Line), int(p.Col), int(p.Index)
				row[11] = toff
				if toff >= 0 {
					row[10] = runeAt(tgt, toff)
				}
				for _, s := range synth {
					if (toff >= s.from && toff <= s.to) || (int(p.Index) >= s.from && int(p.Index) <= s.to) {
						syn = 1
					}
				}
				b, bok := sm.SourcePositionFromTarget(p.Line, p.Col)
				row[12] = b2i(bok)
				if bok {
					row[13], row[14], row[15] = int(b.Line), int(b.Col), int(b.Index)
				}
			}
			pos = append(pos, row)
			st.positions++
		}
		off := from
		hasMB := false
		for _, c := range v {
			w := utf8.RuneLen(c)
			if w < 0 {
				w = 1
			}
			if c == '\n' {
				add(1, off)
				widths = append(widths, cur)
				cur = []int{}
				li++
			} else {
				add(0, off)
				cur = append(cur, w)
				if w > 1 {
					hasMB = true
				}
			}
			off += w
		}
		add(2, off)
		widths = append(widths, cur)
		if len(widths) > 1 {
			st.multiline++
		}
		if hasMB {
			st.multibyte++
		}
		sl, sc := slt.lineCol(from)
		tw.emit(map[string]any{"k": "e", "id": *nextID, "f": fi.ID, "h": r.kind, "path": r.path, "w": widths,
			"sf": []int{sl, sc, from}, "ls": b2i(isListed), "syn": syn, "p": pos})
	}

	// symbol ranges of the top level declarations
	fset := token.NewFileSet()
	gf, gerr := goparser.ParseFile(fset, "", tgt, goparser.SkipObjectResolution)
	type decl struct{ from, to int }
	funcs := map[string][]decl{}
	if gf != nil {
		for _, d := range gf.Decls {
			if fd, ok := d.(*ast.FuncDecl); ok {
				key := fd.Name.Name
				funcs[key] = append(funcs[key], decl{fset.Position(fd.Pos()).Offset, fset.Position(fd.End()).Offset})
			}
		}
	}
	used := map[string]int{}
	goCursor := 0
	// number of top-level declarations starting on each source line
	startLines := map[uint32]int{}
	for _, h := range tf.Header {
		startLines[h.Expression.Range.From.Line]++
	}
	for _, n := range tf.Nodes {
		switch n := n.(type) {
		case parser.HTMLTemplate:
			startLines[n.Range.From.Line]++
		case parser.CSSTemplate:
			startLines[n.Range.From.Line]++
		case parser.ScriptTemplate:
			startLines[n.Range.From.Line]++
		case parser.TemplateFileGoExpression:
			startLines[n.Expression.Range.From.Line]++
		}
	}
	symEvent := func(what string, name string, rng parser.Range, value string) {
		*nextID++
		st.syms++
		ev := map[string]any{"k": "s", "id": *nextID, "f": fi.ID, "what": what, "name": name, "sl": b2i(startLines[rng.From.Line] > 1)}
		t, found := sm.SymbolTargetRangeFromSource(rng.From.Line, rng.From.Col)
		ev["found"] = b2i(found)
		// the generated declaration, located independently of the source map
		dfrom, dto := -1, -1
		if what == "go" {
			if i := strings.Index(tgt[goCursor:], value); i >= 0 {
				dfrom, dto = goCursor+i, goCursor+i+len(value)
				goCursor = dto
			}
		} else if ds := funcs[name]; used[name] < len(ds) {
			dfrom, dto = ds[used[name]].from, ds[used[name]].to
			used[name]++
		}
		ev["d"] = []int{dfrom, dto}
		row := []int{-1, -1, -1, -1, -1, -1, -1, -1, 0}
		if found {
			row[0], row[1], row[2] = int(t.From.Line), int(t.From.Col), int(t.From.Index)
			row[3], row[4], row[5] = int(t.To.Line), int(t.To.Col), int(t.To.Index)
			row[6] = tlt.offset(int(t.From.Line), int(t.From.Col))
			row[7] = tlt.offset(int(t.To.Line), int(t.To.Col))
			back, bok := sm.SymbolSourceRangeFromTarget(t.From.Line, t.From.Col)
			row[8] = b2i(bok && back == rng)
		}
		ev["t"] = row
		// a Go block whose last line is a // comment gets no symbol range (generator.writeGoExpression)
		ls := strings.Split(value, "\n")
		ev["opt"] = b2i(what == "go" && strings.HasPrefix(ls[len(ls)-1], "//"))
		tw.emit(ev)
	}
	funcName := func(sig string) string {
		f, _ := goparser.ParseFile(token.NewFileSet(), "", "package p\nfunc "+sig+" {}", goparser.SkipObjectResolution)
		if f != nil {
			for _, d := range f.Decls {
				if fd, ok := d.(*ast.FuncDecl); ok {
					return fd.Name.Name
				}
			}
		}
		return ""
	}
	_ = gerr
	for _, h := range tf.Header {
		symEvent("go", "", h.Expression.Range, h.Expression.Value)
	}
	for _, n := range tf.Nodes {
		switch n := n.(type) {
		case parser.HTMLTemplate:
			symEvent("templ", funcName(n.Expression.Value), n.Range, "")
		case parser.CSSTemplate:
			symEvent("css", n.Name, n.Range, "")
		case parser.ScriptTemplate:
			symEvent("script", n.Name.Value, n.Range, "")
		case parser.TemplateFileGoExpression:
			symEvent("go", "", n.Expression.Range, n.Expression.Value)
		}
	}
	return true, ""
}

func main() {
	if len(os.Args) < 6 || os.Args[1] != "run" {
		vhlib.Fatal("usage: c07 run <cases.ndjson> <repo> <outdir> <chunk>")
	}
	casesPath, repo, outdir := os.Args[2], os.Args[3], os.Args[4]
	chunk, _ := strconv.Atoi(os.Args[5])
	tw := &traceWriter{dir: outdir, chunk: chunk}
	st := &stats{perSlot: map[string]int{}, perHolder: map[string]int{}}
	idx, err := os.Create(filepath.Join(outdir, "index.ndjson"))
	if err != nil {
		vhlib.Fatal("%v", err)
	}
	iw := bufio.NewWriterSize(idx, 1<<20)
	writeIndex := func(fi fileInfo) {
		b, _ := json.Marshal(fi)
		iw.Write(b)
		iw.WriteByte('\n')
	}
	nextID := 0
	fileID := 0

	// 1. repository corpus
	var corpus []string
	filepath.Walk(repo, func(p string, info os.FileInfo, err error) error {
		if err != nil {
			return nil
		}
		if info.IsDir() && (info.Name() == ".git" || info.Name() == "node_modules") {
			return filepath.SkipDir
		}
		if !info.IsDir() && strings.HasSuffix(p, ".templ") {
			corpus = append(corpus, p)
		}
		return nil
	})
	sort.Strings(corpus)
	rejected := 0
	for _, p := range corpus {
		b, err := os.ReadFile(p)
		if err != nil {
			vhlib.Fatal("%v", err)
		}
		fileID++
		rel, _ := filepath.Rel(repo, p)
		fi := fileInfo{ID: fileID, Name: rel}
		ok, _ := process(fi, string(b), tw, st, &nextID)
		if !ok {
			rejected++ // some repo fixtures are deliberately invalid
			continue
		}
		st.perSlot["repo"]++
		writeIndex(fi)
	}
	corpusFiles := st.files

	// 2. TLC-generated cases
	seen := map[string]bool{}
	ncases, dup := 0, 0
	err = vhlib.Each(casesPath, func(line []byte) error {
		var c genCase
		if err := json.Unmarshal(line, &c); err != nil {
			return err
		}
		key := string(line)
		if seen[key] {
			dup++
			return nil
		}
		seen[key] = true
		ncases++
		src, exprText, err := concretise(c)
		if err != nil {
			vhlib.Fatal("concretiser: %v for %s", err, key)
		}
		fileID++
		fi := fileInfo{ID: fileID, Name: "gen:" + c.Slot, Slot: c.Slot, Src: src, Case: c}
		before := st.exprs
		ok, why := process(fi, src, tw, st, &nextID)
		if !ok {
			vhlib.Fatal("concretised template rejected by the real code (%s): case %s\n%s", why, key, src)
		}
		if st.exprs == before {
			vhlib.Fatal("concretised template has no expression: case %s\n%s", key, src)
		}
		_ = exprText
		st.perSlot[c.Slot]++
		writeIndex(fi)
		if ncases%997 == 1 {
			vhlib.Sample(map[string]any{"case": c, "templ": src})
		}
		return nil
	})
	if err != nil {
		vhlib.Fatal("%v", err)
	}
	tw.close()
	iw.Flush()
	idx.Close()
	vhlib.Summary(map[string]any{
		"corpus_files": corpusFiles, "corpus_rejected": rejected, "cases": ncases, "duplicates": dup,
		"files": st.files, "expressions": st.exprs, "positions": st.positions, "symbols": st.syms,
		"skipped_empty": st.skippedEmpty, "unfaithful_ranges": st.unfaithful,
		"multiline_expressions": st.multiline, "multibyte_expressions": st.multibyte,
		"per_slot": st.perSlot, "per_holder": st.perHolder,
		"trace_files": tw.files, "trace_counts": tw.counts,
	})
}
