\* C15 negative configs of the skip rule (SkipRule is substituted by checks/C15.py): the walker does not skip
\* underscore- / dot-prefixed directories: NothingElseTouched must be violated; the walker compares with HasSuffix /
\* HasPrefix / case-insensitively instead of equality, or looks for the dot / underscore anywhere in the name:
\* near-miss directories are skipped, SiblingEqualsSoloGeneration must be violated.
CONSTANTS
  MaxFiles = 2
  Trees <- TreesForest
  Ws = {1}
  FlagSets <- AllFlags
  Mutex = TRUE
  ErrsCloser = "postgen"
  MainReadsErrs = TRUE
  GenVariants = {1}
  SlotRelease = "deferred"
  TargetRule = "trimsuffix"
  WalkRule = "filesonly"
  OrphanStat = "fileonly"
  RootRule = "exempt"
  RootTrees <- TreesRoot
  SkipRule = "nounderscore"
  TwoRuns = FALSE
  EmitCases = FALSE
INIT Init
NEXT Next
VIEW View
INVARIANTS TypeOK SiblingEqualsSoloGeneration OrphansGoneUnlessKept NothingElseTouched ExitStatusIffSomeFileFailed FailureIsolated SecondRunChangesNothing AtMostWWorkers EachEventOnce NoPanic NoDataRace WaitGroupOK
