-------------------------------- MODULE Proxy --------------------------------
(* C20 -- the live-reload proxy (cmd/templ/generatecmd/proxy/proxy.go) alters HTML responses only by
   appending the reload script.

   One behaviour = one proxied exchange. The initial states are the abstract configuration space
   (content type x content encoding x request kind x skip marker x CSP shape x body shape x client
   Accept-Encoding); the actions are the steps of the response pipeline in the order the Go code runs
   them:

     Transport      http.DefaultTransport.RoundTrip: when the client sent no Accept-Encoding the transport
                    asked for gzip itself and decodes a gzip response transparently (header and length
                    removed)
     MarkHtmx       roundTripper.setShouldSkipResponseModificationHeader
     Decide         modifyResponse: skip marker? content type prefix? Content-Encoding switch
     Decode         newReader + io.ReadAll
     Insert         insertScriptTagIntoBody(parseNonce(csp), body): html.Parse, first body element,
                    AppendChild(script), html.Render   (no body element: the decoded text is kept)
     Encode         newWriter
     SetLength      r.ContentLength / Content-Length header
     Deliver        the client has the response

   The response is abstract: which headers it carries and a body record saying which document it is, whether
   a script was inserted (and with which nonce), in which coding the bytes are and whether they are still
   the backend's bytes.

   UnsupportedRule selects what `default:` of the encoding switch does:
     "rewrite"  as coded at the pinned commit: log a warning, continue with the identity reader/writer
     "pass"     repaired: log a warning, return (pass through)                                         *)
EXTENDS Integers, Sequences, TLC, Json

CONSTANTS UnsupportedRule,   \* "rewrite" | "pass"
          HeadRule,          \* "rewrite" (as coded: a response to HEAD goes through the same rewrite) | "pass" (repaired)
          StatusRule,        \* "rewrite" (as coded: 204 answers go through the same rewrite) | "pass" (repaired)
          CtRule,            \* "casesensitive" (as coded) | "caseinsensitive" (repaired)
          ParseRule,         \* "scripting" (as coded: html.Parse) | "noscripting" (plausible bug for the negative config)
          CspRule,           \* "firstline" (as coded: first header line, no policy-list splitting) | "policylist" (repaired)
          LengthRule,        \* "set" (as coded) | "forget" (plausible bug for the negative config)
          EmitCases

VARIABLES cfg, hdr, body, pc, path

vars == <<cfg, hdr, body, pc, path>>

ContentTypes == {"html", "htmlcharset", "htmlcase", "other", "none"}   \* htmlcase: TEXT/HTML, Text/Html; charset=utf-8 ...
Methods      == {"GET", "HEAD"}
Statuses     == {"200", "204"}    \* 204 No Content: a response that never has a body. (304 belongs to the same class but cannot
                                  \* be replayed: Go's net/http server strips Content-Type from a 304, so the gate never sees it.)
Encodings    == {"none", "gzip", "br", "unsupported"}
Requests     == {"plain", "htmx"}
Csps         == {"none", "scriptsrc", "several", "otheronly", "nononce", "afterother", "defaultfirst",
                 "linesfirst", "linessecond", "commafirst", "commasecond"}
Bodies       == {"empty", "fragment", "full", "scriptbody", "nonascii", "scripts", "frameset",
                 "noscripthead", "noscriptbody", "noscriptmeta", "rawtext"}
Accepts      == {"browser", "absent"}

IsHtml(ct) == ct \in {"html", "htmlcharset", "htmlcase"}   \* the media type is text/html (media types are case-insensitive)
\* the gate in modifyResponse. CtRule "casesensitive": as coded, strings.HasPrefix(contentType, "text/html");
\*                         "caseinsensitive": repaired, the prefix test on the lower-cased value
GateHtml(ct) == ct \in {"html", "htmlcharset"} \/ (ct = "htmlcase" /\ CtRule = "caseinsensitive")

-----------------------------------------------------------------------------
(* Documents. A body shape is a skeleton (nothing / a fragment without html-head-body tags / a full page / a
   frameset page), the kind of running text, and ITEMS: elements whose content the HTML parsing algorithm does not
   treat as ordinary markup, placed in head or body. The harness renders documents from exactly this description.

     element class                              content is                         x/net/html Render writes text children
     RawText  script style xmp iframe noembed   raw text (never markup)            verbatim
     RcData   title textarea                    text with character references     escaped
     noscript                                   raw text iff SCRIPTING is enabled  verbatim
                                                else markup; in head only link/meta/style may stay inside, anything
                                                else ends the head and moves to body together with what follows

   Browsers that can run the reload script have scripting enabled, so the reference reading of every document is
   the scripting one. ParseRule says how the proxy parses: "scripting" (html.Parse, as coded) | "noscripting".   *)
Item(where, el, content) == [in |-> where, el |-> el, content |-> content]
\* content kinds (the harness owns the concrete text): "markuplike" text that looks like tags and character references,
\* "entity" text with character references, "element" one non-metadata element, "textentity" text with references plus an
\* element, "metaonly" link/meta elements, "bodytag" text containing <body>...</body>, "src" no content (external script)
Doc(shape) ==
    CASE shape = "empty"        -> [skeleton |-> "empty",    text |-> "ascii",    items |-> <<>>]
      [] shape = "fragment"     -> [skeleton |-> "fragment", text |-> "ascii",    items |-> <<>>]
      [] shape = "full"         -> [skeleton |-> "page",     text |-> "ascii",    items |-> <<>>]
      [] shape = "nonascii"     -> [skeleton |-> "page",     text |-> "nonascii", items |-> <<>>]
      [] shape = "frameset"     -> [skeleton |-> "frameset", text |-> "ascii",    items |-> <<>>]
      [] shape = "scriptbody"   -> [skeleton |-> "page", text |-> "ascii",
                                    items |-> << Item("head", "script", "bodytag"), Item("body", "script", "bodytag"),
                                                 Item("body", "script", "markuplike") >>]
      [] shape = "scripts"      -> [skeleton |-> "page", text |-> "ascii",
                                    items |-> << Item("head", "script", "src"), Item("body", "script", "entity"),
                                                 Item("body", "script", "src"), Item("body", "script", "markuplike") >>]
      [] shape = "noscripthead" -> [skeleton |-> "page", text |-> "nonascii",
                                    items |-> << Item("head", "noscript", "element") >>]                 \* the tracking pixel
      [] shape = "noscriptbody" -> [skeleton |-> "page", text |-> "ascii",
                                    items |-> << Item("body", "noscript", "textentity"), Item("body", "noscript", "element") >>]
      [] shape = "noscriptmeta" -> [skeleton |-> "page", text |-> "ascii",
                                    items |-> << Item("head", "noscript", "metaonly"), Item("body", "noscript", "entity") >>]
      [] shape = "rawtext"      -> [skeleton |-> "page", text |-> "ascii",
                                    items |-> << Item("head", "style", "markuplike"), Item("head", "title", "entity"),
                                                 Item("body", "textarea", "textentity"), Item("body", "xmp", "markuplike"),
                                                 Item("body", "iframe", "markuplike"), Item("body", "noembed", "textentity"),
                                                 Item("body", "script", "entity") >>]

HasBody(b) == Doc(b).skeleton # "frameset"             \* html.Parse synthesises html/head/body for everything else

RawText == {"script", "style", "xmp", "iframe", "noembed"}
RcData  == {"title", "textarea"}
HasReferences(content) == content \in {"entity", "textentity", "markuplike"}
\* what parse + AppendChild + Render does to one item, judged by a scripting browser reading the result:
\*   "preserved"     same element, same content
\*   "restructured"  head ended early: the content and everything after it in head now lives in body
\*   "reescaped"     character references were decoded by the parser and written back verbatim (&amp; -> &)
\*   "reserialised"  the content was parsed into elements and written back in the serialiser's spelling
Fate(it) ==
    IF it.el \in RawText \cup RcData THEN "preserved"
    ELSE IF it.el = "noscript" /\ ParseRule = "scripting" THEN "preserved"
    ELSE IF it.in = "head" /\ it.content \in {"element", "textentity", "entity"} THEN "restructured"
    ELSE IF HasReferences(it.content) THEN "reescaped"
    ELSE "reserialised"

-----------------------------------------------------------------------------
(* Content-Security-Policy. A response carries zero or more header LINES; each line is a comma-separated list
   of policies; a policy is a ;-separated list of directives; a directive is a name and sources. The browser
   enforces every policy of every line. Sources are abstract: a nonce source (symbolic name, the harness owns
   the concrete value) or anything else. `comma` marks a token to which parseNonce -- which splits on ";" and
   white space only -- leaves the policy separator attached.                                                *)
Nonce(n) == [kind |-> "nonce", n |-> n, comma |-> FALSE]
Other    == [kind |-> "other", n |-> "", comma |-> FALSE]
Dir(name, srcs) == [name |-> name, srcs |-> srcs]

PolFrame   == << Dir("frame-ancestors", <<Other>>) >>                                   \* a policy that says nothing about scripts
PolScript1 == << Dir("default-src", <<Other>>), Dir("script-src", <<Other, Nonce("N1")>>) >>  \* the nonce is the LAST token of the policy

CspLines(csp) ==
    CASE csp = "none"         -> <<>>
      [] csp = "scriptsrc"    -> << << << Dir("default-src", <<Other>>), Dir("img-src", <<Other>>),
                                          Dir("script-src", <<Other, Nonce("N1"), Other>>), Dir("style-src", <<Other, Nonce("S1")>>) >> >> >>
      [] csp = "several"      -> << << << Dir("script-src", <<Other, Nonce("N1"), Nonce("N2")>>), Dir("style-src", <<Nonce("S1")>>),
                                          Dir("object-src", <<Other>>) >> >> >>
      [] csp = "otheronly"    -> << << << Dir("default-src", <<Other>>), Dir("style-src", <<Other, Nonce("S1")>>), Dir("img-src", <<Other>>) >> >> >>
      [] csp = "nononce"      -> << << << Dir("default-src", <<Other>>), Dir("script-src", <<Other, Other, Other>>), Dir("connect-src", <<Other>>) >> >> >>
      [] csp = "afterother"   -> << << << Dir("style-src", <<Nonce("S1")>>), Dir("font-src", <<Other>>), Dir("script-src", <<Nonce("N1")>>) >> >> >>
      [] csp = "defaultfirst" -> << << << Dir("default-src", <<Other, Nonce("D1")>>), Dir("script-src", <<Other, Nonce("N1")>>) >> >> >>
      \* several header lines
      [] csp = "linesfirst"   -> << <<PolScript1>>, <<PolFrame>> >>      \* script nonce in the first line, another policy line after it
      [] csp = "linessecond"  -> << <<PolFrame>>, <<PolScript1>> >>      \* script nonce in the second line only
      \* one header line that is a comma-separated policy list (what intermediaries make of several lines)
      [] csp = "commafirst"   -> << <<PolScript1, PolFrame>> >>
      [] csp = "commasecond"  -> << <<PolFrame, PolScript1>> >>

RECURSIVE Concat(_)
Concat(ss) == IF ss = <<>> THEN <<>> ELSE Head(ss) \o Concat(Tail(ss))
Policies(csp) == Concat(CspLines(csp))                 \* every policy the browser enforces

NoncesOfSrcs(srcs) == {srcs[i].n : i \in {j \in 1..Len(srcs) : srcs[j].kind = "nonce"}}
PolicyScriptNonces(p) == UNION {NoncesOfSrcs(p[i].srcs) : i \in {j \in 1..Len(p) : p[j].name = "script-src"}}
\* the nonces a browser accepts for a script element: a nonce that every policy restricting scripts by nonce lists
ScriptNonces(csp) ==
    LET ps == Policies(csp)
        restricting == {i \in 1..Len(ps) : PolicyScriptNonces(ps[i]) # {}}
    IN  IF restricting = {} THEN {}
        ELSE {n \in UNION {PolicyScriptNonces(ps[i]) : i \in restricting} : \A i \in restricting : n \in PolicyScriptNonces(ps[i])}

NoNonce == [n |-> "", mangled |-> FALSE]
RECURSIVE FirstNonceSrcs(_)
FirstNonceSrcs(srcs) == IF srcs = <<>> THEN NoNonce
                        ELSE IF Head(srcs).kind = "nonce" THEN [n |-> Head(srcs).n, mangled |-> Head(srcs).comma]
                        ELSE FirstNonceSrcs(Tail(srcs))
\* parseNonce on one ;-separated directive list: the first nonce source of the first script-src directive that has one
RECURSIVE FirstNonceDirs(_)
FirstNonceDirs(dirs) == IF dirs = <<>> THEN NoNonce
                        ELSE LET r == IF Head(dirs).name = "script-src" THEN FirstNonceSrcs(Head(dirs).srcs) ELSE NoNonce
                             IN  IF r # NoNonce THEN r ELSE FirstNonceDirs(Tail(dirs))
\* what the text of a comma-separated policy list looks like to code that splits on ";" and white space only: the
\* comma sticks to the last source of a policy, and the next policy's first directive (name and sources) becomes
\* further sources of that policy's last directive
MarkComma(srcs) == [i \in 1..Len(srcs) |-> IF i = Len(srcs) THEN [srcs[i] EXCEPT !.comma = TRUE] ELSE srcs[i]]
RECURSIVE FlattenNoCommaSplit(_)
FlattenNoCommaSplit(pols) ==
    IF Len(pols) = 1 THEN pols[1]
    ELSE LET p == pols[1]
             rest == FlattenNoCommaSplit(Tail(pols))
             merged == Dir(p[Len(p)].name, MarkComma(p[Len(p)].srcs) \o <<Other>> \o rest[1].srcs)
         IN  SubSeq(p, 1, Len(p) - 1) \o <<merged>> \o Tail(rest)
RECURSIVE FirstNoncePolicies(_)
FirstNoncePolicies(pols) == IF pols = <<>> THEN NoNonce
                            ELSE IF FirstNonceDirs(Head(pols)) # NoNonce THEN FirstNonceDirs(Head(pols))
                            ELSE FirstNoncePolicies(Tail(pols))
\* CspRule "firstline": as coded -- r.Header.Get (first header line only) handed to parseNonce as one policy;
\*         "policylist": repaired -- every policy of every line is looked at
ParseNonce(csp) ==
    LET lines == CspLines(csp) IN
    IF lines = <<>> THEN NoNonce
    ELSE IF CspRule = "firstline" THEN FirstNonceDirs(FlattenNoCommaSplit(lines[1]))
    ELSE FirstNoncePolicies(Policies(csp))
\* the branch of the nonce extraction an exchange goes through (root-cause attribution)
NonceBranch(csp) ==
    LET r == ParseNonce(csp) IN
    CASE CspLines(csp) = <<>>                -> "ParseNonce.NoPolicy"
      [] ScriptNonces(csp) = {}              -> "ParseNonce.NoScriptNonce"
      [] r.mangled                           -> "ParseNonce.CommaJoinedPolicies"
      [] r = NoNonce /\ FirstNoncePolicies(CspLines(csp)[1]) # NoNonce -> "ParseNonce.CommaJoinedPolicies"
      [] r = NoNonce                         -> "ParseNonce.OnlyFirstHeaderLine"
      [] OTHER                               -> "ParseNonce.Found"

\* nothing travels on the wire after the headers: the answer to a HEAD request, a 204
Bodyless == cfg.method = "HEAD" \/ cfg.status # "200"
NoBodyLabel(what) == (IF cfg.method = "HEAD" THEN "Head." ELSE "NoBodyStatus.") \o what

Init ==
    \* GET with lower-case content types: the full product; HEAD (no body on the wire, whatever document the GET would
    \* return) and the other spellings of text/html: crossed with everything the decision depends on, two CSP shapes,
    \* one document
    /\ cfg \in [method : {"GET"}, status : {"200"}, ct : ContentTypes \ {"htmlcase"}, enc : Encodings, req : Requests, skip : BOOLEAN,
                 csp : Csps, body : Bodies, accept : Accepts]
            \cup [method : {"HEAD"}, status : {"200"}, ct : ContentTypes, enc : Encodings, req : Requests, skip : BOOLEAN,
                  csp : {"none", "scriptsrc"}, body : {"full", "empty"}, accept : Accepts]
            \cup [method : {"GET"}, status : {"200"}, ct : {"htmlcase"}, enc : Encodings, req : Requests, skip : BOOLEAN,
                  csp : {"none", "scriptsrc"}, body : {"full"}, accept : Accepts]
            \* answers whose status code excludes a body (the upstream declares no length)
            \cup [method : {"GET"}, status : {"204"}, ct : ContentTypes \ {"htmlcase"}, enc : Encodings, req : Requests,
                  skip : BOOLEAN, csp : {"none"}, body : {"full"}, accept : {"browser"}]
    /\ hdr = [status |-> "ok", ct |-> cfg.ct, enc |-> cfg.enc, skip |-> cfg.skip, csp |-> cfg.csp, cl |-> IF cfg.status = "200" THEN "match" ELSE "absent"]
    /\ body = [doc |-> cfg.body, items |-> [i \in 1..Len(Doc(cfg.body).items) |-> "backend"], inserted |-> 0, nonce |-> NoNonce, coding |-> cfg.enc,
               bytes |-> IF Bodyless THEN "nobody" ELSE "backend"]
    /\ pc = "transport"
    /\ path = <<>>

Go(next, what) == pc' = next /\ path' = Append(path, what)

Transport ==
    /\ pc = "transport"
    /\ IF cfg.accept = "absent" /\ hdr.enc = "gzip" /\ ~Bodyless     \* (nothing to decode without a body)
       THEN /\ hdr' = [hdr EXCEPT !.enc = "none", !.cl = "absent"]
            /\ body' = [body EXCEPT !.coding = "none", !.bytes = "gunzipped"]
            /\ Go("mark", "Transport.TransparentGunzip")
       ELSE /\ UNCHANGED <<hdr, body>> /\ Go("mark", "Transport.AsIs")
    /\ UNCHANGED cfg

MarkHtmx ==
    /\ pc = "mark"
    /\ IF cfg.req = "htmx"
       THEN hdr' = [hdr EXCEPT !.skip = TRUE] /\ Go("decide", "MarkHtmx.Marked")
       ELSE UNCHANGED hdr /\ Go("decide", "MarkHtmx.NotHtmx")
    /\ UNCHANGED <<cfg, body>>

Decide ==
    /\ pc = "decide"
    /\ CASE cfg.method = "HEAD" /\ HeadRule = "pass" -> Go("deliver", "Decide.HeadPasses")
         [] cfg.method # "HEAD" /\ cfg.status # "200" /\ StatusRule = "pass" -> Go("deliver", "Decide.NoBodyStatusPasses")
         [] OTHER ->
       CASE hdr.skip -> Go("deliver", "Decide.SkipMarker")
         [] ~hdr.skip /\ ~GateHtml(hdr.ct) ->
                Go("deliver", IF IsHtml(hdr.ct) THEN "Decide.NotHtml.CaseSensitivePrefix" ELSE "Decide.NotHtml")
         [] ~hdr.skip /\ GateHtml(hdr.ct) /\ hdr.enc = "unsupported" ->
                IF UnsupportedRule = "pass" THEN Go("deliver", "Decide.UnsupportedEncodingPasses")
                ELSE Go("decode", "Decide.UnsupportedEncodingFallsThrough")
         [] OTHER -> Go("decode", "Decide.Rewrite")
    /\ UNCHANGED <<cfg, hdr, body>>

\* gzip / br: real decoder; none: identity; unsupported (as coded): identity reader over encoded bytes
Decode ==
    /\ pc = "decode"
    /\ IF Bodyless /\ hdr.enc = "gzip"
       THEN \* gzip.NewReader on the empty body of a HEAD response: EOF; modifyResponse returns the error and
            \* ReverseProxy answers 502 Bad Gateway
            /\ hdr' = [hdr EXCEPT !.status = "badgateway", !.cl = "absent"]
            /\ UNCHANGED body /\ Go("deliver", NoBodyLabel("GzipReaderFailsOnEmptyBody"))
       ELSE /\ UNCHANGED hdr
            /\ IF hdr.enc \in {"gzip", "br"} /\ ~Bodyless
               THEN body' = [body EXCEPT !.coding = "none", !.bytes = "decoded"] /\ Go("insert", "Decode." \o hdr.enc)
               ELSE UNCHANGED body /\ Go("insert", "Decode.Identity")
    /\ UNCHANGED cfg

Insert ==
    /\ pc = "insert"
    /\ IF Bodyless
       THEN \* nothing on the wire: the empty text parses to html/head/body, the script goes into that synthetic page
            /\ body' = [body EXCEPT !.bytes = "synthetic", !.inserted = 1, !.nonce = ParseNonce(hdr.csp)]
            /\ Go("encode", NoBodyLabel("ScriptIntoSyntheticDocument"))
       ELSE IF body.coding # "none"
       THEN \* encoded bytes parsed as if they were HTML: whatever comes out is not the document any more
            /\ body' = [body EXCEPT !.bytes = "mangled", !.inserted = 1, !.nonce = ParseNonce(hdr.csp)]
            /\ pc' = "encode" /\ path' = path \o <<"Insert.IntoEncodedBytes", NonceBranch(hdr.csp)>>
       ELSE IF HasBody(body.doc)
            THEN /\ body' = [body EXCEPT !.bytes = "rendered", !.inserted = 1, !.nonce = ParseNonce(hdr.csp),
                                          !.items = [i \in DOMAIN @ |-> Fate(Doc(body.doc).items[i])]]
                 /\ pc' = "encode"
                 /\ path' = path \o <<"Parse." \o ParseRule, "Insert.AppendedToBody", NonceBranch(hdr.csp)>>
            ELSE /\ UNCHANGED body /\ Go("encode", "Insert.BodyNotFound")
    /\ UNCHANGED <<cfg, hdr>>

Encode ==
    /\ pc = "encode"
    /\ IF hdr.enc \in {"gzip", "br"}
       THEN body' = [body EXCEPT !.coding = hdr.enc, !.bytes = IF @ = "decoded" THEN "recoded" ELSE @]
            /\ Go("length", "Encode." \o hdr.enc)
       ELSE UNCHANGED body /\ Go("length", "Encode.Identity")
    /\ hdr' = [hdr EXCEPT !.cl = IF body'.bytes = "backend" THEN @ ELSE "stale"]
    /\ UNCHANGED cfg

SetLength ==
    /\ pc = "length"
    /\ IF LengthRule = "set"
       THEN hdr' = [hdr EXCEPT !.cl = IF Bodyless THEN "synthetic" ELSE "match",   \* HEAD: the length of a page nobody serves
                              \* 204: net/http refuses the body ReverseProxy then copies and the exchange is aborted
                              !.status = IF cfg.status # "200" THEN "aborted" ELSE @]
       ELSE UNCHANGED hdr
    /\ Go("deliver", IF cfg.status # "200" THEN "NoBodyStatus.BodyWrittenToBodylessStatus" ELSE "SetLength")
    /\ UNCHANGED <<cfg, body>>

Deliver ==
    /\ pc = "deliver"
    /\ Go("done", "Deliver")
    /\ UNCHANGED <<cfg, hdr, body>>

Next == Transport \/ MarkHtmx \/ Decide \/ Decode \/ Insert \/ Encode \/ SetLength \/ Deliver
Spec == Init /\ [][Next]_vars

-----------------------------------------------------------------------------
(* the property, on the response the client receives *)
Done == pc = "done"

\* which exchanges C20 says must pass through
Get == ~Bodyless
MustPass == \/ ~IsHtml(cfg.ct) \/ cfg.enc = "unsupported" \/ cfg.req = "htmx" \/ cfg.skip

\* the bytes are the backend's; the only tolerated difference is the Go transport's own transparent gunzip
\* for a client that did not ask for any encoding (then the header must say so)
Untouched == /\ body.inserted = 0
             /\ \/ body.bytes = "backend" /\ hdr.enc = cfg.enc /\ body.coding = cfg.enc
                \/ body.bytes = "gunzipped" /\ cfg.accept = "absent" /\ cfg.enc = "gzip" /\ hdr.enc = "none"

PassThroughIsIdentity == (Done /\ Get /\ MustPass) => (Untouched /\ hdr.ct = cfg.ct /\ hdr.csp = cfg.csp)

HtmlGetsExactlyOneScript ==
    (Done /\ Get /\ ~MustPass) =>
        /\ body.doc = cfg.body /\ body.bytes # "mangled"
        /\ body.inserted = (IF HasBody(cfg.body) THEN 1 ELSE 0)
        /\ body.inserted = 1 => (IF ScriptNonces(cfg.csp) = {} THEN body.nonce = NoNonce
                                 ELSE ~body.nonce.mangled /\ body.nonce.n \in ScriptNonces(cfg.csp))

\* C20 "the same document": apart from the appended script nothing a scripting browser reads has changed -- in
\* particular the content of every element that is not ordinary markup (raw text, RCDATA, noscript) is what it was
DocumentOnlyAppendedTo ==
    (Done /\ Get /\ ~MustPass) => \A i \in DOMAIN body.items : body.items[i] \in {"backend", "preserved"}

LengthMatchesBody == (Done /\ Get) => (hdr.cl = "match" \/ (hdr.cl = "absent" /\ body.bytes = "gunzipped"))

\* C20 for a response without body (HEAD, 204): there is nothing to append the script to, so nothing may change -- the status,
\* the declared length (that of the resource), the encoding and type headers are the upstream's
HeadIsUntouched ==
    (Done /\ ~Get) => (hdr.status = "ok" /\ hdr.cl = (IF cfg.status = "200" THEN "match" ELSE "absent") /\ hdr.enc = cfg.enc /\ hdr.ct = cfg.ct /\ body.inserted = 0)

EncodingHeaderDescribesBody == (Done /\ Get) => (hdr.enc = body.coding /\ body.bytes # "mangled")

TypeOK == /\ pc \in {"transport", "mark", "decide", "decode", "insert", "encode", "length", "deliver", "done"}
          /\ body.inserted \in {0, 1}

\* every terminal state = one configuration with the response the spec predicts for it
EmitCase == (EmitCases /\ Done) =>
    PrintT(<<"CASE", ToJson([cfg |-> cfg, path |-> path, mustpass |-> MustPass, inserted |-> body.inserted,
                             nonce |-> body.nonce, nonces |-> ScriptNonces(cfg.csp), csplines |-> CspLines(cfg.csp), doc |-> Doc(cfg.body), fates |-> body.items, enc |-> hdr.enc, cl |-> hdr.cl,
                             status |-> hdr.status, bytes |-> body.bytes])>>)
=============================================================================
