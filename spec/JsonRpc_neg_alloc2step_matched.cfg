\* C18 conn: NEGATIVE: two-step id allocation, consequence -- must violate Matched (a call returns the response to the other call's request).
CONSTANTS
  NC = 2
  NN = 0
  MaxPN = 0
  MaxPC = 0
  MaxStray = 0
  UseWriteMu = TRUE
  ChanCap = 1
  RegisterFirst = TRUE
  AtomicAlloc = FALSE
  IdDecode = "strict"
  IdVocab = "small"
  KindShift = 0
  NullResult = "ok"
INIT Init
NEXT Next
INVARIANTS TypeOK Matched
CHECK_DEADLOCK FALSE
