---------------------------- MODULE SinksJsCases ----------------------------
(* C03 -- concrete cases for replay on the real code (GEN) and validation of real outputs (VAL).

   GEN: the automaton of SinksJs with the input STORED and bounded: every string of up to MaxTok tokens
   over the JS/HTML-adversarial token alphabet, and structured values (TLC-chosen shape x leaves). For
   every case TLC computes, per JavaScript position, the bytes the model predicts, the cooked value the
   JS lexer recovers and the first C03 clause the model sees violated (none, for a correct escaper).
   VAL: outputs recorded from the real code (abstracted to symbols) are pushed through the SAME consumer
   (ConsumeAll) and the same clauses are evaluated on them.                                         *)
EXTENDS SinksJs

CONSTANTS GenTokens,   \* sequence of tokens (each a sequence of symbols)
          LeafTokens,  \* tokens used as string leaves of structured values
          KeyTokens,   \* tokens used as map keys
          MaxTok,
          UnencMode    \* what the call encoders do with an argument json.Marshal rejects: "empty" as coded (the error is
                       \* ignored, nothing is written: fn(,1)); negative: "goquote" (strconv.Quote of the value's text form)

VARIABLES inp, kind
cvars == <<inp, kind>>

-----------------------------------------------------------------------------
(* whole-value runs *)
Verdict(p, c, ok, left) ==
    CASE c.h = <<"END">> -> "StaysInScript"
      [] c.h = <<"ESC">> -> "NoHtmlComment"
      [] c.j.m = "INTERP" -> "NoInterpolation"
      [] c.j.m # "top" \/ left -> "StaysInLiteral"
      [] ~ok -> "DecodesToInput"
      [] OTHER -> ""

\* consume a complete dynamic output (value incl. the encoder's quotes) followed by the author's closing quote
ConsumeAll(p, out) ==
    LET q2 == IF PosDef(p).mode # "top" THEN <<JsQuoteOf(PosDef(p).mode)>> ELSE <<>>
    IN  Consume(p, CsInit(p), out \o q2)

\* JSON text of a string value, as symbols
JsonString(s) == <<DQ>> \o JsMap(LAMBDA x : JsJsonV(JsonVariant, x), s) \o <<DQ>>

\* the position's model variant for a value: a non-string value in a literal position takes the json path
PosFor(p0, isString) == IF ~isString /\ p0 \in {"InSQ", "InDQ", "InTpl"} THEN p0 \o "j" ELSE p0

\* judge a complete dynamic output `out` (predicted or REAL) for a value with raw string / JSON text jt
Judge(p, raw, jt, isString, out) ==
    LET d == PosDef(p)
        useRaw == isString /\ d.stages = <<"jsstr">>
        \* the dynamic output, then the author's closing quote
        r1 == Consume(p, CsInit(p), out)
        r2 == Consume(p, r1.cs, IF d.mode # "top" THEN <<JsQuoteOf(d.mode)>> ELSE <<>>)
        r == [cs |-> r2.cs, d |-> r1.d \o r2.d, t |-> r1.t \o r2.t]
        \* a value written inside the author's literal must not leave it before the author's closing quote
        left == d.mode # "top" /\ r1.top
        \* what the consumer must recover: the string itself where a JS string results, else the JSON text
        exp == IF useRaw THEN NormSeq(raw)
               ELSE IF d.expect = "json" THEN NormSeq(jt)
               ELSE IF isString THEN NormSeq(raw) ELSE <<>>
        decoded == NormSeq(r.d)
        \* a non-string value in a code position: the JS engine must receive exactly the JSON text of the value
        \* a string in a code position: what the engine receives is one double-quoted literal (and it cooks to the string)
        quoted == Len(r.t) >= 2 /\ r.t[1] = DQ /\ r.t[Len(r.t)] = DQ
        ok == IF ~isString /\ d.expect # "json" THEN NormSeq(r.t) = NormSeq(jt)
              ELSE decoded = exp /\ (isString /\ d.mode = "top" => quoted)
    IN  [dec |-> decoded, viol |-> Verdict(p, r.cs, ok, left)]

\* model prediction (string values in non-json literal positions: raw goes through the table; else the JSON text)
Predict(sv, p, raw, jt, isString) ==
    LET d == PosDef(p)
        useRaw == isString /\ d.stages = <<"jsstr">>
        out == IF useRaw THEN ChainV(sv, d.stages, raw) ELSE ChainV(sv, Tail(d.stages), jt)
        jg == Judge(p, raw, jt, isString, out)
    IN  [pos |-> p, out |-> out, dec |-> jg.dec, viol |-> jg.viol]

PredictAll(raw, jt, isString) ==
    LET ps == <<"Bare", "InSQ", "InDQ", "InTpl", "OnAttr", "Inline", "JsonBody">> IN
    [i \in 1..Len(ps) |->
        LET p0 == ps[i]
            p == PosFor(p0, isString)
            a == Predict(StrVariant, p, raw, jt, isString)
            b == Predict("dollar", p, raw, jt, isString)
        IN  [a EXCEPT !.pos = p0] @@
            [sig |-> IF a.viol = "" THEN ""
                     ELSE IF a.viol = "NoInterpolation" /\ b.viol = "" /\ p \in {"InTpl", "InTplj"} /\ StrVariant = "pinned"
                          THEN "JsStr.NoDollarEntry.InTemplate"       \* admitted only because the table has no '$' entry
                          ELSE a.viol \o "." \o p0]]

-----------------------------------------------------------------------------
(* structured values: trees *)
TStr(s) == [k |-> "str", s |-> s]
TLit(w) == [k |-> "lit", s |-> w]                       \* number / true / false / null, spelled as symbols
TArr(items) == [k |-> "arr", items |-> items]
TObj(key, v) == [k |-> "obj", s |-> key, items |-> <<v>>]      \* map[string]any with one (adversarial) key
TStruct(a, b) == [k |-> "struct", items |-> <<a, b>>]
(* Go CARRIERS of a value or of a leaf: the property quantifies over every Go value, so how the value is carried must not
   matter -- it arrives as data and equals the JSON encoding of the plain value:
     "ptr"        a pointer to it                      "named"      a named string type (type S string)
     "raw"        json.RawMessage holding its JSON text as a non-HTML-escaping encoder wrote it
     "marshaler"  a type whose MarshalJSON returns that text                                               *)
TCar(c, t) == [k |-> "carrier", s |-> <<c>>, items |-> <<t>>]
Carriers == <<"ptr", "named", "raw", "marshaler">>   \* struct{ A any `json:"a"`; B any `json:"b"` }

RECURSIVE JoinComma(_)
JoinComma(ss) == IF ss = <<>> THEN <<>> ELSE IF Len(ss) = 1 THEN ss[1] ELSE ss[1] \o <<",">> \o JoinComma(Tail(ss))
RECURSIVE JsonText(_)
JsonText(t) ==
    CASE t.k = "str" -> JsonString(t.s)
      [] t.k = "lit" -> t.s
      [] t.k = "arr" -> <<"[">> \o JoinComma([i \in 1..Len(t.items) |-> JsonText(t.items[i])]) \o <<"]">>
      [] t.k = "obj" -> <<"{">> \o JsonString(t.s) \o <<":">> \o JsonText(t.items[1]) \o <<"}">>
      [] t.k = "carrier" -> JsonText(t.items[1])
      [] t.k = "struct" -> <<"{", DQ, "a", DQ, ":">> \o JsonText(t.items[1]) \o <<",", DQ, "b", DQ, ":">> \o JsonText(t.items[2]) \o <<"}">>

Lits == { <<"0">>, <<"-","1",".","5">>, <<"1","2","3","4","5","6","7","8","9","0","1">>,
          <<"t","r","u","e">>, <<"f","a","l","s","e">>, <<"n","u","l","l">> }
Leaves == {TStr(LeafTokens[i]) : i \in 1..Len(LeafTokens)} \cup {TLit(w) : w \in Lits}

Shapes(a, b, key) == << TArr(<<a>>), TArr(<<a, b>>), TObj(key, a), TStruct(a, b),
                        TArr(<<TArr(<<a>>), TObj(key, TArr(<<b>>))>>), TObj(key, TStruct(TArr(<<b, a>>), a)), a >>
NShapes == 7

-----------------------------------------------------------------------------
RECURSIVE FlatTok(_)
FlatTok(ts) == IF ts = <<>> THEN <<>> ELSE GenTokens[Head(ts)] \o FlatTok(Tail(ts))

CInit == /\ inp = <<>> /\ kind = "root"
         /\ pos = "Bare" /\ phase = "pre" /\ cs = CsInit("Bare") /\ decok = TRUE
         /\ lbl = [op |-> "init"]

\* one more token of a string value
CFeed(t) == /\ kind \in {"root", "str"}
            /\ Len(inp) < MaxTok
            /\ inp' = Append(inp, t)
            /\ kind' = "str"
            /\ LET raw == FlatTok(inp') IN
               lbl' = [op |-> "string", raw |-> raw, preds |-> PredictAll(raw, JsonString(raw), TRUE)]
            /\ UNCHANGED vars

\* a structured value: first the shape and the map key (an intermediate state, so that TLC's workers share
\* the leaf enumeration), then the two leaves (terminal)
CShape(i, key) == /\ kind = "root"
                  /\ inp' = <<i, key>> /\ kind' = "shape"
                  /\ lbl' = [op |-> "shape"]
                  /\ UNCHANGED vars
CLeaves(a, b) ==
            /\ kind = "shape"
            /\ inp' = inp /\ kind' = "val"
            /\ LET t == Shapes(a, b, KeyTokens[inp[2]])[inp[1]]
                   jt == JsonText(t)
               IN lbl' = [op |-> "value", tree |-> t, json |-> jt,
                          preds |-> PredictAll(<<>>, jt, FALSE)]
            /\ UNCHANGED vars

\* a carried string: carrier x where it sits x the string (every token of the adversarial alphabet and every leaf)
CarrierStrings == [i \in 1..(Len(GenTokens) + Len(LeafTokens)) |-> IF i <= Len(GenTokens) THEN GenTokens[i] ELSE LeafTokens[i - Len(GenTokens)]]
CarrierPlaces(c, leaf) == << TCar(c, leaf), TArr(<<TCar(c, leaf)>>), TStruct(TCar(c, leaf), TLit(<<"0">>)), TObj(<<"a">>, TCar(c, leaf)),
                            TCar(c, TArr(<<leaf>>)) >>
CCarrier(c, w, i) ==
            /\ kind = "root"
            /\ ~(Carriers[c] = "named" /\ w = 5)            \* the named type is a string type
            /\ inp' = <<c, w, i>> /\ kind' = "car"
            /\ LET t == CarrierPlaces(Carriers[c], TStr(CarrierStrings[i]))[w]
                   jt == JsonText(t)
               IN lbl' = [op |-> "value", tree |-> t, json |-> jt, preds |-> PredictAll(<<>>, jt, FALSE)]
            /\ UNCHANGED vars

(* argument VALUE KINDS json.Marshal rejects (SafeScript / SafeScriptInline / JSFuncCall: attribute form and inline form):
   NaN, +Inf, -Inf, a struct holding NaN next to a string field, a type whose MarshalJSON fails with a text. Such a value
   has no JSON encoding, so nothing is claimed about what arrives -- but it must not end the script element, the
   attribute or open a comment, whatever text it carries.                                                         *)
UnencKinds == <<"nan", "posinf", "neginf", "struct_nan_text", "failing_marshaler">>
GoQuote(c) == CASE c = DQ -> <<BSL, DQ>> [] c = BSL -> <<BSL, BSL>> [] c = "LF" -> <<BSL, "n">> [] c = "CR" -> <<BSL, "r">>
                [] c = "TAB" -> <<BSL, "t">> [] OTHER -> <<c>>           \* Go quoting leaves < > & alone
UnencOut(u, text) == IF UnencMode = "empty" THEN <<>>
                     ELSE <<DQ, "{">> \o JsMap(GoQuote, text) \o <<"}", DQ>>
PredictUnenc(p, u, text) ==
    LET out == ChainV(StrVariant, Tail(PosDef(p).stages), UnencOut(u, text))
        r == ConsumeAll(p, out)
        v == Verdict(p, r.cs, TRUE, FALSE)
    IN  [pos |-> p, out |-> out, dec |-> <<>>, viol |-> v, sig |-> IF v = "" THEN "" ELSE v \o "." \o p]
CUnenc(u, i) ==
            /\ kind = "root"
            /\ inp' = <<u, i>> /\ kind' = "unenc"
            /\ LET text == IF UnencKinds[u] \in {"struct_nan_text", "failing_marshaler"} THEN CarrierStrings[i] ELSE <<>> IN
               lbl' = [op |-> "unenc", tree |-> [k |-> "unenc", u |-> UnencKinds[u], s |-> text, items |-> <<>>],
                       json |-> <<>>, preds |-> <<PredictUnenc("OnAttr", u, text), PredictUnenc("Inline", u, text)>>]
            /\ UNCHANGED vars

CNext == \/ \E u \in 1..Len(UnencKinds), i \in 1..(Len(GenTokens) + Len(LeafTokens)) : CUnenc(u, i)
         \/ \E t \in 1..Len(GenTokens) : CFeed(t)
         \/ \E i \in 1..NShapes, key \in 1..Len(KeyTokens) : CShape(i, key)
         \/ \E a \in Leaves, b \in Leaves : CLeaves(a, b)
         \/ \E c \in 1..Len(Carriers), w \in 1..5, i \in 1..(Len(GenTokens) + Len(LeafTokens)) : CCarrier(c, w, i)

CView == <<inp, kind>>
\* every prediction of a repaired model is clean; with the pinned table only the known signature may appear
PredictionsClean == lbl.op \in {"string", "value", "unenc"} =>
    \A i \in 1..Len(lbl.preds) : lbl.preds[i].sig \in {"", "JsStr.NoDollarEntry.InTemplate"}
CEmit == IF lbl'.op \in {"string", "value", "unenc"} THEN PrintT(<<"CASE", ToJson(lbl')>>) ELSE TRUE
=============================================================================
