\* C19 code as written at the pinned commit (close on exit): TLC must reject NoPanic.
CONSTANTS
  Clients = {"c1", "c2"}
  NB = 2
  Design = "close"
  MaxPings = 1
  PingFirst = FALSE
  NoRaces = FALSE
  ServerCuts = FALSE
  Slow = {"c1"}
  EmitEdges = FALSE
SPECIFICATION Spec
VIEW View
INVARIANTS TypeOK RegistryExact NoPanic BroadcasterNeverBlocks OthersUnaffected NoLeak SpawnedAreTargets DeliveredAtQuiescence
CHECK_DEADLOCK FALSE
