----------------------------- MODULE MCSinksJs -----------------------------
(* Model-checking instance of SinksJs (C03): all positions. *)
EXTENDS SinksJs
PositionsDef == AllPositions
=============================================================================
