---------------------------- MODULE TraceHtmlTok ----------------------------
(* Cross-validation of the shared tokenizer model HtmlTok.tla against golang.org/x/net/html (the second key
   of the sink properties): the harness tokenises seeded random adversarial documents with x/net/html and logs
     [id, doc, evs]   doc = the document's symbols, evs = x/net/html's tokens in HtmlTok's event vocabulary.
   This spec runs PreStep + Step over doc and requires the SAME event stream.  Differences between the two
   that are not about token boundaries are normalised on both sides:
     * the self-closing flag of "te" is ignored (x/net/html looks at the raw text "/>");
     * attributes of END tags are dropped (x/net/html does not report them);
     * DOCTYPE internals ("dc") are dropped;
     * comment CONTENT ("cc") is dropped, comment boundaries are compared (x/net/html's Text() decodes
       character references inside comments, the standard does not);
     * x/net/html reports "</>" as an empty comment, the standard emits nothing: dropped on its side.
   A disagreement means the two keys of C01/C03/C04/C05 are inconsistent: the check exits 2.           *)
EXTENDS HtmlTok, Json
LOCAL INSTANCE SequencesExt

Trace == ndJsonDeserialize("trace.ndjson")

VARIABLES i, fails
vars == <<i, fails>>

\* acc: q tokenizer, p CR flag, out normalised events so far, inEnd: inside an end tag token
Norm(acc, evs) ==
    LET step(a, e) ==
          IF e.k = "eo" THEN [a EXCEPT !.out = Append(a.out, e), !.inEnd = TRUE]
          ELSE IF e.k = "te" THEN [a EXCEPT !.out = Append(a.out, [k |-> "te", c |-> 0]), !.inEnd = FALSE]
          ELSE IF e.k = "dc" \/ e.k = "cc" THEN a
          ELSE IF a.inEnd /\ e.k \in {"ao", "an", "av"} THEN a
          ELSE [a EXCEPT !.out = Append(a.out, e)]
    IN  FoldLeft(step, acc, evs)
Op(acc, c) ==
    LET pr == PreStep(acc.p, c) IN
    IF pr.out = <<>> THEN [acc EXCEPT !.p = pr.p]
    ELSE LET r == Step(acc.q, pr.out[1]) IN
         Norm([acc EXCEPT !.q = r.q, !.p = pr.p], r.out)
Tokenise(doc) == FoldLeft(Op, [q |-> InitTok, p |-> FALSE, out |-> <<>>, inEnd |-> FALSE], doc)

FirstDiff(a, b) ==
    LET n == IF Len(a) < Len(b) THEN Len(a) ELSE Len(b)
        d == {j \in 1..n : a[j] # b[j]}
    IN  IF d = {} THEN n + 1 ELSE CHOOSE j \in d : \A k \in d : j <= k

Verdict(t) ==
    LET r == Tokenise(t.doc) IN
    IF ~AtRest(r.q) THEN [v |-> "not-at-rest", at |-> 0, st |-> r.q.s, spec |-> <<>>, other |-> <<>>]
    ELSE IF r.out = t.evs THEN [v |-> "ok", at |-> 0, st |-> "", spec |-> <<>>, other |-> <<>>]
    ELSE LET d == FirstDiff(r.out, t.evs) IN
         [v |-> "differ", at |-> d, st |-> "",
          spec |-> SubSeq(r.out, d, IF d + 3 < Len(r.out) THEN d + 3 ELSE Len(r.out)),
          other |-> SubSeq(t.evs, d, IF d + 3 < Len(t.evs) THEN d + 3 ELSE Len(t.evs))]

Init == i = 1 /\ fails = <<>>
Next == /\ i <= Len(Trace)
        /\ LET r == Verdict(Trace[i]) IN
           fails' = IF r.v = "ok" THEN fails ELSE Append(fails, [id |-> Trace[i].id, why |-> r.v, at |-> r.at, st |-> r.st, spec |-> r.spec, other |-> r.other])
        /\ i' = i + 1
        /\ (i = Len(Trace) => PrintT(<<"DONE", ToJson([consumed |-> i, fails |-> fails'])>>))
Spec == Init /\ [][Next]_vars
AllConsumed == TLCGet("stats").distinct = Len(Trace) + 1
=============================================================================
