\* C10 negative configs: Bug is replaced by each seeded defect; TLC must reject every one of them.
CONSTANTS
  Caps = {2}
  ProgSet <- AllProgs
  MaxOps = 2
  MaxDepth = 2
  LitSizes = {3}
  ExprSizes = {1}
  XKinds = {3}
  HandKinds = {1}
  SideKs = {0, 1, 3}
  LeafSizes = {2}
  Runs = 2
  Modes <- AllModes
  Pairs = FALSE
  SWs <- BothSW
  SameWriter = FALSE
  PoolAny = TRUE
  Bug = "noreset"
  Emit = FALSE
INIT Init
NEXT Next
VIEW View
INVARIANTS TypeOK Prefix NilMeansComplete FaultMeansError LaterRendersUnaffected NoCarryOver OneOwnerFlushes FailStop PrintCase
CHECK_DEADLOCK FALSE
