\* C16 design check: with the repaired HasChanged (code hash) the running program is always faithful.
CONSTANTS
  MaxItems = 2
  Choices <- ChoicesFull
  ChangeRule = "codehash"
  TextHashRule = "joined"
  MaxEdits = 3
  EmitEdges = FALSE
INIT Init
NEXT Next
VIEW View
INVARIANTS TypeOK TextFileCurrent NoRebuildMeansFaithful DevEqualsNormal RenderNeverFails
CHECK_DEADLOCK FALSE
