\* C10 bytes.Buffer pool, negative configs (Bug = Put without Reset on ToGoHTML's error path / ReleaseBuffer without
\* Reset): TLC must reject each by NoCarryOver alone (the auxiliary PooledBuffersAreEmpty is deliberately not listed).
CONSTANTS
  Entries = {"gohtml", "handler"}
  Kinds = {"func"}
  DocLens = {2}
  Runs = 2
  PoolAny = TRUE
  Bug = "gohtml_err_put_noreset"
  Emit = FALSE
INIT Init
NEXT Next
VIEW View
INVARIANTS TypeOK NoCarryOver
CHECK_DEADLOCK FALSE
