\* C15 negative config: errs closed when the events are drained (before the workers finish) must violate NoPanic.
CONSTANTS
  MaxFiles = 2
  Trees <- TreesNeg
  Ws = {2}
  FlagSets <- AllFlags
  Mutex = TRUE
  ErrsCloser = "dispatcher"
  MainReadsErrs = TRUE
  GenVariants = {1}
  SlotRelease = "deferred"
  TargetRule = "trimsuffix"
  WalkRule = "filesonly"
  OrphanStat = "fileonly"
  RootRule = "exempt"
  RootTrees <- TreesRoot
  SkipRule = "coded"
  TwoRuns = FALSE
  EmitCases = FALSE
INIT Init
NEXT Next
VIEW View
INVARIANTS TypeOK SiblingEqualsSoloGeneration OrphansGoneUnlessKept NothingElseTouched ExitStatusIffSomeFileFailed FailureIsolated SecondRunChangesNothing AtMostWWorkers EachEventOnce NoPanic NoDataRace WaitGroupOK
