----------------------------- MODULE MCSinksCss -----------------------------
(* Model-checking instance of SinksCss (C05). *)
EXTENDS SinksCss
ClassesDef == AllClasses
ContextsDef == AllContexts
NoExtra == {}
SemicolonExtra == {";"}
=============================================================================
