package sinklib

import (
	"strings"

	"golang.org/x/net/html"
)

// Events renders golang.org/x/net/html's token stream of doc in the event vocabulary of
// spec/HtmlTok.tla (normalised as TraceHtmlTok.tla describes: no end-tag attributes, no DOCTYPE
// internals, no comment content, self-closing flag dropped).
func (t *Table) Events(doc string) []SpecEvent {
	z := html.NewTokenizer(strings.NewReader(doc))
	var out []SpecEvent
	run := func(kind, s string) {
		for _, c := range t.Syms(s) {
			out = append(out, SpecEvent{kind, c})
		}
	}
	for {
		tt := z.Next()
		switch tt {
		case html.ErrorToken:
			return out
		case html.TextToken:
			run("ch", string(z.Text()))
		case html.StartTagToken, html.SelfClosingTagToken:
			name, more := z.TagName()
			out = append(out, SpecEvent{"so", -1})
			run("tn", string(name))
			for more {
				var k, v []byte
				k, v, more = z.TagAttr()
				out = append(out, SpecEvent{"ao", -1})
				run("an", string(k))
				run("av", string(v))
			}
			out = append(out, SpecEvent{"te", 0})
		case html.EndTagToken:
			name, _ := z.TagName()
			out = append(out, SpecEvent{"eo", -1})
			run("tn", string(name))
			out = append(out, SpecEvent{"te", 0})
		case html.CommentToken:
			if string(z.Raw()) == "</>" {
				continue // the standard emits no token for "</>"; x/net/html reports an empty comment
			}
			out = append(out, SpecEvent{"co", -1}, SpecEvent{"ce", -1})
		case html.DoctypeToken:
			out = append(out, SpecEvent{"do", -1}, SpecEvent{"de", -1})
		}
	}
}
