\* C04 edge emission: the whole product automaton, for the harness to walk.
CONSTANTS
  AcceptMode = "coded"
  Pipeline = "html"
  EmitEdges = TRUE
INIT Init
NEXT Next
VIEW View
ACTION_CONSTRAINT Emit
INVARIANTS TypeOK PassImpliesSafe ValueIntact
PROPERTIES FailIsFixed
CHECK_DEADLOCK FALSE
