//go:build c06hook

package main

import (
	"runtime"
	"sync"

	"github.com/a-h/parse"
	"github.com/a-h/templ/parser/v2"
)

// Built only when the repository under test carries hooks/C06-parser-loops.diff (parser.VerifLoopHook).

const hookPresent = true

type topEvent struct {
	Frame uint64
	Loop  string
	Index int
}

// noProgress is the panic value that aborts a parse whose loop came back to its top without consuming.
type noProgress struct {
	Loop  string
	Index int
}

type recorder struct {
	record bool
	n      int // length of the CALLER's input
	last   map[uint64]int
	events []topEvent
	oob    *topEvent // first loop top whose cursor lies beyond the caller's input
	pi     *parse.Input
}

// The parse runs inside parser.ParseString, which creates its own parse.Input: the recorder is found
// through the goroutine that runs the parse (first event), then through the input pointer.
var (
	byGoroutine sync.Map // goroutine id -> *recorder
	byInput     sync.Map // *parse.Input -> *recorder
)

func goid() uint64 {
	var buf [64]byte
	s := buf[:runtime.Stack(buf[:], false)]
	s = s[len("goroutine "):]
	var id uint64
	for _, c := range s {
		if c < '0' || c > '9' {
			break
		}
		id = id*10 + uint64(c-'0')
	}
	return id
}

func init() {
	parser.VerifLoopHook = func(pi *parse.Input, loop string, frame uint64, index int) {
		v, ok := byInput.Load(pi)
		if !ok {
			v, ok = byGoroutine.Load(goid())
			if !ok {
				return
			}
			v.(*recorder).pi = pi
			byInput.Store(pi, v)
		}
		r := v.(*recorder)
		if r.record && len(r.events) < 400000 {
			r.events = append(r.events, topEvent{frame, loop, index})
		}
		if index > r.n && r.oob == nil {
			r.oob = &topEvent{frame, loop, index}
		}
		if l, seen := r.last[frame]; seen && index <= l {
			panic(&noProgress{Loop: loop, Index: index})
		}
		r.last[frame] = index
	}
}

// attach must be called by the goroutine that is going to parse.
func attach(n int, record bool) *recorder {
	r := &recorder{record: record, n: n, last: map[uint64]int{}}
	byGoroutine.Store(goid(), r)
	return r
}

func detach(r *recorder) ([]topEvent, *topEvent) {
	byGoroutine.Delete(goid())
	if r.pi != nil {
		byInput.Delete(r.pi)
	}
	return r.events, r.oob
}
