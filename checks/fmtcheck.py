"""C08 / C09 on TLC-enumerated programs (spec/TemplLang.tla) and the repository's own templates."""
import json, os, sys
sys.path.insert(0, os.path.dirname(os.path.abspath(__file__)))
sys.path.insert(0, os.path.join(os.path.dirname(os.path.abspath(__file__)), "..", "lib"))
import vlib, langcommon


def negative_configs(ck):
    """The layout model must reject the two defective designs (guards against vacuous invariants)."""
    base = open(os.path.join(vlib.SPEC, "FmtLayout_inl.cfg")).read().replace("MaxNodes = 3", "MaxNodes = 2")
    base = base.replace(" EmitFmt", "")
    neg1 = base.replace('NonTrailerRule = "source"', 'NonTrailerRule = "newline"')
    r1 = vlib.tlc("MCFmtLayout", "neg1.cfg", files={"neg1.cfg": neg1}, workers=2, timeout=600)
    if r1.violated != "Idempotent":
        raise vlib.InfraError("negative config (line break after every node without trailing-space info) was not rejected by Idempotent")
    neg2 = base.replace("INVARIANTS TypeOK Idempotent FmtKeepsTokens FmtKeepsMust", "INVARIANTS TypeOK NoInventedSeparation")
    r2 = vlib.tlc("MCFmtLayout", "neg2.cfg", files={"neg2.cfg": neg2}, workers=2, timeout=600)
    if r2.violated != "NoInventedSeparation":
        raise vlib.InfraError("the layout model as coded should admit the known forced-line-break finding (NoInventedSeparation)")
    pos2 = neg2.replace('ForcedBreaks = "asCoded"', 'ForcedBreaks = "onlyWhereSeparated"')
    r3 = vlib.tlc("MCFmtLayout", "pos2.cfg", files={"pos2.cfg": pos2}, workers=2, timeout=600)
    if not r3.ok:
        raise vlib.InfraError("hypothetical repair of the forced line breaks does not satisfy NoInventedSeparation in the model")
    ck.set("negative_configs_rejected", ["NonTrailerRule=newline violates Idempotent", "ForcedBreaks=asCoded violates NoInventedSeparation (known C08 finding)"])
    ck.set("repair_design_checked", "ForcedBreaks=onlyWhereSeparated satisfies NoInventedSeparation and Idempotent")


def fmtcmd_stage(ck):
    """spec/FmtCmd.tla: a run of `templ fmt <dir>` over directories of fixed / loose / invalid / other / skipped files.
    TLC checks "after one in-place run, -fail agrees" and the write discipline; every transition is replayed through the
    real fmtcmd.Run on a real directory (1 and 4 workers)."""
    r = vlib.tlc("FmtCmd", "FmtCmd_mc.cfg", workers=2, timeout=600)
    ck.add_tlc(r, "FmtCmd_mc")
    if not r.ok:
        raise vlib.InfraError("FmtCmd_mc: %s violated in the model" % r.violated)
    n = vlib.tlc("FmtCmd", "FmtCmd_neg.cfg", workers=1, timeout=600)
    if n.violated != "AfterOneRunFailAgrees":
        raise vlib.InfraError("FmtCmd_neg (in-place run that does not write) was not rejected by AfterOneRunFailAgrees")
    g = vlib.tlc("MCFmtCmd", "FmtCmd_gen.cfg", workers=1, timeout=600)
    ck.add_tlc(g, "FmtCmd_gen")
    edges = g.tagged("EDGE")
    if len(edges) < 1000:
        raise vlib.InfraError("FmtCmd_gen emitted only %d transitions" % len(edges))
    path = vlib.write_ndjson(os.path.join(vlib.scratch(), "fmtcmd-edges.ndjson"), edges)
    binp = vlib.go_build("./fmtcmd", "fmtcmd")
    p = vlib.run([binp, path], check=False, timeout=1800)
    summ = vlib.harness_results(ck, p, "templ fmt <dir>: ")
    if summ["edges"] != len(edges):
        raise vlib.InfraError("fmtcmd replay processed %d of %d transitions" % (summ["edges"], len(edges)))
    ck.set("fmtcmd_transitions_replayed", summ["edges"])
    ck.set("fmtcmd_runs", summ["runs"])
    ck.set("fmtcmd_exit_classes", summ["exits"])
    ck.set("fmtcmd_negative_config", "an in-place run that reports but does not write violates AfterOneRunFailAgrees")
    if ck.tier == "thorough":
        apalache_fmtcmd(ck)


def apalache_fmtcmd(ck):
    """Unbounded argument: IndInv is an inductive invariant of FmtCmd (any number of runs) and implies the checked invariants."""
    ck.set("fmtcmd_apalache_obligations", vlib.apalache_inductive(
        "FmtCmd", "FmtCmd_apalache.cfg", "IndInit", "IndInv", "IndImplies", ("RunRewrites = TRUE", "RunRewrites = FALSE")))


def run(prop):
    level = "translation_validation" if prop == "C08" else "model_checking"
    ck = vlib.Check(prop, level)
    thorough = ck.tier == "thorough"
    # FmtLayout.tla extends TemplLang.tla: TLC checks the layout model (Idempotent, FmtKeepsTokens) on every program it
    # builds and prints each program together with the predicted formatted program Fmt(p)
    progs, counts = langcommon.enumerate_programs(ck, langcommon.default_plan(ck.tier), ck.seed,
                                                  module="MCFmtLayout", cfgprefix="FmtLayout", tag="FMT")
    negative_configs(ck)
    limit = None if thorough else 6000
    chosen = langcommon.sample(progs, limit, ck.seed)
    if len(chosen) < 500:
        raise vlib.InfraError("TLC produced only %d programs" % len(chosen))
    sc = vlib.scratch()
    ppath = vlib.write_ndjson(os.path.join(sc, "progs.ndjson"), [{"id": p["id"], "prog": p["prog"], "den": []} for p in chosen])
    binp = vlib.go_build("./c08", "c08")
    # conformance of the layout model: Fmt(p) in the canonical spelling = real formatter output for every spelling of p
    lpath0 = vlib.write_ndjson(os.path.join(sc, "fmt.ndjson"), [{"prog": p["prog"], "fmt": p["fmt"], "fmtl": p["fmtl"]} for p in chosen])
    pl = vlib.run([binp, "layout", lpath0], check=False, timeout=14400 if thorough else 3000)
    lay = vlib.harness_results(ck, pl)
    if lay["programs"] != len(chosen):
        raise vlib.InfraError("layout conformance processed %d of %d programs" % (lay["programs"], len(chosen)))
    ck.set("layout_model_cases", lay["cases"])
    ck.set("layout_model_agree", lay["agree"])
    ck.set("layout_model_drift", lay["drift"])
    if lay["drift"]:
        # not a verdict (the property is decided on the real formatter's output), but never silent: a drifting
        # model no longer binds the layout specification to the code
        sys.stderr.write("NOTE: layout model (FmtLayout.tla) and formatter disagree on %d of %d cases\n" % (lay["drift"], lay["cases"]))
    p = vlib.run([binp, "progs", ppath], check=False, timeout=14400 if thorough else 3000)
    nfail = {"C08": 0, "C09": 0}
    summary = None
    rejected = None
    for line in p.stdout.decode(errors="replace").splitlines():
        try:
            r = json.loads(line)
        except ValueError:
            continue
        if r["kind"] == "fail":
            nfail[r["prop"]] += 1
            if r["prop"] == prop:
                ck.violation(r["sig"], r["what"], r["case"])
        elif r["kind"] == "sample":
            ck.sample(r["case"], limit=3)
        elif r["kind"] == "rejected":
            rejected = r["case"]
        elif r["kind"] == "summary":
            summary = r
    if p.returncode != 0 or summary is None:
        raise vlib.InfraError("c08 harness failed: %s" % p.stderr.decode()[-2000:])
    if summary["programs"] != len(chosen):
        raise vlib.InfraError("harness processed %d of %d programs" % (summary["programs"], len(chosen)))
    if summary["rejected"]:
        raise vlib.InfraError("concretiser produced %d templates the repository's parser/generator rejects, e.g. %s" %
                              (summary["rejected"], json.dumps(rejected)[:1500]))
    # the repository's own templates
    files = langcommon.corpus_files()
    lpath = os.path.join(sc, "corpus.txt")
    with open(lpath, "w") as fh:
        fh.write("\n".join(files) + "\n")
    p2 = vlib.run([binp, "corpus", lpath], check=False, timeout=1200)
    s2 = None
    for line in p2.stdout.decode(errors="replace").splitlines():
        try:
            r = json.loads(line)
        except ValueError:
            continue
        if r["kind"] == "fail" and r["prop"] == prop:
            ck.violation(r["sig"], r["what"], r["case"])
        elif r["kind"] == "summary":
            s2 = r
    if p2.returncode != 0 or s2 is None:
        raise vlib.InfraError("c08 corpus run failed: %s" % p2.stderr.decode()[-2000:])
    ck.set("programs", summary["programs"] + s2["files"] - s2["rejected"])
    ck.set("tlc_programs", summary["programs"])
    ck.set("spellings_per_program", 3)
    ck.set("cases", summary["cases"])
    ck.set("corpus_files", s2["files"])
    ck.set("corpus_files_not_accepted", s2["rejected"])
    ck.set("programs_by_family", counts)
    ck.set("disagreements_checked", nfail[prop] + (s2["c08"] if prop == "C08" else s2["c09"]))
    ck.set("traces_validated_against_impl", summary["cases"] + s2["files"])
    if prop == "C09":
        fmtcmd_stage(ck)
        ck.set("evaluations", summary["cases"] + s2["files"])
        ck.set("distinct_nontrivial", summary["programs"])
        ck.set("rule", "distinct abstract programs enumerated by TLC from TemplLang.tla (deduplicated by AST), each in 3 concrete spellings; "
                       "non-trivial = at least one node; oracle fmt(fmt(x)) = fmt(x) bytewise through fmtcmd.Run")
    ck.assume("formatter path = fmtcmd.Run stdin->stdout (parser.ParseString, TemplateFile.Write); one source in eight is formatted with a "
              "file name, which adds the import rewriting of cmd/templ/imports; C09 also replays the directory mode (FmtCmd.tla)")
    ck.assume("'same program' = generated Go equal after masking templ.Error{Line,Col} and gofmt; programs are not compiled here (C02 compiles and renders them)")
    ck.assume("program space: TemplLang.tla focus families (BFS within node budgets) + seeded simulation; not all templ syntax (no css/script templates, no multi-line Go expressions)")
    ck.finish()
