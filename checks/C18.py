#!/usr/bin/env python3
"""C18 -- JSON-RPC framing is lossless and calls are matched to their responses.

Ids are typed values in both specs (number vs string; the string "7" is not the number 7).

Framing half (spec/Framing.tla, no hook needed)
  MC   : the closed reader automaton (any byte at every step, EOF at any time: all inputs of all lengths);
         the bounded system (message sequences x every variant x every truncation point x chunkings), incl.
         IdsPreserved (the id read back is the id written, with its type); negative configs: the header counts
         runes (must violate Lossless), quoted numerals decode as numbers (must violate IdsPreserved).
  GEN  : simulated behaviours (message sequence, variant, chunking, predicted decoded sequence with typed ids /
         error class) on wires with the byte lengths of the real messages (the catalogue contains string ids that
         look like numbers) are replayed on the real jsonrpc2.NewStream: over a reader that yields exactly those
         chunks, under further chunkings (ChunkingIrrelevant), through an io.Pipe (prompt delivery after each
         complete frame, no hang after close) and round-trip through the real stream.Write, whose header is
         compared with the number of bytes it wrote.
Conn half (spec/JsonRpc.tla, needs hooks/C18-jsonrpc2-conn.diff in the repository under test)
  MC   : callers (id allocation as one atomic step, pending map keyed by typed id) x notifiers x run loop x peer
         (replies, stray responses and calls with confusable ids) x cancellations, safety + liveness; negative
         configs (no writeMu, unbuffered reply channel, pending insert after sending, two-step id allocation,
         quoted numerals decoded as numbers) must be rejected.
  GEN  : simulated behaviours are peer scripts replayed against the real Conn (the harness is the peer and owns the
         contexts; environment actions are executed inside the hook that precedes them in the behaviour), -race;
         plus unsteered bursts: N callers and two notifiers enter a fresh conn at the same instant (spin barrier),
         every request carries its caller's marker, the peer echoes it out of order.
  VAL  : the hook events + the harness's own events of every case (real typed ids) are validated by TLC against
         TraceJsonRpc.tla.
The pure model-checking runs are independent of each other and run concurrently.
"""
import json, os, re, sys
from concurrent.futures import ThreadPoolExecutor
sys.path.insert(0, os.path.join(os.path.dirname(os.path.abspath(__file__)), "..", "lib"))
import vlib

HOOK_FILE = "lsp/jsonrpc2/verifhook_on.go"
HOOK_CALLS = ['verifPending(c, "reg"', 'verifPending(c, "del"', 'verifPending(c, "disp"', 'verifWrite(c, "wbeg"', 'verifWrite(c, "wend"']


def tla_id(i):
    if not re.fullmatch(r"[A-Za-z0-9 _.+%-]*", i["v"]):
        raise vlib.InfraError("catalogue id text %r is not in the TLA-safe spelling" % i["v"])
    return '[t |-> "%s", v |-> "%s", n |-> %s]' % (i["t"], i["v"], "NoNum" if i["n"] == -1000 else ("0 - %d" % -i["n"] if i["n"] < 0 else str(i["n"])))


def catalogue_module(rows):
    ents = ",\n".join('  [kind |-> "%s", idk |-> "%s", id |-> %s, pay |-> "%s", blen |-> %d, rlen |-> %d]' % (r["kind"], r["idk"], tla_id(r["id"]), r["pay"], r["blen"], r["rlen"])
                      for r in rows)
    return ("-------------------------- MODULE FramingCatalogue --------------------------\n"
            "(* Byte and rune lengths and typed ids of the JSON bodies of the harness's message catalogue (harness/c18:\n"
            "   catalogue()).  This file holds the values measured at the pinned commit; the check regenerates it\n"
            "   in its scratch directory from `c18 catalogue` on every run, so that wire position i of the model is\n"
            "   byte i of the real frame.  Id texts are in the harness's tlaSafe spelling (%XX for other bytes).   *)\n"
            "LOCAL INSTANCE Integers\n"
            "LOCAL NoNum == 0 - 1000\n"
            "CatalogueMsgs == <<\n" + ents + "\n>>\n"
            "=============================================================================\n")


def hooks_present():
    p = os.path.join(vlib.REPO, HOOK_FILE)
    if not os.path.exists(p):
        return "%s does not exist" % HOOK_FILE
    src = open(p).read()
    for sym in ("func SetVerifHook(", "func VerifSeq(", "type VerifEvent struct"):
        if sym not in src:
            return "%s lacks %s" % (HOOK_FILE, sym)
    conn = open(os.path.join(vlib.REPO, "lsp/jsonrpc2/conn.go")).read()
    for call in HOOK_CALLS:
        if call not in conn:
            return "lsp/jsonrpc2/conn.go lacks the hook call %s...)" % call
    return None


def write_lines(path, objs):
    with open(path, "w") as fh:
        for o in objs:
            fh.write(json.dumps(o) + "\n")


class Jobs:
    """The pure MC runs are independent: start them all, collect each where it is needed."""

    def __init__(self, n):
        vlib.scratch()
        self.pool = ThreadPoolExecutor(max_workers=n)
        self.fut = {}

    def tlc(self, key, module, cfg, **kw):
        self.fut[key] = self.pool.submit(vlib.tlc, module, cfg, **kw)

    def call(self, key, fn, *a, **kw):
        self.fut[key] = self.pool.submit(fn, *a, **kw)

    def get(self, key):
        return self.fut[key].result()

    def close(self):
        self.pool.shutdown(wait=False, cancel_futures=True)


FRAMING_NEG = (("Framing_neg.cfg", "Lossless", "Content-Length counts runes"),
               ("Framing_neg_idunquote.cfg", "IdsPreserved", "quoted numerals decode as numbers"),
               ("Framing_neg_nullresult.cfg", "Lossless", "a response whose result is JSON null is rejected"))
CONN_NEG = (("JsonRpc_neg_nullresult.cfg", "ReaderAlive", "a response whose result is JSON null kills the run loop"),
            ("JsonRpc_neg_nomutex.cfg", "FramesNeverInterleave", "no writeMu"),
            ("JsonRpc_neg_unbuffered.cfg", "ReaderNeverBlocks", "unbuffered reply channel"),
            ("JsonRpc_neg_latereg.cfg", "RegisteredBeforeSending", "register after sending"),
            ("JsonRpc_neg_alloc2step.cfg", "UniqueIds", "two-step id allocation: two calls share an id"),
            ("JsonRpc_neg_alloc2step_matched.cfg", "Matched", "two-step id allocation: a call returns the other call's response"),
            ("JsonRpc_neg_unquote_stray.cfg", "IdTypePreserved", "quoted numerals decode as numbers: string id looked up as a number"),
            ("JsonRpc_neg_unquote_matched.cfg", "Matched", "quoted numerals decode as numbers: stray response delivered to call #1"),
            ("JsonRpc_neg_unquote_pcall.cfg", "PeerCallsEchoed", "quoted numerals decode as numbers: peer call \"42\" answered with id 42"))


def start_mc(jobs, thorough):
    jobs.tlc("f_closed", "MCFramingClosed", "Framing_closed.cfg", workers=4, timeout=300)
    mcfg = open(os.path.join(vlib.SPEC, "Framing_mc.cfg")).read()
    if thorough:
        mcfg = mcfg.replace("MaxMsgs = 2", "MaxMsgs = 3").replace("ChunkMax = 2", "ChunkMax = 2")
    jobs.tlc("f_mc", "MCFraming", "mc.cfg", files={"mc.cfg": mcfg}, workers=8, timeout=900, xss="512m")
    for cfg, _, _ in FRAMING_NEG:
        jobs.tlc(cfg, "MCFraming", cfg, workers=1, timeout=300, xss="512m")
    mcfg = open(os.path.join(vlib.SPEC, "JsonRpc_mc.cfg")).read()
    icfg = open(os.path.join(vlib.SPEC, "JsonRpc_ids.cfg")).read()
    lcfg = open(os.path.join(vlib.SPEC, "JsonRpc_live.cfg")).read()
    if thorough:
        mcfg = mcfg.replace("NC = 2", "NC = 3")
        icfg = icfg.replace('IdVocab = "small"', 'IdVocab = "full"')
        lcfg = lcfg.replace("NN = 0", "NN = 1")     # 3 callers: 411k states, >10 min of liveness checking
    jobs.tlc("c_mc", "JsonRpc", "mc.cfg", files={"mc.cfg": mcfg}, workers=16 if thorough else 8, timeout=1500, xmx="12g" if thorough else "4g")
    jobs.tlc("c_ids", "JsonRpc", "ids.cfg", files={"ids.cfg": icfg}, workers=8, timeout=1500, xmx="8g" if thorough else "4g")
    jobs.tlc("c_live", "JsonRpc", "live.cfg", files={"live.cfg": lcfg}, workers=8, timeout=1500, xmx="8g")
    for cfg, _, _ in CONN_NEG:
        jobs.tlc(cfg, "JsonRpc", cfg, workers=1, timeout=300)


def framing(ck, thorough, binp, jobs):
    sc = vlib.scratch()
    # --- GEN --------------------------------------------------------------------------------------
    p = vlib.run([binp, "catalogue"])
    rows = json.loads(p.stdout.decode())
    numeric_strings = [r["id"]["v"] for r in rows if r["id"]["t"] == "str" and r["id"]["n"] != -1000]
    if len(numeric_strings) < 3:
        raise vlib.InfraError("the catalogue has only %d string ids that look like numbers" % len(numeric_strings))
    num = 4000 if thorough else 600
    sim = vlib.tlc("MCFramingSim", "Framing_sim.cfg", files={"FramingCatalogue.tla": catalogue_module(rows)}, workers=1,
                   simulate="num=%d" % num, depth=800, tlc_seed=ck.seed, timeout=900, xss="512m")
    if sim.violated:
        raise vlib.InfraError("framing simulation violated %s in the model" % sim.violated)
    behs = sim.tagged("BEH")
    if len(behs) < num:
        raise vlib.InfraError("framing simulation printed %d of %d behaviours" % (len(behs), num))
    ck.add_tlc(sim, "Framing_sim (behaviours for replay)")
    uniq = {json.dumps(b, sort_keys=True) for b in behs}
    bpath = os.path.join(sc, "beh.ndjson")
    with open(bpath, "w") as fh:
        for b in behs:
            fh.write(json.dumps(b, sort_keys=True) + "\n")
    splits = 100000 if thorough else 6
    pr = vlib.run([binp, "framing", bpath, str(ck.seed), str(splits)], check=False, timeout=1500)
    if crash_in_reader(ck, pr):
        return 0
    s = vlib.harness_results(ck, pr, "framing: ")
    if s["behaviours"] != len(uniq):
        raise vlib.InfraError("framing harness replayed %d of %d behaviours" % (s["behaviours"], len(uniq)))
    need = {"none", "nocolon", "nonnumeric", "zero", "negative", "missing", "trunc-hdr", "trunc-body", "extra-before", "extra-after"}
    if not need <= set(s["variants"]):
        raise vlib.InfraError("variants never exercised: %s" % sorted(need - set(s["variants"])))
    if s["pipe_runs"] != s["behaviours"] or s["roundtrips"] != s["behaviours"]:
        raise vlib.InfraError("pipe/round-trip replays incomplete: %s" % s)
    if s["ids_compared"] < s["behaviours"] // 2 or s["numeric_string_ids_read"] < 20:
        raise vlib.InfraError("typed ids hardly compared: %s" % {k: s[k] for k in ("ids_compared", "numeric_string_ids_read")})
    ck.set("framing_behaviours_replayed", s["behaviours"])
    ck.set("framing_stream_runs", s["stream_runs"] + s["pipe_runs"] + s["roundtrips"])
    ck.set("framing_variants", s["variants"])
    ck.set("framing_error_classes", s["errors"])
    kinds = sorted({r["pay"] for r in rows if r["kind"] == "response"})
    if set(kinds) != {"object", "array", "string", "number", "true", "false", "null", "error", "errdata"}:
        raise vlib.InfraError("catalogue lacks a response kind: %s" % kinds)
    if s.get("pays_compared", 0) < s["behaviours"] // 2:
        raise vlib.InfraError("payload kinds hardly compared: %s" % s.get("pays_compared"))
    ck.set("framing_response_kinds", kinds)
    ck.set("framing_payload_kinds_compared", s["pays_compared"])
    ck.set("framing_typed_ids_compared", s["ids_compared"])
    ck.set("framing_numeric_looking_string_ids_read_back", s["numeric_string_ids_read"])
    ck.set("framing_catalogue", [{k: r[k] for k in ("kind", "idk", "id", "blen", "rlen")} for r in rows])

    if not ck._nviol:
        framing_selftest(ck, behs, binp, sc)
    framing_mc(ck, jobs)
    return s["behaviours"]


def framing_selftest(ck, behs, binp, sc):
    # binding self-tests: a behaviour whose expectation was corrupted must be reported (meaningful only while
    # the real code agrees with the model)
    bad = next((b for b in behs if b["class"] == "bad" and b["variant"] in ("zero", "nocolon", "missing", "negative")), None)
    if bad is None:
        raise vlib.InfraError("no malformed behaviour available for the binding self-test")
    forged = dict(bad)
    forged["class"] = "good"
    fpath = os.path.join(sc, "forged.ndjson")
    write_lines(fpath, [forged])
    pf = vlib.run([binp, "framing", fpath, str(ck.seed), "2"], check=False)
    if b'"kind":"fail"' not in pf.stdout:
        raise vlib.InfraError("binding self-test failed: a forged expectation (malformed frame expected to decode) was not reported")
    donor = next((b for b in behs if b["class"] == "good" and any(i["t"] == "str" and i["n"] != -1000 for i in b["ids"])), None)
    if donor is None:
        raise vlib.InfraError("no well-formed behaviour with a numeric-looking string id available for the binding self-test")
    forged = json.loads(json.dumps(donor))
    for i in forged["ids"]:
        if i["t"] == "str" and i["n"] != -1000:
            i["t"], i["v"] = "num", str(i["n"])      # what the 'unquote' decoder would hand over
            break
    write_lines(fpath, [forged])
    pf = vlib.run([binp, "framing", fpath, str(ck.seed), "2"], check=False)
    if b'"sig":"Framing.IdsPreserved.TypeChanged"' not in pf.stdout:
        raise vlib.InfraError("binding self-test failed: a forged id type (string id expected back as a number) was not reported")
    ck.set("framing_binding_selftest", "forged expectation reported; forged id type reported")


def crash_in_reader(ck, pr):
    """'Malformed or truncated frames yield an error, never a hang or panic': a fatal runtime error (an impossible allocation)
    cannot be recovered inside the harness process, so it is classified here from the crash report.  Counted only when the
    goroutine that was running is inside the real (*stream).Read and the failure is a panic or an allocation of 2 GiB or more
    (the harness never announces more than 999 999 999 999 bytes and never sends bodies above a few KiB, so an allocation
    that large is the announced length taken at face value, not memory pressure on the machine)."""
    if pr.returncode in (0, 66):
        return False
    err = (pr.stderr or b"").decode(errors="replace")
    if "fatal error:" not in err and "panic:" not in err:
        return False
    m = re.search(r"^goroutine \d+[^\n]*\[running[^\]]*\]:\n(.*?)(?:\n\n|\Z)", err, re.S | re.M)
    if not m or "lsp/jsonrpc2.(*stream).Read" not in m.group(1):
        return False
    oom = re.search(r"out of memory: cannot allocate (\d+)-byte block", err)
    if oom and int(oom.group(1)) < (1 << 31):
        return False
    head = err[:err.find("goroutine ")][-600:] if "goroutine " in err else err[:600]
    ck.violation("Framing.MalformedGivesError.ReaderCrash",
                 "the process died inside (*stream).Read while reading a frame (a malformed header must yield an error): " + head.strip()[-300:],
                 {"crash_report_head": head, "running_goroutine": m.group(1)[:2500]})
    return True


def framing_mc(ck, jobs):
    # --- MC (started earlier, concurrently) -------------------------------------------------------
    closed = jobs.get("f_closed")
    if not closed.ok:
        raise vlib.InfraError("closed reader automaton violates %s: the model of stream.Read is wrong" % closed.violated)
    ck.add_tlc(closed, "Framing_closed (reader automaton, all inputs)")
    mc = jobs.get("f_mc")
    if not mc.ok:
        raise vlib.InfraError("Framing model violates %s: spec and code model disagree" % mc.violated)
    ck.add_tlc(mc, "Framing_mc")
    for cfg, inv, what in FRAMING_NEG:
        neg = jobs.get(cfg)
        if neg.violated != inv:
            raise vlib.InfraError("negative config %s (%s) was not rejected by %s (got %s)" % (cfg, what, inv, neg.violated))
    ck.set("framing_negative_config_rejected", True)
    ck.set("framing_negative_configs_rejected", [w for _, _, w in FRAMING_NEG])


def show(i):
    return ("#%s" % i["v"]) if i["t"] == "num" else ('"%s"' % i["v"]) if i["t"] == "str" else "-"


def render(e):
    x = "%s(%s)" % (e["e"], e["w"])
    if e["e"] in ("reg", "del", "disp"):
        x += " id=%s pending=[%s]" % (show(e["id"]), " ".join(show(p) for p in e["pend"]))
        if e["e"] == "disp":
            x += " found=%s" % e["found"]
    elif e["e"] == "ret":
        x += " res=%s" % e["res"]
    elif e["id"]["t"] != "none":
        x += " id=%s" % show(e["id"])
    return x


def classify_reject(case, hwm):
    """Name the invariant behind the first event of a rejected trace that no interleaving could match."""
    ev = case["ev"]
    if hwm < 1 or hwm > len(ev):
        return "JsonRpc.TraceRejected", "no event could be matched"
    e = ev[hwm - 1]
    before = ev[:hwm - 1]
    what = "event %d %s of the recorded execution has no matching step in JsonRpc.tla" % (hwm, render(e))
    if e["e"] == "reg":
        regs = [x for x in ev if x["e"] == "reg"]
        for a in range(len(regs)):
            for b in range(a + 1, len(regs)):
                if regs[a]["id"] == regs[b]["id"]:
                    pend = set()
                    for x in ev:        # was the id still pending when it was registered again?
                        if x is regs[b]:
                            break
                        if x["e"] == "reg":
                            pend.add(show(x["id"]))
                        elif x["e"] == "del":
                            pend.discard(show(x["id"]))
                    how = "while it was still pending" if show(regs[b]["id"]) in pend else "one after the other"
                    return "JsonRpc.UniqueIds", ("calls of callers %s and %s on one conn both drew the id %s (registered %s): the id allocation "
                                                 "is not one atomic step, so no run of the model's counter produces these ids; %s"
                                                 % (regs[a]["w"], regs[b]["w"], show(regs[a]["id"]), how, what))
        nums = sorted(x["id"]["n"] for x in regs if x["id"]["t"] == "num")
        if len(nums) != len(regs) or nums != list(range(1, len(regs) + 1)):
            raise vlib.InfraError("the conn's call ids are %s, not the values 1..n of a counter: JsonRpc.tla's Alloc no longer models conn.Call (model drift)"
                                  % [show(x["id"]) for x in regs])
    if e["e"] == "wbeg":
        open_w = None
        for x in before:
            if x["e"] == "wbeg":
                open_w = x["w"]
            elif x["e"] == "wend":
                open_w = None
        if open_w is not None:
            return "JsonRpc.FramesNeverInterleave", what + ": writer %s is still between wbeg and wend (two writers inside stream.Write)" % open_w
        if 1 <= e["w"] <= 9 and not any(x["e"] == "reg" and x["w"] == e["w"] for x in before):
            return "JsonRpc.RegisteredBeforeSending", what + ": the call is written before its id is in pending"
        if e["w"] == 0:
            asked = [x["id"] for x in before if x["e"] == "pcall"]
            answered = sum(1 for x in before if x["e"] == "wbeg" and x["w"] == 0)
            if answered < len(asked) and asked[answered] != e["id"]:
                return "JsonRpc.PeerCallsEchoed", what + ": the peer's call carried the %s id %s and is answered with the %s id %s" % (
                    kind(asked[answered]), show(asked[answered]), kind(e["id"]), show(e["id"]))
    if e["e"] == "pong":
        return "JsonRpc.PeerCallsEchoed", what + ": the response the peer received does not carry the id of its call (ids of its calls: %s)" % (
            [show(x["id"]) for x in before if x["e"] == "pcall"])
    if e["e"] == "disp":
        sent = [x["id"] for x in before if x["e"] in ("reply", "stray")]
        k = sum(1 for x in before if x["e"] == "disp")
        if k < len(sent) and sent[k] != e["id"]:
            return "JsonRpc.IdTypePreserved", what + ": the peer wrote the %s id %s and the run loop looked up the %s id %s%s" % (
                kind(sent[k]), show(sent[k]), kind(e["id"]), show(e["id"]), " and handed the response to a pending call" if e["found"] else "")
    if e["e"] in ("reg", "del", "disp"):
        return "JsonRpc.PendingExact", what
    if e["e"] == "reply":
        return "JsonRpc.RequestCarriesRegisteredId", what + ": the request the peer received does not carry the id the call registered"
    if e["e"] == "ret":
        return "JsonRpc.Matched", what + ": Call returned %s" % e["res"]
    return "JsonRpc.TraceRejected." + e["e"], what


def kind(i):
    return {"num": "number", "str": "string"}.get(i["t"], i["t"])


def validate(ck, cases, label):
    """TLC validates the cases; returns the set of accepted ids."""
    text = "".join(json.dumps(c) + "\n" for c in cases)
    tv = vlib.tlc("TraceJsonRpc", "JsonRpc_trace.cfg", files={"c18trace.ndjson": text}, workers=1, timeout=1500)
    if not tv.ok:
        raise vlib.InfraError("trace validation run failed: %s" % (tv.violated,))
    if label:
        ck.add_tlc(tv, label)
    return {a["id"] for a in tv.tagged("ACCEPT")}


def conn(ck, thorough, jobs):
    sc = vlib.scratch()
    # --- MC (started earlier, concurrently) -------------------------------------------------------
    mc = jobs.get("c_mc")
    if not mc.ok:
        raise vlib.InfraError("JsonRpc model violates %s" % mc.violated)
    ck.add_tlc(mc, "JsonRpc_mc " + ("3 callers x 1 notifier" if thorough else "2 callers x 1 notifier"))
    ids = jobs.get("c_ids")
    if not ids.ok:
        raise vlib.InfraError("JsonRpc model (typed ids, stray responses, peer calls) violates %s" % ids.violated)
    ck.add_tlc(ids, "JsonRpc_ids (typed ids: stray responses and peer calls with confusable ids)")
    live = jobs.get("c_live")
    if not live.ok:
        raise vlib.InfraError("JsonRpc liveness (CallsReturn) does not hold in the model: %s" % live.violated)
    ck.add_tlc(live, "JsonRpc_live (CallsReturn)")
    for cfg, inv, what in CONN_NEG:
        neg = jobs.get(cfg)
        if neg.violated != inv:
            raise vlib.InfraError("negative config %s (%s) was not rejected by %s (got %s)" % (cfg, what, inv, neg.violated))
    ck.set("conn_negative_configs_rejected", [w for _, _, w in CONN_NEG])

    # --- hooks present? ---------------------------------------------------------------------------
    missing = hooks_present()
    if missing:
        raise vlib.InfraError("conn half of C18 not bound to the code: %s -- apply /verif/hooks/C18-jsonrpc2-conn.diff to %s "
                              "(the framing half and the model checks above were completed)" % (missing, vlib.REPO))

    # --- GEN: peer scripts on the real conn, then bursts -----------------------------------------
    num = 2500 if thorough else 300
    nbursts = 600 if thorough else 60
    sim = vlib.tlc("MCJsonRpcSim", "JsonRpc_sim.cfg", workers=1, simulate="num=%d" % num, depth=90, tlc_seed=ck.seed, timeout=900)
    if sim.violated:
        raise vlib.InfraError("conn simulation violated %s in the model" % sim.violated)
    hists = sim.tagged("HIST")
    uniq = sorted({json.dumps(h, sort_keys=True) for h in hists})
    if len(uniq) < num // 2:
        raise vlib.InfraError("conn simulation printed only %d settled behaviours" % len(uniq))
    ck.add_tlc(sim, "JsonRpc_sim (peer scripts)")
    hpath = os.path.join(sc, "hist.ndjson")
    with open(hpath, "w") as fh:
        for h in uniq:
            fh.write(h + "\n")
    binr = jobs.get("race_build")
    tpath = os.path.join(sc, "c18trace.ndjson")
    env = vlib.goenv()
    env["GORACE"] = "halt_on_error=1 exitcode=66"
    pr = vlib.run([binr, "conn", hpath, str(ck.seed), tpath, "6", str(nbursts)], check=False, timeout=1500, env=env)
    if pr.returncode == 66 or b"WARNING: DATA RACE" in pr.stderr:
        m = re.search(rb"WARNING: DATA RACE.*?(?:\n\n|\Z)", pr.stderr, re.S)
        text = (m.group(0) if m else pr.stderr)[-3000:].decode(errors="replace")
        if "lsp/jsonrpc2" in text:
            ck.violation("JsonRpc.DataRace", "the race detector reports a data race inside lsp/jsonrpc2 while replaying peer scripts",
                         {"report": text})
            return 0
        raise vlib.InfraError("data race outside lsp/jsonrpc2 (harness bug?):\n" + text)
    s = vlib.harness_results(ck, pr, "conn: ")
    if s["fails"] == 0 and (s["cases"] != len(uniq) or s["traces"] != len(uniq)):
        raise vlib.InfraError("conn harness replayed %d of %d scripts" % (s["cases"], len(uniq)))
    ck.set("conn_scripts_replayed", s["cases"])
    ck.set("conn_hook_and_env_events", s["events"] + s["burst_events"])
    ck.set("conn_script_steps", s["script_steps"])
    ck.set("conn_steps_not_realised_in_order", s["unrealised_steps"])
    ck.set("conn_outcome_other_side_of_race", s["diverged"])
    ck.set("conn_bursts", {"rounds": s["bursts"], "callers_per_round": s["burst_callers"], "notifiers_per_round": 2,
                           "events": s["burst_events"], "rounds_ended_by_watchdog": s["burst_watchdog_rounds"]})
    # the harness itself reports only what no trace can show (hangs, garbage on the wire, leftovers); when it
    # did, the executions recorded so far are still validated, so that the root cause is named as well
    harness_failed = s["fails"] > 0
    if not harness_failed:
        if s["events"] < 10 * s["cases"]:
            raise vlib.InfraError("hooks silent: only %d events in %d cases" % (s["events"], s["cases"]))
        if s["bursts"] < nbursts and s["burst_watchdog_rounds"] == 0:
            raise vlib.InfraError("only %d of %d bursts were run" % (s["bursts"], nbursts))

    # --- VAL: TLC validates every recorded execution ---------------------------------------------
    cases = {}
    kinds = {}
    with open(tpath) as fh:
        for line in fh:
            c = json.loads(line)
            cases[c["id"]] = c
            for e in c["ev"]:
                kinds[e["e"]] = kinds.get(e["e"], 0) + 1
    if not cases:
        return 0
    nscript = sum(1 for c in cases.values() if not c["eager"])
    for k in () if harness_failed else ("reg", "wbeg", "wend", "disp", "del", "cancel", "reply", "ret", "pcall", "pong", "stray"):
        least = nscript // (10 if k in ("stray",) else 4)
        if kinds.get(k, 0) < least:
            raise vlib.InfraError("event kind %s recorded only %d times in %d cases: a hook never fired" % (k, kinds.get(k, 0), len(cases)))
    ck.set("conn_event_kinds", kinds)
    accepted = validate(ck, list(cases.values()), "TraceJsonRpc (recorded executions: scripts and bursts)")
    rejected = sorted(set(cases) - accepted)
    ck.set("conn_traces_accepted", len(accepted))
    ck.set("conn_burst_traces_accepted", sum(1 for i in accepted if cases[i]["eager"]))
    if rejected:
        # diagnostic run on the first rejected cases, every interleaving of the silent steps (also for the bursts)
        sub = [dict(cases[i], eager=False) for i in rejected[:8]]
        diag = vlib.tlc("TraceJsonRpc", "JsonRpc_tracediag.cfg", files={"c18trace.ndjson": "".join(json.dumps(c) + "\n" for c in sub)},
                        workers=1, timeout=900)
        hwm = {}
        for a in diag.tagged("AT"):
            hwm[a["id"]] = max(hwm.get(a["id"], 0), a["i"])
        for c in sub:
            if hwm.get(c["id"], 0) > len(c["ev"]):
                raise vlib.InfraError("case %s is rejected with eager silent steps but accepted with all interleavings: the eager discipline "
                                      "of TraceJsonRpc.tla loses behaviours" % c["id"])
            sig, what = classify_reject(c, hwm.get(c["id"], 0))
            ck.violation(sig, "conn%s: %s" % (" (burst of %d concurrent callers)" % s["burst_callers"] if cases[c["id"]]["eager"] else "", what),
                         {"events": [render(e) for e in c["ev"]], "rejected_at_event": hwm.get(c["id"], 0),
                          "rejected_cases_this_run": len(rejected), "burst": cases[c["id"]]["eager"]})
    # what the harness saw hanging in a burst (reported after the trace's verdict: root cause first)
    for c in cases.values():
        if c["hang"]["sig"]:
            ck.violation(c["hang"]["sig"], "conn (burst of %d concurrent callers): %s" % (s["burst_callers"], c["hang"]["what"]),
                         {"events": [render(e) for e in c["ev"]]})
    # a burst call that returned only because the watchdog cancelled it although its request was answered
    for c in cases.values():
        if c["id"] in accepted and c.get("timedout"):
            ck.violation("JsonRpc.CallsReturn", "conn (burst): calls of callers %s did not return within the watchdog time although the peer answered every request"
                         % c["timedout"], {"events": [render(e) for e in c["ev"]]})

    if ck._nviol or harness_failed:
        return len(accepted)

    # binding self-tests on forged traces: each must be rejected while its original is accepted
    def forge_ret(c):       # a call returning another call's response
        for e in c["ev"]:
            if e["e"] == "ret" and e["res"] == e["w"]:
                e["res"] = e["w"] % 3 + 1
                return "JsonRpc.Matched"

    def forge_dup(c):       # two concurrent calls registering the same id
        regs = [e for e in c["ev"] if e["e"] == "reg"]
        if len(regs) >= 2 and regs[0]["id"] in regs[1]["pend"]:
            old = regs[1]["id"]
            for e in c["ev"]:
                if e["id"] == old:
                    e["id"] = regs[0]["id"]
                e["pend"] = [p for p in e["pend"] if p != old]
            return "JsonRpc.UniqueIds"

    def forge_type(c):      # a stray response with a numeric-looking STRING id looked up as the number
        k = 0
        sent = [e for e in c["ev"] if e["e"] in ("reply", "stray")]
        for e in c["ev"]:
            if e["e"] == "disp":
                if k < len(sent) and sent[k]["e"] == "stray" and e["id"]["t"] == "str" and e["id"]["n"] != -1000:
                    e["id"] = {"t": "num", "v": str(e["id"]["n"]), "n": e["id"]["n"]}
                    return "JsonRpc.IdTypePreserved"
                k += 1

    tests = []
    for name, forge, want_burst in (("response delivered to the wrong call", forge_ret, False), ("two concurrent calls with one id", forge_dup, True),
                                    ("string id looked up as a number", forge_type, False)):
        done = False
        for c in cases.values():
            if c["id"] not in accepted or c["eager"] != want_burst:
                continue
            f = json.loads(json.dumps(c))
            sig = forge(f)
            if sig:
                f["id"] = -len(tests) - 5
                tests.append((name, sig, c, f))
                done = True
                break
        if not done:
            raise vlib.InfraError("no accepted trace available for the binding self-test '%s'" % name)
    acc = validate(ck, [t[2] for t in tests] + [t[3] for t in tests], None)
    diag = vlib.tlc("TraceJsonRpc", "JsonRpc_tracediag.cfg", files={"c18trace.ndjson": "".join(json.dumps(dict(t[3], eager=False)) + "\n" for t in tests)},
                    workers=1, timeout=600)
    hwm = {}
    for a in diag.tagged("AT"):
        hwm[a["id"]] = max(hwm.get(a["id"], 0), a["i"])
    for name, sig, orig, f in tests:
        if orig["id"] not in acc or f["id"] in acc:
            raise vlib.InfraError("binding self-test failed: forged trace (%s) was not rejected" % name)
        got = classify_reject(f, hwm.get(f["id"], 0))[0]
        if got != sig:
            raise vlib.InfraError("binding self-test failed: forged trace (%s) is attributed to %s instead of %s" % (name, got, sig))
    ck.set("conn_binding_selftest", "forged traces rejected and attributed (%s), originals accepted" % "; ".join(t[0] for t in tests))
    return len(accepted)


def main():
    ck = vlib.Check("C18", "model_checking")
    thorough = ck.tier == "thorough"
    binp = vlib.go_build("./c18", "c18")
    jobs = Jobs(6)
    try:
        if not hooks_present():
            jobs.call("race_build", vlib.go_build, "./c18", "c18race", tags=("verif", "c18hooks"), race=True)
        start_mc(jobs, thorough)
        n1 = framing(ck, thorough, binp, jobs)
        try:
            n2 = conn(ck, thorough, jobs)
        except vlib.InfraError:
            if ck._nviol:      # the framing half already found a violation of the real code: report it
                ck.finish()
            raise
    finally:
        jobs.close()
    ck.set("traces_validated_against_impl", n1 + n2)
    ck.set("bounds", {"framing": "closed reader: all inputs; bounded: <=%d messages x 20 variants x all cut points x chunks 1..%d|rest"
                                 % ((3, 2) if thorough else (2, 2)),
                      "conn": "%s, cancel at every point; typed-id model: 2 callers, 1 stray response + 1 peer call from the %s id vocabulary; "
                              "scripts: 3 callers x 2 notifiers, 1 stray + 1 peer call; bursts: 4 callers x 2 notifiers released together"
                              % ("3 callers x 1 notifier, peer 1 notification (MC)" if thorough else "2 callers x 1 notifier, peer 1 notification (MC)",
                                 "full" if thorough else "small")})
    ck.assume("header whitespace is ASCII; ParseInt's int32 boundary is modelled as 'more than 10 significant digits'")
    ck.assume("a body is decodable exactly when the bytes handed to the decoder are the complete JSON body that was sent")
    ck.assume("the peer answers each call at most once and drains its input (writes to the peer do not block forever)")
    ck.assume("real goroutine schedules are steered through the hook points and sampled (scripts) or left to the scheduler (bursts), not enumerated; "
              "the exhaustive interleaving claim is for the model, tied to the code by trace validation")
    ck.assume("string ids are non-empty (jsonrpc2.ID's zero value is the number 0 by construction: NewStringID(\"\") is the number 0)")
    ck.finish()


vlib.main(main)
