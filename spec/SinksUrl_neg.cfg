\* C04 negative config: allow-list test by HasPrefix ("httpx:" passes) must violate PassImpliesSafe.
CONSTANTS
  AcceptMode = "prefix"
  Pipeline = "html"
  EmitEdges = FALSE
INIT Init
NEXT Next
VIEW View
INVARIANTS TypeOK PassImpliesSafe ValueIntact
PROPERTIES FailIsFixed
CHECK_DEADLOCK FALSE
