------------------------------ MODULE MCFraming ------------------------------
(* Bounded model-checking instance of Framing: short bodies (the reader does not look inside a body,
   so its length only scales the state space), every variant, every truncation point, every chunking
   built from chunks of 1..ChunkMax bytes or "the rest".                                          *)
EXTENDS Framing
SmallMsgs == << [kind |-> "call",     idk |-> "num",  id |-> [t |-> "num", v |-> "7", n |-> 7], blen |-> 3,  rlen |-> 3],
                [kind |-> "notify",   idk |-> "none", id |-> [t |-> "none", v |-> "", n |-> NoNum], blen |-> 5,  rlen |-> 4],    \* one 2-byte character
                \* a 4-byte character: two-digit length; its id is the STRING "7"
                [kind |-> "response", idk |-> "str",  id |-> [t |-> "str", v |-> "7", n |-> 7], blen |-> 12, rlen |-> 9] >>
VariantsDef == AllVariants
=============================================================================
