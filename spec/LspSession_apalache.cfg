\* Unbounded argument for LspSession.tla with Apalache (see the comment above IndInv); operators on the command line.
CONSTANTS
  Docs = {"hello", "other", "third"}
  Texts = {"t1", "t2", "t3"}
  OpenRule = "replace"
  HistLen = 1000
INIT Init
NEXT NextUnbounded
