\* C19 trace validation: recorded executions of the real handler against Sse.tla (TraceSse.tla).
CONSTANTS
  Clients = {"c1", "c2", "c3", "c4"}
  NB = 3
  Design = "done"
  MaxPings = 3
  PingFirst = FALSE
  NoRaces = FALSE
  ServerCuts = FALSE
  Slow = {}
  EmitEdges = FALSE
INIT TraceInit
NEXT TraceNext
VIEW TraceView
INVARIANTS Report
CHECK_DEADLOCK FALSE
