\* C13 design check: with every hand-written component repaired (read-then-clear) the shared slot implements lexical children.
CONSTANTS
  Kinds = {"c1", "c0", "c2", "fn", "onceA", "onceF", "flush", "join", "raw"}
  FirstKinds = {"c1", "c0", "c2", "fn", "onceA", "onceF", "flush", "join", "raw"}
  MaxNodes = 3
  MaxDepth = 3
  MaxOut = 120
  Repaired = {"OnceAgain", "OnceFirst", "Flush", "Join", "Raw", "Nop", "Script", "Json"}
  BlockFlushes = TRUE
  GenClears = TRUE
  EmitEdges = FALSE
INIT Init
NEXT Next
VIEW View
INVARIANTS TypeOK ImplEqualsIdeal NoDoubleRender NoStaleSlot MismatchIsAttributed
CHECK_DEADLOCK FALSE
