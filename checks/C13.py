#!/usr/bin/env python3
"""C13 -- a component receives exactly the child block passed at its call site (spec/RenderCtxChildren.tla).

MC   : TLC checks ImplEqualsIdeal / NoDoubleRender / NoStaleSlot on the two-layer spec (lexical children vs
       the one shared children slot, one action per component kind) for every call tree within the bounds,
       with every hand-written component repaired (the repair design).  Two negative configs must be
       rejected: generated callees that do not clear the slot, and the components as coded at the pinned commit.
GEN  : TLC prints every enumerated tree with the Ideal and Impl token lists and the leak attribution.  Each
       tree is printed as templ SOURCE (one template per tree, blocks written literally with unique markers;
       no generic combinators in between), generated with the repository's generator, compiled, rendered; the
       output is tokenised to "which marker inside which component instance" and compared with Ideal (verdict)
       and Impl (attribution: the action that kept the slot = signature).  Which hand-written components
       are repaired in the code under test is detected from the real behaviour of the trees whose only leak
       goes through that component; the Impl predictions are then re-derived by TLC for that Repaired set.
"""
import concurrent.futures as cf
import json, os, sys
sys.path.insert(0, os.path.join(os.path.dirname(os.path.abspath(__file__)), "..", "lib"))
import vlib

MODULE = "RenderCtxChildren"
CORE = ["c1", "c0", "c2", "onceA", "onceF", "flush", "join", "raw"]
ALL = CORE + ["onceFb", "fn", "fo", "cw", "nop", "script", "json"]
# hand-written callees that render their children into the given writer (fn) / a writer of their own (fo: strings.Builder,
# fh: templ.ToGoHTML), below and above generated layers; no Once/Flush here (ToGoHTML's buffer is not bounded)
WRITERS = ["c1", "c0", "fn", "fo", "fh"]
SMALL = ["c1", "c0", "onceA", "flush", "raw"]
ACTIONS = ["OnceAgain", "OnceFirst", "Flush", "Join", "Raw", "Nop", "Script", "Json"]
PER_PKG = 250


def tla_set(xs):
    return "{" + ", ".join('"%s"' % x for x in xs) + "}"


def cfg(base, kinds, nodes, depth, repaired=None, first=None):
    text = open(os.path.join(vlib.SPEC, base)).read()
    out = []
    for line in text.splitlines():
        s = line.strip()
        if s.startswith("Kinds ="):
            line = "  Kinds = " + tla_set(kinds)
        elif s.startswith("FirstKinds ="):
            line = "  FirstKinds = " + tla_set(first if first is not None else kinds)
        elif s.startswith("MaxNodes ="):
            line = "  MaxNodes = %d" % nodes
        elif s.startswith("MaxDepth ="):
            line = "  MaxDepth = %d" % depth
        elif s.startswith("MaxOut ="):
            line = "  MaxOut = %d" % (120 if nodes <= 3 else 200)
        elif s.startswith("Repaired =") and repaired is not None:
            line = "  Repaired = " + tla_set(repaired)
        out.append(line)
    return "\n".join(out) + "\n"


# ---------------------------------------------------------------------------------------------------
# concretiser: a TLC tree -> templ source
# ---------------------------------------------------------------------------------------------------
def call_src(k, pid):
    return {
        "c1": '@lib.C1("%s")', "c0": '@lib.C0("%s")', "c2": '@lib.C2("%s")', "cw": '@lib.Cw("%s")',
        "fn": '@lib.Fn("%s")', "fo": '@lib.Fo("%s")', "fh": '@lib.Fh("%s")', "onceA": "@lib.HA.Once()", "onceF": "@lib.HF.Once()", "onceFb": "@lib.HF.Once()", "flush": "@templ.Flush()",
        "join": '@templ.Join(lib.Cj("%s.91"), lib.Cj("%s.92"))', "raw": "@templ.Raw(\"<x-raw id='%s'></x-raw>\")",
        "nop": "@templ.NopComponent", "script": '@lib.Scr("%s")', "json": '@templ.JSONScript("%s", 1)',
    }[k].replace("%s", pid)


def body_src(cs, path, ind):
    lines = []
    for j, node in enumerate(cs, 1):
        p = path + [j]
        pid = ".".join(map(str, p))
        call = call_src(node["k"], pid)
        if node["b"]:
            lines.append(ind + call + " {")
            lines.append(ind + "\t" + '<m id="%s"></m>' % pid)
            lines += body_src(node["b"][0], p, ind + "\t")
            lines.append(ind + "}")
        else:
            lines.append(ind + call)
    return lines


def tree_src(tid, tree):
    return "templ %s() {\n%s\n}\n" % (tid, "\n".join(body_src(tree, [], "\t")))


def write_packages(c13dir, cases):
    """cases: list of dicts with id/src. Writes gen/tNNN/{trees.templ,reg.go} and pkgs.go."""
    gen = os.path.join(c13dir, "gen")
    os.makedirs(gen)
    pkgs = []
    for start in range(0, len(cases), PER_PKG):
        name = "t%03d" % (start // PER_PKG)
        pkgs.append(name)
        d = os.path.join(gen, name)
        os.makedirs(d)
        chunk = cases[start:start + PER_PKG]
        with open(os.path.join(d, "trees.templ"), "w") as fh:
            fh.write("package %s\n\nimport \"verifharness/c13/lib\"\n\n" % name)
            fh.write("templ useLib() {\n\t@lib.C0(\"0\")\n}\n\n")
            for c in chunk:
                fh.write(c["src"] + "\n")
        with open(os.path.join(d, "reg.go"), "w") as fh:
            fh.write("package %s\n\nimport \"verifharness/c13/lib\"\n\nfunc init() {\n\t_ = useLib\n" % name)
            for c in chunk:
                fh.write("\tlib.Register(%s, %s)\n" % (json.dumps(c["id"]), c["id"]))
            fh.write("}\n")
    with open(os.path.join(c13dir, "pkgs.go"), "w") as fh:
        fh.write("package main\n\nimport (\n" + "".join('\t_ "verifharness/c13/gen/%s"\n' % p for p in pkgs) + ")\n")
    return pkgs


def tree_key(tree):
    return json.dumps(tree, sort_keys=True)


class Emission:
    """The union of the partitioned emission runs of one tree family."""
    def __init__(self, parts):
        self.generated = sum(r.generated for r in parts)
        self.distinct = sum(r.distinct for r in parts)
        self.depth = max(r.depth for r in parts)
        self.wall = max(r.wall for r in parts)
        self.trees = [t for r in parts for t in r.tagged("TREE")]


def emit_part(kinds, nodes, depth, repaired, first, timeout):
    r = vlib.tlc(MODULE, "gen.cfg", files={"gen.cfg": cfg(MODULE + "_gen.cfg", kinds, nodes, depth, repaired, first)},
                 workers=1, timeout=timeout, xmx="4g")
    if not r.ok:
        raise vlib.InfraError("emission run failed: %s" % r.violated)
    return r


def emit(pool, kinds, nodes, depth, repaired, timeout, parts):
    """Start the emission of one family, partitioned by the kind of the first call."""
    groups = [kinds[j::parts] for j in range(parts)]
    return [pool.submit(emit_part, kinds, nodes, depth, repaired, g, timeout) for g in groups if g]


def main():
    ck = vlib.Check("C13", "model_checking")
    thorough = ck.tier == "thorough"
    # (kinds, MaxNodes, MaxDepth) of the tree families that are enumerated, compiled and rendered
    if thorough:
        families = [("all-kinds", ALL, 3, 3), ("small-kinds-4", SMALL, 4, 4), ("writers", WRITERS, 3, 3)]
        tlc_timeout = 1500
    else:
        families = [("core-kinds", CORE, 3, 3), ("all-kinds-2", ALL, 2, 2), ("writers", WRITERS, 3, 3)]
        tlc_timeout = 600

    # --- MC (design check + negative configs) and emission with nothing repaired, side by side -------
    pool = cf.ThreadPoolExecutor(max_workers=20)
    mck, mcn, mcd = (ALL, 3, 3) if thorough else (CORE, 3, 3)
    f_mc = pool.submit(vlib.tlc, MODULE, "mc.cfg", files={"mc.cfg": cfg(MODULE + "_mc.cfg", mck, mcn, mcd)},
                       workers=6, timeout=tlc_timeout, xmx="8g")
    f_mc4 = pool.submit(vlib.tlc, MODULE, "mc4.cfg", files={"mc4.cfg": cfg(MODULE + "_mc.cfg", SMALL, 4, 4)},
                        workers=4, timeout=tlc_timeout, xmx="8g") if thorough else None
    f_neg = pool.submit(vlib.tlc, MODULE, "neg.cfg", files={"neg.cfg": cfg(MODULE + "_neg.cfg", CORE, 3, 3)},
                        workers=2, timeout=tlc_timeout)
    wn = 4 if thorough else 3
    f_mcw = pool.submit(vlib.tlc, MODULE, "mcw.cfg", files={"mcw.cfg": cfg(MODULE + "_mc.cfg", WRITERS, wn, wn)},
                        workers=2, timeout=tlc_timeout)
    f_negw = pool.submit(vlib.tlc, MODULE, "negw.cfg", files={"negw.cfg": cfg(MODULE + "_negflush.cfg", WRITERS, 3, 3)},
                         workers=2, timeout=tlc_timeout)
    f_old = pool.submit(vlib.tlc, MODULE, "old.cfg", files={"old.cfg": cfg(MODULE + "_ascoded.cfg", CORE, 3, 3)},
                        workers=2, timeout=tlc_timeout)
    parts = {name: (4 if n >= 3 else 1) for (name, kinds, n, d) in families}
    f_gen = [emit(pool, kinds, n, d, [], tlc_timeout, parts[name]) for (name, kinds, n, d) in families]
    # speculative: the predictions for the repairs recorded as fixed (what the detection below usually finds), derived meanwhile
    expect = sorted(a for a in ACTIONS if any(k.get("property") == "C13" and k.get("status") == "fixed"
                                              and k.get("signature") == "Children.%sKeepsSlot" % a for k in vlib.load_known()))
    f_spec = [emit(pool, kinds, n, d, expect, tlc_timeout, parts[name]) for (name, kinds, n, d) in families] if expect else None
    hd = vlib.harness_dir()          # meanwhile: build the templ CLI of the tree under test
    vlib.templ_bin()

    mc = f_mc.result()
    if not mc.ok:
        raise vlib.InfraError("repair design does not satisfy ImplEqualsIdeal (%s): the model is wrong" % mc.violated)
    ck.add_tlc(mc, "RenderCtxChildren_mc (all repaired) kinds=%d MaxNodes=%d" % (len(mck), mcn))
    if f_mc4 is not None:
        mc4 = f_mc4.result()
        if not mc4.ok:
            raise vlib.InfraError("repair design does not satisfy ImplEqualsIdeal on the 4-call trees (%s)" % mc4.violated)
        ck.add_tlc(mc4, "RenderCtxChildren_mc (all repaired) kinds=%d MaxNodes=4" % len(SMALL))
    mcw = f_mcw.result()
    if not mcw.ok:
        raise vlib.InfraError("writer model does not satisfy ImplEqualsIdeal (%s): the model is wrong" % mcw.violated)
    ck.add_tlc(mcw, "RenderCtxChildren_mc kinds=%s MaxNodes=%d (own-writer callees)" % (WRITERS, wn))
    if f_negw.result().violated != "ImplEqualsIdeal":
        raise vlib.InfraError("negative config (block closure does not flush the Buffer it created) was not rejected")
    neg = f_neg.result()
    if neg.violated != "ImplEqualsIdeal":
        raise vlib.InfraError("negative config (generated callees do not clear the slot) was not rejected")
    old = f_old.result()
    if old.violated != "ImplEqualsIdeal":
        raise vlib.InfraError("the as-coded model (nothing repaired) was not rejected: the spec does not see the slot leaks")
    ck.set("negative_configs_rejected", ["GenClears=FALSE", "BlockFlushes=FALSE", "Repaired={} (components as coded at the pinned commit)"])

    # --- concretise: one templ template per tree ---------------------------------------------------
    def collect(results):
        cases, seen = [], set()
        for (name, kinds, n, d), r in zip(families, results):
            trees = r.trees
            for t in trees:
                key = tree_key(t["tree"])
                if key in seen:
                    continue
                seen.add(key)
                cases.append(t)
            ck.add_tlc(r, "RenderCtxChildren_gen %s: %d trees" % (name, len(trees)))
        cases.sort(key=lambda t: tree_key(t["tree"]))
        for j, t in enumerate(cases):
            t["id"] = "T%05d" % j
            t["src"] = tree_src(t["id"], t["tree"])
        return cases

    gens = [Emission([f.result() for f in fs]) for fs in f_gen]
    cases = collect(gens)
    if len(cases) < (6000 if not thorough else 20000):
        raise vlib.InfraError("only %d trees enumerated" % len(cases))
    for t in cases:
        if t["fin"] not in ("done", "diverged"):
            raise vlib.InfraError("tree without a final state")
    sc = vlib.scratch()
    c13 = os.path.join(hd, "c13")
    pkgs = write_packages(c13, cases)
    vlib.log("generating %d trees in %d packages" % (len(cases), len(pkgs)))
    vlib.templ_generate(c13)
    vlib.log("building")
    # like vlib.go_build, but the thousands of generated tree functions are compiled without optimisation
    # (3x faster build; the libraries under test are compiled as usual)
    binp = os.path.join(sc, "c13")
    vlib.run(["go", "build", "-tags", "verif", "-gcflags=verifharness/c13/gen/...=-N -l", "-o", binp, "./c13"], cwd=hd)

    def write_cases(path, cs):
        return vlib.write_ndjson(path, [{k: c[k] for k in ("id", "src", "ideal", "impl", "leaks", "fin")} for c in cs])

    # --- which hand-written components are repaired in the code under test? ---------------------------
    p0 = write_cases(os.path.join(sc, "cases0.ndjson"), cases)
    pr = vlib.run([binp, "classify", p0], check=False, timeout=900)
    probe = vlib.Check("C13", "model_checking")
    s0 = vlib.harness_results(probe, pr)
    if s0["trees"] != len(cases) or s0["compiled"] != len(cases):
        raise vlib.InfraError("harness rendered %d of %d trees (%d compiled)" % (s0["trees"], len(cases), s0["compiled"]))
    # an action is repaired in the code under test iff no tree that isolates it behaves as coded at the pinned
    # commit and some behave ideally ("Neither" = the tree also passes through another, repaired, action).
    # A wrong guess cannot hide anything: verdicts compare with Ideal, and a tree that then matches neither
    # layer gets the signature Children.Unmodelled, which is never a known finding.
    repaired = sorted(a for a in ACTIONS if a in s0["pure"] and s0["pure"][a]["Ideal"] > 0 and s0["pure"][a]["Impl"] == 0)
    missing = [a for a in ACTIONS if a not in s0["pure"]]
    if missing:
        raise vlib.InfraError("no tree isolates the action(s) %s" % missing)
    ck.set("repaired_in_code_under_test", repaired)
    ck.set("isolating_trees", s0["pure"])
    ck.set("as_coded_model_vs_real", s0["classes"])
    if repaired:
        vlib.log("re-deriving Impl predictions for Repaired = %s" % repaired)
        gens2 = f_spec if (f_spec is not None and repaired == expect) else \
            [emit(pool, kinds, n, d, repaired, tlc_timeout, parts[name]) for (name, kinds, n, d) in families]
        by_key = {}
        for fs in gens2:
            for t in Emission([f.result() for f in fs]).trees:
                by_key[tree_key(t["tree"])] = t
        for c in cases:
            t = by_key.get(tree_key(c["tree"]))
            if t is None:
                raise vlib.InfraError("second emission lost a tree")
            c["impl"], c["leaks"], c["fin"] = t["impl"], t["leaks"], t["fin"]

    # --- binding self-test: corrupt one Ideal token of a leak-free tree -> must be reported -------------
    clean = [c for c in cases if not c["leaks"] and len(c["ideal"]) >= 4][:50]
    bad = json.loads(json.dumps(clean))
    bad[7]["ideal"][1], bad[7]["ideal"][2] = bad[7]["ideal"][2], bad[7]["ideal"][1]
    bad[7]["impl"] = bad[7]["ideal"]
    pb = write_cases(os.path.join(sc, "corrupt.ndjson"), bad)
    got = []
    probe.known = []
    probe.violation = lambda sig, what, case: got.append((sig, case["tree"]))
    vlib.harness_results(probe, vlib.run([binp, "check", pb, "subset"], check=False))
    if ("Children.Unmodelled", bad[7]["id"]) not in got:
        raise vlib.InfraError("binding self-test: corrupted Ideal prediction not reported (%s)" % got)
    ck.set("binding_selftest", "swapped two Ideal tokens of tree %s -> reported" % bad[7]["id"])

    # --- verdicts ------------------------------------------------------------------------------------
    p1 = write_cases(os.path.join(sc, "cases1.ndjson"), cases)
    pr = vlib.run([binp, "check", p1], check=False, timeout=900)
    s = vlib.harness_results(ck, pr)
    if s["trees"] != len(cases) or s["compiled"] != len(cases):
        raise vlib.InfraError("harness rendered %d of %d trees (%d compiled)" % (s["trees"], len(cases), s["compiled"]))
    ck.set("trees_compiled_and_rendered", s["trees"])
    ck.set("packages", len(pkgs))
    ck.set("real_vs_model", s["classes"])
    ck.set("failing_trees", s["fails"])
    ck.set("failing_trees_by_action", s["vias"])
    ck.set("diverged_real", s["diverged_real"])
    ck.set("model_predicts_leak", len([c for c in cases if c["ideal"] != c["impl"] or c["fin"] == "diverged"]))
    ck.set("traces_validated_against_impl", s["trees"])
    ck.set("exhaustive", True)
    ck.set("bounds", {"families": [{"name": n, "kinds": k, "MaxNodes": mn, "MaxDepth": md} for (n, k, mn, md) in families],
                      "width": 2})
    ck.set("rule", "every call tree (bodies of <=2 calls, <=MaxNodes calls, nesting <=MaxDepth) over the callee kinds x "
                   "with/without block, each compiled from its own templ source and rendered in a fresh context")
    ck.assume("Ideal semantics of DESIGN.md appendix: Join/Raw/Nop/script/JSON components ignore a block and their inner components get none; "
              "Once renders its block on first use only; a handle with a fixed component is called without a block")
    ck.assume("callees that render their children into a writer of their own get blocks that fit the 4 KiB templ buffer (markers only); "
              "truncation of larger blocks is not explored")
    ck.assume("user func components follow the documented GetChildren-then-ClearChildren protocol")
    ck.finish()


def guarded():
    try:
        main()
    except (vlib.InfraError, SystemExit):
        raise
    except Exception as e:  # a bug in the check itself is a machinery failure, never a verdict
        import traceback
        raise vlib.InfraError("check crashed: %s\n%s" % (e, traceback.format_exc()))


vlib.main(guarded)
