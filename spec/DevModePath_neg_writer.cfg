\* C16 path identity, negative config: the writer hashes the name it was given (no symlink resolution): must be rejected
CONSTANTS
  Shapes <- ShapesDef
  ReaderRule = "coded"
  WriterRule = "noresolve"
  EmitCases = FALSE
INIT Init
NEXT Next
VIEW View
ACTION_CONSTRAINT Emit
INVARIANTS WriterReaderAgree NameIsCanonical
CHECK_DEADLOCK FALSE
