//go:build !c15hook

package main

import "math/rand"

// Built when the repository under test does not (yet) carry the verif hook of cmd/templ/generatecmd:
// the harness then observes only the file tree and the returned error.
const hooksPresent = false

type hookEvent struct {
	Ev   string
	Dir  []string
	Name string
}

func installHook(root string, rng *rand.Rand, perturb bool) (stop func() []hookEvent) {
	return func() []hookEvent { return nil }
}

func hookEventCount() int { return 0 }
func perturbCount() int   { return 0 }
