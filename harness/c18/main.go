// c18 binds spec/Framing.tla and spec/JsonRpc.tla to the real lsp/jsonrpc2 package.
//
//	c18 catalogue                                   byte/rune lengths of the catalogue messages (for FramingCatalogue.tla)
//	c18 framing <beh.ndjson> <seed> <splits>        replay TLC behaviours of Framing on the real NewStream
//	c18 conn <hist.ndjson> <seed> <trace-out> <workers>   replay TLC peer scripts on the real Conn (needs the verif hooks)
package main

import (
	"bytes"
	"context"
	"encoding/json"
	"errors"
	"fmt"
	"io"
	"math/rand"
	"os"
	"regexp"
	"runtime"
	"sort"
	"strconv"
	"strings"
	"time"
	"unicode/utf8"

	"github.com/a-h/templ/lsp/jsonrpc2"

	"verifharness/vhlib"
)

func main() {
	if len(os.Args) < 2 {
		vhlib.Fatal("usage: c18 catalogue|framing|conn ...")
	}
	switch os.Args[1] {
	case "catalogue":
		printCatalogue()
	case "framing":
		if len(os.Args) < 5 {
			vhlib.Fatal("usage: c18 framing <beh.ndjson> <seed> <splits>")
		}
		seed, _ := strconv.ParseInt(os.Args[3], 10, 64)
		splits, _ := strconv.Atoi(os.Args[4])
		framing(os.Args[2], seed, splits)
	case "conn":
		connMain(os.Args[2:])
	default:
		vhlib.Fatal("unknown mode %s", os.Args[1])
	}
}

// ---------------------------------------------------------------------------------------------
// typed ids

// tid is a typed JSON-RPC id as the spec writes it: [t |-> "num" | "str" | "none", v |-> text, n |-> the
// integer the text denotes as a decimal int32 literal, or noNum].  The string "7" and the number 7 are
// different ids.
type tid struct {
	T string `json:"t"`
	V string `json:"v"`
	N int    `json:"n"`
}

const noNum = -1000

var (
	noTid     = tid{T: "none", V: "", N: noNum}
	decimalRe = regexp.MustCompile(`^[+-]?[0-9]+$`)
)

func numericValue(text string) int {
	if decimalRe.MatchString(text) {
		if v, err := strconv.ParseInt(text, 10, 32); err == nil {
			return int(v)
		}
	}
	return noNum
}

// tidOfQ reads the %q form the hooks report: #3 is the number 3, "3" the string.
func tidOfQ(q string) tid {
	switch {
	case q == "":
		return noTid
	case strings.HasPrefix(q, "#"):
		return tid{T: "num", V: q[1:], N: numericValue(q[1:])}
	case len(q) >= 2 && q[0] == '"' && q[len(q)-1] == '"':
		return tid{T: "str", V: q[1 : len(q)-1], N: numericValue(q[1 : len(q)-1])}
	}
	return tid{T: "other", V: q, N: noNum}
}

// tidOfRaw reads the JSON token the peer finds on the wire: a number token or a string token.
func tidOfRaw(raw []byte) tid {
	var s string
	if len(raw) > 0 && raw[0] == '"' {
		if json.Unmarshal(raw, &s) == nil {
			return tid{T: "str", V: s, N: numericValue(s)}
		}
		return tid{T: "other", V: string(raw), N: noNum}
	}
	return tid{T: "num", V: string(raw), N: numericValue(string(raw))}
}

// q is the %q form, wire the JSON token of the id.
func (t tid) q() string {
	if t.T == "num" {
		return "#" + t.V
	}
	return `"` + t.V + `"`
}
func (t tid) wire() string {
	if t.T == "num" {
		return t.V
	}
	b, _ := json.Marshal(t.V)
	return string(b)
}

// tidOfID reads a decoded jsonrpc2.ID through its unambiguous %q form (#7 is a number, "7" a string).
func tidOfID(id jsonrpc2.ID) tid {
	q := fmt.Sprintf("%q", id)
	if strings.HasPrefix(q, `"`) {
		if s, err := strconv.Unquote(q); err == nil {
			return tid{T: "str", V: s, N: numericValue(s)}
		}
	}
	return tidOfQ(q)
}

// tidOfMsg: the id a decoded message carries (none for notifications).
func tidOfMsg(m jsonrpc2.Message) tid {
	switch v := m.(type) {
	case *jsonrpc2.Call:
		return tidOfID(v.ID())
	case *jsonrpc2.Response:
		return tidOfID(v.ID())
	}
	return noTid
}

// tlaSafe spells an id text with characters a TLA+ string literal can hold: bytes outside [A-Za-z0-9 _.+-]
// become %XX (injective; the predicted and the observed ids are compared in this spelling).
func tlaSafe(s string) string {
	var b strings.Builder
	for i := 0; i < len(s); i++ {
		c := s[i]
		switch {
		case c >= 'a' && c <= 'z', c >= 'A' && c <= 'Z', c >= '0' && c <= '9', c == ' ', c == '_', c == '.', c == '+', c == '-':
			b.WriteByte(c)
		default:
			fmt.Fprintf(&b, "%%%02X", c)
		}
	}
	return b.String()
}

func (t tid) safe() tid { return tid{T: t.T, V: tlaSafe(t.V), N: t.N} }

// ---------------------------------------------------------------------------------------------
// catalogue: the concrete messages behind the spec's Msgs indices (1-based in the spec)

type catMsg struct {
	Kind string // call | notify | response
	IDK  string // num | str | none
	ID   tid    // the id as constructed, typed
	Msg  jsonrpc2.Message
	Body []byte
	Desc string
	Pay  string // payload kind: object | array | string | number | true | false | null | error | errdata
}

func must[T any](v T, err error) T {
	if err != nil {
		vhlib.Fatal("catalogue: %v", err)
	}
	return v
}

func errWithData() error {
	d := json.RawMessage(`{"retry":false,"why":"\u00e9"}`)
	return &jsonrpc2.Error{Code: jsonrpc2.InternalError, Message: "with data", Data: &d}
}

// payKind names the kind of JSON value a message carries as params / result, or its error shape
// (Framing.tla: field pay).  An absent member and JSON null are the same kind.
func payKind(m jsonrpc2.Message) string {
	val := func(r json.RawMessage) string {
		t := strings.TrimSpace(string(r))
		switch {
		case t == "" || t == "null":
			return "null"
		case t[0] == '{':
			return "object"
		case t[0] == '[':
			return "array"
		case t[0] == '"':
			return "string"
		case t == "true" || t == "false":
			return t
		}
		return "number"
	}
	switch v := m.(type) {
	case *jsonrpc2.Call:
		return val(v.Params())
	case *jsonrpc2.Notification:
		return val(v.Params())
	case *jsonrpc2.Response:
		if v.Err() != nil {
			var je *jsonrpc2.Error
			if errors.As(v.Err(), &je) && je.Data != nil {
				return "errdata"
			}
			return "error"
		}
		return val(v.Result())
	}
	return "none"
}

func catalogue() []catMsg {
	long := strings.Repeat("abcdefghij", 12)
	raw := []struct {
		kind, idk string
		msg       jsonrpc2.Message
	}{
		{"call", "num", must(jsonrpc2.NewCall(jsonrpc2.NewNumberID(1), "m", "a"))},
		{"notify", "none", must(jsonrpc2.NewNotification("n", "\u00e9"))},                                           // 2-byte character
		{"call", "str", must(jsonrpc2.NewCall(jsonrpc2.NewStringID("x\u20acy"), "textDocument/x", "\u65e5\u672c"))}, // 3-byte characters, also in the id
		{"response", "num", must(jsonrpc2.NewResponse(jsonrpc2.NewNumberID(7), "\U0001F600", nil))},                 // 4-byte character
		{"response", "str", must(jsonrpc2.NewResponse(jsonrpc2.NewStringID("id-\u00fc"), map[string]string{"k": "\u00fc\u00df"}, nil))},
		{"response", "num", must(jsonrpc2.NewResponse(jsonrpc2.NewNumberID(2147483647), nil, jsonrpc2.NewError(jsonrpc2.InvalidParams, "bad \u00e9")))},
		{"notify", "none", must(jsonrpc2.NewNotification("window/logMessage", long))}, // three-digit length
		{"call", "num", must(jsonrpc2.NewCall(jsonrpc2.NewNumberID(0), "shutdown", nil))},
		// string ids whose text looks like a number: they are strings, not the numbers 7, 42, 7, -1
		{"call", "str", must(jsonrpc2.NewCall(jsonrpc2.NewStringID("7"), "m", "\u00e9"))},
		{"response", "str", must(jsonrpc2.NewResponse(jsonrpc2.NewStringID("42"), "ok", nil))},
		{"response", "str", must(jsonrpc2.NewResponse(jsonrpc2.NewStringID("007"), nil, jsonrpc2.NewError(jsonrpc2.InvalidParams, "bond")))},
		{"call", "str", must(jsonrpc2.NewCall(jsonrpc2.NewStringID("-1"), "n", nil))},
		{"response", "num", must(jsonrpc2.NewResponse(jsonrpc2.NewNumberID(-12), "neg", nil))},
		// the result kinds of a SUCCESSFUL response: null (reply(ctx, nil, nil): shutdown and every void request),
		// array, number, true, false (object and string are above) -- and error responses with data
		{"response", "num", must(jsonrpc2.NewResponse(jsonrpc2.NewNumberID(8), nil, nil))},
		{"response", "str", must(jsonrpc2.NewResponse(jsonrpc2.NewStringID("s\u00e9v"), nil, nil))},
		{"response", "num", must(jsonrpc2.NewResponse(jsonrpc2.NewNumberID(9), []any{1, "\u00e9", nil}, nil))},
		{"response", "num", must(jsonrpc2.NewResponse(jsonrpc2.NewNumberID(10), -1.5, nil))},
		{"response", "str", must(jsonrpc2.NewResponse(jsonrpc2.NewStringID("t"), true, nil))},
		{"response", "num", must(jsonrpc2.NewResponse(jsonrpc2.NewNumberID(11), false, nil))},
		{"response", "num", must(jsonrpc2.NewResponse(jsonrpc2.NewNumberID(12), nil, errWithData()))},
		{"call", "num", must(jsonrpc2.NewCall(jsonrpc2.NewNumberID(13), "m", map[string]any{"a": []int{1, 2}}))},
		// the empty string is a string id too (JSON-RPC: "a String, Number, or NULL value")
		{"call", "str", must(jsonrpc2.NewCall(jsonrpc2.NewStringID(""), "m", "e"))},
		{"response", "str", must(jsonrpc2.NewResponse(jsonrpc2.NewStringID(""), "e", nil))},
	}
	out := make([]catMsg, len(raw))
	for i, r := range raw {
		body, err := json.Marshal(r.msg)
		if err != nil {
			vhlib.Fatal("marshal catalogue message %d: %v", i, err)
		}
		out[i] = catMsg{Kind: r.kind, IDK: r.idk, ID: tidOfMsg(r.msg), Msg: r.msg, Body: body, Desc: describe(r.msg), Pay: payKind(r.msg)}
		if i >= len(raw)-2 {
			// constructed with NewStringID(""): the id the spec expects is the string "", whatever ID makes of it
			out[i].ID = tid{T: "str", V: "", N: noNum}
		}
		if out[i].ID.T != r.idk {
			vhlib.Fatal("catalogue message %d: id %v is not of kind %s", i, out[i].ID, r.idk)
		}
	}
	return out
}

// raw renders a JSON value; JSON null and an absent member say the same thing in JSON-RPC.
func raw(r json.RawMessage) string {
	if len(r) == 0 || string(r) == "null" {
		return "null"
	}
	return string(r)
}

// describe renders what a message says (kind, id, method, params/result, error) for comparison.
func describe(m jsonrpc2.Message) string {
	switch v := m.(type) {
	case *jsonrpc2.Call:
		return fmt.Sprintf("call id=%q method=%q params=%s", v.ID(), v.Method(), raw(v.Params()))
	case *jsonrpc2.Notification:
		return fmt.Sprintf("notify method=%q params=%s", v.Method(), raw(v.Params()))
	case *jsonrpc2.Response:
		e := "<nil>"
		if v.Err() != nil {
			var je *jsonrpc2.Error
			if errors.As(v.Err(), &je) {
				e = fmt.Sprintf("%d/%s", je.Code, je.Message)
				if je.Data != nil {
					e += "/data=" + string(*je.Data)
				}
			} else {
				e = v.Err().Error()
			}
		}
		return fmt.Sprintf("response id=%q result=%s err=%s", v.ID(), raw(v.Result()), e)
	case nil:
		return "<nil message>"
	}
	return fmt.Sprintf("%T", m)
}

func printCatalogue() {
	type row struct {
		Kind string `json:"kind"`
		IDK  string `json:"idk"`
		ID   tid    `json:"id"` // text in the tlaSafe spelling
		Blen int    `json:"blen"`
		Rlen int    `json:"rlen"`
		Pay  string `json:"pay"`
		Body string `json:"body"`
	}
	var rows []row
	for _, c := range catalogue() {
		rows = append(rows, row{c.Kind, c.IDK, c.ID.safe(), len(c.Body), utf8.RuneCount(c.Body), c.Pay, string(c.Body)})
	}
	b, _ := json.Marshal(rows)
	fmt.Println(string(b))
}

// ---------------------------------------------------------------------------------------------
// framing: concrete wires

type behaviour struct {
	Sent    []int    `json:"sent"`
	Variant string   `json:"variant"`
	At      int      `json:"at"`
	Cut     int      `json:"cut"`
	Class   string   `json:"class"`
	Wire    []string `json:"wire"`
	Chunks  []int    `json:"chunks"`
	Read    []int    `json:"read"`
	Err     string   `json:"err"`
	IDs     []tid    `json:"ids"`  // the spec's ReadIds: the typed id of every message it predicts to be read
	Pays    []string `json:"pays"` // the spec's ReadPays: the payload kind of every message it predicts to be read
	sentPay []string // payload kinds of the messages sent (from the catalogue)
}

const hdrName = "Content-Length"

// two builders in lock step: the bytes, and their abstraction into the spec's symbols
type wireB struct {
	b   bytes.Buffer
	sym strings.Builder
}

func (w *wireB) name(first byte) { // header name, optionally with a wrong first letter
	for i := 0; i < len(hdrName); i++ {
		c := hdrName[i]
		switch {
		case i == 0 && first != 0:
			w.b.WriteByte(first)
			w.sym.WriteByte('O')
		case c == '-':
			w.b.WriteByte(c)
			w.sym.WriteByte('M')
		default:
			w.b.WriteByte(c)
			w.sym.WriteByte('K')
		}
	}
}

// lit appends bytes whose symbols are given explicitly
func (w *wireB) lit(bs string, syms string) {
	if len(bs) != len(syms) {
		vhlib.Fatal("lit %q/%q", bs, syms)
	}
	w.b.WriteString(bs)
	w.sym.WriteString(syms)
}
func (w *wireB) digits(n int) { s := strconv.Itoa(n); w.lit(s, s) }
func (w *wireB) crlf()        { w.lit("\r\n", "RN") }
func (w *wireB) clLine(value func()) {
	w.name(0)
	w.lit(": ", "CS")
	value()
	w.crlf()
}
func (w *wireB) other() { w.lit("Xon: ab", "OKKCSOO"); w.crlf() }
func (w *wireB) body(b []byte) {
	w.b.Write(b)
	w.sym.WriteString(strings.Repeat("O", len(b)))
}

// header writes the header section of one frame under a variant (Framing.tla: Header)
func (w *wireB) header(n int, v string, rng *rand.Rand) {
	d := func() { w.digits(n) }
	switch v {
	case "extra-before":
		w.other()
		w.clLine(d)
		w.crlf()
	case "extra-after":
		w.clLine(d)
		w.other()
		w.crlf()
	case "padded":
		w.lit(" ", "S")
		w.name(0)
		w.lit(": \t ", "CSSS")
		d()
		w.lit(" \t", "SS")
		w.crlf()
		w.crlf()
	case "lfonly":
		w.name(0)
		w.lit(": ", "CS")
		d()
		w.lit("\n\n", "NN")
	case "dup-cl":
		w.clLine(func() { w.lit("1", "1") })
		w.clLine(d)
		w.crlf()
	case "plus":
		w.clLine(func() { w.lit("+", "P"); d() })
		w.crlf()
	case "nocolon":
		w.name(0)
		w.lit(" ", "S")
		d()
		w.crlf()
		w.crlf()
	case "nonnumeric":
		w.clLine(func() { w.lit([]string{"ab", "x1", "\xc3\xa9"}[rng.Intn(3)], "OO") })
		w.crlf()
	case "empty-value":
		w.clLine(func() {})
		w.crlf()
	case "zero":
		w.clLine(func() { w.lit("0", "0") })
		w.crlf()
	case "negative":
		w.clLine(func() { w.lit("-", "M"); d() })
		w.crlf()
	case "missing":
		w.crlf()
	case "othername":
		w.name('c') // content-length: header names are compared exactly by this reader
		w.lit(": ", "CS")
		d()
		w.crlf()
		w.crlf()
	case "spacecolon":
		w.name(0)
		w.lit(" : ", "SCS")
		d()
		w.crlf()
		w.crlf()
	case "overflow":
		w.clLine(func() { w.lit("999999999999", "999999999999") })
		w.crlf()
	case "huge":
		w.clLine(func() { w.lit("999999", "999999") })
		w.crlf()
	case "inner-space":
		w.clLine(func() { w.lit("1 ", "1S"); d() })
		w.crlf()
	default: // none, trunc-hdr, trunc-body
		w.clLine(d)
		w.crlf()
	}
}

func buildWire(cat []catMsg, b *behaviour, rng *rand.Rand) (wire []byte, sym string, frameEnds []int) {
	var w wireB
	for i, mi := range b.Sent {
		m := cat[mi-1]
		k := "none"
		if i+1 == b.At {
			k = b.Variant
		}
		start := w.b.Len()
		w.header(len(m.Body), k, rng)
		switch k {
		case "trunc-hdr":
			w.b.Truncate(start + b.Cut)
			s := w.sym.String()[:start+b.Cut]
			w.sym.Reset()
			w.sym.WriteString(s)
			return w.b.Bytes(), w.sym.String(), frameEnds
		case "trunc-body":
			w.body(m.Body[:b.Cut])
			return w.b.Bytes(), w.sym.String(), frameEnds
		}
		w.body(m.Body)
		frameEnds = append(frameEnds, w.b.Len())
	}
	return w.b.Bytes(), w.sym.String(), frameEnds
}

// ---------------------------------------------------------------------------------------------
// framing: readers

// chunkReader yields exactly the scripted chunks: k >= 0 bytes without EOF, -(k+1): k bytes with io.EOF.
type chunkReader struct {
	data      []byte
	chunks    []int
	pos       int
	afterEOF  int
	readCalls int
}

var errBusyLoop = errors.New("reader kept calling Read after EOF")

func (c *chunkReader) Read(p []byte) (int, error) {
	c.readCalls++
	if len(c.chunks) == 0 {
		c.afterEOF++
		if c.afterEOF > 10000 {
			panic(errBusyLoop)
		}
		return 0, io.EOF
	}
	k := c.chunks[0]
	eof := false
	if k < 0 {
		k, eof = -k-1, true
	}
	if k > len(c.data)-c.pos {
		k = len(c.data) - c.pos
	}
	if k > len(p) { // hand over what fits, keep the rest of this chunk
		n := copy(p, c.data[c.pos:c.pos+len(p)])
		c.pos += n
		if eof {
			c.chunks[0] = -(k - n) - 1
		} else {
			c.chunks[0] = k - n
		}
		return n, nil
	}
	n := copy(p, c.data[c.pos:c.pos+k])
	c.pos += n
	c.chunks = c.chunks[1:]
	if eof {
		c.chunks = nil
		return n, io.EOF
	}
	return n, nil
}
func (c *chunkReader) Write(p []byte) (int, error) { return len(p), nil }
func (c *chunkReader) Close() error                { return nil }

type outcome struct {
	Decoded []string `json:"decoded"`
	IDs     []tid    `json:"ids"`  // typed ids of the decoded messages (tlaSafe spelling)
	Pays    []string `json:"pays"` // payload kinds of the decoded messages
	ErrCls  string   `json:"err_class"`
	ErrText string   `json:"err_text"`
	Panic   string   `json:"panic,omitempty"`
}

func classify(err error, total int64) string {
	s := err.Error()
	switch {
	case strings.Contains(s, "failed reading header line"):
		if total == 0 {
			return "eof-clean"
		}
		return "hdr-eof"
	case strings.Contains(s, "invalid header line"):
		return "nocolon"
	case strings.Contains(s, "failed parsing"):
		return "parse"
	case strings.Contains(s, "invalid Content-Length"):
		return "nonpositive"
	case strings.Contains(s, "missing"):
		return "missing"
	case strings.Contains(s, "read full"):
		return "body-eof"
	case strings.Contains(s, "unmarshaling") || errors.Is(err, jsonrpc2.ErrInvalidRequest):
		return "decode"
	}
	return "other"
}

// readAll drives the real stream until its first error.
func readAll(rwc io.ReadWriteCloser, limit int) (o outcome) {
	defer func() {
		if r := recover(); r != nil {
			o.Panic = fmt.Sprint(r)
		}
	}()
	st := jsonrpc2.NewStream(rwc)
	ctx := context.Background()
	for i := 0; i <= limit; i++ {
		msg, total, err := st.Read(ctx)
		if err != nil {
			o.ErrCls, o.ErrText = classify(err, total), err.Error()
			return o
		}
		o.Decoded = append(o.Decoded, describe(msg))
		o.IDs = append(o.IDs, tidOfMsg(msg).safe())
		o.Pays = append(o.Pays, payKind(msg))
	}
	o.ErrCls, o.ErrText = "none", "reader produced more messages than were sent"
	return o
}

type framingCase struct {
	Sent     []string `json:"sent"`
	Variant  string   `json:"variant"`
	At       int      `json:"at"`
	Cut      int      `json:"cut"`
	Wire     string   `json:"wire"`
	Chunks   []int    `json:"chunks"`
	Mode     string   `json:"mode"`
	WantRead int      `json:"spec_read"`
	WantErr  string   `json:"spec_err"`
	Got      any      `json:"got"`
}

func isPrefix(a, b []string) bool {
	if len(a) > len(b) {
		return false
	}
	for i := range a {
		if a[i] != b[i] {
			return false
		}
	}
	return true
}

// judge compares a real outcome with what the spec allows; returns (signature, what) for a violation.
func judge(b *behaviour, sent []string, o outcome) (sig, what string, drift bool) {
	if o.Panic != "" {
		if strings.Contains(o.Panic, errBusyLoop.Error()) {
			return "Framing.NeverWaitsAfterEOF", "the reader keeps reading after EOF instead of returning an error", false
		}
		return "Framing.Panic." + b.Variant, "stream.Read panicked: " + o.Panic, false
	}
	// IdsPreserved: the id read back is the id written, including its type (b.IDs = the spec's ReadIds, which
	// the model proves equal to the ids sent)
	for k, got := range o.IDs {
		if k < len(b.IDs) {
			idsCompared++
			if b.IDs[k].T == "str" && b.IDs[k].N != noNum {
				numStrRead++
			}
		}
		if k < len(b.IDs) && got != b.IDs[k] {
			what := fmt.Sprintf("message %d was written with the %s id %s and read back with the %s id %s", k+1, idKind(b.IDs[k]), b.IDs[k].q(), idKind(got), got.q())
			if b.IDs[k].T == "str" && b.IDs[k].V == "" && got.T == "num" && got.V == "0" {
				return "Framing.IdsPreserved.EmptyStringId", what + ` (ID keeps "is a string" as name != "": the empty string id is the number 0)`, false
			}
			if got.T != b.IDs[k].T {
				return "Framing.IdsPreserved.TypeChanged", what, false
			}
			return "Framing.IdsPreserved", what, false
		}
	}
	// PayloadsPreserved: the kind of value read back (object, array, string, number, true, false, null; error with
	// or without data) is the kind written
	for k, got := range o.Pays {
		if k < len(b.Pays) {
			paysCompared++
			if got != b.Pays[k] {
				return "Framing.PayloadsPreserved", fmt.Sprintf("message %d was written with a %s payload and read back with a %s payload", k+1, b.Pays[k], got), false
			}
		}
	}
	if !isPrefix(o.Decoded, sent) {
		return "Framing.ReadIsPrefixOfSent." + b.Variant, "decoded messages are not a prefix of the messages sent", false
	}
	if o.ErrCls == "none" {
		return "Framing.ReadIsPrefixOfSent." + b.Variant, o.ErrText, false
	}
	switch b.Class {
	case "good":
		if len(o.Decoded) != len(sent) {
			sig := lostSig(b, sent, o)
			return sig, fmt.Sprintf("only %d of %d well-formed frames were read back (%s); not read: %s", len(o.Decoded), len(sent), o.ErrText, sent[len(o.Decoded)]), false
		}
		if o.ErrCls != "eof-clean" {
			return "", "", true
		}
	case "bad":
		if len(o.Decoded) >= b.At {
			return "Framing.MalformedGivesError." + b.Variant, fmt.Sprintf("malformed frame %d was accepted as a message", b.At), false
		}
		if len(o.Decoded) < b.At-1 {
			return lostSig(b, sent, o), fmt.Sprintf("well-formed frame %d before the malformed one was not read (%s): %s", len(o.Decoded)+1, o.ErrText, sent[len(o.Decoded)]), false
		}
		if o.ErrCls != b.Err {
			return "", "", true
		}
	case "lenient":
		if len(o.Decoded) < b.At-1 {
			return lostSig(b, sent, o), fmt.Sprintf("well-formed frame %d before the unusual one was not read (%s): %s", len(o.Decoded)+1, o.ErrText, sent[len(o.Decoded)]), false
		}
		if len(o.Decoded) != len(b.Read) || o.ErrCls != b.Err {
			return "", "", true
		}
	default:
		vhlib.Fatal("unknown class %q", b.Class)
	}
	return "", "", false
}

// roundTripSig marks a failure seen only with the real writer in the loop; a root cause that has its own name
// (the empty string id) keeps it, so that it is one finding whichever replay shows it.
func roundTripSig(sig string) string {
	if sig == "Framing.IdsPreserved.EmptyStringId" {
		return sig
	}
	return strings.Replace(sig, "Framing.", "Framing.RoundTrip.", 1)
}

// lostSig names a well-formed frame that was not read back: a lost response is attributed to the kind of its
// result (Framing.Lossless.Response.null: "result":null refused), anything else to the variant of the case.
func lostSig(b *behaviour, sent []string, o outcome) string {
	if k := len(o.Decoded); k < len(b.sentPay) && k < len(sent) && strings.HasPrefix(sent[k], "response") && o.ErrCls == "decode" {
		return "Framing.Lossless.Response." + b.sentPay[k]
	}
	return "Framing.Lossless." + b.Variant
}

// how many decoded ids were compared with the spec's prediction, and how many of them were string ids that
// look like numbers (the check fails closed on both)
var idsCompared, numStrRead, paysCompared int

func idKind(t tid) string {
	switch t.T {
	case "num":
		return "number"
	case "str":
		return "string"
	}
	return t.T
}

var hdrRe = regexp.MustCompile(`^Content-Length: ([0-9]+)\r\n\r\n`)

type captureConn struct {
	buf    bytes.Buffer
	writes int
}

func (c *captureConn) Read(p []byte) (int, error)  { return 0, io.EOF }
func (c *captureConn) Write(p []byte) (int, error) { c.writes++; return c.buf.Write(p) }
func (c *captureConn) Close() error                { return nil }

// writerCheck: the real stream.Write announces the number of BYTES it writes (LengthCountsBytes).
func writerCheck(cat []catMsg) (frames [][]byte, fails int) {
	for i, m := range cat {
		cc := &captureConn{}
		st := jsonrpc2.NewStream(cc)
		n, err := st.Write(context.Background(), m.Msg)
		if err != nil {
			vhlib.Fatal("stream.Write of catalogue message %d failed: %v", i+1, err)
		}
		out := append([]byte(nil), cc.buf.Bytes()...)
		frames = append(frames, out)
		c := map[string]any{"message": m.Desc, "written": string(out), "body_bytes": len(m.Body), "body_runes": utf8.RuneCount(m.Body)}
		mm := hdrRe.FindSubmatch(out)
		if mm == nil {
			vhlib.Fail("Framing.LengthCountsBytes.NoHeader", "stream.Write did not start the frame with a Content-Length header", c)
			fails++
			continue
		}
		announced, _ := strconv.Atoi(string(mm[1]))
		bodyWritten := out[len(mm[0]):]
		c["announced"] = announced
		c["bytes_after_header"] = len(bodyWritten)
		if announced != len(bodyWritten) {
			sig := "Framing.LengthCountsBytes"
			if announced == utf8.RuneCount(bodyWritten) {
				sig = "Framing.LengthCountsBytes.CountsRunes"
			}
			vhlib.Fail(sig, fmt.Sprintf("Content-Length announces %d but %d body bytes follow", announced, len(bodyWritten)), c)
			fails++
		}
		if !bytes.Equal(bodyWritten, m.Body) {
			vhlib.Drift("stream.Write body differs from json.Marshal(msg)", c)
		}
		if int(n) != len(out) {
			vhlib.Drift("stream.Write returned a byte count different from what it wrote", c)
		}
	}
	return frames, fails
}

func goroutineDump() string {
	buf := make([]byte, 1<<20)
	return string(buf[:runtime.Stack(buf, true)])
}

// pipeRun feeds the wire through an io.Pipe chunk by chunk; after the last byte of each complete frame
// the message must come out before any further byte is written; after close the reader must stop.
func pipeRun(wire []byte, chunks []int, frameEnds []int, expectMsgs int) (sig, what string, o outcome) {
	pr, pw := io.Pipe()
	type item struct {
		desc string
		id   tid
		pay  string
		err  error
		tot  int64
		pan  string
	}
	out := make(chan item, expectMsgs+4)
	go func() {
		defer func() {
			if r := recover(); r != nil {
				out <- item{pan: fmt.Sprint(r)}
				pr.Close()
			}
		}()
		st := jsonrpc2.NewStream(struct {
			io.Reader
			io.Writer
			io.Closer
		}{pr, io.Discard, pr})
		for {
			msg, total, err := st.Read(context.Background())
			if err != nil {
				out <- item{err: err, tot: total}
				pr.Close() // the writer side must not block on a reader that has given up
				return
			}
			out <- item{desc: describe(msg), id: tidOfMsg(msg).safe(), pay: payKind(msg)}
		}
	}()
	const watchdog = 8 * time.Second
	finished := false
	take := func() (it item, ok bool) {
		select {
		case it = <-out:
			return it, true
		case <-time.After(watchdog):
			return it, false
		}
	}
	record := func(it item) {
		switch {
		case it.pan != "":
			o.Panic = it.pan
			finished = true
		case it.err != nil:
			o.ErrCls, o.ErrText = classify(it.err, it.tot), it.err.Error()
			finished = true
		default:
			o.Decoded = append(o.Decoded, it.desc)
			o.IDs = append(o.IDs, it.id)
			o.Pays = append(o.Pays, it.pay)
		}
	}
	pos, nextEnd := 0, 0
	write := func(k int) bool { // returns false when the reader is gone
		for k > 0 && !finished {
			n := k
			// stop at the next frame end to check prompt delivery
			if nextEnd < len(frameEnds) && nextEnd < expectMsgs && pos+n > frameEnds[nextEnd] {
				n = frameEnds[nextEnd] - pos
			}
			if n > 0 {
				if _, err := pw.Write(wire[pos : pos+n]); err != nil {
					return false
				}
				pos += n
				k -= n
			}
			if nextEnd < len(frameEnds) && nextEnd < expectMsgs && pos == frameEnds[nextEnd] {
				it, ok := take()
				if !ok {
					d := goroutineDump()
					pw.CloseWithError(io.ErrClosedPipe)
					if strings.Contains(d, "jsonrpc2.(*stream).Read") && strings.Contains(d, "io.(*pipe).read") {
						sig, what = "Framing.NeverWaitsAfterCompleteFrame", fmt.Sprintf("all %d bytes of frame %d were delivered but Read still waits for more input", pos, nextEnd+1)
						return false
					}
					vhlib.Fatal("pipe replay: watchdog expired without the reader being blocked in the pipe:\n%s", d)
				}
				record(it)
				nextEnd++
			}
		}
		return !finished
	}
	alive := true
	for _, c := range chunks {
		if !alive {
			break
		}
		k := c
		if k < 0 {
			k = -k - 1
		}
		if k > len(wire)-pos {
			k = len(wire) - pos
		}
		alive = write(k)
	}
	if sig != "" {
		return sig, what, o
	}
	if alive && pos < len(wire) {
		alive = write(len(wire) - pos)
	}
	if sig != "" {
		return sig, what, o
	}
	pw.Close()
	for !finished {
		it, ok := take()
		if !ok {
			d := goroutineDump()
			if strings.Contains(d, "jsonrpc2.(*stream).Read") {
				return "Framing.NeverWaitsAfterEOF", "the input was closed but Read does not return", o
			}
			vhlib.Fatal("pipe replay: watchdog expired after close:\n%s", d)
		}
		record(it)
	}
	pr.Close()
	return "", "", o
}

func framing(path string, seed int64, splits int) {
	cat := catalogue()
	rng := rand.New(rand.NewSource(seed))
	frames, wfails := writerCheck(cat)
	seen := map[string]bool{}
	variants := map[string]int{}
	classes := map[string]int{}
	errs := map[string]int{}
	var nbeh, nrun, npipe, fails, drifts, samples, roundtrips, rtFails int
	perSig := map[string]int{}
	fails += wfails
	maxChunks := 0

	report := func(b *behaviour, sent []string, wire []byte, chunks []int, mode string, o outcome) {
		sig, what, drift := judge(b, sent, o)
		c := framingCase{Sent: sent, Variant: b.Variant, At: b.At, Cut: b.Cut, Wire: string(wire), Chunks: chunks, Mode: mode,
			WantRead: len(b.Read), WantErr: b.Err, Got: o}
		if sig != "" {
			fails++
			if perSig[sig]++; perSig[sig] <= 4 { // a few examples per root cause; the summary counts them all
				vhlib.Fail(sig, what, c)
			}
		} else if drift {
			drifts++
			if drifts <= 5 {
				vhlib.Drift(fmt.Sprintf("error class %q where the model predicts %q (read %d/%d)", o.ErrCls, b.Err, len(o.Decoded), len(b.Read)), c)
			}
		}
	}

	err := vhlib.Each(path, func(line []byte) error {
		var b behaviour
		if err := json.Unmarshal(line, &b); err != nil {
			return err
		}
		key := string(line)
		if seen[key] {
			return nil
		}
		seen[key] = true
		nbeh++
		variants[b.Variant]++
		classes[b.Class]++
		errs[b.Err]++
		wire, sym, frameEnds := buildWire(cat, &b, rng)
		if sym != strings.Join(b.Wire, "") {
			vhlib.Fatal("concretisation disagrees with the spec's wire for %s at %d:\n spec %s\n real %s", b.Variant, b.At, strings.Join(b.Wire, ""), sym)
		}
		var sent []string
		for _, mi := range b.Sent {
			sent = append(sent, cat[mi-1].Desc)
			b.sentPay = append(b.sentPay, cat[mi-1].Pay)
		}
		if len(b.Chunks) > maxChunks {
			maxChunks = len(b.Chunks)
		}
		// (a) exactly the chunking TLC chose
		o := readAll(&chunkReader{data: wire, chunks: append([]int(nil), b.Chunks...)}, len(sent))
		report(&b, sent, wire, b.Chunks, "chunks", o)
		nrun++
		// (b) the same case under other chunkings: the spec's ChunkingIrrelevant says the outcome is the same
		one := []int{len(wire), -1}
		report(&b, sent, wire, one, "all-at-once", readAll(&chunkReader{data: wire, chunks: append([]int(nil), one...)}, len(sent)))
		bytewise := make([]int, len(wire)+1)
		for i := range wire {
			bytewise[i] = 1
		}
		bytewise[len(wire)] = -1
		report(&b, sent, wire, nil, "byte-by-byte", readAll(&chunkReader{data: wire, chunks: bytewise}, len(sent)))
		nrun += 2
		for s := 0; s < splits && len(wire) > 1; s++ {
			p := 1 + rng.Intn(len(wire)-1)
			if splits >= len(wire) { // thorough: every split point
				p = 1 + s
				if p >= len(wire) {
					break
				}
			}
			two := []int{p, -(len(wire) - p) - 1}
			report(&b, sent, wire, two, "two-chunks", readAll(&chunkReader{data: wire, chunks: append([]int(nil), two...)}, len(sent)))
			nrun++
		}
		// (c) through an io.Pipe: prompt delivery after each complete frame, no hang after close
		expect := len(b.Read)
		sig, what, po := pipeRun(wire, b.Chunks, frameEnds, expect)
		npipe++
		if sig != "" {
			fails++
			vhlib.Fail(sig, what, framingCase{Sent: sent, Variant: b.Variant, At: b.At, Cut: b.Cut, Wire: string(wire), Chunks: b.Chunks, Mode: "pipe", Got: po})
		} else {
			report(&b, sent, wire, b.Chunks, "pipe", po)
		}
		// (d) round trip: the same message sequence written by the real stream.Write, cut by the same chunk
		// sizes, read by the real stream.Read
		{
			var rt []byte
			for _, mi := range b.Sent {
				rt = append(rt, frames[mi-1]...)
			}
			ch := append(append([]int(nil), b.Chunks...), len(rt), -1)
			for i, k := range ch[:len(b.Chunks)] {
				if k < 0 { // EOF only at the very end
					ch[i] = -k - 1
				}
			}
			gb := behaviour{Sent: b.Sent, Variant: "none", Class: "good", Err: "eof-clean"}
			for _, mi := range b.Sent {
				gb.IDs = append(gb.IDs, cat[mi-1].ID.safe())
				gb.Pays = append(gb.Pays, cat[mi-1].Pay)
				gb.sentPay = append(gb.sentPay, cat[mi-1].Pay)
			}
			ro := readAll(&chunkReader{data: rt, chunks: append([]int(nil), ch...)}, len(sent))
			roundtrips++
			if sig, what, _ := judge(&gb, sent, ro); sig != "" {
				fails++
				if rtFails++; rtFails <= 3 {
					vhlib.Fail(roundTripSig(sig), "written by the real stream.Write, read by the real stream.Read: "+what,
						framingCase{Sent: sent, Variant: "none", Wire: string(rt), Chunks: ch, Mode: "roundtrip", Got: ro})
				}
			}
		}
		if samples < 4 && (b.Class == "bad" || len(b.Sent) > 1) {
			samples++
			vhlib.Sample(map[string]any{"sent": sent, "variant": b.Variant, "at": b.At, "chunks": b.Chunks, "wire": string(wire), "decoded": len(o.Decoded), "error": o.ErrText})
		}
		return nil
	})
	if err != nil {
		vhlib.Fatal("%v", err)
	}
	vs := make([]string, 0, len(variants))
	for v := range variants {
		vs = append(vs, v)
	}
	sort.Strings(vs)
	vhlib.Summary(map[string]any{"behaviours": nbeh, "stream_runs": nrun, "pipe_runs": npipe, "roundtrips": roundtrips, "fails": fails, "drift": drifts,
		"variants": vs, "classes": classes, "errors": errs, "catalogue": len(cat), "max_chunks": maxChunks,
		"ids_compared": idsCompared, "pays_compared": paysCompared, "numeric_string_ids_read": numStrRead})
}
