----------------------------- MODULE SourceMapPos -----------------------------
(* C06 (ii) -- the position algebra behind every Range of the parser.

   github.com/a-h/parse Input.PositionAt(index) is transcribed: NewInput records the byte offsets of
   the newlines, PositionAt binary-searches the first newline at or after index (sort.Search with
   `index <= newLines[i]`), the column is the byte distance to the end of the previous line.
   It must agree with the algebra Advance / AdvanceAll of SourceMapOps (a rune advances index and
   column by its byte width, a newline starts the next line) at every rune boundary of every text,
   and ranges built from two such positions are ordered and in bounds.  The same algebra is what
   RangeWriter.write implements on the target side (SourceMap.tla) and what TraceRanges.tla uses to
   validate the ranges recorded from the real parser.                                             *)
EXTENDS SourceMapOps

CONSTANTS MaxLen,     \* texts of up to this many symbols
          Widths,     \* rune widths
          NewlineRule, \* "le" = the code (index <= newLines[i]); "lt" = off by one (negative config)
          EntryCopy    \* "same" = the code: the parser works on the caller's text; "append-newline" = the
                       \* entry point appends a newline to a text that lacks one and parses the copy (negative config)

VARIABLES text, a, b     \* a text and two rune-boundary symbol indices a <= b (0-based, 0..Len)
vars == <<text, a, b>>

Syms == Widths \cup {NL}
Texts == UNION {[1..n -> Syms] : n \in 0..MaxLen}

RECURSIVE ByteLen(_)
ByteLen(ss) == IF ss = <<>> THEN 0 ELSE W(Head(ss)) + ByteLen(Tail(ss))
ByteOff(t, k) == ByteLen(SubSeq(t, 1, k))          \* byte offset of the boundary after k symbols

\* NewInput: ip.newLines = byte offsets of the newline characters
RECURSIVE NewLinesFrom(_, _)
NewLinesFrom(t, off) == IF t = <<>> THEN <<>>
                        ELSE (IF IsNL(Head(t)) THEN <<off>> ELSE <<>>) \o NewLinesFrom(Tail(t), off + W(Head(t)))
NewLines(t) == NewLinesFrom(t, 0)

\* sort.Search(len(newLines), func(i) bool { return index <= newLines[i] }) (0-based result)
Search(nl, index) ==
    LET hit == {i \in 1..Len(nl) : IF NewlineRule = "le" THEN index <= nl[i] ELSE index < nl[i]}
    IN  IF hit = {} THEN Len(nl) ELSE (CHOOSE i \in hit : \A j \in hit : i <= j) - 1

PositionAt(t, index) ==
    LET nl == NewLines(t)
        lineIndex == Search(nl, index)
        previousLineEnd == IF lineIndex > 0 THEN nl[lineIndex] + 1 ELSE 0
    IN  Pos(index, lineIndex, index - previousLineEnd)

Init == /\ text \in Texts
        /\ a \in 0..Len(text) /\ b \in 0..Len(text) /\ a <= b
Next == UNCHANGED vars
Spec == Init /\ [][Next]_vars

\* End of input.  The text the parser works on, and the position it reports when it stops at the
\* end of that text (errors raised at EOF, Range.To of the last node of the file).  Texts end in a
\* rune, in a newline or (a CR is a one-byte rune to the algebra) in a CR: all are enumerated.
EndsInNL(t) == t # <<>> /\ IsNL(t[Len(t)])
ParserText(t) == IF EntryCopy = "append-newline" /\ ~EndsInNL(t) THEN t \o <<NL>> ELSE t
EofPosition == PositionAt(ParserText(text), ByteLen(ParserText(text)))
\* ... is a position of the CALLER's text: inside [0, len] and with its line / column
EofPositionInInput == /\ EofPosition.idx <= ByteLen(text)
                      /\ EofPosition = AdvanceAll(Pos(0, 0, 0), text)
\* PositionAt is the algebra
PositionIsAdvance == PositionAt(text, ByteOff(text, a)) = AdvanceAll(Pos(0, 0, 0), SubSeq(text, 1, a))

\* a Range made of two positions of the text
From == PositionAt(text, ByteOff(text, a))
To == PositionAt(text, ByteOff(text, b))
RangeOrdered == /\ From.idx <= To.idx
                /\ (From.line < To.line \/ (From.line = To.line /\ From.col <= To.col))
RangeInBounds == 0 <= From.idx /\ To.idx <= ByteLen(text)
\* the range covers exactly the symbols between the two boundaries
RangeCovers == To = AdvanceAll(From, SubSeq(text, a + 1, b))
\* a Range from boundary a to the end of what the parser read covers exactly the rest of the caller's text
LastRangeCoversRest == EofPosition = AdvanceAll(From, SubSeq(text, a + 1, Len(text)))
=============================================================================
