\* C12 emission B: every edge of the two-context graph.
CONSTANTS
  Ctxs <- Ctx2
  Modes = {"plain", "mw", "fresh"}
  Scripts = {"s1"}
  Classes = {"k1"}
  BlockHandles = {"h1"}
  ZeroHandles = {}
  FixedHandles = {"g1"}
  RegSeq <- RegK1
  OnSeqs <- OnSeqsCore
  ClassExprs <- ClassExprsCore
  Repaired = {}
  Variant = "asCoded"
  NonceCtxs = {"c1"}
  MaxNonces = 1
  MaxSteps = 99
  EmitEdges = TRUE
INIT Init
NEXT Next
VIEW View
ACTION_CONSTRAINT Emit
INVARIANTS TypeOK RegistryMatchesDocument
PROPERTIES ViolationsAreTagged StylesheetServesRegistered ContextsIndependent NonceKeepsRegistry
CHECK_DEADLOCK FALSE
