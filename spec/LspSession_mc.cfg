\* LspSession: exhaustive check of the life cycle (view without the history)
CONSTANTS
  Docs = {"hello", "other"}
  Texts = {"t1", "t2"}
  OpenRule = "replace"
  HistLen = 7
INIT Init
NEXT Next
VIEW View
INVARIANTS ServerTracksEditor
PROPERTIES Independent
CHECK_DEADLOCK FALSE
