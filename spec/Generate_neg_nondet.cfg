\* C15 negative config: a nondeterministic generator (two possible generations of one file): the second run rewrites a file
\* with different contents -- SecondRunChangesNothing must be violated (only that clause is listed).
CONSTANTS
  MaxFiles = 2
  Trees <- TreesNegNondet
  Ws = {1}
  FlagSets <- AllFlags
  Mutex = TRUE
  ErrsCloser = "postgen"
  MainReadsErrs = TRUE
  GenVariants = {1, 2}
  SlotRelease = "deferred"
  TargetRule = "trimsuffix"
  WalkRule = "filesonly"
  OrphanStat = "fileonly"
  RootRule = "exempt"
  RootTrees <- TreesRoot
  SkipRule = "coded"
  TwoRuns = TRUE
  EmitCases = FALSE
INIT Init
NEXT Next
VIEW View
INVARIANTS TypeOK SecondRunChangesNothing
