\* C12 simulation: histories of HistLen uses over two contexts (every mode combination), 2 scripts, 2 classes,
\* 3 handles, every container form (Repaired as detected by the check).
CONSTANTS
  Ctxs <- Ctx2
  Modes = {"plain", "mw", "fresh"}
  Scripts = {"s1", "s2"}
  Classes = {"k1", "k2"}
  BlockHandles = {"h1", "h2"}
  ZeroHandles = {"z1", "z2"}
  FixedHandles = {"g1"}
  RegSeq <- RegK1
  OnSeqs <- OnSeqsFull
  ClassExprs <- ClassExprsFull
  Repaired = {}
  Variant = "asCoded"
  NonceCtxs = {"c1", "c2"}
  MaxNonces = 2
  MaxSteps = 40
  EmitEdges = FALSE
  HistLen = 40
INIT SimInit
NEXT SimNext
INVARIANTS TypeOK RegistryMatchesDocument
CHECK_DEADLOCK FALSE
