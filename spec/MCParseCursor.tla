---------------------------- MODULE MCParseCursor ----------------------------
EXTENDS ParseCursor
LoopsDef == {"templateNodeParser", "expressionParser"}
LoopsOne == {"templateNodeParser"}
=============================================================================
