\* C07 case generator, exhaustive within the bounds (breadth-first).
CONSTANTS
  MaxLines = 2
  MaxRunes = 2
  Widths = {1, 2, 3, 4}
  Pres <- PresSome
INIT Init
NEXT Next
INVARIANTS EmitCase
CHECK_DEADLOCK FALSE
