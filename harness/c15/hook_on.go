//go:build c15hook

package main

import (
	"math/rand"
	"path/filepath"
	"runtime"
	"strings"
	"sync"
	"time"

	"github.com/a-h/templ/cmd/templ/generatecmd"
)

// Built when the repository under test carries hooks/C15-generatecmd-events.diff (verifhook_on.go in
// cmd/templ/generatecmd): records the hook events of every run in the order of a mutex-protected counter
// and perturbs the schedule at the hook points with a seeded choice of Gosched / short sleeps.
const hooksPresent = true

type hookEvent struct {
	Ev   string
	Dir  []string
	Name string
}

var (
	hookMu       sync.Mutex
	hookEvents   []hookEvent
	totalEvents  int
	totalPerturb int
)

func installHook(root string, rng *rand.Rand, perturb bool) (stop func() []hookEvent) {
	hookMu.Lock()
	hookEvents = nil
	hookMu.Unlock()
	generatecmd.VerifHook = func(ev string, fileName string) {
		hookMu.Lock()
		e := hookEvent{Ev: ev, Dir: []string{}}
		if fileName != "" {
			rel, err := filepath.Rel(root, fileName)
			if err != nil {
				rel = fileName
			}
			if d := filepath.Dir(rel); d != "." {
				e.Dir = strings.Split(d, string(filepath.Separator))
			}
			e.Name = filepath.Base(rel)
		}
		hookEvents = append(hookEvents, e)
		totalEvents++
		k := -1
		if perturb {
			k = rng.Intn(6)
			if k <= 2 {
				totalPerturb++
			}
		}
		hookMu.Unlock()
		switch k {
		case 0:
			runtime.Gosched()
		case 1:
			time.Sleep(20 * time.Microsecond)
		case 2:
			time.Sleep(200 * time.Microsecond)
		}
	}
	return func() []hookEvent {
		generatecmd.VerifHook = nil
		hookMu.Lock()
		defer hookMu.Unlock()
		out := hookEvents
		hookEvents = nil
		return out
	}
}

func hookEventCount() int { hookMu.Lock(); defer hookMu.Unlock(); return totalEvents }
func perturbCount() int   { hookMu.Lock(); defer hookMu.Unlock(); return totalPerturb }
