------------------------------- MODULE Framing -------------------------------
(* C18, first half -- Content-Length framing of lsp/jsonrpc2/stream.go is lossless.

   Two layers:

   1. The READER AUTOMATON  Step(r, b) / AtEOF(r): stream.Read transcribed byte by byte --
      header line accumulation (bufio.ReadString('\n')), strings.TrimSpace, blank-line test,
      first-colon name/value split, exact name match "Content-Length", strconv.ParseInt(value,10,32)
      with its `<= 0` rule, "missing header" test, body countdown (io.ReadFull).  The automaton does
      NOT store its input: its state is a handful of flags and small counters, so the "closed"
      configuration (MCFramingClosed: any byte symbol at every step, EOF at any time) is explored
      completely and its invariants hold for byte streams of EVERY length and every chunking.

   2. The BOUNDED SYSTEM: `sent` (a message sequence) is written to `wire` by the writer model
      (header value = HdrLen(msg): BYTES of the body, or RUNES in the negative configuration), one
      frame optionally replaced by a malformed / unusual variant; Deliver(k) hands the reader an
      arbitrary next chunk, Eof ends the stream.  Invariants: ReadIsPrefixOfSent, LengthCountsBytes,
      Lossless, MalformedGivesError, NeverWaitsAfterEOF, NeverWaitsAfterCompleteFrame,
      ChunkingIrrelevant, IdsPreserved.

   IDS ARE TYPED VALUES: every catalogue message carries id = [t |-> "num" | "str" | "none", v |-> text,
   n |-> the integer the text denotes as a decimal int32 literal, or NoNum]; the string "7" and the number 7
   are different ids, and the catalogue contains string ids whose text looks like a number ("7", "42",
   "007", "-1").  DecId is ID.UnmarshalJSON applied to the JSON token the writer produced: as coded a string
   token stays a string id whatever its text (IdDecode = "strict"); in the negative configuration
   (IdDecode = "unquote") a quoted numeral decodes as that number, and IdsPreserved fails.

   Byte symbols (one symbol = one byte; wire position i is real byte i):
     "K"  the next expected letter of the header name Content-Length (a letter, never the '-')
     "O"  any other byte without a role in header parsing (letters, JSON, UTF-8 lead/continuation)
     "S"  space or tab          "R"  carriage return        "N"  line feed
     "C"  ':'                   "M"  '-'                    "P"  '+'         "0".."9" digits
   Deliberate abstractions: header whitespace is ASCII; the int32 overflow boundary of ParseInt is
   modelled as "more than 10 significant digits"; JSON decoding of a body is "ok" exactly when the
   bytes handed to the decoder are the complete body of a sent message.                          *)
EXTENDS Integers, Sequences, FiniteSets, TLC, Json

CONSTANTS Cap,        \* lengths 0..Cap are tracked exactly, Cap+1 stands for "more than Cap"
          Msgs,       \* catalogue: sequence of [kind, idk, id, pay, blen, rlen] (typed id; payload kind; byte / rune length of the JSON body)
          MaxMsgs,    \* sequences of 1..MaxMsgs messages
          LenMode,    \* "bytes" (as coded) | "runes" (negative configuration)
          IdDecode,   \* "strict" (as coded) | "unquote" (negative configuration: "7" decodes as the number 7)
          NullResult, \* "ok" (as coded: "result":null is a result) | "rejected" (negative configuration: a decoder that
                      \* demands "exactly one of result / error" and cannot tell null from an absent member)
          Variants,   \* set of variant names explored
          ChunkMax,   \* Deliver(k) for k in 1..ChunkMax, plus "to the end of the wire"
          AllCuts     \* TRUE: every truncation point; FALSE: the first/last two and the middle of each region

Big == Cap + 1
Digits == {"0","1","2","3","4","5","6","7","8","9"}
Sym == {"K","O","S","R","N","C","M","P"} \cup Digits
DigitVal(d) == CASE d = "0" -> 0 [] d = "1" -> 1 [] d = "2" -> 2 [] d = "3" -> 3 [] d = "4" -> 4
                 [] d = "5" -> 5 [] d = "6" -> 6 [] d = "7" -> 7 [] d = "8" -> 8 [] d = "9" -> 9
NameLen == 14          \* len("Content-Length"); the '-' is its 8th character
DashAt == 7            \* 0-based index of '-' in the name
BadName == 15

-----------------------------------------------------------------------------
(* 1. the reader automaton *)

R0 == [st |-> "hdr", fresh |-> TRUE, ws |-> TRUE, col |-> FALSE, iscl |-> FALSE, nm |-> 0,
       vs |-> "lead", neg |-> FALSE, val |-> 0, nd |-> 0, len |-> 0, rem |-> 0, err |-> "none"]

\* a new header line of the same frame (the Content-Length seen so far is kept)
NewLine(r) == [R0 EXCEPT !.fresh = FALSE, !.len = r.len]
Fail(e) == [R0 EXCEPT !.st = "err", !.fresh = FALSE, !.err = e]

ErrClasses == {"eof-clean", "hdr-eof", "nocolon", "parse", "nonpositive", "missing", "body-eof", "decode"}

\* end of a header line (the '\n' arrived): the tests of stream.Read in their order
EndOfLine(r) ==
    IF r.ws THEN (IF r.len = 0 THEN Fail("missing") ELSE [R0 EXCEPT !.st = "body", !.fresh = FALSE, !.rem = r.len])
    ELSE IF ~r.col THEN Fail("nocolon")
    ELSE IF ~r.iscl THEN NewLine(r)                                   \* unknown header: ignored
    ELSE IF r.vs \in {"lead", "sign", "bad"} \/ r.nd > 10 THEN Fail("parse")
    ELSE IF r.neg \/ r.val = 0 THEN Fail("nonpositive")
    ELSE [NewLine(r) EXCEPT !.len = r.val]

\* whitespace (space, tab, CR): trimmed at both ends of the line and of the value, significant inside
OnSpace(r) ==
    IF ~r.col THEN (IF r.nm > 0 THEN [r EXCEPT !.nm = BadName] ELSE r)
    ELSE IF ~r.iscl THEN r
    ELSE [r EXCEPT !.vs = CASE @ = "lead" -> "lead" [] @ = "sign" -> "bad" [] @ = "num" -> "trail"
                            [] @ = "trail" -> "trail" [] OTHER -> "bad"]

\* a byte that can be part of the header name; match = it is the next expected character
OnNameByte(r, match) ==
    [r EXCEPT !.ws = FALSE, !.nm = IF match /\ r.nm < NameLen THEN r.nm + 1 ELSE BadName]

OnValueJunk(r) == IF r.iscl THEN [r EXCEPT !.vs = "bad"] ELSE r

OnColon(r) == IF ~r.col THEN [r EXCEPT !.ws = FALSE, !.col = TRUE, !.iscl = (r.nm = NameLen)]
              ELSE OnValueJunk(r)

OnSign(r, minus) ==
    IF ~r.col THEN OnNameByte(r, minus /\ r.nm = DashAt)
    ELSE IF ~r.iscl THEN r
    ELSE IF r.vs = "lead" THEN [r EXCEPT !.vs = "sign", !.neg = minus]
    ELSE [r EXCEPT !.vs = "bad"]

OnDigit(r, d) ==
    IF ~r.col THEN OnNameByte(r, FALSE)
    ELSE IF ~r.iscl THEN r
    ELSE IF r.vs \in {"lead", "sign", "num"}
         THEN LET v  == r.val * 10 + d
                  nd == IF r.nd = 0 /\ d = 0 THEN 0 ELSE IF r.nd >= 11 THEN 11 ELSE r.nd + 1
              IN  [r EXCEPT !.vs = "num", !.val = IF v > Cap THEN Big ELSE v, !.nd = nd]
         ELSE [r EXCEPT !.vs = "bad"]

HdrStep(r0, b) ==
    LET r == [r0 EXCEPT !.fresh = FALSE] IN
    CASE b = "N" -> EndOfLine(r)
      [] b \in {"S", "R"} -> OnSpace(r)
      [] b = "C" -> OnColon(r)
      [] b = "K" -> IF ~r.col THEN OnNameByte(r, r.nm # DashAt) ELSE OnValueJunk(r)
      [] b = "O" -> IF ~r.col THEN OnNameByte(r, FALSE) ELSE OnValueJunk(r)
      [] b = "M" -> OnSign(r, TRUE)
      [] b = "P" -> OnSign(r, FALSE)
      [] OTHER   -> OnDigit(r, DigitVal(b))

Completes(r) == r.st = "body" /\ r.rem = 1      \* the next byte is the last byte of a body

\* body countdown; a length above Cap stays "more than Cap" (the closed configuration lets it shrink)
Step(r, b) ==
    CASE r.st = "err"  -> r
      [] r.st = "body" -> IF r.rem = 1 THEN R0 ELSE [r EXCEPT !.rem = IF @ = Big THEN Big ELSE @ - 1]
      [] OTHER         -> HdrStep(r, b)

\* the underlying reader reports EOF while the automaton wants more input
AtEOF(r) == CASE r.st = "err"  -> r
              [] r.st = "body" -> Fail("body-eof")
              [] r.fresh       -> Fail("eof-clean")
              [] OTHER         -> Fail("hdr-eof")

Waiting(r) == r.st # "err"      \* hdr: needs the rest of the line; body: needs rem more bytes

ReaderTypeOK(r) ==
    /\ r.st \in {"hdr", "body", "err"}
    /\ r.fresh \in BOOLEAN /\ r.ws \in BOOLEAN /\ r.col \in BOOLEAN /\ r.iscl \in BOOLEAN /\ r.neg \in BOOLEAN
    /\ r.nm \in 0..BadName /\ r.vs \in {"lead", "sign", "num", "trail", "bad"}
    /\ r.val \in 0..Big /\ r.nd \in 0..11 /\ r.len \in 0..Big /\ r.rem \in 0..Big
    /\ r.err \in ErrClasses \cup {"none"}

\* facts about single reader states that hold for every input
ReaderInv(r) ==
    /\ ReaderTypeOK(r)
    /\ (r.st = "body" => r.rem >= 1)                     \* Content-Length <= 0 never reaches the body
    /\ (r.st = "err" <=> r.err # "none")
    /\ (r.iscl => r.col)
    /\ (r.st = "hdr" /\ r.fresh => r.len = 0)            \* the length of one frame never leaks into the next

-----------------------------------------------------------------------------
(* 2. writer model, variants, wire *)

RECURSIVE Rep(_, _)
Rep(s, n) == IF n <= 0 THEN <<>> ELSE s \o Rep(s, n - 1)

RECURSIVE DigitsOf(_)
DigitStr(d) == CASE d = 0 -> "0" [] d = 1 -> "1" [] d = 2 -> "2" [] d = 3 -> "3" [] d = 4 -> "4"
                 [] d = 5 -> "5" [] d = 6 -> "6" [] d = 7 -> "7" [] d = 8 -> "8" [] d = 9 -> "9"
DigitsOf(n) == IF n < 10 THEN <<DigitStr(n)>> ELSE DigitsOf(n \div 10) \o <<DigitStr(n % 10)>>

Name == Rep(<<"K">>, DashAt) \o <<"M">> \o Rep(<<"K">>, NameLen - DashAt - 1)
CRLF == <<"R", "N">>
Body(m) == Rep(<<"O">>, m.blen)

\* stream.Write: "Content-Length: " + len + "\r\n\r\n" + body.  LengthCountsBytes is about HdrLen.
HdrLen(m) == IF LenMode = "bytes" THEN m.blen ELSE m.rlen
ClLine(valueSyms) == Name \o <<"C", "S">> \o valueSyms \o CRLF
OtherLine == <<"O", "K", "K", "C", "S", "O", "O">> \o CRLF         \* e.g. "Xon: ab" -- an unknown header

GoodVariants    == {"none", "extra-before", "extra-after", "padded"}
LenientVariants == {"lfonly", "dup-cl", "plus"}      \* accepted by this reader; an error would also satisfy C18
BadVariants     == {"nocolon", "nonnumeric", "empty-value", "zero", "negative", "missing", "othername",
                    "spacecolon", "overflow", "huge", "inner-space", "trunc-hdr", "trunc-body"}
AllVariants     == GoodVariants \cup LenientVariants \cup BadVariants

\* header section of one frame under a variant (body follows, except for the truncations)
Header(m, v) ==
    LET d == DigitsOf(HdrLen(m)) IN
    CASE v = "extra-before" -> OtherLine \o ClLine(d) \o CRLF
      [] v = "extra-after"  -> ClLine(d) \o OtherLine \o CRLF
      [] v = "padded"       -> <<"S">> \o Name \o <<"C", "S", "S", "S">> \o d \o <<"S", "S">> \o CRLF \o CRLF
      [] v = "lfonly"       -> Name \o <<"C", "S">> \o d \o <<"N", "N">>
      [] v = "dup-cl"       -> ClLine(<<"1">>) \o ClLine(d) \o CRLF
      [] v = "plus"         -> ClLine(<<"P">> \o d) \o CRLF
      [] v = "nocolon"      -> Name \o <<"S">> \o d \o CRLF \o CRLF
      [] v = "nonnumeric"   -> ClLine(<<"O", "O">>) \o CRLF
      [] v = "empty-value"  -> ClLine(<<>>) \o CRLF
      [] v = "zero"         -> ClLine(<<"0">>) \o CRLF
      [] v = "negative"     -> ClLine(<<"M">> \o d) \o CRLF
      [] v = "missing"      -> CRLF
      [] v = "othername"    -> <<"O">> \o Tail(Name) \o <<"C", "S">> \o d \o CRLF \o CRLF   \* e.g. content-length
      [] v = "spacecolon"   -> Name \o <<"S", "C", "S">> \o d \o CRLF \o CRLF
      [] v = "overflow"     -> ClLine(Rep(<<"9">>, 12)) \o CRLF
      [] v = "huge"         -> ClLine(Rep(<<"9">>, 6)) \o CRLF
      [] v = "inner-space"  -> ClLine(<<"1", "S">> \o d) \o CRLF
      [] OTHER              -> ClLine(d) \o CRLF                        \* none, trunc-*

\* var = [kind, at, cut]: frame number `at` is written under variant `kind`; for the truncations the
\* wire ends `cut` bytes into the header (trunc-hdr, 1 <= cut < header length) or after `cut` body
\* bytes (trunc-body, 0 <= cut < blen) of that frame.
RECURSIVE BuildFrom(_, _, _, _)
BuildFrom(snt, var, i, acc) ==
    IF i > Len(snt) THEN acc
    ELSE LET m == Msgs[snt[i]]
             k == IF i = var.at THEN var.kind ELSE "none"
             h == Header(m, k)
             bstart == Len(acc.wire) + Len(h) + 1
         IN  IF k = "trunc-hdr" THEN [wire |-> acc.wire \o SubSeq(h, 1, var.cut), regions |-> acc.regions]
             ELSE IF k = "trunc-body" THEN [wire |-> acc.wire \o h \o Rep(<<"O">>, var.cut), regions |-> acc.regions]
             ELSE BuildFrom(snt, var, i + 1,
                            [wire |-> acc.wire \o h \o Body(m),
                             regions |-> Append(acc.regions, [s |-> bstart, e |-> bstart + m.blen - 1, msg |-> snt[i]])])
Build(snt, var) == BuildFrom(snt, var, 1, [wire |-> <<>>, regions |-> <<>>])

HeaderLenOf(m) == Len(Header(m, "none"))

-----------------------------------------------------------------------------
(* 3. the bounded system *)

VARIABLES sent,     \* message sequence (indices into Msgs)
          var,      \* [kind, at, cut]
          wire,     \* byte symbols on the wire
          regions,  \* where the complete bodies lie on the wire: [s, e, msg]
          pos,      \* bytes handed to the reader so far
          eof,      \* the underlying reader has reported EOF
          r,        \* reader automaton state
          read,     \* messages decoded so far (indices into Msgs)
          bstart,   \* wire position where the body being read began (0: in a header)
          chunks    \* history: sizes of the chunks delivered; -(k+1) = k bytes and EOF in one read (output only)

\* Payload kinds: params of a call / notification and the result of a successful response are JSON values of
\* kind object | array | string | number | true | false | null; an error response is "error" or "errdata"
\* (with the optional data member).  DecodeMessage accepts every one of them.
ValueKinds == {"object", "array", "string", "number", "true", "false", "null"}
PayKinds   == ValueKinds \cup {"error", "errdata"}
Undecodable(m) == NullResult = "rejected" /\ Msgs[m].kind = "response" /\ Msgs[m].pay = "null"

\* the message (if any) whose complete body is exactly wire[s..e]
DecodeAt(regs, s, e) == LET hit == {i \in 1..Len(regs) : regs[i].s = s /\ regs[i].e = e}
                        IN  IF hit = {} THEN 0 ELSE regs[CHOOSE i \in hit : TRUE].msg

\* feed wire[i..j] to the automaton; bs = wire position of the first byte of the body being read
RECURSIVE Feed(_, _, _, _, _, _, _)
Feed(w, regs, st, out, bs, i, j) ==
    IF i > j \/ st.st = "err" THEN [r |-> st, read |-> out, bstart |-> bs]
    ELSE IF Completes(st)
         THEN LET m == DecodeAt(regs, bs, i)
              IN  IF m = 0 \/ Undecodable(m) THEN [r |-> Fail("decode"), read |-> out, bstart |-> 0]
                  ELSE Feed(w, regs, Step(st, w[i]), Append(out, m), 0, i + 1, j)
         ELSE LET nx == Step(st, w[i])
              IN  Feed(w, regs, nx, out, IF st.st = "hdr" /\ nx.st = "body" THEN i + 1 ELSE bs, i + 1, j)

allvars == <<sent, var, wire, regions, pos, eof, r, read, chunks, bstart>>

RECURSIVE SeqsUpTo(_)
SeqsUpTo(n) == IF n = 0 THEN {<<>>}
               ELSE LET p == SeqsUpTo(n - 1) IN p \cup {Append(s, x) : s \in {q \in p : Len(q) = n - 1}, x \in 1..Len(Msgs)}
SentSpace == SeqsUpTo(MaxMsgs) \ {<<>>}

CutOK(c, lo, hi) == AllCuts \/ c <= lo + 1 \/ c >= hi - 1 \/ c = (lo + hi) \div 2
VarSpace(snt) ==
    {[kind |-> "none", at |-> 0, cut |-> 0]}
    \cup {[kind |-> k, at |-> a, cut |-> 0] : k \in (Variants \ {"none", "trunc-hdr", "trunc-body"}), a \in 1..Len(snt)}
    \cup (IF "trunc-hdr" \in Variants
          THEN UNION {{[kind |-> "trunc-hdr", at |-> a, cut |-> c] : c \in {x \in 1..(HeaderLenOf(Msgs[snt[a]]) - 1) : CutOK(x, 1, HeaderLenOf(Msgs[snt[a]]) - 1)}} : a \in 1..Len(snt)}
          ELSE {})
    \cup (IF "trunc-body" \in Variants
          THEN UNION {{[kind |-> "trunc-body", at |-> a, cut |-> c] : c \in {x \in 0..(Msgs[snt[a]].blen - 1) : CutOK(x, 0, Msgs[snt[a]].blen - 1)}} : a \in 1..Len(snt)}
          ELSE {})

InitWith(snt, v) ==
    LET b == Build(snt, v) IN
    /\ sent = snt /\ var = v /\ wire = b.wire /\ regions = b.regions
    /\ pos = 0 /\ eof = FALSE /\ r = R0 /\ read = <<>> /\ chunks = <<>> /\ bstart = 0

Init == \E snt \in SentSpace : \E v \in VarSpace(snt) : InitWith(snt, v)

Deliver(k, withEof) ==
    /\ ~eof /\ k >= 0 /\ pos + k <= Len(wire)
    /\ (withEof => pos + k = Len(wire))
    /\ LET f == Feed(wire, regions, r, read, bstart, pos + 1, pos + k)
       IN  /\ r' = IF withEof THEN AtEOF(f.r) ELSE f.r
           /\ read' = f.read
           /\ bstart' = f.bstart
    /\ pos' = pos + k
    /\ eof' = withEof
    /\ chunks' = Append(chunks, IF withEof THEN 0 - k - 1 ELSE k)   \* -(k+1): k bytes together with EOF
    /\ UNCHANGED <<sent, var, wire, regions>>

Eof == Deliver(0, TRUE)

ChunkChoices == (1..ChunkMax) \cup {Len(wire) - pos}

Next == \/ \E k \in ChunkChoices : k >= 1 /\ Deliver(k, FALSE)
        \/ \E k \in ChunkChoices : k >= 1 /\ Deliver(k, TRUE)
        \/ Eof

Spec == Init /\ [][Next]_allvars

View == <<sent, var, pos, eof, r, read, bstart>>     \* wire/regions are functions of (sent, var); chunks is output

-----------------------------------------------------------------------------
(* properties *)
IsPrefix(a, b) == Len(a) <= Len(b) /\ SubSeq(b, 1, Len(a)) = a
Done == eof

TypeOK == /\ ReaderInv(r) /\ pos \in 0..Len(wire) /\ eof \in BOOLEAN

ReadIsPrefixOfSent == IsPrefix(read, sent)

\* the writer's header value is the number of BYTES of the body it announces
LengthCountsBytes == \A i \in 1..Len(sent) : HdrLen(Msgs[sent[i]]) = Msgs[sent[i]].blen

\* everything sent (under a well-formed variant) is read back, in order, and the stream ends cleanly
Lossless == (Done /\ var.kind \in GoodVariants) => (read = sent /\ r.err = "eof-clean")

\* a malformed or truncated frame yields an error at that frame: the frames before it were read,
\* nothing after it is, and the reader is not left waiting
MalformedGivesError ==
    (Done /\ var.kind \in BadVariants) =>
        /\ r.st = "err" /\ r.err # "eof-clean"
        /\ read = SubSeq(sent, 1, var.at - 1)

LenientIsSafe == (Done /\ var.kind \in LenientVariants) => (r.st = "err" /\ IsPrefix(read, sent))

NeverWaitsAfterEOF == eof => ~Waiting(r)

\* a message is handed over as soon as its last byte has been delivered (no waiting for later bytes)
NeverWaitsAfterCompleteFrame ==
    \A i \in 1..Len(regions) :
        (pos >= regions[i].e /\ (var.kind \in GoodVariants \/ i < var.at)) => Len(read) >= i

\* typed ids: what ID.UnmarshalJSON makes of the JSON token written for an id
NoNum == 0 - 1000
DecId(id) == IF id.t = "str" /\ IdDecode = "unquote" /\ id.n # NoNum
             THEN [t |-> "num", v |-> ToString(id.n), n |-> id.n] ELSE id
\* the ids of the messages handed over by the reader, and of the messages written
ReadIds == [k \in 1..Len(read) |-> DecId(Msgs[read[k]].id)]
SentIds == [k \in 1..Len(sent) |-> Msgs[sent[k]].id]
\* the id read back is the id written, including its type (number vs string)
IdsPreserved == \A k \in 1..Len(read) : k <= Len(sent) => ReadIds[k] = SentIds[k]

\* the payload kind read back is the payload kind written (a null result stays a successful response)
ReadPays == [k \in 1..Len(read) |-> Msgs[read[k]].pay]
SentPays == [k \in 1..Len(sent) |-> Msgs[sent[k]].pay]
PayloadsPreserved == /\ \A k \in 1..Len(read) : k <= Len(sent) => ReadPays[k] = SentPays[k]
                     /\ \A k \in 1..Len(Msgs) : Msgs[k].pay \in PayKinds

\* the outcome is a function of the wire, not of how it was cut into chunks
Outcome(w, regs) == LET f == Feed(w, regs, R0, <<>>, 0, 1, Len(w)) IN [read |-> f.read, err |-> AtEOF(f.r).err]
ChunkingIrrelevant == Done => [read |-> read, err |-> r.err] = Outcome(wire, regions)

Class(k) == IF k \in GoodVariants THEN "good" ELSE IF k \in LenientVariants THEN "lenient" ELSE "bad"

Behaviour == [sent |-> sent, variant |-> var.kind, at |-> var.at, cut |-> var.cut, class |-> Class(var.kind),
              wire |-> wire, chunks |-> chunks, read |-> read, err |-> r.err, ids |-> ReadIds, pays |-> ReadPays]
PrintBehaviour == Done => PrintT(<<"BEH", ToJson(Behaviour)>>)
=============================================================================
