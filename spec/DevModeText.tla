----------------------------- MODULE DevModeText -----------------------------
(* C16, first clause -- the development text file round-trips every literal.

   generator: a literal is stored in Go-string-escaped form (escapeQuotes = strconv.Quote without
   the surrounding quotes) -- once inside the generated Go code and once as a line of the text file
   (eventhandler.generate: strings.Join(Literals, "\n")).
   runtime/watchmode.go: the file is split on "\n" and line i-1 is passed through
   strconv.Unquote(`"` + line + `"`).
   Normal mode renders the Go string constant, i.e. the literal itself.
   Property: for every list of literals, reading the file back yields exactly the literals.

   Characters are classes: p plain ASCII, q the double quote, s the backslash, n the newline,
   u printable non-ASCII, c a non-printable character (control, U+2028, ...), x a byte that is not
   valid UTF-8.  Escaped text is a sequence over the same classes plus the letters that follow a
   backslash in an escape: "ln" (the letter n of \n), "lx" (hex escape of c), "ly" (hex escape of x).
   EscapeRule: "quote" = strconv.Quote; "keepbackslash" = a backslash is left alone (plausible bug);
   "rawnewline" = a newline is left alone (plausible bug).                                          *)
EXTENDS Integers, Sequences, TLC, Json

CONSTANTS MaxLits, MaxLen, EscapeRule, EmitCases
VARIABLES lits, lbl
vars == <<lits>>

Char == {"p", "q", "s", "n", "u", "c", "x"}

EscChar(ch) ==
    CASE ch = "q" -> <<"s", "q">>
      [] ch = "s" -> IF EscapeRule = "keepbackslash" THEN <<"s">> ELSE <<"s", "s">>
      [] ch = "n" -> IF EscapeRule = "rawnewline" THEN <<"n">> ELSE <<"s", "ln">>
      [] ch = "c" -> <<"s", "lx">>
      [] ch = "x" -> <<"s", "ly">>
      [] OTHER    -> <<ch>>
RECURSIVE Escape(_)
Escape(t) == IF t = << >> THEN << >> ELSE EscChar(Head(t)) \o Escape(Tail(t))

RECURSIVE JoinNL(_)
JoinNL(ls) == IF ls = << >> THEN << >>
              ELSE IF Len(ls) = 1 THEN ls[1] ELSE ls[1] \o <<"n">> \o JoinNL(Tail(ls))
RECURSIVE SplitNL(_)
SplitNL(s) == IF s = << >> THEN << << >> >>
              ELSE LET r == SplitNL(Tail(s)) IN
                   IF Head(s) = "n" THEN << << >> >> \o r ELSE << <<Head(s)>> \o r[1] >> \o Tail(r)

\* strconv.Unquote of a double-quoted string with this body; <<"ERR">> when it is rejected
RECURSIVE Unquote(_)
Unquote(s) ==
    IF s = << >> THEN << >>
    ELSE IF Head(s) = "q" \/ Head(s) = "n" THEN <<"ERR">>                      \* bare quote / newline inside "..."
    ELSE IF Head(s) = "s"
         THEN IF Len(s) < 2 THEN <<"ERR">>
              ELSE LET d == s[2]
                       r == Unquote(SubSeq(s, 3, Len(s)))
                       one(ch) == IF r = <<"ERR">> THEN r ELSE <<ch>> \o r
                   IN CASE d = "q"  -> one("q")
                        [] d = "s"  -> one("s")
                        [] d = "ln" -> one("n")
                        [] d = "lx" -> one("c")
                        [] d = "ly" -> one("x")
                        [] OTHER    -> <<"ERR">>                                \* unknown escape
    ELSE LET r == Unquote(Tail(s)) IN IF r = <<"ERR">> THEN r ELSE <<Head(s)>> \o r

File      == JoinNL([i \in 1..Len(lits) |-> Escape(lits[i])])
ReadBack  == LET ls == SplitNL(File) IN [i \in 1..Len(ls) |-> Unquote(ls[i])]

RECURSIVE SeqsUpTo(_, _)
SeqsUpTo(S, k) == IF k = 0 THEN { << >> }
                  ELSE LET r == SeqsUpTo(S, k - 1) IN r \cup { Append(s, x) : s \in {t \in r : Len(t) = k - 1}, x \in S }
Texts == SeqsUpTo(Char, MaxLen) \ { << >> }
LitLists == SeqsUpTo(Texts, MaxLits) \ { << >> }

Init == lits \in LitLists /\ lbl = [op |-> "init"]
Next == UNCHANGED lits /\ lbl' = [op |-> "case", lits |-> lits, file |-> File]
Spec == Init /\ [][Next]_vars

\* C16 first clause on the text file: the program in development mode writes the same literals
TextRoundTrip == /\ Len(ReadBack) = Len(lits)
                 /\ \A i \in 1..Len(lits) : ReadBack[i] = lits[i]
View == vars
Emit == IF EmitCases THEN PrintT(<<"CASE", ToJson(lbl')>>) ELSE TRUE
=============================================================================
