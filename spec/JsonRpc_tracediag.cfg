\* C18 conn VALdiag: recorded executions of the real conn against JsonRpc (NC includes the probe call / the burst callers).
CONSTANTS
  NC = 4
  NN = 2
  MaxPN = 2
  MaxPC = 2
  MaxStray = 2
  UseWriteMu = TRUE
  ChanCap = 1
  RegisterFirst = TRUE
  AtomicAlloc = TRUE
  IdDecode = "strict"
  IdVocab = "full"
  KindShift = 0
  NullResult = "ok"
INIT TraceInit
NEXT TraceNext
INVARIANTS TypeOK Matched NoInventedResponse UniqueIds PendingIsMap PendingOwned IdTypePreserved DispatchedToOwner PeerCallsEchoed FramesNeverInterleave MutexOK ReaderNeverBlocks ReaderAlive PendingExact Progress
CHECK_DEADLOCK FALSE
