\* templ fmt <dir>: exhaustive check
CONSTANTS
  Files = {"a", "b", "c"}
  MaxRuns = 2
  RunRewrites = TRUE
INIT Init
NEXT Next
VIEW View
INVARIANTS TypeOK AfterOneRunFailAgrees RewrittenAtMostOnce OkMeansClean
PROPERTIES OnlyLooseFilesAreReplaced StdoutRunsWriteNothing
CHECK_DEADLOCK FALSE
