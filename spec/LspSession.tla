----------------------------- MODULE LspSession -----------------------------
(* The life cycle of one templ document in the LSP proxy (cmd/templ/lspcmd/proxy/server.go: Initialize / Initialized
   with the workspace preload, DidOpen, DidChange, DidClose), above the edit arithmetic of LspDoc.tla.

   C17 starts with "after any sequence of OPEN, full-replace and incremental range edits ...": what the server holds
   after an open must be what the editor sent, whatever the server held before -- in particular the copy the
   workspace preload read from disk, which differs from the editor's text when the buffer is unsaved or the file
   changed after the scan.  LspDoc.tla decides what one edit does to the line table; this module decides which
   text the line table is built from, along every order of preload, open, change, close and re-open.

   Texts are opaque here (model values); a Change replaces the editor's text by another text, the harness sends it
   either as a full replacement or as the incremental edit that turns the old text into the new one.

   Bound to the code by replaying simulated behaviours on a real proxy.Server (stub gopls, stub client) and comparing
   the server's copy (TemplSource) with the editor's text after every step.                                       *)
EXTENDS Naturals, Sequences, TLC, Json

CONSTANTS Texts,      \* document texts (strings)
          OpenRule,   \* "replace": as coded.  "keepPreloaded": a defective design in which DidOpen keeps the copy the
                      \* preload made (negative configuration: must be rejected by ServerTracksEditor)
          HistLen

None == "none"

VARIABLES st,       \* "start" (before Initialize), "idle" (initialised, document not open), "open"
          editor,   \* the text the editor shows (None while the document is not open)
          server,   \* the text the server's copy holds (None: no copy; "diverged": a copy that tracks nothing)
          disk,     \* the text of the file on disk when the workspace was scanned (None: no such file)
          hist
vars == <<st, editor, server, disk, hist>>

Init == /\ st = "start" /\ editor = None /\ server = None
        /\ disk \in Texts \cup {None}
        /\ hist = <<>>

Log(e) == hist' = Append(hist, e)

\* Initialize + Initialized: with preload the server opens every templ file of the workspace from disk
Start(preload) ==
    /\ st = "start"
    /\ st' = "idle"
    /\ server' = IF preload /\ disk # None THEN disk ELSE None
    /\ UNCHANGED <<editor, disk>>
    /\ Log([op |-> "start", preload |-> preload, disk |-> disk])

Open(t) ==
    /\ st = "idle"
    /\ st' = "open"
    /\ editor' = t
    /\ server' = IF OpenRule = "keepPreloaded" /\ server # None THEN server ELSE t
    /\ UNCHANGED disk
    /\ Log([op |-> "open", text |-> t])

\* full: the change carries the whole text; otherwise it is the edit that turns the old text into the new one,
\* which only gives the new text when it is applied to the old one
Change(t, full) ==
    /\ st = "open"
    /\ editor' = t
    /\ server' = IF full \/ server = editor THEN t ELSE "diverged"
    /\ UNCHANGED <<st, disk>>
    /\ Log([op |-> "change", text |-> t, full |-> full])

Close ==
    /\ st = "open"
    /\ st' = "idle"
    /\ editor' = None
    /\ server' = None                \* DidClose deletes the copy
    /\ UNCHANGED disk
    /\ Log([op |-> "close"])

Next == /\ Len(hist) < HistLen
        /\ \/ \E p \in BOOLEAN : Start(p)
           \/ \E t \in Texts : Open(t)
           \/ \E t \in Texts, f \in BOOLEAN : Change(t, f)
           \/ Close
Spec == Init /\ [][Next]_vars

-----------------------------------------------------------------------------
ServerTracksEditor == st = "open" => server = editor          \* C17, at the level of the session
NoCopyWhenClosed == (st = "idle" /\ editor = None /\ hist # <<>> /\ hist[Len(hist)].op = "close") => server = None

View == <<st, editor, server, disk>>
\* simulation: print each finished behaviour for the replay harness
PrintHist == (Len(hist) = HistLen) => PrintT(<<"HIST", ToJson([disk |-> disk, steps |-> hist])>>)
=============================================================================
