\* C18 framing: the closed reader automaton -- all inputs of all lengths.
CONSTANTS
  Cap = 12
  Msgs <- SmallMsgs
  MaxMsgs = 1
  LenMode = "bytes"
  IdDecode = "strict"
  NullResult = "ok"
  Variants <- VariantsDef
  ChunkMax = 1
  AllCuts = FALSE
INIT ClosedInit
NEXT ClosedNext
VIEW ClosedView
INVARIANTS ClosedInv NeverWaitsAfterEOF
PROPERTIES BodyOnlyWithLength ErrorIsFinal CountdownExact
CHECK_DEADLOCK FALSE
