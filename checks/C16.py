#!/usr/bin/env python3
"""C16 -- watch-mode rendering equals a fresh build (spec/DevMode.tla, spec/DevModeText.tla).

MC   : DevMode.tla -- the watch session (Edit / Regenerate / Rebuild) over all templates of <= MaxItems items
       and all single edits, edit sequences <= 3 without a rebuild in between. With the repaired HasChanged
       ("codehash") NoRebuildMeansFaithful holds; the negative configs must be rejected: HasChanged as coded at
       the pinned commit ("coded": TLC finds the known blind spots in the model first) and HasChanged without
       the expression list ("noexprs").  DevModeText.tla -- the text file round-trips every literal list over the
       character classes {plain, quote, backslash, newline, non-ASCII, non-printable, invalid byte}; negative
       configs: backslash left alone, newline left alone.
GEN  : every Regenerate transition TLC explored (model with HasChanged as coded) is concretised to .templ source;
       real generator, real generatecmd event handler in development mode (the real HasChanged decision, the real
       text file in TEMPL_DEV_MODE_ROOT), every distinct template compiled ONCE into one program; the program
       is run normally (= fresh build) and with TEMPL_DEV_MODE=true against the text file the real code wrote.
       The verdict is about bytes: GoUpdated = false and dev rendering != fresh rendering of the saved template.
"""
import json, os, sys
sys.path.insert(0, os.path.join(os.path.dirname(os.path.abspath(__file__)), "..", "lib"))
import vlib


def cfg_text(name, **repl):
    text = open(os.path.join(vlib.SPEC, name)).read()
    for k, v in repl.items():
        import re
        text, n = re.subn(r"(?m)^(\s*%s\s*(?:=|<-)\s*).*$" % k, lambda m: m.group(1) + str(v), text)
        if n != 1:
            raise vlib.InfraError("cfg %s: constant %s not found" % (name, k))
    return text


def main():
    ck = vlib.Check("C16", "model_checking")
    thorough = ck.tier == "thorough"
    corrupt = os.environ.get("VERIF_SELFTEST_CORRUPT") == "1"

    # --- MC, negative configs and emission: all TLC runs concurrently, the harness is built meanwhile -----------
    # quick: every sink kind with 2 items, the mini universe with 3 items, static text around expressions with 4 items;
    # thorough: the core universe with 3 items (every sink kind with 3 items is ~10^7 states: beyond the 15 min budget)
    runs = [("ChoicesFull", 2), ("ChoicesMini", 3), ("ChoicesText", 4)] if not thorough else [("ChoicesFull", 2), ("ChoicesCore", 3), ("ChoicesText", 4)]
    negs = [("MCDevMode", "DevMode_neg_coded.cfg", "NoRebuildMeansFaithful", "HasChanged as coded before 4de87af"),
            ("MCDevMode", "DevMode_neg_noexprs.cfg", "NoRebuildMeansFaithful", "HasChanged without expression list"),
            ("MCDevMode", "DevMode_neg_texthash.cfg", "NoRebuildMeansFaithful", "text-file hash over the plain concatenation of the literals"),
            ("DevModeText", "DevModeText_neg_backslash.cfg", "TextRoundTrip", "backslash not escaped"),
            ("DevModeText", "DevModeText_neg_newline.cfg", "TextRoundTrip", "newline not escaped"),
            ("MCDevModePath", "DevModePath_neg_reader.cfg", "WriterReaderAgree", "the reader does not resolve the .templ name again"),
            ("MCDevModePath", "DevModePath_neg_writer.cfg", "WriterReaderAgree", "the writer hashes the name it was given")]
    # emission (universe, items, edits without rebuild): all sink kinds with single edits, edit sequences on a smaller
    # universe, and static text moved across Go code (needs 4 items)
    if thorough:
        gens = [("ChoicesFull", 2, 3), ("ChoicesMini", 3, 2), ("ChoicesText", 4, 2)]
    else:
        gens = [("ChoicesFull", 2, 1), ("ChoicesCore", 2, 2), ("ChoicesText", 4, 1)]
    import concurrent.futures as cf
    with cf.ThreadPoolExecutor(max_workers=16) as ex:
        fbuild = ex.submit(vlib.go_build, "./c16", "c16")
        fmc = [ex.submit(vlib.tlc, "MCDevMode", "mc.cfg", files={"mc.cfg": cfg_text("DevMode_mc.cfg", MaxItems=n, Choices=choices)},
                         workers=12 if thorough else 4, timeout=1500, xmx="8g") for choices, n in runs]
        fneg = [ex.submit(vlib.tlc, mod, name, workers=1, timeout=600) for mod, name, _, _ in negs]
        ftxt = ex.submit(vlib.tlc, "DevModeText", "DevModeText_mc.cfg", workers=1, timeout=600)
        fpath = ex.submit(vlib.tlc, "MCDevModePath", "DevModePath_mc.cfg", workers=1, timeout=600)
        fgen = [ex.submit(vlib.tlc, "MCDevMode", "gen.cfg", files={"gen.cfg": cfg_text("DevMode_gen.cfg", MaxItems=gi, Choices=gc, MaxEdits=ge)},
                          workers=1, timeout=2400, xmx="8g") for gc, gi, ge in gens]
        for (choices, n), f in zip(runs, fmc):
            mc = f.result()
            if not mc.ok:
                raise vlib.InfraError("DevMode (code-hash rule, text hash as coded) violates %s: spec inconsistent" % mc.violated)
            ck.add_tlc(mc, "DevMode_mc %s MaxItems=%d" % (choices, n))
        for (mod, name, expect, what), f in zip(negs, fneg):
            neg = f.result()
            if neg.violated != expect:
                raise vlib.InfraError("negative config %s (%s) was not rejected: the invariant is vacuous" % (name, what))
        ck.set("negative_configs_rejected", [n[1] for n in negs])
        txt = ftxt.result()
        if not txt.ok:
            raise vlib.InfraError("DevModeText violates %s" % txt.violated)
        ck.add_tlc(txt, "DevModeText_mc")
        text_cases = txt.tagged("CASE")
        if len(text_cases) != txt.distinct:
            raise vlib.InfraError("DevModeText printed %d of %d cases" % (len(text_cases), txt.distinct))
        pth = fpath.result()
        if not pth.ok:
            raise vlib.InfraError("DevModePath violates %s" % pth.violated)
        ck.add_tlc(pth, "DevModePath_mc (path shapes: plain, relative, .., symlinked file / directory / both / chain)")
        path_cases = pth.tagged("PATH")
        if len(path_cases) != pth.distinct or len(path_cases) < 8:
            raise vlib.InfraError("DevModePath printed %d of %d shapes" % (len(path_cases), pth.distinct))
        edges = []
        for (gen_choices, gen_items, gen_edits), f in zip(gens, fgen):
            gen = f.result()
            if gen.violated:
                raise vlib.InfraError("DevMode emission run violated %s" % gen.violated)
            es = gen.tagged("EDGE")
            if not es:
                raise vlib.InfraError("no transitions emitted")
            ck.add_tlc(gen, "DevMode_gen (Regenerate transitions, code-hash rule) %s MaxItems=%d MaxEdits=%d: %d edges" % (gen_choices, gen_items, gen_edits, len(es)))
            edges += es
        binp = fbuild.result()
    boundary_edges = sum(1 for e in edges if e["boundary"] and not e["go"])
    if boundary_edges < 16:
        raise vlib.InfraError("only %d emitted transitions move static text across Go code" % boundary_edges)
    quiet_edges = sum(1 for e in edges if not e["go"])
    if quiet_edges < 500:
        raise vlib.InfraError("only %d emitted transitions request no rebuild" % quiet_edges)
    # de-duplicate (C, P, S): the same transition is reached in several runs / with different edit counters
    seen, uniq = set(), []
    for e in edges:
        k = json.dumps([e["c"], e["p"], e["s"]])
        if k not in seen:
            seen.add(k)
            uniq.append(e)
    sc = vlib.scratch()
    hd = vlib.harness_dir()
    work_rel = "c16work"
    work = os.path.join(hd, work_rel)
    vlib.write_ndjson(os.path.join(sc, "edges.ndjson"), uniq)
    vlib.write_ndjson(os.path.join(sc, "texts.ndjson"), text_cases)
    vlib.write_ndjson(os.path.join(sc, "paths.ndjson"), path_cases)
    max_cases = 20000 if thorough else 2400
    max_unfaithful = 15000 if thorough else 1200
    max_boundary = 0 if thorough else 600         # 0 = all
    conf = {"edges": os.path.join(sc, "edges.ndjson"), "texts": os.path.join(sc, "texts.ndjson"), "paths": os.path.join(sc, "paths.ndjson"),
            "work": work, "work_rel": work_rel, "seed": ck.seed, "max_cases": max_cases, "max_unfaithful": max_unfaithful, "max_boundary": max_boundary, "pkg_size": 400,
            "corrupt": corrupt}
    cpath = os.path.join(sc, "c16.json")
    with open(cpath, "w") as fh:
        json.dump(conf, fh)
    vlib.log("replaying %d distinct transitions (%d emitted)" % (len(uniq), len(edges)))
    p = vlib.run([binp, "run", cpath], check=False, timeout=3000)
    s = vlib.harness_results(ck, p)
    if s["edges_replayed"] != s["edges_selected"]:
        raise vlib.InfraError("harness replayed %d of %d selected transitions" % (s["edges_replayed"], s["edges_selected"]))
    if s["edges_emitted"] != len(uniq):
        raise vlib.InfraError("harness read %d of %d transitions" % (s["edges_emitted"], len(uniq)))
    if s["path_shapes"] != len(path_cases) or (s["fails"] == 0 and s["path_shapes_checked"] != len(path_cases)):
        raise vlib.InfraError("only %d of %d path shapes were rendered in development mode" % (s["path_shapes_checked"], len(path_cases)))
    if s["path_shape_name_drift"]:
        ck.notes.append("model drift: for %d path shapes the generator's text file is not the one of the specification's canonical path" % s["path_shape_name_drift"])
    ck.set("path_shapes_checked", s["path_shapes_checked"])
    ck.set("path_shapes", [c["name"] for c in path_cases])
    if s["dev_equals_normal_checked"] < s["templates"] + s["text_cases"] - s["text_cases_rejected_by_parser"] - s["accepted_not_generated"]:
        raise vlib.InfraError("development-mode rendering was not compared for every template")
    if s["text_cases_rejected_by_parser"] > len(text_cases) // 2:
        raise vlib.InfraError("the parser rejected most text cases: concretisation is broken")
    if s["generator_drift"] > 0:
        raise vlib.InfraError("the model's Generate disagrees with the real generator on %d templates (literal count / expression list)" % s["generator_drift"])
    if s["no_rebuild_checked"] + s["rebuild_requested"] + s["premise_failed"] + s["skipped_not_generated"] != s["edges_replayed"]:
        raise vlib.InfraError("transition accounting does not add up: %s" % s)
    if s["no_rebuild_checked"] < 50 and not s["accepted_not_generated"]:
        raise vlib.InfraError("only %d no-rebuild transitions were compared" % s["no_rebuild_checked"])
    for k in ("edges_emitted", "edges_selected", "selected_pools", "edges_replayed", "templates", "text_cases", "text_cases_rejected_by_parser",
              "dev_equals_normal_checked", "verbatim_checked", "accepted_not_generated", "packages", "build_seconds", "rounds", "no_rebuild_checked", "rebuild_requested",
              "premise_failed", "generator_drift", "text_file_drift", "text_file_checked_after_edit", "text_file_stale_after_edit",
              "text_updated_decision_drift", "text_moved_across_go_code_replayed", "real_differs_from_coded_rule",
              "real_differs_from_codehash_rule", "no_rebuild_by_model_signature", "manifest_by_signature",
              "unfaithful_manifest", "unfaithful_not_manifest_in_bytes"):
        ck.set(k, s[k])
    ck.set("emitted_transitions_moving_text_across_go_code", boundary_edges)
    if s["fails"] == 0 and s["text_moved_across_go_code_replayed"] < min(boundary_edges, 16):
        raise vlib.InfraError("only %d transitions that move text across Go code were replayed" % s["text_moved_across_go_code_replayed"])
    if s["fails"] == 0 and s["text_file_checked_after_edit"] < s["no_rebuild_checked"]:
        raise vlib.InfraError("the text file was not checked after every edit")
    st = s["stream"]
    if st["checked"] == 0:
        ck.notes.append("continuous-rendering check inconclusive in this run (%d attempts: the renderings did not straddle the edit)" % st["inconclusive"])
    ck.set("continuous_rendering_across_text_edit", st)
    ck.set("real_haschanged_rule", "coded" if s["real_differs_from_coded_rule"] == 0 else
           ("codehash" if s["real_differs_from_codehash_rule"] == 0 else "other"))
    ck.set("traces_validated_against_impl", s["edges_replayed"] + s["dev_equals_normal_checked"])
    ck.set("bounds", {"MaxItems_mc": [r[1] for r in runs], "gen": [list(g) for g in gens], "MaxEdits_mc": 3,
                      "text": {"MaxLits": 2, "MaxLen": 2, "classes": 7}})
    ck.set("rule", "every Regenerate transition (compiled template, previous template, saved template) of the session model over "
                   "the emission runs %s (universe, items, edits without rebuild); edits that move static text across Go code (%s), a seeded sample of %d others; "
                   "consecutive versions go through ONE real FSEventHandler (its remembered text-file hash and previous output matter); after every edit the text file must "
                   "hold the literals of that generation; every distinct template rendered normally and in development mode with its own text file; every DevModeText "
                   "literal list; continuous rendering (every 10 ms) across a text-only edit must show the new text within 500 ms"
                   % (gens, "all" if not max_boundary else "seeded sample of %d" % max_boundary, max_cases))
    ck.assume("the joined hash of the literals is injective on literal lists (escaped literals contain no raw newline)")
    ck.assume("generator options (version, file name) are constant within a watch session")
    ck.assume("rendered bytes only: source positions inside templ.Error messages of a running program are stale by design")
    ck.assume("templates are flat item sequences, one expression per element; expressions are type-correct in the positions they are moved to")
    ck.finish()


vlib.main(main)
