// Package templang turns the abstract programs enumerated by spec/TemplLang.tla into concrete
// .templ source text ("concretiser"). The JSON shapes mirror the node constructors of the spec.
package templang

import (
	"crypto/sha256"
	"encoding/hex"
	"encoding/json"
	"fmt"
	"strings"
)

// Attr mirrors the attribute records of the spec.
type Attr struct {
	A    string `json:"a"` // const | boolc | boole | expr | spread | cond
	N    string `json:"n,omitempty"`
	V    string `json:"v,omitempty"`
	C    string `json:"c,omitempty"`
	E    string `json:"e,omitempty"`
	M    string `json:"m,omitempty"`
	U    string `json:"u,omitempty"`
	Then []Attr `json:"then,omitempty"`
	Else []Attr `json:"else,omitempty"`
}

// Branch is one `if c { body }` / `else if c { body }` arm.
type Branch struct {
	C    string `json:"c"`
	Body []Node `json:"body"`
}

// Case is one arm of a switch.
type Case struct {
	Key  string `json:"key"`
	Body []Node `json:"body"`
}

// Node mirrors the node records of the spec.
type Node struct {
	K       string   `json:"k"`
	W       string   `json:"w,omitempty"`
	E       string   `json:"e,omitempty"`
	Tr      string   `json:"tr,omitempty"`
	Sp      bool     `json:"sp,omitempty"` // formatted text whose value keeps a trailing space
	After   string   `json:"after,omitempty"`
	Name    string   `json:"name,omitempty"`
	Attrs   []Attr   `json:"attrs,omitempty"`
	Lead    string   `json:"lead,omitempty"`
	Kids    []Node   `json:"kids,omitempty"`
	Brs     []Branch `json:"brs,omitempty"`
	Els     []Node   `json:"els,omitempty"`
	HasElse bool     `json:"haselse,omitempty"`
	L       string   `json:"l,omitempty"`
	Body    []Node   `json:"body,omitempty"`
	Cases   []Case   `json:"cases,omitempty"`
	Comp    string   `json:"comp,omitempty"`
}

// Tok is one token of a denoted document.
type Tok struct {
	T     string `json:"t"` // open close word val comment raw doctype
	N     string `json:"n"`
	G     string `json:"g"` // must mustnot may : separator requirement to the previous token
	Attrs []TokAttr `json:"attrs"`
}

// TokAttr is one denoted attribute: name and symbolic value.
type TokAttr struct {
	N string `json:"n"`
	V string `json:"v"`
}

// Env is one environment of the spec.
type Env struct {
	C map[string]bool `json:"c"`
	L map[string]int  `json:"l"`
	S string          `json:"s"`
}

// Den is the denotation of a program for one environment.
type Den struct {
	Env Env `json:"env"`
	D   struct {
		Toks []Tok    `json:"toks"`
		Evs  []string `json:"evs"`
	} `json:"d"`
}

// Program is one PROG record printed by TLC.
type Program struct {
	ID   int    `json:"id"`
	Prog []Node `json:"prog"`
	Den  []Den  `json:"den"`
}

// WordSource is the spelling of a word id in the template source.
func WordSource(id string) string {
	if t, ok := WordSources[id]; ok {
		return t
	}
	return WordText(id)
}

// WordText is the static text of a word id.
func WordText(id string) string {
	if t, ok := WordTexts[id]; ok {
		return t
	}
	return id
}

func ParseProgram(line []byte) (Program, error) {
	var p Program
	err := json.Unmarshal(line, &p)
	return p, err
}

// Values of the abstract identifiers.
var (
	// ExprValues are what env.E(i) returns: no whitespace, but markup metacharacters.
	ExprValues = map[string]string{"E1": `V1<&>`, "E2": `V2"'=`, "M1": `M1&v`, "K1": "cls1", "K12": "cls1 cls2", "E3": `V3;&#39;`,
		// URL attribute values after sanitisation (U2 is javascript:alert(1)) and style attribute values
		"U1": "https://x.test/p?a=1&b=<2>", "UBAD": "about:invalid#TemplFailedSanitizationURL",
		"T1": "color:red;margin:0;", "T2": "color:blue;"}
	// ConstSpelled is how a constant attribute value id is written in the source (double-quoted form);
	// ConstDecoded is the value the attribute denotes.
	ConstDecoded = map[string]string{"k1": "v1", "k2": "a&b<c", "k3": `q"q`, "k4": "x&lt;y&#39;", "k5": "/e?a=1&copy=2&lt=3", "k6": `C:\temp\new\d+`}
	constDQ      = map[string]string{"k1": "v1", "k2": "a&amp;b&lt;c", "k3": `q&quot;q`, "k4": "x&amp;lt;y&amp;#39;", "k5": "/e?a=1&amp;copy=2&amp;lt=3", "k6": `C:\temp\new\d+`}
	constSQ      = map[string]string{"k1": "v1", "k2": "a&amp;b&lt;c", "k3": `q"q`, "k4": "x&amp;lt;y&amp;#39;", "k5": "/e?a=1&amp;copy=2&amp;lt=3", "k6": `C:\temp\new\d+`}
	// WordTexts maps word ids to their text where it is not the id itself: w3 carries the characters that need
	// escaping when static text is written into a Go string literal of the generated code (quote, backslash,
	// backtick, non-ASCII, a control-free multi-byte dash) -- no whitespace and none of < { }.
	WordTexts = map[string]string{"w3": "q\"b\\c`–é", "w4": "a\u00a0b<c&d"}
	// WordSources is how a word is spelled in the template when that differs from its text: w4 uses character
	// references in static text (the generator writes them through, the browser decodes them)
	WordSources = map[string]string{"w4": "a&nbsp;b&lt;c&amp;d"}
	// "scriptgo" is a <script> element whose content interpolates a Go value ({{ }}): the whitespace after the
	// interpolation is part of the script and is written through as it is
	RawContents = map[string]string{"style": "p{color:red}", "script": "var x = 1 < 2 && 3 > 2;",
		"scriptgo": "var a = {{ env.E(1) }}  \t;var b = [{{ env.E(1) }} , 2];", "scriptcls": ""}
)

// OddAttrSpansLines reports whether the odd spelling writes the attribute expressions of this element over several
// lines (the other elements get the block-comment spelling): a local rule, so that harnesses can tell which start
// tags span lines.
func OddAttrSpansLines(el string, odd int) bool {
	return odd&OddAttrExprSpansLines != 0 && len(el)%2 == 1
}

// OddStartTagSpansLines: the element's start tag spans lines in the odd spelling.
func OddStartTagSpansLines(n Node, odd int) bool {
	if n.K != "el" && n.K != "void" || !OddAttrSpansLines(n.Name, odd) {
		return false
	}
	for _, a := range n.Attrs {
		if a.A == "expr" {
			return true
		}
	}
	return false
}

// CallArgs is the argument list of a component call: show and the script template greet take a string.
func CallArgs(comp string) string {
	if comp == "show" || comp == "greetc" {
		return "env.E(1)"
	}
	return ""
}

// CallName is the Go name a component id stands for (greetc: the script template greet rendered as a component).
func CallName(comp string) string {
	if comp == "greetc" {
		return "greet"
	}
	return comp
}

// URLExpr is the Go expression of a sanitised URL attribute value: <a href> takes a templ.SafeURL, every other
// element's href is an ordinary string attribute.
func URLExpr(el, u string) string {
	if el == "a" {
		return "templ.URL(env.U(" + num(u) + "))"
	}
	return "string(templ.URL(env.U(" + num(u) + ")))"
}

// CSSClassID is the id of a css template's class: its name and the first 8 hex digits of the SHA-256 of its text
// (second key for the runtime's own computation).
func CSSClassID(name, css string) string {
	sum := sha256.Sum256([]byte(css))
	return name + "_" + hex.EncodeToString(sum[:])[:8]
}

// RawElement is the element name of a raw node kind.
func RawElement(name string) string {
	if name == "scriptgo" || name == "scriptcls" {
		return "script"
	}
	return name
}

// RawAttrs is the attribute list (source text, with its leading space) of a raw node kind.
func RawAttrs(name string) string {
	if name == "scriptcls" {
		return ` class={ env.K(1), env.K(2) } src="x.js"`
	}
	return ""
}

// RawRendered is the content a raw element renders: interpolated Go values appear as JSON (second key:
// encoding/json with HTML escaping, which is what a script context requires).
func RawRendered(name string) string {
	c := RawContents[name]
	if name == "scriptgo" {
		js, _ := json.Marshal(ExprValues["E1"])
		c = strings.ReplaceAll(c, "{{ env.E(1) }}", string(js))
	}
	return c
}

// Variant selects one concrete spelling of the same abstract program.
//
//	0 canonical (what the formatter aims for), 1 compact, 2 loose,
//	3 odd: canonical layout with unusual but valid spellings of single constructs (see Odd*)
type Variant int

const Variants = 4

// LayoutVariants are the spellings whose formatted output the layout model (FmtLayout.tla) predicts.
const LayoutVariants = 3

// Features of the "odd" spelling; OddMask can switch them off one at a time to attribute a failure.
const (
	OddGoCodeTwo          = 1 << iota // two statements on one line inside {{ }}
	OddCondOneLine                    // conditional attribute written on one line
	OddExprComment                    // string expression followed by a block comment inside the braces: { e /* c */ }
	OddCallBlockOneLine               // component call with a child block written on one line: @wrap() { <b>x</b> }
	OddCommentBeforeTempl             // file level: a Go block ending in an INDENTED // comment directly in front of `templ`
	OddHeaderSpansLines               // if / else if / for header whose Go expression spans lines (continuation lines indented)
	OddAttrExprSpansLines             // attribute expressions of elements with odd-length names span lines and hold a raw string with a line break
	OddCallArgSpacing                 // component call arguments written with padding: @show( env.E(1) )
	OddCRLF                           // the whole file has Windows line endings (applied by the harness to every second program)
	OddAll                = OddCallArgSpacing | OddCRLF | OddGoCodeTwo | OddCondOneLine | OddExprComment | OddCallBlockOneLine | OddCommentBeforeTempl | OddHeaderSpansLines | OddAttrExprSpansLines
)

type printer struct {
	sb  strings.Builder
	v   Variant
	odd int // feature mask of the odd spelling (variant 3)

	elName    string // name of the element whose attributes are being printed
	next      *Node // the sibling that follows the node being printed (nil: none)
}

func (p *printer) ws(kind string, depth int) {
	switch kind {
	case "":
	case "h":
		switch p.v {
		case 1:
			p.sb.WriteString("\t") // tabs only: still horizontal whitespace
		case 2:
			p.sb.WriteString(" \t ")
		default:
			p.sb.WriteString(" ")
		}
	case "v":
		switch p.v {
		case 0, 3:
			p.sb.WriteString("\n" + strings.Repeat("\t", depth))
		case 1:
			p.sb.WriteString("\n")
		default:
			// no space in front of the line break: text and `//` comments run to the end of their line
			p.sb.WriteString("\n\n" + strings.Repeat("  ", depth))
		}
	}
}

func num(id string) string { return id[1:] }

func (p *printer) expr(id string) string {
	call := "env." + id[:1] + "(" + num(id) + ")"
	if id == "E3" {
		call = "env.EE(3)" // a (string, error) call
	}
	// (a string expression with a trailing LINE comment, `{ e // c <newline> }`, parses but its generated Go is not
	// gofmt-valid, so it is not an accepted template and is outside the properties' precondition)
	if p.v == 3 && p.odd&OddExprComment != 0 && id[:1] == "E" {
		return "{ " + call + " /* c */ }"
	}
	switch p.v {
	case 1:
		return "{" + call + "}"
	case 2:
		return "{   " + call + "  }"
	}
	return "{ " + call + " }"
}

func (p *printer) attrs(as []Attr, depth int) {
	for _, a := range as {
		sep := " "
		if p.v == 2 {
			sep = "\n" + strings.Repeat("  ", depth+1)
		}
		switch a.A {
		case "const":
			if p.v == 1 {
				fmt.Fprintf(&p.sb, "%s%s='%s'", sep, a.N, constSQ[a.V])
			} else {
				fmt.Fprintf(&p.sb, "%s%s=\"%s\"", sep, a.N, constDQ[a.V])
			}
		case "boolc":
			p.sb.WriteString(sep + a.N)
		case "boole":
			if p.v == 1 {
				fmt.Fprintf(&p.sb, "%s%s?={env.C(%s)}", sep, a.N, num(a.C))
			} else {
				fmt.Fprintf(&p.sb, "%s%s?={ env.C(%s) }", sep, a.N, num(a.C))
			}
		case "expr":
			if p.v == 3 && OddAttrSpansLines(p.elName, p.odd) {
				// the raw string's second line starts with two spaces: its content is part of the program
				in := strings.Repeat("\t", depth+2)
				fmt.Fprintf(&p.sb, "%s%s={\n%senv.ER(%s, `a\n  b`),\n%s}", sep, a.N, in, num(a.E), in[1:])
			} else if p.v == 3 && p.odd&OddExprComment != 0 {
				fmt.Fprintf(&p.sb, "%s%s={ env.E(%s) /* c */ }", sep, a.N, num(a.E))
			} else if p.v == 1 {
				fmt.Fprintf(&p.sb, "%s%s={env.E(%s)}", sep, a.N, num(a.E))
			} else {
				fmt.Fprintf(&p.sb, "%s%s={ env.E(%s) }", sep, a.N, num(a.E))
			}
		case "class":
			if p.v == 1 {
				fmt.Fprintf(&p.sb, "%sclass={env.K(%s)}", sep, num(a.E))
			} else {
				fmt.Fprintf(&p.sb, "%sclass={ env.K(%s) }", sep, num(a.E))
			}
		case "url":
			if p.v == 1 {
				fmt.Fprintf(&p.sb, "%shref={%s}", sep, URLExpr(p.elName, a.U))
			} else {
				fmt.Fprintf(&p.sb, "%shref={ %s }", sep, URLExpr(p.elName, a.U))
			}
		case "style":
			if p.v == 1 {
				fmt.Fprintf(&p.sb, "%sstyle={env.T%s()}", sep, num(a.E))
			} else {
				fmt.Fprintf(&p.sb, "%sstyle={ env.T%s() }", sep, num(a.E))
			}
		case "classkv":
			if p.v == 1 {
				fmt.Fprintf(&p.sb, "%sclass={env.K(1), templ.KV(env.K(2), env.C(%s))}", sep, num(a.C))
			} else {
				fmt.Fprintf(&p.sb, "%sclass={ env.K(1), templ.KV(env.K(2), env.C(%s)) }", sep, num(a.C))
			}
		case "classmix":
			if p.v == 1 {
				fmt.Fprintf(&p.sb, "%sclass={\"card\", boxed(), \"wide\"}", sep)
			} else {
				fmt.Fprintf(&p.sb, "%sclass={ \"card\", boxed(), \"wide\" }", sep)
			}
		case "scriptcall2":
			if p.v == 1 {
				fmt.Fprintf(&p.sb, "%s%s={span2(1, 2)}", sep, a.N)
			} else {
				fmt.Fprintf(&p.sb, "%s%s={ span2(1, 2) }", sep, a.N)
			}
		case "cssclassx":
			if p.v == 1 {
				fmt.Fprintf(&p.sb, "%sclass={tinted(\"green\")}", sep)
			} else {
				fmt.Fprintf(&p.sb, "%sclass={ tinted(\"green\") }", sep)
			}
		case "cssclass":
			if p.v == 1 {
				fmt.Fprintf(&p.sb, "%sclass={boxed()}", sep)
			} else {
				fmt.Fprintf(&p.sb, "%sclass={ boxed() }", sep)
			}
		case "scriptcall":
			if p.v == 1 {
				fmt.Fprintf(&p.sb, "%s%s={greet(\"x\")}", sep, a.N)
			} else {
				fmt.Fprintf(&p.sb, "%s%s={ greet(\"x\") }", sep, a.N)
			}
		case "class2":
			if p.v == 1 {
				fmt.Fprintf(&p.sb, "%sclass={env.K(1), env.K(2)}", sep)
			} else {
				fmt.Fprintf(&p.sb, "%sclass={ env.K(1), env.K(2) }", sep)
			}
		case "spread":
			if p.v == 1 {
				fmt.Fprintf(&p.sb, "%s{env.M(%s)...}", sep, num(a.M))
			} else {
				fmt.Fprintf(&p.sb, "%s{ env.M(%s)... }", sep, num(a.M))
			}
		case "cond":
			if p.v == 3 && p.odd&OddCondOneLine != 0 {
				fmt.Fprintf(&p.sb, " if env.C(%s) {", num(a.C))
				for _, t := range a.Then {
					p.sb.WriteString(" ")
					p.attrs1(t)
				}
				p.sb.WriteString(" }")
				if len(a.Else) > 0 {
					p.sb.WriteString(" else {")
					for _, t := range a.Else {
						p.sb.WriteString(" ")
						p.attrs1(t)
					}
					p.sb.WriteString(" }")
				}
				continue
			}
			// conditional attributes are otherwise written on their own lines
			in := "\n" + strings.Repeat("\t", depth+1)
			fmt.Fprintf(&p.sb, "%sif env.C(%s) {", in, num(a.C))
			for _, t := range a.Then {
				p.sb.WriteString(in + "\t")
				p.attrs1(t)
			}
			p.sb.WriteString(in + "}")
			if len(a.Else) > 0 {
				p.sb.WriteString(" else {")
				for _, t := range a.Else {
					p.sb.WriteString(in + "\t")
					p.attrs1(t)
				}
				p.sb.WriteString(in + "}")
			}
			p.sb.WriteString("\n" + strings.Repeat("\t", depth))
		}
	}
}

func (p *printer) attrs1(a Attr) {
	var q printer
	q.v = p.v
	q.elName = p.elName
	if q.v == 2 || q.v == 3 {
		q.v = 0
	}
	q.attrs([]Attr{a}, 0)
	p.sb.WriteString(strings.TrimLeft(q.sb.String(), " "))
}

func (p *printer) nodes(ns []Node, depth int) {
	for i, n := range ns {
		p.next = nil
		if i+1 < len(ns) {
			p.next = &ns[i+1]
		}
		p.node(n, depth)
		// templ's parsers for `{ ... }` nodes swallow leading SPACES (openBraceWithOptionalPadding), so spaces
		// between a node without trailing-space information and a `{` would not be a whitespace node:
		// write a tab, the class (horizontal) is what the abstract program fixes.
		if i+1 < len(ns) && (n.K == "slot" || n.K == "hcomment" || n.K == "mcomment" || n.K == "raw" || n.K == "call" || n.K == "callb") && n.After == "h" {
			switch ns[i+1].K {
			case "slot", "expr", "gocode", "gocodei":
				if p.v != 2 {
					p.sb.WriteString("\t")
				}
			}
		}
	}
}

func (p *printer) node(n Node, depth int) {
	switch n.K {
	case "text":
		// a text's value runs up to the next tag, brace or line break and keeps its trailing spaces verbatim,
		// so the spelling variants do not vary the whitespace that belongs to the value
		p.sb.WriteString(WordSource(n.W))
		switch {
		case n.Tr == "h":
			p.sb.WriteString(" ")
		case n.Tr == "v" && p.v == 2:
			if n.Sp {
				p.sb.WriteString(" ")
			}
			p.sb.WriteString("\n\n" + strings.Repeat("  ", depth))
		default:
			if n.Sp {
				p.sb.WriteString(" ")
			}
			p.ws(n.Tr, depth)
		}
	case "expr":
		p.sb.WriteString(p.expr(n.E))
		p.ws(n.Tr, depth)
	case "void":
		p.sb.WriteString("<" + n.Name)
		p.elName = n.Name
		p.attrs(n.Attrs, depth)
		if p.v == 1 {
			p.sb.WriteString(">")
		} else {
			p.sb.WriteString("/>")
		}
		p.ws(n.Tr, depth)
	case "el":
		p.sb.WriteString("<" + n.Name)
		p.elName = n.Name
		p.attrs(n.Attrs, depth)
		p.sb.WriteString(">")
		if len(n.Kids) > 0 {
			p.ws(n.Lead, depth+1)
			p.kids(n.Kids, depth+1)
		}
		p.sb.WriteString("</" + n.Name + ">")
		p.ws(n.Tr, depth)
	case "if":
		for i, b := range n.Brs {
			cond := fmt.Sprintf("env.C(%s)", num(b.C))
			if p.v == 3 && p.odd&OddHeaderSpansLines != 0 {
				cond += " &&\n" + strings.Repeat("\t", depth+2) + "env.True()"
			}
			if i == 0 {
				fmt.Fprintf(&p.sb, "if %s {", cond)
			} else {
				fmt.Fprintf(&p.sb, "} else if %s {", cond)
			}
			p.body(b.Body, depth)
		}
		if n.HasElse {
			p.sb.WriteString("} else {")
			p.body(n.Els, depth)
		}
		p.sb.WriteString("}")
		p.ws("v", depth)
	case "for":
		if p.v == 3 && p.odd&OddHeaderSpansLines != 0 {
			in := strings.Repeat("\t", depth+1)
			fmt.Fprintf(&p.sb, "for range env.L(\n%s\t%s,\n%s) {", in, num(n.L), in)
		} else {
			fmt.Fprintf(&p.sb, "for range env.L(%s) {", num(n.L))
		}
		p.body(n.Body, depth)
		p.sb.WriteString("}")
		p.ws("v", depth)
	case "switch":
		p.sb.WriteString("switch env.S() {")
		for _, c := range n.Cases {
			p.ws("v", depth+1)
			if c.Key == "default" {
				p.sb.WriteString("default:")
			} else {
				fmt.Fprintf(&p.sb, "case %q:", c.Key)
			}
			p.ws("v", depth+2)
			p.kids(c.Body, depth+2)
			p.trimToLine()
		}
		p.ws("v", depth)
		p.sb.WriteString("}")
		p.ws("v", depth)
	case "call":
		// a call that is not followed by a line break is written with the legacy syntax, unless whitespace and then
		// something that cannot continue the Go expression or open a block follows (`@leaf() w1`, `@leaf() <b>`)
		atOK := n.After == "v"
		if n.After == "h" && p.next != nil {
			switch p.next.K {
			case "text", "el", "void", "hcomment", "raw":
				atOK = true
			}
		}
		args := CallArgs(n.Comp)
		if args != "" && p.v == 3 && p.odd&OddCallArgSpacing != 0 {
			args = " " + args + " "
		}
		// (the legacy spelling is also used for every second call with arguments in the odd spelling)
		if p.v == 2 || !atOK || (args != CallArgs(n.Comp) && n.After == "v" && p.sb.Len()%2 == 0) {
			p.sb.WriteString("{! " + CallName(n.Comp) + "(" + args + ") }")
		} else {
			p.sb.WriteString("@" + CallName(n.Comp) + "(" + args + ")")
		}
		p.ws(n.After, depth)
	case "callb":
		if p.v == 3 && p.odd&OddCallBlockOneLine != 0 && oneLineBody(n.Body) {
			// the whole call on one line: line breaks of the body become spaces (the whitespace CLASS between two
			// nodes that had whitespace stays "some whitespace", so the denotation is unchanged)
			p.sb.WriteString("@" + n.Comp + "() { ")
			for _, k := range n.Body {
				q := &printer{v: 0}
				q.node(k, 0)
				p.sb.WriteString(strings.TrimRight(strings.ReplaceAll(q.sb.String(), "\n", " "), " \t") + " ")
			}
			p.sb.WriteString("}")
			p.ws(n.After, depth)
			break
		}
		p.sb.WriteString("@" + n.Comp + "() {")
		p.body(n.Body, depth)
		p.sb.WriteString("}")
		p.ws(n.After, depth)
	case "slot":
		if p.v == 1 {
			p.sb.WriteString("{children...}")
		} else {
			p.sb.WriteString("{ children... }")
		}
		p.ws(n.After, depth)
	case "gocode":
		if p.v == 3 && p.odd&OddGoCodeTwo != 0 {
			p.sb.WriteString("{{ env.G(); _ = 0 }}")
		} else if p.v == 1 {
			p.sb.WriteString("{{env.G()}}")
		} else {
			p.sb.WriteString("{{ env.G() }}")
		}
		p.ws("v", depth)
	case "gocodei":
		if p.v == 3 && p.odd&OddGoCodeTwo != 0 {
			p.sb.WriteString("{{ env.G(); _ = 0 }}")
		} else if p.v == 1 {
			p.sb.WriteString("{{env.G()}}")
		} else {
			p.sb.WriteString("{{ env.G() }}")
		}
		p.ws(n.Tr, depth)
	case "hcomment":
		if p.v == 1 {
			p.sb.WriteString("<!--c-->") // comment text is rendered verbatim, padding included
		} else {
			p.sb.WriteString("<!-- c -->")
		}
		p.ws(n.After, depth)
	case "mcomment":
		p.sb.WriteString("/* mc */")
		p.ws(n.After, depth)
	case "gocodeml":
		// a Go block spanning several lines whose continuation line belongs to a raw string literal
		p.sb.WriteString("{{\n" + strings.Repeat("\t", depth+1) + "env.GS(`l1\nl2`)\n" + strings.Repeat("\t", depth) + "}}")
		p.ws("v", depth)
	case "gcomment":
		p.sb.WriteString("// gc")
		if p.v == 2 {
			// the comment runs to the end of the line: no space in front of the line break
			p.sb.WriteString("\n\n" + strings.Repeat("  ", depth))
		} else {
			p.ws("v", depth)
		}
	case "raw":
		p.sb.WriteString("<" + RawElement(n.Name) + RawAttrs(n.Name) + ">" + RawContents[n.Name] + "</" + RawElement(n.Name) + ">")
		p.ws(n.After, depth)
	case "doctype":
		p.sb.WriteString("<!DOCTYPE html>")
		p.ws("v", depth)
	default:
		panic("unknown node kind " + n.K)
	}
}

// oneLineBody reports whether a call block can be written on one line: only simple nodes that each end their
// line in the abstract program (so joining them with spaces keeps every whitespace class) and contain no line breaks.
func oneLineBody(ns []Node) bool {
	if len(ns) == 0 {
		return false
	}
	for _, n := range ns {
		switch n.K {
		case "text", "expr", "void":
			if n.Tr != "v" {
				return false
			}
		case "el":
			if n.Tr != "v" || n.Lead == "v" || !oneLineKids(n.Kids) {
				return false
			}
		default:
			return false
		}
	}
	return true
}

func oneLineKids(ns []Node) bool {
	for _, n := range ns {
		switch n.K {
		case "text", "expr", "void":
			if n.Tr == "v" {
				return false
			}
		case "el":
			if n.Tr == "v" || n.Lead == "v" || !oneLineKids(n.Kids) {
				return false
			}
		default:
			return false
		}
		for _, a := range n.Attrs {
			if a.A == "cond" {
				return false
			}
		}
	}
	return true
}

// kids prints a child list; the whitespace after the last child is followed by the parent's closer,
// so indentation is reduced by one level there.
func (p *printer) kids(ns []Node, depth int) {
	p.nodes(ns, depth)
	p.dedentLast()
}

// body prints a `{ ... }` body that starts and ends on its own lines.
func (p *printer) body(ns []Node, depth int) {
	p.ws("v", depth+1)
	p.kids(ns, depth+1)
	p.trimToLine()
	p.ws("v", depth)
}

// trimToLine removes trailing whitespace so that the closer can be placed on a fresh line
// (bodies of control flow are always followed by a newline in the concrete syntax).
func (p *printer) trimToLine() {
	s := strings.TrimRight(p.sb.String(), " \t\n")
	p.sb.Reset()
	p.sb.WriteString(s)
}

// dedentLast removes one level of indentation written after the last child (cosmetic only: the
// amount of whitespace inside a run does not change its class).
func (p *printer) dedentLast() {
	s := p.sb.String()
	if strings.HasSuffix(s, "\t") && strings.Contains(s[strings.LastIndex(s, "\n")+1:], "\t") && strings.TrimRight(s[strings.LastIndex(s, "\n")+1:], "\t") == "" {
		p.sb.Reset()
		p.sb.WriteString(s[:len(s)-1])
	}
}

// TemplateBody prints the node list of one template in the given spelling.
func TemplateBody(prog []Node, v Variant) string {
	return TemplateBodyOdd(prog, v, OddAll)
}

// TemplateBodyOdd is TemplateBody with an explicit feature mask for the odd spelling.
func TemplateBodyOdd(prog []Node, v Variant, odd int) string {
	p := &printer{v: v, odd: odd}
	p.ws("v", 1)
	p.kids(prog, 1)
	p.trimToLine()
	p.sb.WriteString("\n")
	return p.sb.String()
}

// HeaderV is Header plus a script template and a css template whose closing braces are indented in the
// non-canonical spellings (the script body is hashed into the generated function name, so any change the formatter
// makes to it changes the program).
func HeaderV(pkg string, v Variant) string {
	h := Header(pkg)
	switch v {
	case 1:
		// the only import is aliased
		h = strings.Replace(h, "import \"strings\"\n\nfunc up(s string) string { return strings.ToUpper(s) }",
			"import str \"strings\"\n\nfunc up(s string) string { return str.ToUpper(s) }", 1)
	case 2:
		// a grouped import block that names templ itself: the import rewriting drops that import (generated code
		// imports templ anyway) and is left with a single import
		h = strings.Replace(h, "import \"strings\"\n", "import (\n\t\"strings\"\n\n\t\"github.com/a-h/templ\"\n)\n\nvar _ templ.Component\n", 1)
	}
	if v == 3 {
		// templ itself imported under another name, and used under that name
		h = strings.Replace(h, "import \"strings\"\n", "import (\n\t\"strings\"\n\n\tt \"github.com/a-h/templ\"\n)\n\nvar _ t.Component\n", 1)
	}
	switch v {
	case 0:
		return h + "script greet(a string) {\n\talert(a);\n}\n\nscript span2(lo, hi int) {\n\tshow(lo, hi);\n}\n\ncss boxed() {\n\tcolor: red;\n\t--brandColor: blue;\n}\n\ncss tinted(c string) {\n\t--accentColor: { c };\n}\n\n"
	default:
		return h + "script greet(a string) {\n\talert(a);\n\t}\n\nscript span2(lo, hi int) {\n\tshow(lo, hi);\n\t}\n\ncss boxed() {\n\tcolor: red;\n\t--brandColor: blue;\n\t}\n\ncss tinted(c string) {\n\t--accentColor: { c };\n\t}\n\n"
	}
}

// FormattedHeaderV is what the formatter makes of HeaderV(pkg, v): css templates are laid out anew, the body of a
// script template is kept byte for byte (the tab in front of its closing brace belongs to the body); Go code is
// kept as it is, except that formatting with a file name (viaImports) rewrites the import block.
func FormattedHeaderV(pkg string, v Variant, viaImports bool) string {
	h := HeaderV(pkg, v)
	h = strings.Replace(h, "\t--brandColor: blue;\n\t}", "\t--brandColor: blue;\n}", 1)
	h = strings.Replace(h, "\t--accentColor: { c };\n\t}", "\t--accentColor: { c };\n}", 1)
	if v == 2 && viaImports {
		h = strings.Replace(h, "import (\n\t\"strings\"\n\n\t\"github.com/a-h/templ\"\n)\n", "import \"strings\"\n", 1)
	}
	return h
}

// Header of every generated .templ file: the fixed helper components of the spec.
func Header(pkg string) string {
	return "package " + pkg + "\n\n" +
		"import \"strings\"\n\n" +
		"func up(s string) string { return strings.ToUpper(s) }\n\n" +
		"templ leaf() {\n\t<i>leaf</i>\n}\n\n" +
		"templ wrap() {\n\t<section>\n\t\t{ children... }\n\t</section>\n}\n\n" +
		"templ kid() {\n\t<u>kid</u>\n}\n\n" +
		"templ show(s string) {\n\t<q>{ s }</q>\n}\n\n" +
		"type boxT struct{}\n\nvar box boxT\n\n" +
		"templ (b boxT) item() {\n\t<em>m</em>\n}\n\n"
}

// Template prints one template declaration.
func Template(name string, prog []Node, v Variant) string {
	return TemplateOdd(name, prog, v, OddAll)
}

// TemplateOdd is Template with an explicit feature mask for the odd spelling. The file-level feature writes a Go
// declaration whose trailing comment line is indented directly in front of the template.
func TemplateOdd(name string, prog []Node, v Variant, odd int) string {
	pre := ""
	if v == 3 && odd&OddCommentBeforeTempl != 0 {
		pre = "var " + name + "Note = 1\n\n\t// note about " + name + "\n"
	}
	return pre + "templ " + name + "(env *Env) {" + TemplateBodyOdd(prog, v, odd) + "}\n"
}
