---------------------------- MODULE TraceGenerate ----------------------------
(* C15, VAL: executions of the real generatecmd.Run, recorded by the verif hook of
   cmd/templ/generatecmd (hooks/C15-generatecmd-events.diff), validated against Generate.tla.

   trace.ndjson is a concatenation of runs. A run starts with a "reset" line (the tree as the harness
   materialised it / as the previous run left it, flags, worker count); every following line is one hook event
   and is matched to the Generate action of the same name; the actions the hook does not see (Spawn, WGen,
   WalkClose, EventsDrained, PostConsume) are interleaved silently. The last line of a run is "exit" with the
   status and error count generatecmd.Run returned. The same invariants as in the model-checking configs are
   evaluated in every state. The trace is accepted iff all lines can be consumed (POSTCONDITION on the
   high-water mark of the line index, TLC register 1).                                                   *)
EXTENDS Generate

Log == ndJsonDeserialize("trace.ndjson")
VARIABLE ti
tvars == <<vars, ti>>

NoFlags == [keep |-> FALSE, lazy |-> FALSE, ver |-> FALSE, root |-> "d"]
TraceInit == /\ ti = 1
             /\ tree0 = {} /\ flags = NoFlags /\ W = 1
             /\ fs = << >> /\ fs1 = << >> /\ st1 = [status |-> "none", errors |-> 0] /\ clock = 3
             /\ evs = << >> /\ nextev = 1 /\ wpc = "closed" /\ dpc = "done" /\ dcur = 0
             /\ wk = << >> /\ sem = 0 /\ wg = 0
             /\ lastMod = {} /\ hashes = {} /\ inHash = {} /\ race = FALSE
             /\ postq = << >> /\ postClosed = TRUE /\ errsClosed = TRUE /\ ppc = "done"
             /\ mpc = "done" /\ errorCount = 0 /\ status = "ok" /\ panic = FALSE /\ run = 1
             /\ lbl = [op |-> "init"]
             /\ TLCSet(1, 1)

L == Log[ti]
FilesOf(l) == { [dir |-> l.files[j].dir, name |-> l.files[j].name, c |-> l.files[j].c, m |-> l.files[j].m] : j \in 1..Len(l.files) }

\* a new run may only start when the previous one has terminated
TraceReset == /\ mpc = "done" /\ \A i \in 1..Len(evs) : wk[i].pc = "done"
              /\ tree0' = FilesOf(L) /\ flags' = L.flags /\ W' = L.w
              /\ fs' = FsOf(FilesOf(L)) /\ fs1' = << >> /\ st1' = st1 /\ clock' = 4
              /\ evs' = EventsR(FsOf(FilesOf(L)), L.flags.root) /\ nextev' = 1 /\ wpc' = "walk" /\ dpc' = "recv" /\ dcur' = 0
              /\ wk' = [i \in 1..Len(EventsR(FsOf(FilesOf(L)), L.flags.root)) |-> Idle]
              /\ sem' = 0 /\ wg' = 0 /\ lastMod' = {} /\ hashes' = {} /\ inHash' = {} /\ race' = FALSE
              /\ postq' = << >> /\ postClosed' = FALSE /\ errsClosed' = FALSE /\ ppc' = "run"
              /\ mpc' = "read" /\ errorCount' = 0 /\ status' = "running" /\ panic' = FALSE /\ run' = 1
              /\ lbl' = [op |-> "reset"]

EvKey(l)  == <<l.dir, l.name>>                                           \* the event's file
TgtKey(l) == <<l.dir, TemplOf(l.name)>>                                  \* the template of a generated file
Logged(l) ==
    CASE l.ev = "reset"        -> TraceReset
      [] l.ev = "event"        -> nextev <= Len(evs) /\ evs[nextev] = EvKey(l) /\ WalkSend
      [] l.ev = "start"        -> \E i \in 1..Len(evs) : evs[i] = EvKey(l) /\ WStart(i)
      [] l.ev = "remove"       -> /\ \E i \in 1..Len(evs) : evs[i] = EvKey(l) /\ wk[i].post /\ wk[i].pc # "start"
                                  /\ EvKey(l) \notin DOMAIN fs
                                  /\ UNCHANGED vars /\ lbl' = lbl
      [] l.ev = "modtime"      -> \E i \in 1..Len(evs) : evs[i] = EvKey(l) /\ WModTime(i)
      [] l.ev = "hash"         -> \E i \in 1..Len(evs) : evs[i] = TgtKey(l) /\ WHash(i)
      [] l.ev = "write"        -> \E i \in 1..Len(evs) : evs[i] = TgtKey(l) /\ WWrite(i)
      [] l.ev = "error"        -> \E i \in 1..Len(evs) : evs[i] = EvKey(l) /\ WSendErr(i)
      [] l.ev = "post"         -> \E i \in 1..Len(evs) : evs[i] = EvKey(l) /\ WPost(i)
      [] l.ev = "end"          -> \E i \in 1..Len(evs) : evs[i] = EvKey(l) /\ WFinish(i)
      [] l.ev = "workers-done" -> ClosePost
      [] l.ev = "close-errs"   -> PostExit
      [] l.ev = "errs-drained" -> MainErrsClosed
      [] l.ev = "exit"         -> MainExit /\ status' = l.status /\ errorCount = l.errors
      [] OTHER                 -> FALSE

Silent == Spawn \/ WalkClose \/ EventsDrained \/ PostConsume \/ \E i \in 1..Len(evs) : WGen(i)

TraceNext == \/ /\ ti <= Len(Log)
                /\ Logged(L)
                /\ ti' = ti + 1
                /\ TLCSet(1, IF ti + 1 > TLCGet(1) THEN ti + 1 ELSE TLCGet(1))
             \/ /\ Silent
                /\ UNCHANGED ti

TraceView == <<vars, ti>>
\* all lines consumed; the high-water mark locates the first line no behaviour of the specification explains
TraceAccepted == /\ PrintT(<<"HWM", ToJson([hwm |-> TLCGet(1), lines |-> Len(Log)])>>)
                 /\ TLCGet(1) = Len(Log) + 1
=============================================================================
