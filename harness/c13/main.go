// c13 renders the call trees that TLC enumerated from spec/RenderCtxChildren.tla -- each compiled from
// its own templ source by the generator of the repository under test -- and compares, per tree, which
// block marker appears inside which component instance with the specification's Ideal layer (the
// property) and its Impl layer (attribution).
//
//	c13 classify <cases.ndjson>   per tree: does the real output equal Ideal / Impl (used to detect which
//	                              hand-written components are repaired in the code under test)
//	c13 check <cases.ndjson>      verdicts (a third argument `subset` allows compiled trees without a case)
package main

import (
	"bytes"
	"context"
	"encoding/json"
	"errors"
	"fmt"
	"os"
	"regexp"
	"runtime/debug"
	"sort"
	"strconv"
	"strings"

	"golang.org/x/net/html"

	"verifharness/c13/lib"
	"verifharness/vhlib"
)

type tok struct {
	T string `json:"t"`
	K string `json:"k"`
	P []int  `json:"p"`
}

func (t tok) String() string {
	ps := make([]string, len(t.P))
	for i, v := range t.P {
		ps[i] = strconv.Itoa(v)
	}
	return t.T + ":" + t.K + ":" + strings.Join(ps, ".")
}

type leak struct {
	Via string `json:"via"`
	At  []int  `json:"at"`
	By  string `json:"by"`
	Blk []int  `json:"blk"`
}

type tcase struct {
	ID    string `json:"id"`
	Src   string `json:"src"`
	Ideal []tok  `json:"ideal"`
	Impl  []tok  `json:"impl"`
	Leaks []leak `json:"leaks"`
	Fin   string `json:"fin"`
}

func flat(ts []tok) string {
	ss := make([]string, len(ts))
	for i, t := range ts {
		ss[i] = t.String()
	}
	return strings.Join(ss, " ")
}

// limitWriter makes unbounded recursion observable: the render fails once it has written too much.
type limitWriter struct {
	buf   bytes.Buffer
	limit int
}

var errLimit = errors.New("verif: output limit exceeded (unbounded recursion)")

func (l *limitWriter) Write(p []byte) (int, error) {
	if l.buf.Len()+len(p) > l.limit {
		return 0, errLimit
	}
	return l.buf.Write(p)
}

var scriptCall = regexp.MustCompile(`^__templ_Scr_[0-9a-f]+\("([0-9.]+)"\)$`)

// project tokenises the rendered bytes and keeps component boundaries, block markers and leaf texts.
func project(b []byte) (string, error) {
	z := html.NewTokenizer(bytes.NewReader(b))
	var out []string
	var stack []string
	inScript := ""
	for {
		tt := z.Next()
		switch tt {
		case html.ErrorToken:
			if len(stack) != 0 {
				return "", fmt.Errorf("unclosed component markup %v", stack)
			}
			return strings.Join(out, " "), nil
		case html.StartTagToken, html.SelfClosingTagToken:
			t := z.Token()
			id, typ := "", ""
			for _, a := range t.Attr {
				if a.Key == "id" {
					id = a.Val
				}
				if a.Key == "type" {
					typ = a.Val
				}
			}
			switch {
			case t.Data == "m":
				out = append(out, "m::"+id)
			case t.Data == "x-raw":
				out = append(out, "x:raw:"+id)
			case strings.HasPrefix(t.Data, "x-"):
				out = append(out, "o:"+t.Data[2:]+":"+id)
				stack = append(stack, t.Data[2:]+":"+id)
			case t.Data == "script":
				if typ == "application/json" {
					out = append(out, "x:json:"+id)
					inScript = "json"
				} else {
					inScript = "js"
				}
			default:
				return "", fmt.Errorf("unexpected element <%s>", t.Data)
			}
		case html.EndTagToken:
			t := z.Token()
			switch {
			case t.Data == "m" || t.Data == "x-raw":
			case t.Data == "script":
				inScript = ""
			case strings.HasPrefix(t.Data, "x-"):
				if len(stack) == 0 || !strings.HasPrefix(stack[len(stack)-1], t.Data[2:]+":") {
					return "", fmt.Errorf("unbalanced </%s>", t.Data)
				}
				out = append(out, "c:"+stack[len(stack)-1])
				stack = stack[:len(stack)-1]
			default:
				return "", fmt.Errorf("unexpected </%s>", t.Data)
			}
		case html.TextToken:
			txt := strings.TrimSpace(string(z.Text()))
			switch {
			case txt == "":
			case inScript == "json":
			case inScript == "js":
				if m := scriptCall.FindStringSubmatch(txt); m != nil {
					out = append(out, "x:script:"+m[1])
				} else if !strings.HasPrefix(txt, "function __templ_Scr_") {
					return "", fmt.Errorf("unexpected script text %q", txt)
				}
			default:
				return "", fmt.Errorf("unexpected text %q", txt)
			}
		}
	}
}

type report struct {
	ID     string   `json:"tree"`
	Source string   `json:"templ_source"`
	Ideal  string   `json:"ideal"`
	Real   string   `json:"real"`
	Impl   string   `json:"impl_model"`
	Leaks  []string `json:"leaks"`
}

func render(id string) (string, error) {
	f, ok := lib.Lookup(id)
	if !ok {
		vhlib.Fatal("tree %s is not compiled into the harness", id)
	}
	w := &limitWriter{limit: 1 << 16}
	err := f().Render(context.Background(), w)
	if errors.Is(err, errLimit) || errors.Is(err, lib.ErrLimit) {
		return "DIVERGED", nil
	}
	if err != nil {
		return "", err
	}
	return project(w.buf.Bytes())
}

func main() {
	debug.SetMaxStack(512 << 20)
	if len(os.Args) < 3 {
		vhlib.Fatal("usage: c13 classify|check <cases.ndjson>")
	}
	mode := os.Args[1]
	var n, fails, drift, samples, diverged, unmodelled int
	classes := map[string]int{}
	type pv struct{ Ideal, Impl, Neither int }
	pure := map[string]*pv{}
	vias := map[string]int{}
	seen := map[string]bool{}
	err := vhlib.Each(os.Args[2], func(line []byte) error {
		var c tcase
		if err := json.Unmarshal(line, &c); err != nil {
			return err
		}
		n++
		seen[c.ID] = true
		ideal := flat(c.Ideal)
		impl := flat(c.Impl)
		if c.Fin == "diverged" {
			impl = "DIVERGED"
		}
		real, err := render(c.ID)
		if err != nil {
			vhlib.Fatal("tree %s: %v\n%s", c.ID, err, c.Src)
		}
		if real == "DIVERGED" {
			diverged++
		}
		viaSet := map[string]bool{}
		var leakStrs []string
		for _, l := range c.Leaks {
			viaSet[l.Via] = true
			leakStrs = append(leakStrs, fmt.Sprintf("%s: block of call %v taken by %s at %v", l.Via, l.Blk, l.By, l.At))
		}
		var viaList []string
		for v := range viaSet {
			viaList = append(viaList, v)
		}
		sort.Strings(viaList)
		class := "neither"
		switch {
		case real == ideal && real == impl:
			class = "both"
		case real == ideal:
			class = "ideal"
		case real == impl:
			class = "impl"
		}
		classes[class]++
		if impl != ideal && len(viaList) == 1 {
			p := pure[viaList[0]]
			if p == nil {
				p = &pv{}
				pure[viaList[0]] = p
			}
			switch class {
			case "ideal":
				p.Ideal++
			case "impl":
				p.Impl++
			default:
				p.Neither++
			}
		}
		if mode != "check" {
			return nil
		}
		rep := report{ID: c.ID, Source: c.Src, Ideal: ideal, Real: real, Impl: impl, Leaks: leakStrs}
		switch class {
		case "both":
			if samples < 4 && len(c.Ideal) >= 8 && n%211 == 0 {
				samples++
				vhlib.Sample(rep)
			}
		case "ideal":
			drift++
			vhlib.Drift("real output equals Ideal although the Impl model predicted a leak", rep)
		case "impl":
			fails++
			for _, v := range viaList {
				if vias[v] == 0 && len(viaList) == 1 && len(c.Ideal) <= 6 {
					vhlib.Sample(rep) // a small failing tree per root cause, for the evidence file
				}
				vias[v]++
				vhlib.Fail("Children."+v+"KeepsSlot",
					"a component received a child block that was not passed at its call site (or a block was rendered twice / recursively)", rep)
			}
			if len(viaList) == 0 {
				vhlib.Fatal("tree %s: Impl differs from Ideal without a recorded leak", c.ID)
			}
		default:
			fails++
			unmodelled++
			vhlib.Fail("Children.Unmodelled", "rendered output matches neither lexical children (Ideal) nor the modelled implementation", rep)
		}
		return nil
	})
	if err != nil {
		vhlib.Fatal("%v", err)
	}
	compiled := len(lib.IDs())
	for _, id := range lib.IDs() {
		if !seen[id] && len(os.Args) < 4 {
			vhlib.Fatal("compiled tree %s has no case", id)
		}
	}
	vhlib.Summary(map[string]any{"trees": n, "compiled": compiled, "fails": fails, "drift": drift, "classes": classes,
		"pure": pure, "vias": vias, "diverged_real": diverged, "unmodelled": unmodelled})
}
