\* C15 case emission: one record per terminated behaviour (W = 1; the harness sweeps the worker count).
CONSTANTS
  MaxFiles = 2
  Trees <- TreesGen
  Ws = {1}
  FlagSets <- RootFlags
  Mutex = TRUE
  ErrsCloser = "postgen"
  MainReadsErrs = TRUE
  GenVariants = {1}
  SlotRelease = "deferred"
  TargetRule = "trimsuffix"
  WalkRule = "filesonly"
  OrphanStat = "fileonly"
  RootRule = "exempt"
  RootTrees <- TreesRoot
  SkipRule = "coded"
  TwoRuns = TRUE
  EmitCases = TRUE
INIT Init
NEXT Next
VIEW View
ACTION_CONSTRAINT Emit
INVARIANTS TypeOK SiblingEqualsSoloGeneration OrphansGoneUnlessKept NothingElseTouched ExitStatusIffSomeFileFailed FailureIsolated SecondRunChangesNothing AtMostWWorkers EachEventOnce NoPanic NoDataRace WaitGroupOK
