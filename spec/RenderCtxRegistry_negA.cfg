\* C12 negative config on A (Variant / Repaired are replaced by the check): TLC must reject it.
CONSTANTS
  Ctxs <- Ctx1
  Modes = {"plain", "mw", "fresh"}
  Scripts = {"s1", "s2"}
  Classes = {"k1", "k2"}
  BlockHandles = {"h1", "h2"}
  ZeroHandles = {}
  FixedHandles = {"g1"}
  RegSeq <- RegK1
  OnSeqs <- OnSeqsFull
  ClassExprs <- ClassExprsFull
  Repaired = {"KvCompName", "SliceKVRules"}
  Variant = "sharedKeys"
  NonceCtxs = {"c1"}
  MaxNonces = 1
  MaxSteps = 99
  EmitEdges = FALSE
INIT Init
NEXT Next
VIEW View
INVARIANTS TypeOK RegistryMatchesDocument
PROPERTIES AtMostOnce DefBeforeFirstUse EveryUseHasCallOrName MiddlewareNeverInlined StylesheetServesRegistered ContextsIndependent NonceKeepsRegistry
CHECK_DEADLOCK FALSE
