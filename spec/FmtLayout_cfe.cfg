\* Else-if family (exhaustive in the quick tier): expressions around and inside if / else-if / else chains over two conditions.
\* Formatter layout model (FmtLayout.tla) over this family; code as it is (after the repairs).
CONSTANTS
  NonTrailerRule = "source"
  ForcedBreaks = "asCoded"
  MaxNodes = 3
  MaxDepth = 3
  Kinds = {"expr", "if", "elif"}
  InlineNames = {}
  BlockNames = {}
  VoidNames = {}
  AttrChoices <- AttrChoicesNone
  WsChoices = {"v"}
  Words = {"w1"}
  Exprs = {"E1"}
  Conds = {"C1", "C2"}
  Lists = {"L1"}
  EnvSeq <- EnvSeqDef
INIT Init
NEXT Next
VIEW View
INVARIANTS TypeOK Idempotent FmtKeepsTokens FmtKeepsMust EmitFmt
CHECK_DEADLOCK FALSE
