\* C11 design check: handler.go as coded satisfies all-or-nothing (buffered) and the documented streaming behaviour.
CONSTANTS
  MaxK = 3
  MaxReq = 3
  Variant = "asCoded"
  EmitEdges = FALSE
INIT Init
NEXT Next
VIEW View
INVARIANTS TypeOK AllOrNothing StreamedOnlyIfConfigured FailureIsReported NoDocumentAfterFailure AbortedSendsNothing UntouchedWhileRendering PooledBuffersAreEmpty StreamedAsDocumented
CHECK_DEADLOCK FALSE
