\* VAL: pool hook events of the real code against the pool protocol.
CONSTANTS
  NB = 8
  CheckWriter = TRUE
INIT Init
NEXT Next
INVARIANTS Report
CHECK_DEADLOCK FALSE
