---------------------------- MODULE SourceMapGen ----------------------------
(* C07 -- TLC-driven generator of templ programs for the source map check.

   A case is (syntactic slot, text in front of the expression, expression shape).  The shape is built
   rune by rune / line by line, so breadth-first search enumerates every shape within the bounds
   exactly once and `-simulate` draws random shapes from the full grid.  Every finished case is printed
   as   <<"CASE", json>>   and concretised to a .templ file by harness/c07 (which prints the expression
   with real multi-byte identifiers in the slot, parses and generates it with the code under test).   *)
EXTENDS Integers, Sequences, TLC, Json

CONSTANTS MaxLines, MaxRunes, Widths, Pres

VARIABLES lines, slot, pre, done,
          eol,       \* line ending of the whole file: "lf" or "crlf"
          flavour    \* "ident": lines are identifiers; "brace": the expression contains a composite literal { }
vars == <<lines, slot, pre, done, eol, flavour>>

Slots == {"package", "signature", "if", "elseif", "for", "switch", "case", "string", "attr", "boolattr",
          "spread", "condattr", "call", "blockcall", "rawgo", "script", "cssvalue", "gobefore", "goafter",
          \* the generator has a separate sourceMap.Add call site for each of these attribute kinds
          "classattr", "hrefattr", "styleattr", "onattr",
          \* name and parameters of a script template are two expressions written on one target line
          "scripttempl", "csssig",
          \* two top-level declarations starting on one templ line: `templ E() { ... } templ t2() { ... }`
          "twodecls"}

\* the package clause ends at the end of its line
SingleLineOnly == {"package", "twodecls"}
\* slots in which other text can stand on the same source line in front of the expression
PreSlots == {"if", "for", "switch", "string", "attr", "boolattr", "spread", "condattr", "call", "blockcall",
             "rawgo", "script", "classattr", "hrefattr", "styleattr", "onattr"}
\* slots whose expression stands inside templ braces or parentheses, where a Go composite literal is unambiguous
BraceSlots == {"string", "attr", "boolattr", "spread", "call", "blockcall", "classattr", "hrefattr", "styleattr",
               "onattr", "rawgo", "script"}
\* the two extra dimensions are explored where they matter: CRLF for expressions spanning lines (without text in
\* front), composite literals for one-line expressions
Variant(s, nl, np, e, f) == /\ (e = "crlf" => (nl > 1 /\ np = 0))
                            /\ (f = "brace" => (s \in BraceSlots /\ nl = 1 /\ np = 0))
                            /\ ~(e = "crlf" /\ f = "brace")
Applicable(s, nl, np) == /\ (s \in SingleLineOnly => nl = 1)
                         /\ (np > 0 => s \in PreSlots)

Runes == LET RECURSIVE Sum(_)
             Sum(ls) == IF ls = <<>> THEN 0 ELSE Len(Head(ls)) + Sum(Tail(ls))
         IN  Sum(lines)

Init == lines = << <<>> >> /\ slot = "" /\ pre = <<>> /\ done = FALSE /\ eol = "lf" /\ flavour = "ident"

Rune(w) == /\ ~done /\ Len(lines[Len(lines)]) < MaxRunes
           /\ lines' = [lines EXCEPT ![Len(lines)] = Append(@, w)]
           /\ UNCHANGED <<slot, pre, done, eol, flavour>>
Line == /\ ~done /\ Len(lines) < MaxLines
        /\ lines' = Append(lines, <<>>)
        /\ UNCHANGED <<slot, pre, done, eol, flavour>>
Finish(s, p, e, f) == /\ ~done /\ Runes > 0 /\ Applicable(s, Len(lines), Len(p))
                /\ Variant(s, Len(lines), Len(p), e, f)
                /\ slot' = s /\ pre' = p /\ done' = TRUE /\ eol' = e /\ flavour' = f
                /\ UNCHANGED lines

Next == \/ \E w \in Widths : Rune(w)
        \/ Line
        \/ \E s \in Slots, p \in Pres, e \in {"lf", "crlf"}, f \in {"ident", "brace"} : Finish(s, p, e, f)

\* simulation: random draws, one case per behaviour
SimNext == \/ /\ ~done
              /\ \E k \in {RandomElement(1..8)} :
                    IF k <= 5 THEN \E w \in {RandomElement(Widths)} : Rune(w)
                    ELSE IF k <= 7 THEN Line
                    ELSE \E s \in {RandomElement(Slots)}, p \in {RandomElement(Pres)},
                            e \in {RandomElement({"lf", "lf", "crlf"})}, f \in {RandomElement({"ident", "ident", "brace"})} :
                              \/ Finish(s, p, e, f)
                              \/ (~Variant(s, Len(lines), Len(p), e, f) /\ Finish(s, p, "lf", "ident"))

EmitCase == done => PrintT(<<"CASE", ToJson([slot |-> slot, pre |-> pre, shape |-> lines, eol |-> eol, flavour |-> flavour])>>)
=============================================================================
