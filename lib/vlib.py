"""Shared plumbing for the /verif checks.

Every check script (checks/Cxx.py) uses this module to
  * create a private scratch directory (removed at exit),
  * run TLC on a copy of the specs (model checking, edge emission, simulation, trace validation),
  * build the Go harness against the repository's *current working tree* (VERIF_REPO overrides /repo),
  * report verdicts (VIOLATION / KNOWN-FINDING lines, exit codes) and write the evidence file.

Exit codes: 0 = property held on everything explored, 1 = violation of the real code,
2 = the machinery itself failed (TLC timeout, harness build failure, ...) -- never a VIOLATION line.
"""
import atexit
import hashlib
import json
import os
import re
import shutil
import subprocess
import sys
import tempfile
import time

VERIF = os.path.dirname(os.path.dirname(os.path.abspath(__file__)))
REPO = os.environ.get("VERIF_REPO", "/repo")
SPEC = os.path.join(VERIF, "spec")
HARNESS = os.path.join(VERIF, "harness")
TLA_CP = "/opt/veriftools/tla/tla2tools.jar:/opt/veriftools/tla/CommunityModules-deps.jar"

GOENV = {
    "GOFLAGS": "-mod=mod",
    "GOPROXY": "off",
    "GOSUMDB": "off",
    "GOTOOLCHAIN": "local",
    "GONOSUMDB": "*",
    "GONOSUMCHECK": "1",
}


class InfraError(Exception):
    """The machinery failed; the run says nothing about the property (exit 2)."""


_T0 = time.time()
_scratch = None


def seed():
    try:
        return int(os.environ.get("VERIF_SEED", "1"))
    except ValueError:
        return 1


def tier(argv=None):
    argv = sys.argv if argv is None else argv
    t = None
    for a in argv[1:]:
        if a in ("quick", "thorough"):
            t = a
    if t is None:
        t = os.environ.get("VERIF_TIER", "quick")
    if t not in ("quick", "thorough"):
        t = "quick"
    return t


def scratch():
    """Private scratch directory for this run, removed at exit."""
    global _scratch
    if _scratch is None:
        base = os.environ.get("TMPDIR", "/tmp")
        _scratch = tempfile.mkdtemp(prefix="verif-", dir=base)
        if os.environ.get("VERIF_KEEP") != "1":
            atexit.register(lambda: shutil.rmtree(_scratch, ignore_errors=True))
        else:
            sys.stderr.write("scratch kept: %s\n" % _scratch)
    return _scratch


def log(*a):
    sys.stderr.write("[%6.1fs] " % (time.time() - _T0) + " ".join(str(x) for x in a) + "\n")
    sys.stderr.flush()


# ----------------------------------------------------------------------------------------------
# TLC
# ----------------------------------------------------------------------------------------------

class TlcResult:
    def __init__(self):
        self.rc = None
        self.out = ""
        self.generated = 0
        self.distinct = 0
        self.depth = 0
        self.ok = False           # "No error has been found"
        self.violated = None      # name of the violated invariant/property, if any
        self.deadlock = False
        self.printed = []         # decoded payloads of PrintT(<<tag, json>>) lines: (tag, obj)
        self.wall = 0.0
        self.coverage_zero = []   # with -coverage: action names never taken
        self.postcondition_failed = False
        self.cmd = ""

    def tagged(self, tag):
        return [o for (t, o) in self.printed if t == tag]


_PRINT_RE = re.compile(r'^<<"([A-Z_]+)", (".*")>>$')


def _decode_printed(line):
    m = _PRINT_RE.match(line)
    if not m:
        return None
    try:
        inner = json.loads(m.group(2))
        return (m.group(1), json.loads(inner))
    except Exception:
        return None


def tlc(module, cfg, specdirs=None, workers=1, simulate=None, depth=None, tlc_seed=None,
        timeout=600, xmx="4g", xss=None, extra=None, deadlock=None, files=None, coverage=False,
        dfs=False, keep_out=True, workdir=None, constants_override=None):
    """Run TLC on a scratch copy of the spec directories.

    module: "LspDoc" (file LspDoc.tla), cfg: "LspDoc_mc.cfg"  (both looked up in the copied dirs)
    files: {name: content} extra files to drop next to the spec (traces, generated constant modules)
    Returns TlcResult; raises InfraError on timeout / JVM failure / parse errors.
    """
    specdirs = specdirs or [SPEC]
    wd = workdir or tempfile.mkdtemp(prefix="tlc-", dir=scratch())
    for d in specdirs:
        for f in os.listdir(d):
            if f.endswith(".tla") or f.endswith(".cfg") or f.endswith(".json") or f.endswith(".ndjson"):
                shutil.copy(os.path.join(d, f), os.path.join(wd, f))
    for name, content in (files or {}).items():
        mode = "wb" if isinstance(content, bytes) else "w"
        with open(os.path.join(wd, name), mode) as fh:
            fh.write(content)
    meta = os.path.join(wd, "meta")
    jopts = ["-XX:+UseParallelGC", "-Xmx" + xmx, "-Djava.io.tmpdir=" + wd]   # TLC's own temp directories die with the scratch
    if xss:
        jopts.append("-Xss" + xss)
    if dfs:
        jopts.append("-Dtlc2.tool.queue.IStateQueue=StateDeque")
    cmd = ["java"] + jopts + ["-cp", TLA_CP, "tlc2.TLC", "-workers", str(workers), "-metadir", meta,
                              "-config", cfg]
    if simulate is not None:
        cmd += ["-simulate", simulate]
    if depth is not None:
        cmd += ["-depth", str(depth)]
    if tlc_seed is not None:
        cmd += ["-seed", str(tlc_seed)]
    if deadlock is False:
        pass  # use CHECK_DEADLOCK FALSE in the cfg
    if coverage:
        cmd += ["-coverage", "1"]
    if extra:
        cmd += list(extra)
    cmd.append(module + ".tla")
    res = TlcResult()
    res.cmd = " ".join(cmd)
    t0 = time.time()
    env = dict(os.environ)
    env.pop("JAVA_TOOL_OPTIONS", None)
    outpath = os.path.join(wd, "tlc.out")
    with open(outpath, "w") as fh:
        try:
            p = subprocess.run(cmd, cwd=wd, stdout=fh, stderr=subprocess.STDOUT, timeout=timeout, env=env)
        except subprocess.TimeoutExpired:
            raise InfraError("TLC timeout after %ss: %s %s" % (timeout, module, cfg))
    res.wall = time.time() - t0
    res.rc = p.returncode
    with open(outpath, errors="replace") as fh:
        out = fh.read()
    res.out = out
    for line in out.splitlines():
        if line.startswith('<<"'):
            d = _decode_printed(line)
            if d:
                res.printed.append(d)
            continue
        m = re.match(r"^(\d+) states generated, (\d+) distinct states found", line)
        if m:
            res.generated, res.distinct = int(m.group(1)), int(m.group(2))
        m = re.match(r"^The depth of the complete state graph search is (\d+)", line)
        if m:
            res.depth = int(m.group(1))
        if "No error has been found" in line:
            res.ok = True
        m = re.match(r"^Error: Invariant (\S+) is violated", line)
        if m:
            res.violated = m.group(1)
        m = re.match(r"^Error: Action property (\S+) is violated", line)
        if m:
            res.violated = m.group(1)
        m = re.match(r"^Error: Temporal property (\S+) was violated", line)
        if m:
            res.violated = m.group(1)
        m = re.match(r"^The number of states generated: (\d+)", line)
        if m and res.generated == 0:
            res.generated = int(m.group(1))      # -simulate prints only this counter
            res.distinct = max(res.distinct, 0)
        if line.startswith("Error: Temporal properties were violated"):
            res.violated = res.violated or "TemporalProperty"
        if line.startswith("Error: Deadlock reached"):
            res.deadlock = True
            res.violated = res.violated or "Deadlock"
        if "Postcondition" in line and ("violated" in line or "false" in line.lower()):
            res.postcondition_failed = True
        m = re.match(r"^<(\w+) line \d+, col \d+ to line \d+, col \d+ of module \w+>: 0:0", line)
        if m:
            res.coverage_zero.append(m.group(1))
    if not res.ok and res.violated is None and not res.postcondition_failed:
        # simulation mode ends differently; everything else is an infrastructure failure
        if simulate is None or ("Error:" in out and "violated" not in out):
            tail = "\n".join(out.splitlines()[-40:])
            raise InfraError("TLC failed (rc=%s) on %s %s:\n%s" % (p.returncode, module, cfg, tail))
    return res


def counterexample_states(out):
    """Parse 'State N: <action ...>' blocks of a TLC counterexample into [(header, {var: text})]."""
    states = []
    cur = None
    for line in out.splitlines():
        m = re.match(r"^State (\d+): (.*)$", line)
        if m:
            cur = (m.group(2), {})
            states.append(cur)
            continue
        if cur is not None:
            m = re.match(r"^/\\ (\w+) = (.*)$", line)
            if m:
                cur[1][m.group(1)] = m.group(2)
                last = m.group(1)
            elif line.strip() == "":
                cur = None
            elif cur[1]:
                cur[1][last] += " " + line.strip()
    return states


# ----------------------------------------------------------------------------------------------
# Go harness
# ----------------------------------------------------------------------------------------------

def goenv():
    env = dict(os.environ)
    env.update(GOENV)
    env.setdefault("GOCACHE", os.path.expanduser("~/.cache/go-build"))
    return env


def run(cmd, cwd=None, timeout=1200, env=None, check=True, stdin=None, capture=True):
    p = subprocess.run(cmd, cwd=cwd, timeout=timeout, env=env or goenv(), input=stdin,
                       stdout=subprocess.PIPE if capture else None,
                       stderr=subprocess.PIPE if capture else None)
    if check and p.returncode != 0:
        raise InfraError("command failed (rc=%d): %s\n%s\n%s" % (
            p.returncode, cmd if isinstance(cmd, str) else " ".join(cmd),
            (p.stdout or b"").decode(errors="replace")[-4000:],
            (p.stderr or b"").decode(errors="replace")[-4000:]))
    return p


_harness_dir = None


def harness_dir():
    """A scratch copy of /verif/harness whose go.mod points at the repository under test."""
    global _harness_dir
    if _harness_dir is None:
        d = os.path.join(scratch(), "harness")
        shutil.copytree(HARNESS, d, ignore=shutil.ignore_patterns("*_templ.go", "*_templ.txt"))
        with open(os.path.join(REPO, "go.mod")) as fh:
            repomod = fh.read()
        req = repomod[repomod.index("require"):]
        req = re.sub(r"(?m)^//.*$", "", req)
        gomod = ("module verifharness\n\ngo 1.23.0\n\nrequire github.com/a-h/templ v0.0.0\n\n"
                 "replace github.com/a-h/templ => %s\n\n%s\n" % (REPO, req))
        extra = os.path.join(HARNESS, "go.mod.extra")
        if os.path.exists(extra):
            gomod += open(extra).read()
        with open(os.path.join(d, "go.mod"), "w") as fh:
            fh.write(gomod)
        sums = open(os.path.join(REPO, "go.sum")).read()
        extras = os.path.join(HARNESS, "go.sum.extra")
        if os.path.exists(extras):
            sums += open(extras).read()
        with open(os.path.join(d, "go.sum"), "w") as fh:
            fh.write(sums)
        _harness_dir = d
    return _harness_dir


_templ_bin = None


def templ_bin():
    """The templ CLI built from the repository's current working tree."""
    global _templ_bin
    if _templ_bin is None:
        out = os.path.join(scratch(), "templ-cli")
        run(["go", "build", "-o", out, "./cmd/templ"], cwd=REPO)
        _templ_bin = out
    return _templ_bin


def templ_generate(path, extra=None):
    """Run the repository's `templ generate` in a directory of the scratch harness."""
    cmd = [templ_bin(), "generate", "-include-version=false"] + (extra or [])
    env = goenv()
    env.pop("TEMPL_DEV_MODE", None)
    p = run(cmd, cwd=path, env=env, check=False)
    if p.returncode != 0:
        # warnings ("(!) ... deprecated") can flood the output: keep the error lines, all of them
        out = (p.stdout or b"").decode(errors="replace") + "\n" + (p.stderr or b"").decode(errors="replace")
        lines = [l for l in out.splitlines() if l.strip() and not l.startswith("(!)")]
        raise InfraError("command failed (rc=%d): %s\n%s" % (p.returncode, " ".join(cmd), "\n".join(lines)[-60000:]))
    return p


def go_build(pkg, out_name, tags=("verif",), race=False, cwd=None):
    out = os.path.join(scratch(), out_name)
    cmd = ["go", "build"]
    if tags:
        cmd += ["-tags", ",".join(tags)]
    if race:
        cmd.append("-race")
    cmd += ["-o", out, pkg]
    run(cmd, cwd=cwd or harness_dir())
    return out


# ----------------------------------------------------------------------------------------------
# Verdicts, evidence, known findings
# ----------------------------------------------------------------------------------------------

def load_known():
    """known-findings.json plus one optional file per property under known-findings.d/."""
    out = []
    p = os.path.join(VERIF, "known-findings.json")
    if os.path.exists(p):
        with open(p) as fh:
            out += json.load(fh).get("findings", [])
    d = os.path.join(VERIF, "known-findings.d")
    if os.path.isdir(d):
        for f in sorted(os.listdir(d)):
            if f.endswith(".json"):
                with open(os.path.join(d, f)) as fh:
                    out += json.load(fh).get("findings", [])
    return out


class Check:
    """Accumulates the verdict and the evidence of one run of one property's check."""

    def __init__(self, pid, level):
        self.pid = pid
        self.level = level
        self.tier = tier()
        self.seed = seed()
        self.cov = {"samples": []}
        self.assumptions = []
        self.violations = []       # (signature, description, replay path)
        self.known_hit = {}        # signature -> count
        self.notes = []
        self.known = [k for k in load_known() if k.get("property") == pid and k.get("status") == "known"]
        self._nviol = 0

    # -- coverage bookkeeping ------------------------------------------------------------------
    def add(self, key, n=1):
        self.cov[key] = self.cov.get(key, 0) + n

    def set(self, key, v):
        self.cov[key] = v

    def sample(self, s, limit=6):
        if len(self.cov["samples"]) < limit:
            self.cov["samples"].append(s)

    def add_tlc(self, res, name=None):
        self.add("states", res.distinct)
        self.add("transitions", res.generated)
        runs = self.cov.setdefault("tlc_runs", [])
        runs.append({"run": name or "", "generated": res.generated, "distinct": res.distinct,
                     "depth": res.depth, "wall_s": round(res.wall, 1)})

    def assume(self, s):
        if s not in self.assumptions:
            self.assumptions.append(s)

    # -- verdicts ------------------------------------------------------------------------------
    def violation(self, signature, what, replay):
        """A failing case of the real code. signature = root cause as the spec names it."""
        # a failing case explained by several listed root causes at once carries their signatures joined by "+"
        parts = signature.split("+")
        known_sigs = {k.get("signature"): k for k in self.known}
        if all(p in known_sigs for p in parts):
            for p in parts:
                self.known_hit[p] = self.known_hit.get(p, 0) + 1
                if self.known_hit[p] == 1:
                    known_sigs[p]["_example"] = replay
            return
        self._nviol += 1
        if self._nviol > 20:
            return
        os.makedirs(os.path.join(VERIF, "replays"), exist_ok=True)
        body = json.dumps({"property": self.pid, "signature": signature, "what": what, "case": replay,
                           "tier": self.tier, "seed": self.seed, "repo": REPO}, indent=1, sort_keys=True,
                          default=str)
        h = hashlib.sha1(body.encode()).hexdigest()[:10]
        path = os.path.join(VERIF, "replays", "%s-%s.json" % (self.pid, h))
        with open(path, "w") as fh:
            fh.write(body)
        self.violations.append((signature, what, path))
        global _violations_printed
        _violations_printed += 1
        print("VIOLATION property=%s replay=%s" % (self.pid, path))
        print("  signature=%s %s" % (signature, what))
        sys.stdout.flush()

    def finish(self):
        for k in self.known:
            sig = k.get("signature")
            if sig in self.known_hit:
                print("KNOWN-FINDING: property=%s %s [%s; %d failing cases this run]" % (
                    self.pid, k.get("what", ""), sig, self.known_hit[sig]))
            else:
                # listed but not observed this run: say so in the evidence, no alarm
                self.notes.append("known finding %s not reproduced in this run" % sig)
        ev = {
            "property_id": self.pid,
            "tier": self.tier,
            "seed": self.seed,
            "level": self.level,
            "coverage": self.cov,
            "assumptions": self.assumptions,
            "wall_s": round(time.time() - _T0, 2),
            "violations": self._nviol,
        }
        if self.notes:
            ev["coverage"]["notes"] = self.notes
        if self.known_hit:
            ev["coverage"]["known_findings_hit"] = self.known_hit
        # evidence describes runs against the repository itself; runs against another tree (VERIF_REPO: mutants,
        # seeded changes) must not overwrite it
        evdir = os.path.join(VERIF, "evidence") if os.path.realpath(REPO) == "/repo" else os.path.join(scratch(), "evidence")
        os.makedirs(evdir, exist_ok=True)
        with open(os.path.join(evdir, self.pid + ".json"), "w") as fh:
            json.dump(ev, fh, indent=1, sort_keys=True, default=str)
            fh.write("\n")
        sys.stdout.flush()
        if self._nviol:
            sys.exit(1)
        print("OK property=%s tier=%s seed=%d wall=%.1fs" % (self.pid, self.tier, self.seed, time.time() - _T0))
        sys.exit(0)


def harness_results(ck, p, what_prefix=""):
    """Consume a harness's ndjson stdout (vhlib protocol): fail -> ck.violation, sample -> ck.sample.
    Returns the summary record; raises InfraError if the harness died or printed no summary."""
    summary = None
    drift = 0
    for line in p.stdout.decode(errors="replace").splitlines():
        if not line.startswith("{"):
            continue
        try:
            r = json.loads(line)
        except ValueError:
            continue
        k = r.get("kind")
        if k == "fail":
            ck.violation(r["sig"], what_prefix + r["what"], r["case"])
        elif k == "sample":
            ck.sample(r["case"])
        elif k == "drift":
            drift += 1
            if drift <= 5:
                ck.notes.append("model drift: %s %s" % (r.get("what"), json.dumps(r.get("case"))[:300]))
        elif k == "summary":
            summary = r
    if drift:
        ck.add("model_drift_cases", drift)
    if p.returncode != 0 or summary is None:
        raise InfraError("harness failed rc=%s: %s" % (p.returncode, (p.stderr or b"").decode(errors="replace")[-3000:]))
    return summary


def apalache_inductive(module, cfg, ind_init, ind_inv, implied, neg_subst, next_op="NextUnbounded", timeout=600):
    """Unbounded safety with Apalache: Init => IndInv, IndInv /\ Next => IndInv', IndInv => implied; the defective design
    (cfg with neg_subst applied) must NOT be inductive. Returns the list of discharged obligations; InfraError otherwise."""
    wd = os.path.join(scratch(), "apalache-" + module)
    os.makedirs(wd, exist_ok=True)
    for f in (module + ".tla", cfg):
        shutil.copy(os.path.join(SPEC, f), wd)
    neg = open(os.path.join(wd, cfg)).read().replace(neg_subst[0], neg_subst[1])
    with open(os.path.join(wd, "neg.cfg"), "w") as fh:
        fh.write(neg)
    obligations = [("initial states satisfy %s" % ind_inv, cfg, "Init", ind_inv, 0, True),
                   ("%s is inductive" % ind_inv, cfg, ind_init, ind_inv, 1, True),
                   ("%s implies %s" % (ind_inv, implied), cfg, ind_init, implied, 0, True),
                   ("defective design (%s): %s is NOT inductive" % (neg_subst[1], ind_inv), "neg.cfg", ind_init, ind_inv, 1, False)]
    done = []
    for what, c, init, inv, length, want_ok in obligations:
        try:
            p = subprocess.run(["apalache-mc", "check", "--config=" + c, "--next=" + next_op, "--init=" + init, "--inv=" + inv,
                                "--length=%d" % length, "--out-dir=" + os.path.join(wd, "out"), module + ".tla"],
                               cwd=wd, stdout=subprocess.PIPE, stderr=subprocess.STDOUT, timeout=timeout)
        except subprocess.TimeoutExpired:
            raise InfraError("apalache timeout: " + what)
        out = p.stdout.decode(errors="replace")
        ok = "The outcome is: NoError" in out
        err = "The outcome is: Error" in out
        if not ok and not err:
            raise InfraError("apalache did not decide (%s): %s" % (what, out[-1500:]))
        if ok != want_ok:
            raise InfraError("apalache obligation failed in the model: " + what)
        done.append(what)
    return done


def write_ndjson(path, records):
    with open(path, "w") as fh:
        for r in records:
            fh.write(json.dumps(r) + "\n")
    return path


_violations_printed = 0


def _infra_exit():
    # A violation shown on the real code stays a violation when a LATER stage of the same check cannot finish
    # (on a broken tree later stages often cannot): exit 1. Without any violation the run is inconclusive: exit 2.
    sys.stdout.flush()
    sys.exit(1 if _violations_printed else 2)


def main(fn):
    """Run a check function, mapping machinery failures to exit 2."""
    try:
        fn()
    except InfraError as e:
        sys.stderr.write("INFRA-ERROR: %s\n" % e)
        _infra_exit()
    except subprocess.TimeoutExpired as e:
        sys.stderr.write("INFRA-ERROR: timeout %s\n" % e)
        _infra_exit()
    except SystemExit:
        raise
    except BaseException:
        # a crash of the check itself says nothing about the property: never exit 1
        import traceback
        traceback.print_exc()
        sys.stderr.write("INFRA-ERROR: uncaught exception in the check\n")
        sys.exit(2)
