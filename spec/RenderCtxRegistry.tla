-------------------------- MODULE RenderCtxRegistry --------------------------
(* C12 -- scripts, CSS classes and once-blocks are emitted once per context, before use.

   RenderCtx, registry part.  A rendering context is one initialised context value (runtime.go:
   contextValue).  Per context the code keeps `ss` (keys "script_"+name and "class_"+id) and
   `onceHandles`; the model keeps emitted[c], the set of keys recorded in context c.

   Context modes:
     plain   templ.InitializeContext(ctx) once, every use renders with that context;
     mw      the context made by CSSMiddleware.ServeHTTP for one request: the classes registered with the
             middleware (RegSeq) are recorded up front, the stylesheet endpoint serves their rules;
     fresh   an UNinitialised context.Background(): every top-level render initialises its own value,
             so every use is its own context and nothing accumulates;
     winit   (not a creation mode) a fresh context after templ.WithNonce: getContext initialised it, from then
             on it behaves like plain -- the usual nonce middleware in front of the handler.

   Actions = the use kinds, one per critical call of the code (each writes tokens to the document):
     RenderScriptComponent(s)       ComponentScript.Render: RenderScriptItems(s), then the inline call
     ElementWithOnAttrs(S)          generator hoists RenderScriptItems(S...) in front of the element whose on*
                                    attributes hold the calls
     ElementWithClasses(cont,items) generator hoists RenderCSSItems([]any{expr...}) in front of the element;
                                    the class attribute is CSSClasses(...).String() (cssProcessor)
     ElementWithClassAndOn(k,s)     both hoisted groups: css items, then script items, then the element
     ElementWithCondOn(cond,a,b)    <button if cond { onclick={ a } } else { onmouseover={ b } }>: a conditional attribute is
                                    evaluated inside the start tag, so the generator hoists the scripts of BOTH arms
                                    (getAttributeScripts: Then and Else) in front of the element; only the taken arm is a use
     ElementWithCondClass(cond,k,l) <div if cond { class={ k } } else { class={ l } }>: the css items of both arms are hoisted
                                    (writeAttributesCSS: Then, then Else), the class attribute of the taken arm is written
     OnceWithBlock(h) / OnceWithComponent(g)     once.go
     OnceNested(h,t)                @h.Once() { content of h, then (at any depth) @t.Once() { content of t } }: a once use
                                    whose guarded content uses the same (t = h) or another handle.  once.go marks the
                                    handle as rendered BEFORE it renders the content, so the use inside is not a first use
     StylesheetRequest              CSSHandler.ServeHTTP
     SetNonce(c)                    ctx = templ.WithNonce(ctx, nonce) at this point of the history (a nonce middleware
                                    inside NewCSSMiddleware when it comes first in an mw context, a layout that sets
                                    the nonce for an embedded widget when it comes part-way): runtime.go sets the
                                    nonce field of the SAME context value, the registry is untouched.  Writes nothing.

   Document tokens: def(x) = function definition / CSS rule of x, use(x) = a call of script x or the class
   name of x on an element, body(h) = content of once handle h, unknown = the fixed unknown-type class name,
   served(k) = rule of k in the stylesheet response.

   The invariants of the property are STEP properties over (registry before, tokens of the step): with
   emitted[c] = keys defined so far in c (checked against the real output edge by edge) they are
   equivalent to the history formulation and keep the state graph finite (no history in the state).

   Repaired selects, per container form in which renderCSSItemsToBuilder and cssProcessor.Add disagree,
   the original or the repaired behaviour.  Variant flips the model into plausible bugs (negative configs). *)
EXTENDS Integers, Sequences, FiniteSets, TLC, Json, SequencesExt

CONSTANTS Ctxs,          \* context names (a sequence, e.g. <<"c1","c2">>)
          Modes,         \* modes a context may be created in
          Scripts, Classes,
          BlockHandles,  \* once handles made by templ.NewOnceHandle() (unique id), used with a block
          ZeroHandles,   \* zero-value once handles (var h templ.OnceHandle, &templ.OnceHandle{}): distinct variables, all with id 0
          FixedHandles,  \* handles made by templ.NewOnceHandle(templ.WithComponent(c))
          RegSeq,        \* classes registered with the CSS middleware, in registration order
          OnSeqs,        \* script sequences used by ElementWithOnAttrs
          ClassExprs,    \* class expressions: [cont |-> container, items |-> Seq([f, k, b])]
          Repaired,      \* subset of {"KvCompName", "SliceKVRules"}
          Variant,       \* "asCoded" | "sharedKeys" | "noRecord" | "packageState" | "mwInlines" | "nonceForgets"
                         \* | "elseNotHoisted" (the else-arm of a conditional attribute is not collected for hoisting)
                         \* | "markAfterRender" (once.go records the handle only after its content has rendered)
                         \* | "onceKeyedById" (rendered handles remembered by OnceHandle.id instead of by address)
          MaxNonces,     \* how often WithNonce may be applied to one context
          NonceCtxs,     \* the contexts WithNonce may be applied to (emission B: one of the two, all mode pairs are explored)
          MaxSteps,
          EmitEdges

VARIABLES mode,     \* how each context was created
          emitted,  \* the code's registry per context (keys)
          defd,     \* ghost: the ids whose definition / once body really is in the context's document so far
          nonce,    \* how many times WithNonce has been applied to the context (0 = no nonce; j = the j-th nonce value)
          n, lbl
vars == <<mode, emitted, defd, nonce, n>>

CtxSet == {Ctxs[j] : j \in 1..Len(Ctxs)}
Reg == {RegSeq[j] : j \in 1..Len(RegSeq)}
Idx(x) == IF x \in {"s1", "k1"} THEN 1 ELSE 2
\* runtime.go keeps scripts and classes in ONE map, told apart by the key prefix
Key(x) == IF x \in Scripts THEN <<IF Variant = "sharedKeys" THEN "id" ELSE "script", Idx(x)>>
          ELSE IF x \in Classes THEN <<IF Variant = "sharedKeys" THEN "id" ELSE "class", Idx(x)>>
          \* runtime.go: onceHandles is keyed by the handle's ADDRESS; the id field only exists so that distinct
          \* handles have distinct addresses, and it is 0 for every handle not made by NewOnceHandle
          ELSE IF x \in ZeroHandles /\ Variant = "onceKeyedById" THEN <<"once", "id0">>
          ELSE <<"once", x>>
Tok(t, x) == [t |-> t, x |-> x]

-----------------------------------------------------------------------------
(* scripttemplate.go: RenderScriptItems -- the not yet emitted members, in argument order, then recorded *)
RECURSIVE NewOf(_, _, _)
NewOf(S, j, E) == IF j > Len(S) THEN <<>>
                  ELSE IF Key(S[j]) \in E THEN NewOf(S, j + 1, E)
                  ELSE <<S[j]>> \o NewOf(S, j + 1, IF Variant = "noRecord" /\ S[j] \in Scripts THEN E ELSE E \cup {Key(S[j])})
KeysOf(seq) == {Key(seq[j]) : j \in 1..Len(seq)}
Defs(seq) == [j \in 1..Len(seq) |-> Tok("def", seq[j])]
Uses(seq) == [j \in 1..Len(seq) |-> Tok("use", seq[j])]
RecordScripts(E, new) == IF Variant = "noRecord" THEN E ELSE E \cup KeysOf(new)

(* runtime.go: renderCSSItemsToBuilder -- which rules an expression offers for emission, in order *)
ItemRule(it) == IF it.f \in {"comp", "func"} THEN <<it.k>> ELSE IF it.b THEN <<it.k>> ELSE <<>>
RECURSIVE Concat(_, _)
Concat(seqs, j) == IF j > Len(seqs) THEN <<>> ELSE seqs[j] \o Concat(seqs, j + 1)
RuleSeq(e) == IF e.cont = "sliceKV" /\ "SliceKVRules" \notin Repaired THEN <<>>      \* no case for []KeyValue[CSSClass,bool]
              ELSE Concat([j \in 1..Len(e.items) |-> ItemRule(e.items[j])], 1)
\* a class registered with the middleware is already recorded, hence never inlined
(* runtime.go: cssProcessor -- names in first-occurrence order, present iff the last assignment was true *)
ItemName(it) == IF it.f = "kvComp" /\ "KvCompName" \notin Repaired THEN [nm |-> "UNKNOWN", b |-> TRUE]   \* default branch of Add
                ELSE [nm |-> it.k, b |-> IF it.f \in {"comp", "func"} THEN TRUE ELSE it.b]
Names(e) == [j \in 1..Len(e.items) |-> ItemName(e.items[j])]
LastB(nms, nm) == nms[CHOOSE j \in 1..Len(nms) : nms[j].nm = nm /\ \A i \in (j + 1)..Len(nms) : nms[i].nm # nm].b
RECURSIVE Present(_, _)
Present(nms, j) == IF j > Len(nms) THEN <<>>
                   ELSE IF (\E i \in 1..(j - 1) : nms[i].nm = nms[j].nm) \/ ~LastB(nms, nms[j].nm) THEN Present(nms, j + 1)
                   ELSE <<nms[j].nm>> \o Present(nms, j + 1)
NameToks(seq) == [j \in 1..Len(seq) |-> IF seq[j] = "UNKNOWN" THEN Tok("unknown", "") ELSE Tok("use", seq[j])]
\* property level: the classes this expression uses (enabled by their last mention)
Enabled(it) == IF it.f \in {"comp", "func"} THEN TRUE ELSE it.b
MustUseClasses(e) == {k \in Classes : \E j \in 1..Len(e.items) :
                        /\ e.items[j].k = k /\ Enabled(e.items[j])
                        /\ \A i \in (j + 1)..Len(e.items) : e.items[i].k # k}
Tags(e) == (IF \E j \in 1..Len(e.items) : e.items[j].f = "kvComp" /\ "KvCompName" \notin Repaired THEN {"KvCompUnknownName"} ELSE {})
           \cup (IF e.cont = "sliceKV" /\ "SliceKVRules" \notin Repaired THEN {"SliceKVNoRules"} ELSE {})

-----------------------------------------------------------------------------
(* The step properties (C12).  before = registry of the context when the step starts. *)
Violations(toks, before, must, mustbody, c) ==
    LET defOrBody(t) == t.t \in {"def", "body"}
        I == 1..Len(toks)
    IN  (IF \E i \in I : defOrBody(toks[i]) /\ (toks[i].x \in before \/ \E j \in 1..(i - 1) : toks[j] = toks[i])
         THEN {"AtMostOnce"} ELSE {})
        \cup (IF \E i \in I : toks[i].t = "use" /\ toks[i].x \notin before
                              /\ ~(\E j \in 1..(i - 1) : toks[j] = Tok("def", toks[i].x))
                              /\ ~(mode[c] = "mw" /\ toks[i].x \in Reg)          \* served by the stylesheet endpoint instead
              THEN {"DefBeforeFirstUse"} ELSE {})
        \* a once handle used here for the first time in this context's document renders its content now
        \cup (IF \E h \in mustbody : h \notin before /\ ~\E i \in I : toks[i] = Tok("body", h) THEN {"DefBeforeFirstUse"} ELSE {})
        \cup (IF \E x \in must : ~\E i \in I : toks[i] = Tok("use", x) THEN {"EveryUseHasCallOrName"} ELSE {})
        \cup (IF mode[c] = "mw" /\ \E i \in I : toks[i].t = "def" /\ toks[i].x \in Reg THEN {"MiddlewareNeverInlined"} ELSE {})
DefinedBy(toks) == {toks[j].x : j \in {i \in 1..Len(toks) : toks[i].t \in {"def", "body"}}}

InitEm(m) == IF m = "mw" THEN KeysOf(RegSeq) ELSE {}
IsInit == \A c \in CtxSet : emitted[c] = InitEm(mode[c]) /\ nonce[c] = 0
StateRec == [init |-> IsInit, ctx |-> [j \in 1..Len(Ctxs) |-> [m |-> mode[Ctxs[j]], em |-> emitted[Ctxs[j]], df |-> defd[Ctxs[j]],
                                                             nn |-> nonce[Ctxs[j]]]]]

Init == /\ mode \in [CtxSet -> Modes]
        /\ emitted = [c \in CtxSet |-> InitEm(mode[c])]
        /\ defd = [c \in CtxSet |-> {}]
        /\ nonce = [c \in CtxSet |-> 0]
        /\ n = 0
        /\ lbl = [a |-> "init"]

\* one use in context c: tokens toks, keys rec recorded
Use(c, name, args, toks, rec, must, tags) ==
    LET before == defd[c]
        \* once handles used by this step; the handle inside a guarded content is used iff that content is rendered
        mustbody == (IF args.h = "" THEN {} ELSE {args.h})
                    \cup (IF name = "OnceNested" /\ args.h \notin defd[c] THEN {args.t} ELSE {})
    IN
    /\ n < MaxSteps
    /\ n' = n + 1
    /\ emitted' = IF Variant = "packageState"
                  THEN [d \in CtxSet |-> IF mode[d] = "fresh" THEN {} ELSE emitted[d] \cup rec]   \* registry in a package variable
                  ELSE [emitted EXCEPT ![c] = IF mode[c] = "fresh" THEN {} ELSE @ \cup rec]
    /\ defd' = [defd EXCEPT ![c] = IF mode[c] = "fresh" THEN {} ELSE @ \cup DefinedBy(toks)]
    /\ UNCHANGED <<mode, nonce>>
    /\ lbl' = [a |-> name, c |-> c, args |-> args, toks |-> toks, before |-> SetToSeq(before),
               must |-> SetToSeq(must), mustbody |-> SetToSeq(mustbody), tags |-> SetToSeq(tags),
               viol |-> SetToSeq(Violations(toks, before, must, mustbody, c)), nonce |-> nonce[c]]

NoArgs == [s |-> "", S |-> <<>>, e |-> [cont |-> "", items |-> <<>>], k |-> "", h |-> "", t |-> "", cond |-> FALSE]

RenderScriptComponent(c, s) ==
    LET new == NewOf(<<s>>, 1, emitted[c]) IN
    Use(c, "RenderScriptComponent", [NoArgs EXCEPT !.s = s], Defs(new) \o <<Tok("use", s)>>, RecordScripts({}, new), {s}, {})

ElementWithOnAttrs(c, S) ==
    LET new == NewOf(S, 1, emitted[c]) IN
    Use(c, "ElementWithOnAttrs", [NoArgs EXCEPT !.S = S], Defs(new) \o Uses(S), RecordScripts({}, new), {S[j] : j \in 1..Len(S)}, {})

ElementWithClasses(c, e) ==
    LET new == NewOf(RuleSeq(e), 1, emitted[c])
        inl == IF Variant = "mwInlines" THEN NewOf(RuleSeq(e), 1, emitted[c] \ KeysOf(RegSeq)) ELSE new
    IN  Use(c, "ElementWithClasses", [NoArgs EXCEPT !.e = e], Defs(inl) \o NameToks(Present(Names(e), 1)), KeysOf(new),
            MustUseClasses(e), Tags(e))

ElementWithClassAndOn(c, k, s) ==
    LET newk == NewOf(<<k>>, 1, emitted[c])
        news == NewOf(<<s>>, 1, emitted[c] \cup KeysOf(newk))
    IN  Use(c, "ElementWithClassAndOn", [NoArgs EXCEPT !.k = k, !.s = s],
            Defs(newk) \o Defs(news) \o <<Tok("use", k), Tok("use", s)>>, KeysOf(newk) \cup RecordScripts({}, news), {k, s}, {})

\* a script / class use in the then-arm (a, cond TRUE) or else-arm (b, cond FALSE) of a conditional attribute
CondHoist(a, b) == IF Variant = "elseNotHoisted" THEN <<a>> ELSE <<a, b>>
ElementWithCondOn(c, cond, a, b) ==
    LET new == NewOf(CondHoist(a, b), 1, emitted[c])
        taken == IF cond THEN a ELSE b
    IN  Use(c, "ElementWithCondOn", [NoArgs EXCEPT !.s = a, !.t = b, !.cond = cond],
            Defs(new) \o <<Tok("use", taken)>>, RecordScripts({}, new), {taken}, {})

ElementWithCondClass(c, cond, a, b) ==
    LET new == NewOf(CondHoist(a, b), 1, emitted[c])
        taken == IF cond THEN a ELSE b
    IN  Use(c, "ElementWithCondClass", [NoArgs EXCEPT !.k = a, !.t = b, !.cond = cond],
            Defs(new) \o <<Tok("use", taken)>>, KeysOf(new), {taken}, {})

\* once.go: rendered before -> nothing; else mark, then render the block / the fixed component
Once(c, name, h) ==
    LET first == Key(h) \notin emitted[c] IN
    Use(c, name, [NoArgs EXCEPT !.h = h], IF first THEN <<Tok("body", h)>> ELSE <<>>, {Key(h)}, {}, {})

\* once.go, re-entrancy: getHasBeenRendered / setHasBeenRendered(o) happen before the content renders, so a use of the
\* same handle from inside its own content finds it rendered; another handle inside renders (and is recorded) as usual
OnceNested(c, h, t) ==
    LET first == Key(h) \notin emitted[c]
        marked == IF Variant = "markAfterRender" THEN emitted[c] ELSE emitted[c] \cup {Key(h)}
        innerFirst == first /\ Key(t) \notin marked
    IN  Use(c, "OnceNested", [NoArgs EXCEPT !.h = h, !.t = t],
            IF first THEN <<Tok("body", h)>> \o (IF innerFirst THEN <<Tok("body", t)>> ELSE <<>>) ELSE <<>>,
            {Key(h)} \cup (IF first THEN {Key(t)} ELSE {}), {}, {})

\* CSSHandler.ServeHTTP: the rules of the registered classes, in registration order; no context involved
StylesheetRequest ==
    /\ \E c \in CtxSet : mode[c] = "mw"
    /\ n < MaxSteps /\ n' = n + 1
    /\ UNCHANGED <<mode, emitted, defd, nonce>>
    /\ lbl' = [a |-> "StylesheetRequest", c |-> "", args |-> NoArgs, toks |-> [j \in 1..Len(RegSeq) |-> Tok("served", RegSeq[j])],
               before |-> <<>>, must |-> <<>>, mustbody |-> <<>>, tags |-> <<>>, viol |-> <<>>, nonce |-> 0]

\* runtime.go: WithNonce -- getContext (initialises an uninitialised context), v.nonce = nonce on the context value the
\* whole render shares: what has been emitted, what the document holds and what the middleware registered stay as they are.
\* Variant "nonceForgets": WithNonce derives a context with a FRESH context value (children and nonce only), the
\* registry of the context starts empty again although the document already holds the definitions.
SetNonce(c) ==
    /\ n < MaxSteps /\ n' = n + 1
    /\ c \in NonceCtxs /\ nonce[c] < MaxNonces
    /\ nonce' = [nonce EXCEPT ![c] = @ + 1]
    /\ mode' = [mode EXCEPT ![c] = IF @ = "fresh" THEN "winit" ELSE @]
    /\ IF Variant = "nonceForgets" THEN emitted' = [emitted EXCEPT ![c] = {}] /\ UNCHANGED defd
       ELSE UNCHANGED <<emitted, defd>>
    /\ lbl' = [a |-> "SetNonce", c |-> c, args |-> NoArgs, toks |-> <<>>, before |-> SetToSeq(defd[c]),
               must |-> <<>>, mustbody |-> <<>>, tags |-> <<>>, viol |-> <<>>, nonce |-> nonce[c] + 1]

Next == \/ \E c \in CtxSet :
            \/ \E s \in Scripts : RenderScriptComponent(c, s)
            \/ \E S \in OnSeqs : ElementWithOnAttrs(c, S)
            \/ \E e \in ClassExprs : ElementWithClasses(c, e)
            \/ \E k \in Classes, s \in Scripts : ElementWithClassAndOn(c, k, s)
            \/ \E cond \in BOOLEAN, a \in Scripts, b \in Scripts : ElementWithCondOn(c, cond, a, b)
            \/ \E cond \in BOOLEAN, a \in Classes, b \in Classes : ElementWithCondClass(c, cond, a, b)
            \/ \E h \in BlockHandles \cup ZeroHandles : Once(c, "OnceWithBlock", h)
            \/ \E h \in FixedHandles : Once(c, "OnceWithComponent", h)
            \/ \E h \in BlockHandles \cup ZeroHandles, t \in BlockHandles \cup ZeroHandles : OnceNested(c, h, t)
            \/ SetNonce(c)
        \/ StylesheetRequest

Spec == Init /\ [][Next]_vars

-----------------------------------------------------------------------------
(* properties *)
TypeOK == /\ mode \in [CtxSet -> Modes \cup {"winit"}]
          /\ nonce \in [CtxSet -> 0..MaxNonces]
          /\ \A c \in CtxSet : mode[c] = "winit" => nonce[c] > 0
          /\ n \in 0..MaxSteps

StepHas(v) == lbl'.a \notin {"init", "StylesheetRequest"} => v \notin {lbl'.viol[j] : j \in 1..Len(lbl'.viol)}
allvars == <<mode, emitted, defd, nonce, n, lbl>>
AtMostOnce             == [][StepHas("AtMostOnce")]_allvars
DefBeforeFirstUse      == [][StepHas("DefBeforeFirstUse")]_allvars
EveryUseHasCallOrName  == [][StepHas("EveryUseHasCallOrName")]_allvars
MiddlewareNeverInlined == [][StepHas("MiddlewareNeverInlined")]_allvars
\* the stylesheet endpoint serves exactly the registered classes
StylesheetServesRegistered ==
    [][lbl'.a = "StylesheetRequest" => lbl'.toks = [j \in 1..Len(RegSeq) |-> Tok("served", RegSeq[j])]]_allvars
\* a use in one context neither reads nor changes the registry of another one
ContextsIndependent ==
    [][lbl'.a \notin {"init", "StylesheetRequest"} => \A d \in CtxSet : d # lbl'.c => emitted'[d] = emitted[d] /\ defd'[d] = defd[d]]_allvars
\* setting the nonce neither forgets nor adds anything: registry, document ghost and (hence) the classes the middleware
\* registered are the same before and after, in every context
NonceKeepsRegistry == [][lbl'.a = "SetNonce" => emitted' = emitted /\ defd' = defd]_allvars
\* the registry of a context records exactly what its document defines (plus what the middleware registered)
RegistryMatchesDocument == \A c \in CtxSet : emitted[c] = InitEm(mode[c]) \cup {Key(x) : x \in defd[c]}

\* fail-closed attribution (emission configs, where the forms are as coded): a violating step went through a tagged branch
ViolationsAreTagged == [][lbl'.a # "init" /\ lbl'.viol # <<>> => lbl'.tags # <<>>]_allvars

View == <<mode, emitted, defd, nonce>>
Emit == IF EmitEdges THEN PrintT(<<"EDGE", ToJson([from |-> StateRec, lbl |-> lbl', to |-> StateRec'])>>) ELSE TRUE
=============================================================================
