\* templ fmt <dir>: every transition emitted for the replay harness
CONSTANTS
  Files = {"a", "b", "c"}
  MaxRuns = 2
  RunRewrites = TRUE
INIT Init
NEXT Next
VIEW View
INVARIANTS TypeOK AfterOneRunFailAgrees RewrittenAtMostOnce OkMeansClean
PROPERTIES OnlyLooseFilesAreReplaced StdoutRunsWriteNothing
ACTION_CONSTRAINT EmitEdge
CHECK_DEADLOCK FALSE
