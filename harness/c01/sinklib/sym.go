// Package sinklib is shared by the c01 and c04 harnesses: the symbol partition exported by TLC from
// spec/Chars.tla (classification and concretisation), token patterns, the x/net/html second key,
// and walking of TLC-emitted automata.
package sinklib

import (
	"encoding/json"
	"fmt"
	"math/rand"
	"os"
	"unicode/utf8"
)

// Class is one class of spec/Chars.tla's CharTable.
type Class struct {
	Sym    int      `json:"sym"`
	Name   string   `json:"name"`
	Ranges [][2]int `json:"ranges"`
	Canon  int      `json:"canon"`
	More   []int    `json:"more"`
}

// Table is CharTable as printed by TLC (PrintT(<<"CHARS", ToJson(CharTable)>>)).
type Table struct {
	Ascii struct {
		Lo int `json:"lo"`
		Hi int `json:"hi"`
	} `json:"ascii"`
	Classes []Class `json:"classes"`
	BadByte int     `json:"-"`
	bySym   map[int]*Class
}

func LoadTable(path string) (*Table, error) {
	b, err := os.ReadFile(path)
	if err != nil {
		return nil, err
	}
	t := &Table{bySym: map[int]*Class{}, BadByte: -1}
	if err := json.Unmarshal(b, t); err != nil {
		return nil, err
	}
	for i := range t.Classes {
		c := &t.Classes[i]
		t.bySym[c.Sym] = c
		if len(c.Ranges) == 0 {
			t.BadByte = c.Sym
		}
	}
	if t.BadByte < 0 || t.Ascii.Hi != 127 {
		return nil, fmt.Errorf("char table without a class for undecodable bytes / unexpected ascii range")
	}
	return t, nil
}

// SymOfRune classifies a valid scalar value: the first class (table order) whose ranges contain it.
func (t *Table) SymOfRune(r rune) int {
	if int(r) <= t.Ascii.Hi {
		return int(r)
	}
	for i := range t.Classes {
		for _, rg := range t.Classes[i].Ranges {
			if int(r) >= rg[0] && int(r) <= rg[1] {
				return t.Classes[i].Sym
			}
		}
	}
	return -1
}

// Syms maps a byte string to symbols; every byte that is not part of a valid encoding is BADBYTE.
func (t *Table) Syms(s string) []int {
	out := make([]int, 0, len(s))
	for i := 0; i < len(s); {
		r, w := utf8.DecodeRuneInString(s[i:])
		if r == utf8.RuneError && w <= 1 {
			out = append(out, t.BadByte)
			i++
			continue
		}
		out = append(out, t.SymOfRune(r))
		i += w
	}
	return out
}

func (t *Table) Name(sym int) string {
	if sym <= t.Ascii.Hi {
		return fmt.Sprintf("%q", rune(sym))
	}
	if c := t.bySym[sym]; c != nil {
		return c.Name
	}
	return fmt.Sprint(sym)
}

// Canon is the canonical member of a symbol.
func (t *Table) Canon(sym int) string {
	if sym <= t.Ascii.Hi {
		return string([]byte{byte(sym)})
	}
	c := t.bySym[sym]
	if c == nil {
		panic(fmt.Sprintf("unknown symbol %d", sym))
	}
	if sym == t.BadByte {
		return "\xff"
	}
	return string(rune(c.Canon))
}

// Members returns the canonical member, the boundary members and n seeded random members.
func (t *Table) Members(sym int, rng *rand.Rand, n int) []string {
	if sym <= t.Ascii.Hi {
		return []string{t.Canon(sym)}
	}
	if sym == t.BadByte {
		return []string{"\xff", "\x80", "\xbf", "\xc0", "\xc1", "\xf5", "\xfe", "\xe2", "\xf0"}
	}
	c := t.bySym[sym]
	out := []string{string(rune(c.Canon))}
	for _, m := range c.More {
		out = append(out, string(rune(m)))
	}
	for i := 0; i < n && rng != nil; i++ {
		rg := c.Ranges[rng.Intn(len(c.Ranges))]
		r := rune(rg[0] + rng.Intn(rg[1]-rg[0]+1))
		if t.SymOfRune(r) == sym {
			out = append(out, string(r))
		}
	}
	return out
}

// Concrete turns an abstract string into its canonical concretisation.
func (t *Table) Concrete(syms []int) string {
	b := make([]byte, 0, len(syms))
	for _, s := range syms {
		b = append(b, t.Canon(s)...)
	}
	return string(b)
}

// EscTable is the escaper's per-symbol table as printed by TLC (PrintT(<<"ESC", ...>>)).
type EscTable map[int][]int

func LoadEsc(path string) (EscTable, error) {
	b, err := os.ReadFile(path)
	if err != nil {
		return nil, err
	}
	var rows []struct {
		Sym int   `json:"sym"`
		Out []int `json:"out"`
	}
	if err := json.Unmarshal(b, &rows); err != nil {
		return nil, err
	}
	e := EscTable{}
	for _, r := range rows {
		e[r.Sym] = r.Out
	}
	return e, nil
}

// Predict is the output the model predicts for a concrete string: a symbol whose table entry is itself
// is copied byte for byte, every other symbol is replaced by its (ASCII) replacement.
func (e EscTable) Predict(t *Table, s string) string {
	b := make([]byte, 0, len(s)+8)
	for i := 0; i < len(s); {
		r, w := utf8.DecodeRuneInString(s[i:])
		sym := t.BadByte
		if !(r == utf8.RuneError && w <= 1) {
			sym = t.SymOfRune(r)
		} else {
			w = 1
		}
		out := e[sym]
		if len(out) == 1 && out[0] == sym {
			b = append(b, s[i:i+w]...)
		} else {
			for _, o := range out {
				b = append(b, t.Canon(o)...)
			}
		}
		i += w
	}
	return string(b)
}
