\* C16 text file round trip, EscapeRule = rawnewline (negative config: must be rejected)
CONSTANTS
  MaxLits = 2
  MaxLen = 2
  EscapeRule = "rawnewline"
  EmitCases = FALSE
INIT Init
NEXT Next
VIEW View
ACTION_CONSTRAINT Emit
INVARIANTS TextRoundTrip
CHECK_DEADLOCK FALSE
