\* C15 negative config (the pinned code): WalkFiles emits an event for a directory named *.templ: the command fails although no FILE failed.
CONSTANTS
  MaxFiles = 2
  Trees <- TreesNegWalk
  Ws = {2}
  FlagSets <- AllFlags
  Mutex = TRUE
  ErrsCloser = "postgen"
  MainReadsErrs = TRUE
  GenVariants = {1}
  SlotRelease = "deferred"
  TargetRule = "trimsuffix"
  WalkRule = "coded"
  OrphanStat = "fileonly"
  RootRule = "exempt"
  RootTrees <- TreesRoot
  SkipRule = "coded"
  TwoRuns = FALSE
  EmitCases = FALSE
INIT Init
NEXT Next
VIEW View
INVARIANTS TypeOK ExitStatusIffSomeFileFailed
