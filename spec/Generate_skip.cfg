\* C15 design check on the skip-rule universe: every directory path of depth <= 2 over {d, vendor, node_modules, .x, _x}.
CONSTANTS
  MaxFiles = 2
  Trees <- TreesSkip
  Ws = {1, 2}
  FlagSets <- AllFlags
  Mutex = TRUE
  ErrsCloser = "postgen"
  MainReadsErrs = TRUE
  GenVariants = {1}
  SlotRelease = "deferred"
  TargetRule = "trimsuffix"
  WalkRule = "filesonly"
  OrphanStat = "fileonly"
  RootRule = "exempt"
  RootTrees <- TreesRoot
  SkipRule = "coded"
  TwoRuns = TRUE
  EmitCases = FALSE
INIT Init
NEXT Next
VIEW View
INVARIANTS TypeOK SiblingEqualsSoloGeneration OrphansGoneUnlessKept NothingElseTouched ExitStatusIffSomeFileFailed FailureIsolated SecondRunChangesNothing AtMostWWorkers EachEventOnce NoPanic NoDataRace WaitGroupOK
