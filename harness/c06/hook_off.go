//go:build !c06hook

package main

// Without the verif hook in the repository under test no loop-top events exist; hangs are then
// confirmed by `c06 single` (long timeout + goroutine dumps).

const hookPresent = false

type topEvent struct {
	Frame uint64
	Loop  string
	Index int
}

type noProgress struct {
	Loop  string
	Index int
}

type recorder struct{}

func attach(n int, record bool) *recorder { return nil }

func detach(r *recorder) ([]topEvent, *topEvent) { return nil, nil }
