\* C03 design check: escapers with the proposed '$' entry satisfy every clause in every position
CONSTANTS
  StrVariant = "dollar"
  JsonVariant = "std"
  HtmlVariant = "std"
  Positions <- PositionsDef
  EmitEdges = FALSE
INIT Init
NEXT Next
VIEW View

INVARIANTS TypeOK StaysInScript NoHtmlComment StaysInLiteral NoInterpolation DecodesToInput NeutralAfterFeed SuffixTerminates
CHECK_DEADLOCK FALSE
