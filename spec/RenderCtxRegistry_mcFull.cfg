\* C12 design check (thorough): histories up to MaxSteps over 2 scripts x 2 classes x 3 handles x 2 contexts x all forms.
CONSTANTS
  Ctxs <- Ctx2
  Modes = {"plain", "mw", "fresh"}
  Scripts = {"s1", "s2"}
  Classes = {"k1", "k2"}
  BlockHandles = {"h1", "h2"}
  ZeroHandles = {}
  FixedHandles = {"g1"}
  RegSeq <- RegK1
  OnSeqs <- OnSeqsFull
  ClassExprs <- ClassExprsFull
  Repaired = {"KvCompName", "SliceKVRules"}
  Variant = "asCoded"
  NonceCtxs = {"c1", "c2"}
  MaxNonces = 1
  MaxSteps = 6
  EmitEdges = FALSE
INIT Init
NEXT Next
VIEW View
INVARIANTS TypeOK RegistryMatchesDocument
PROPERTIES AtMostOnce DefBeforeFirstUse EveryUseHasCallOrName MiddlewareNeverInlined StylesheetServesRegistered ContextsIndependent NonceKeepsRegistry
CHECK_DEADLOCK FALSE
