#!/usr/bin/env python3
"""Prints the markdown table of seeded changes (seeded/<id>/meta.json) for DESIGN.md §8.4."""
import json, os
VERIF = os.path.dirname(os.path.dirname(os.path.abspath(__file__)))
rows = []
for d in sorted(os.listdir(os.path.join(VERIF, "seeded"))):
    m = os.path.join(VERIF, "seeded", d, "meta.json")
    if os.path.exists(m):
        o = json.load(open(m))
        rows.append("| %s | %s | %s | %s |" % (d, o["title"].replace("|", "/"), o["needs"].replace("|", "/"), o["detected_by"].replace("|", "/")))
print("| seeded change | what it is | needs, to manifest | caught by |\n|---|---|---|---|")
print("\n".join(rows))
