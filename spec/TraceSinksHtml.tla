--------------------------- MODULE TraceSinksHtml ---------------------------
(* C01 (and the rendered-href clause of C04) -- trace validation of REAL outputs.

   The harness renders every sink of the generated gallery with a concrete string and logs, per case,
     [id, sink, in, out]   in  = the symbols of the string that was interpolated,
                           out = the symbols of the COMPLETE real output of the component.
   sinks.json gives per sink the token pattern the template author wrote, in HtmlTok's event
   vocabulary, with two placeholder kinds at the dynamic position:
     [k |-> "V", c |-> 0|1]   the interpolated string, verbatim, as one run of "ch" (0) / "av" (1) events
     [k |-> "A", c |-> 0|1]   a run of "ch"/"av" events whose content is not claimed (RAWTEXT parents,
                              sanitiser results, script bodies): structure only
   This spec runs HtmlTok (PreStep + Step) over `out` and feeds every emitted event to the matcher of
   HtmlMatch.tla:
     Structure  (InContext at the level of the whole output): the event stream is exactly the author's
                pattern with SOME run at each placeholder -- nothing added, nothing split;
     Verbatim   the run at a "V" placeholder is the input, modulo the tokenizer's input preprocessing
                (the same relation as Expected in SinksHtml.tla: CR->LF, LF after CR dropped, NUL as
                NUL or U+FFFD, undecodable byte -> U+FFFD).
   Tokenizer and matcher are folded together with FoldLeft (no event list is built, no deep recursion).
   One TLC run validates a whole batch: every step consumes one line, failing case ids are collected
   (not stopped at) and printed at the end together with the number of consumed lines.             *)
EXTENDS HtmlMatch, Json

Trace == ndJsonDeserialize("trace.ndjson")
Sinks == JsonDeserialize("sinks.json")

VARIABLES i, fails
vars == <<i, fails>>

Verdict(t) ==
    LET f == Fold(Sinks[t.sink].pat, t.in, t.out) IN
    IF ~(f.m.sok /\ AtRest(f.q)) THEN "structure"
    ELSE IF ~f.m.vok THEN "verbatim"
    ELSE "ok"

Init == i = 1 /\ fails = <<>>
Next == /\ i <= Len(Trace)
        /\ LET v == Verdict(Trace[i]) IN
           fails' = IF v = "ok" THEN fails ELSE Append(fails, [id |-> Trace[i].id, why |-> v])
        /\ i' = i + 1
        /\ (i = Len(Trace) => PrintT(<<"DONE", ToJson([consumed |-> i, fails |-> fails'])>>))
Spec == Init /\ [][Next]_vars
\* acceptance: every line was consumed (the check script also compares `consumed` with the number of lines it wrote)
AllConsumed == TLCGet("stats").distinct = Len(Trace) + 1
=============================================================================
