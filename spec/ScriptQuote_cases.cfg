\* C03 GEN: static-text shapes x position x end-of-line convention, each becomes a gallery component generated at check time.
CONSTANTS
  EscMode = "any"
  CommentGuard = FALSE
  NlReset = FALSE
  MaxPre = 1
  EmitCases = TRUE
INIT GInit
NEXT GNext
VIEW GView
ACTION_CONSTRAINT GEmit
INVARIANTS ShapesAgree
CHECK_DEADLOCK FALSE
