\* C03 script parser quote tracking with the proposed repair (comments only outside literals) agrees with a JavaScript lexer on every static text, LF and CRLF files
CONSTANTS
  EscMode = "any"
  CommentGuard = TRUE
  NlReset = FALSE
  MaxPre = 1
  EmitCases = FALSE
INIT Init
NEXT Next
VIEW View
INVARIANTS QuoteStateAgrees
CHECK_DEADLOCK FALSE
