------------------------------- MODULE Generate -------------------------------
(* C15 -- `templ generate` output is a deterministic function of the tree.

   The model follows cmd/templ/generatecmd/cmd.go (Run), eventhandler.go (HandleEvent, generate,
   UpsertLastModTime, UpsertHash), watcher/watch.go (WalkFiles) and internal/skipdir (ShouldSkip).

   File tree.  A file is identified by <<dir, name>>, dir a sequence of directory names from
   {"d" (plain), "vendor", "node_modules", ".x", "_x"} and the NEAR MISSES of the skip rule, which must be walked:
   "multivendor", "old_node_modules" (end with a skipped name), "vendored", "node_modules2" (start with one),
   "Vendor" (differs in case only: the rule is case-sensitive), "x.y" (dot inside), "x_", "a_b" (underscore not as
   prefix).  The skip rule is modelled on the SPELLING of the name (Spell), exactly as internal/skipdir.ShouldSkip
   is coded: name == "vendor" || name == "node_modules" || HasPrefix(name, ".") || HasPrefix(name, "_").
   PATH SHAPES with ".templ" elsewhere than as the final extension: directories "v.templates" (".templ" inside a
   directory component), "p.templ" and "b.templ" (a DIRECTORY whose name ends in .templ: it matches the watch
   pattern), files "a.templ.templ" (twice in the base name) and "v.templ" (whose _templ.go is what a first-occurrence
   cut of "v.templates/x.templ" hits).  The ROOT of the tree has a name of its own (flags.root): "d" plain, or a
   name the skip rule would skip ("_x", "vendor", ".x") -- the root is what the user asked to generate.
   Names and contents:
     a.templ, b.templ, v.templ, a.templ.templ   "good" | "unparsable" (parser.Parse fails) | "badgo" (format.Source fails)
     a_templ.go, b_templ.go "genV" / "genN" = the gofmt-formatted generation of the sibling .templ alone with /
                            without the version comment, "junk" = anything else
     o.go                   an unrelated Go file (matches the watch pattern, is only classified)
     n.txt                  an unrelated file (does not match the pattern)
   m is the modification time: 1 for .templ files, 0 (older) or 2 (newer) for initial .go files,
   3.. for files written by a run.

   Processes of Run (non-watch mode):
     walker      WalkFiles: one Create event per matching file outside skipped directories, in lexical
                 (fs.WalkDir) order, on the UNBUFFERED channel events; then close(events)
     dispatcher  for event := range events { eventsWG.Add(1); sem <- {}; go worker(event) };
                 eventsWG.Wait(); close(postGeneration)
     worker(e)   HandleEvent in its steps: orphan test | UpsertLastModTime | lazy test, parse, generate,
                 format | UpsertHash | write ; then errs <- err (unbuffered) ; postGeneration <- e (buffered)
                 if GoUpdated ; release the semaphore slot, eventsWG.Done()
     postgen     drains postGeneration; when it is closed and empty: close(errs)
     main        for err := range errs { errorCount++ }; wait for the others; exit status
   A second run on the resulting tree is composed with the first (SecondRunChangesNothing).

   Bug switches (negative configs): Mutex = FALSE (UpsertHash without hashesMutex), ErrsCloser =
   "dispatcher" (errs closed as soon as the events are drained, before the workers finish),
   TargetRule = "cutfirst" (x.templ -> x_templ.go by cutting at the FIRST ".templ" of the path), WalkRule / OrphanStat /
   RootRule = "coded" (the three deviations of the pinned code, see the constants),
   MainReadsErrs = FALSE (main waits for the wait groups before reading errs), SlotRelease = "onsuccess" (a
   worker that failed never releases its semaphore slot: with as many failing files as workers the dispatcher
   blocks forever), GenVariants = {1, 2} (the generator is not a function of the file), SkipRule (the walker does not
   skip dot / underscore directories; compares with HasSuffix / HasPrefix / case-insensitively instead of
   equality; looks for "." / "_" anywhere in the name instead of at its start).                  *)
EXTENDS Integers, Sequences, FiniteSets, TLC, Json, SequencesExt

CONSTANTS Trees,          \* set of initial trees; a tree is a set of files [dir, name, c, m]
          Ws,             \* worker counts
          FlagSets,       \* set of records [keep, lazy, ver]
          Mutex,          \* TRUE: UpsertHash is one critical section
          ErrsCloser,     \* "postgen" (as coded) | "dispatcher"
          MainReadsErrs,  \* TRUE (as coded)
          GenVariants,    \* {1}: generating a file is a function of its contents (as it must be); {1, 2}: the generator is
                          \* nondeterministic (e.g. it ranges over a Go map): every generation picks one of the variants
          SlotRelease,    \* "deferred" (as coded: defer func() { <-sem }()) | "onsuccess" (the error path keeps its slot)
          TargetRule,     \* "trimsuffix" (as coded: strings.TrimSuffix(name, ".templ") + "_templ.go") | "cutfirst" (strings.Cut at
                          \* the first ".templ" anywhere in the path)
          WalkRule,       \* "filesonly": only files get events | "coded": WalkFiles also emits an event for a DIRECTORY whose
                          \* name matches the watch pattern (pinned code)
          OrphanStat,     \* "fileonly": a generated file is orphaned iff there is no template FILE | "coded": os.Stat also
                          \* succeeds on a directory of that name (pinned code)
          RootRule,       \* "exempt": the root is never skipped | "coded": ShouldSkip is applied to the root's own name too
          RootTrees,      \* the trees that are explored with a root name other than "d"
          SkipRule,       \* "coded" | "nounderscore" | "nodot" | "suffix" | "prefix" | "foldcase" | "contains"
          TwoRuns,        \* TRUE: compose a second run
          EmitCases       \* TRUE: print one record per terminated behaviour

VARIABLES tree0, flags, W,                 \* the configuration (chosen in Init)
          fs, run, fs1, st1,               \* file system: key -> [c, m]; run number; snapshot after run 1
          evs, nextev, wpc,                \* walker
          dpc, dcur,                       \* dispatcher
          wk, sem, wg,                     \* workers, semaphore, eventsWG
          lastMod, hashes, inHash, race,   \* shared maps of the event handler
          postq, postClosed, errsClosed, ppc,
          mpc, errorCount, status, panic, clock,
          lbl
vars == <<tree0, flags, W, fs, run, fs1, st1, evs, nextev, wpc, dpc, dcur, wk, sem, wg,
          lastMod, hashes, inHash, race, postq, postClosed, errsClosed, ppc, mpc, errorCount, status, panic, clock>>

-----------------------------------------------------------------------------
(* names *)
TemplNames == {"a.templ", "b.templ", "v.templ", "a.templ.templ"}                 \* FILE names ending in .templ
GenNames   == {"a_templ.go", "b_templ.go", "v_templ.go", "p_templ.go", "a.templ_templ.go"}
\* strings.TrimSuffix(name, ".templ") + "_templ.go" and its inverse (orphan test) on base names
SibOf(n)   == CASE n = "a.templ" -> "a_templ.go" [] n = "b.templ" -> "b_templ.go" [] n = "v.templ" -> "v_templ.go"
                [] n = "p.templ" -> "p_templ.go" [] n = "a.templ.templ" -> "a.templ_templ.go"
TemplOf(n) == CASE n = "a_templ.go" -> "a.templ" [] n = "b_templ.go" -> "b.templ" [] n = "v_templ.go" -> "v.templ"
                [] n = "p_templ.go" -> "p.templ" [] n = "a.templ_templ.go" -> "a.templ.templ"
EndsTempl(n) == n \in TemplNames \cup {"p.templ"}                                \* strings.HasSuffix(name, ".templ")
Matches(n) == EndsTempl(n) \/ n \in GenNames \cup {"o.go"}                       \* (.+\.go$)|(.+\.templ$)

\* byte order of the names inside one directory (fs.WalkDir sorts directory entries by name); the harness checks
\* that every emitted file list is in the byte order of the real paths
Rank(n) == CASE n = ".x" -> 1 [] n = "Vendor" -> 2 [] n = "_x" -> 3 [] n = "a.templ" -> 4 [] n = "a.templ.templ" -> 5
             [] n = "a.templ_templ.go" -> 6 [] n = "a_b" -> 7
             [] n = "a_templ.go" -> 8 [] n = "b.templ" -> 9 [] n = "b_templ.go" -> 10 [] n = "d" -> 11
             [] n = "multivendor" -> 12 [] n = "n.txt" -> 13 [] n = "node_modules" -> 14 [] n = "node_modules2" -> 15
             [] n = "o.go" -> 16 [] n = "old_node_modules" -> 17 [] n = "p.templ" -> 18 [] n = "p_templ.go" -> 19
             [] n = "v.templ" -> 20 [] n = "v.templates" -> 21 [] n = "v_templ.go" -> 22
             [] n = "vendor" -> 23 [] n = "vendored" -> 24
             [] n = "x.y" -> 25 [] n = "x_" -> 26

\* the spelling of a directory name, one character per element (TLC cannot index into strings); SpellOK below makes
\* TLC verify at start-up that the table spells the names it is indexed by
Spell(n) == CASE n = "d"            -> <<"d">>
              [] n = "vendor"       -> <<"v", "e", "n", "d", "o", "r">>
              [] n = "node_modules" -> <<"n", "o", "d", "e", "_", "m", "o", "d", "u", "l", "e", "s">>
              [] n = ".x"           -> <<".", "x">>
              [] n = "_x"           -> <<"_", "x">>
              [] n = "multivendor"  -> <<"m", "u", "l", "t", "i", "v", "e", "n", "d", "o", "r">>
              [] n = "vendored"     -> <<"v", "e", "n", "d", "o", "r", "e", "d">>
              [] n = "Vendor"       -> <<"V", "e", "n", "d", "o", "r">>
              [] n = "old_node_modules" -> <<"o", "l", "d", "_", "n", "o", "d", "e", "_", "m", "o", "d", "u", "l", "e", "s">>
              [] n = "node_modules2"    -> <<"n", "o", "d", "e", "_", "m", "o", "d", "u", "l", "e", "s", "2">>
              [] n = "x.y"          -> <<"x", ".", "y">>
              [] n = "x_"           -> <<"x", "_">>
              [] n = "a_b"          -> <<"a", "_", "b">>
              [] n = "v.templates"  -> <<"v", ".", "t", "e", "m", "p", "l", "a", "t", "e", "s">>
              [] n = "p.templ"      -> <<"p", ".", "t", "e", "m", "p", "l">>
              [] n = "b.templ"      -> <<"b", ".", "t", "e", "m", "p", "l">>
              [] n = "a.templ"      -> <<"a", ".", "t", "e", "m", "p", "l">>
              [] n = "v.templ"      -> <<"v", ".", "t", "e", "m", "p", "l">>
              [] n = "a.templ.templ" -> <<"a", ".", "t", "e", "m", "p", "l", ".", "t", "e", "m", "p", "l">>
TemplPathNames == {"v.templates", "p.templ", "b.templ"}                \* directory names with ".templ" in them
AllDirNames == {"d", "vendor", "node_modules", ".x", "_x", "multivendor", "vendored", "Vendor", "old_node_modules",
                "node_modules2", "x.y", "x_", "a_b"} \cup TemplPathNames
RECURSIVE Cat(_)
Cat(s) == IF s = << >> THEN "" ELSE Head(s) \o Cat(Tail(s))
SpellOK == \A n \in AllDirNames \cup TemplNames : Cat(Spell(n)) = n
ASSUME SpellOK

HasPrefix(s, p) == Len(s) >= Len(p) /\ SubSeq(s, 1, Len(p)) = p
HasSuffix(s, p) == Len(s) >= Len(p) /\ SubSeq(s, Len(s) - Len(p) + 1, Len(s)) = p
Has(s, c) == \E i \in 1..Len(s) : s[i] = c
Fold(s) == [i \in 1..Len(s) |-> CASE s[i] = "V" -> "v" [] s[i] = "N" -> "n" [] OTHER -> s[i]]   \* strings.ToLower on this alphabet
ExactNames == {Spell("vendor"), Spell("node_modules")}

\* internal/skipdir.ShouldSkip on the directory's base name:
\*   name == "vendor" || name == "node_modules" || strings.HasPrefix(name, ".") || strings.HasPrefix(name, "_")
SkipName(n) == LET s == Spell(n) IN
    \/ CASE SkipRule = "suffix"   -> \E x \in ExactNames : HasSuffix(s, x)
         [] SkipRule = "prefix"   -> \E x \in ExactNames : HasPrefix(s, x)
         [] SkipRule = "foldcase" -> Fold(s) \in ExactNames
         [] OTHER                 -> s \in ExactNames
    \/ CASE SkipRule = "nodot"    -> FALSE
         [] SkipRule = "contains" -> Has(s, ".")
         [] OTHER                 -> HasPrefix(s, <<".">>)
    \/ CASE SkipRule = "nounderscore" -> FALSE
         [] SkipRule = "contains"     -> Has(s, "_")
         [] OTHER                     -> HasPrefix(s, <<"_">>)
Skipped(dir) == \E i \in 1..Len(dir) : SkipName(dir[i])          \* WalkDir never descends into a skipped directory

\* x.templ -> x_templ.go. As coded the extension is trimmed from the file name: the target is NEXT TO the source.
\* "cutfirst" cuts the whole path at the first ".templ": a directory component (or the base name) that contains
\* ".templ" earlier makes the target a file in a parent directory / a different base name.
DotTempl == <<".", "t", "e", "m", "p", "l">>
IndexOf(s, sub) == IF \E i \in 1..(Len(s) - Len(sub) + 1) : SubSeq(s, i, i + Len(sub) - 1) = sub
                   THEN CHOOSE i \in 1..(Len(s) - Len(sub) + 1) :
                            /\ SubSeq(s, i, i + Len(sub) - 1) = sub
                            /\ \A j \in 1..(i - 1) : SubSeq(s, j, j + Len(sub) - 1) # sub
                   ELSE 0
CutName(n) == Cat(SubSeq(Spell(n), 1, IndexOf(Spell(n), DotTempl) - 1)) \o "_templ.go"
Target(k) ==
    IF TargetRule = "trimsuffix" THEN <<k[1], SibOf(k[2])>>
    ELSE IF \E i \in 1..Len(k[1]) : IndexOf(Spell(k[1][i]), DotTempl) > 0
         THEN LET i == CHOOSE j \in 1..Len(k[1]) : IndexOf(Spell(k[1][j]), DotTempl) > 0 /\ \A h \in 1..(j - 1) : IndexOf(Spell(k[1][h]), DotTempl) = 0
              IN  <<SubSeq(k[1], 1, i - 1), CutName(k[1][i])>>
         ELSE <<k[1], CutName(k[2])>>

PathOf(k) == [i \in 1..(Len(k[1]) + 1) |-> IF i <= Len(k[1]) THEN Rank(k[1][i]) ELSE Rank(k[2])]
RECURSIVE LexLess(_, _)
LexLess(p, q) == IF p = << >> THEN q # << >>
                 ELSE IF q = << >> THEN FALSE
                 ELSE IF Head(p) # Head(q) THEN Head(p) < Head(q)
                 ELSE LexLess(Tail(p), Tail(q))
PathLess(k1, k2) == LexLess(PathOf(k1), PathOf(k2))

Key(f) == <<f.dir, f.name>>
FsOf(tree) == [k \in {Key(f) : f \in tree} |-> LET f == CHOOSE g \in tree : Key(g) = k IN [c |-> f.c, m |-> f.m]]
\* the directories of a tree, as <<parent, name>>
DirEntries(fsys) == UNION { { <<SubSeq(k[1], 1, i - 1), k[1][i]>> : i \in 1..Len(k[1]) } : k \in DOMAIN fsys }
\* watcher.WalkFiles: nothing below a skipped directory; an event for every entry whose name matches the pattern --
\* as coded also for a directory; as coded the root's own name is passed to ShouldSkip as well
EventsR(fsys, root) ==
    IF RootRule = "coded" /\ SkipName(root) THEN << >>
    ELSE SetToSortSeq({k \in DOMAIN fsys : ~Skipped(k[1]) /\ Matches(k[2])}
                      \cup (IF WalkRule = "coded"
                            THEN {e \in DirEntries(fsys) : ~Skipped(e[1]) /\ ~SkipName(e[2]) /\ Matches(e[2])}
                            ELSE {}), PathLess)
Events(fsys) == EventsR(fsys, flags.root)

Present(k) == k \in DOMAIN fs
IsDir(k)   == k \in DirEntries(FsOf(tree0))
\* os.Stat(name) err == nil
StatOK(k)  == Present(k) \/ IsDir(k)
GenContent == IF flags.ver THEN "genV" ELSE "genN"

Idle == [pc |-> "idle", err |-> FALSE, post |-> FALSE]

StartRun(fsys, r) ==
    /\ evs = Events(fsys) /\ nextev = 1 /\ wpc = "walk"
    /\ dpc = "recv" /\ dcur = 0
    /\ wk = [i \in 1..Len(Events(fsys)) |-> Idle]
    /\ sem = 0 /\ wg = 0
    /\ lastMod = {} /\ hashes = {} /\ inHash = {} /\ race = FALSE
    /\ postq = << >> /\ postClosed = FALSE /\ errsClosed = FALSE /\ ppc = "run"
    /\ mpc = "read" /\ errorCount = 0 /\ status = "running" /\ panic = FALSE
    /\ run = r

Init == /\ tree0 \in Trees /\ flags \in FlagSets /\ W \in Ws
        /\ (flags.root # "d" => tree0 \in RootTrees)
        /\ fs = FsOf(tree0) /\ fs1 = << >> /\ st1 = [status |-> "none", errors |-> 0] /\ clock = 3
        /\ StartRun(FsOf(tree0), 1)
        /\ lbl = [op |-> "init"]

Cfg == <<tree0, flags, W>>
-----------------------------------------------------------------------------
(* walker *)
WalkSend == /\ wpc = "walk" /\ nextev <= Len(evs) /\ dpc = "recv"          \* rendezvous on the unbuffered channel
            /\ dcur' = nextev /\ dpc' = "acquire" /\ wg' = wg + 1            \* eventsWG.Add(1)
            /\ nextev' = nextev + 1
            /\ lbl' = [op |-> "event", i |-> nextev]
            /\ UNCHANGED <<tree0, flags, W, fs, run, fs1, st1, evs, wpc, wk, sem, lastMod, hashes, inHash, race,
                           postq, postClosed, errsClosed, ppc, mpc, errorCount, status, panic, clock>>
WalkClose == /\ wpc = "walk" /\ nextev > Len(evs)
             /\ wpc' = "closed"                                                \* defer close(events)
             /\ lbl' = [op |-> "close-events"]
             /\ UNCHANGED <<tree0, flags, W, fs, run, fs1, st1, evs, nextev, dpc, dcur, wk, sem, wg, lastMod, hashes, inHash, race,
                            postq, postClosed, errsClosed, ppc, mpc, errorCount, status, panic, clock>>

(* dispatcher *)
Spawn == /\ dpc = "acquire" /\ sem < W                                         \* sem <- struct{}{}
         /\ sem' = sem + 1
         /\ wk' = [wk EXCEPT ![dcur] = [pc |-> "start", err |-> FALSE, post |-> FALSE]]
         /\ dpc' = "recv"
         /\ lbl' = [op |-> "spawn", i |-> dcur]
         /\ UNCHANGED <<tree0, flags, W, fs, run, fs1, st1, evs, nextev, wpc, dcur, wg, lastMod, hashes, inHash, race,
                        postq, postClosed, errsClosed, ppc, mpc, errorCount, status, panic, clock>>
EventsDrained == /\ dpc = "recv" /\ wpc = "closed"                            \* range over the closed channel ends
                 /\ dpc' = "wait"
                 /\ errsClosed' = (errsClosed \/ ErrsCloser = "dispatcher")    \* negative config: errs closed here
                 /\ lbl' = [op |-> "drained"]
                 /\ UNCHANGED <<tree0, flags, W, fs, run, fs1, st1, evs, nextev, wpc, dcur, wk, sem, wg, lastMod, hashes, inHash, race,
                                postq, postClosed, ppc, mpc, errorCount, status, panic, clock>>
ClosePost == /\ dpc = "wait" /\ wg = 0                                         \* eventsWG.Wait(); close(postGeneration)
             /\ dpc' = "done" /\ postClosed' = TRUE
             /\ lbl' = [op |-> "close-post"]
             /\ UNCHANGED <<tree0, flags, W, fs, run, fs1, st1, evs, nextev, wpc, dcur, wk, sem, wg, lastMod, hashes, inHash, race,
                            postq, errsClosed, ppc, mpc, errorCount, status, panic, clock>>

-----------------------------------------------------------------------------
(* worker i handles evs[i] *)
Set(i, pc, err, post) == wk' = [wk EXCEPT ![i] = [pc |-> pc, err |-> err, post |-> post]]
\* where a worker goes when HandleEvent has returned
After(err, post) == IF err THEN "senderr" ELSE IF post THEN "post" ELSE "finish"

WUnch == <<tree0, flags, W, run, fs1, st1, evs, nextev, wpc, dpc, dcur, sem, wg, postq, postClosed, errsClosed, ppc, mpc,
           errorCount, status, panic>>

\* HandleEvent, first step: generated files (orphan test), everything else goes on to UpsertLastModTime
WStart(i) ==
    /\ wk[i].pc = "start"
    /\ LET k == evs[i] IN
       IF k[2] \in GenNames
       THEN IF (IF OrphanStat = "coded" THEN StatOK(<<k[1], TemplOf(k[2])>>) ELSE Present(<<k[1], TemplOf(k[2])>>)) \/ flags.keep
            THEN /\ Set(i, "finish", FALSE, FALSE) /\ fs' = fs                       \* not orphaned / kept
            ELSE /\ fs' = [x \in (DOMAIN fs) \ {k} |-> fs[x]]                        \* os.Remove
                 /\ Set(i, After(FALSE, TRUE), FALSE, TRUE)                          \* GoUpdated: true
       ELSE /\ Set(i, "modtime", FALSE, FALSE) /\ fs' = fs
    /\ lbl' = [op |-> "start", i |-> i]
    /\ UNCHANGED <<lastMod, hashes, inHash, race, clock>> /\ UNCHANGED WUnch

\* UpsertLastModTime (fileNameToLastModTimeMutex): the first sighting of a file is always an update
WModTime(i) ==
    /\ wk[i].pc = "modtime"
    /\ LET k == evs[i] IN
       /\ lastMod' = lastMod \cup {k}
       /\ IF k \in lastMod THEN Set(i, "finish", FALSE, FALSE)                       \* not updated since last time
          ELSE IF ~EndsTempl(k[2]) THEN Set(i, After(FALSE, TRUE), FALSE, TRUE)         \* a .go file: GoUpdated
          ELSE Set(i, "gen", FALSE, FALSE)
    /\ lbl' = [op |-> "modtime", i |-> i]
    /\ UNCHANGED <<fs, hashes, inHash, race, clock>> /\ UNCHANGED WUnch

\* lazy test, parse, generate, format
\* a directory's modification time is that of the last creation / removal inside it: later than every initial file
MTime(k) == IF Present(k) THEN fs[k].m ELSE 1000
UpToDate(k) == LET s == Target(k) IN StatOK(s) /\ MTime(s) > MTime(k)                   \* goFileIsUpToDate
WGen(i) ==
    /\ wk[i].pc = "gen"
    /\ LET k == evs[i] IN
       IF flags.lazy /\ UpToDate(k) THEN Set(i, "finish", FALSE, FALSE)
       ELSE IF IsDir(k) \/ fs[k].c \in {"unparsable", "badgo"} THEN Set(i, After(TRUE, FALSE), TRUE, FALSE)   \* a directory: parser.Parse fails
       ELSE Set(i, "hash", FALSE, FALSE)
    /\ lbl' = [op |-> "generate", i |-> i]
    /\ UNCHANGED <<fs, lastMod, hashes, inHash, race, clock>> /\ UNCHANGED WUnch

\* UpsertHash(target, sha256(formatted))
WHash(i) ==
    /\ wk[i].pc = "hash"
    /\ LET t == Target(evs[i]) IN
       IF Mutex
       THEN /\ hashes' = hashes \cup {t}
            /\ Set(i, IF t \in hashes THEN "finish" ELSE "write", FALSE, FALSE)
            /\ UNCHANGED <<inHash, race>>
       ELSE /\ inHash' = inHash \cup {i}                                            \* unprotected map access begins
            /\ race' = (race \/ inHash # {})
            /\ Set(i, "hash2", FALSE, FALSE)
            /\ UNCHANGED hashes
    /\ lbl' = [op |-> "hash", i |-> i]
    /\ UNCHANGED <<fs, lastMod, clock>> /\ UNCHANGED WUnch
WHash2(i) ==
    /\ wk[i].pc = "hash2"
    /\ LET t == Target(evs[i]) IN
       /\ hashes' = hashes \cup {t} /\ inHash' = inHash \ {i}
       /\ Set(i, IF t \in hashes THEN "finish" ELSE "write", FALSE, FALSE)
    /\ lbl' = [op |-> "hash2", i |-> i]
    /\ UNCHANGED <<fs, lastMod, race, clock>> /\ UNCHANGED WUnch

\* h.writer(targetFileName, formattedGoCode); outside watch mode GoUpdated stays false
WWrite(i) ==
    /\ wk[i].pc = "write"
    /\ LET t == Target(evs[i]) IN
       \E v \in GenVariants :       \* variant 1 is "the" generation of the file alone; any other is a different byte sequence
          fs' = [x \in (DOMAIN fs) \cup {t} |-> IF x = t THEN [c |-> IF v = 1 THEN GenContent ELSE "other-generation", m |-> clock] ELSE fs[x]]
    /\ clock' = clock          \* every write of one run lands after all initial files; runs are separated below
    /\ Set(i, "finish", FALSE, FALSE)
    /\ lbl' = [op |-> "write", i |-> i]
    /\ UNCHANGED <<lastMod, hashes, inHash, race>> /\ UNCHANGED WUnch

\* errs <- err : unbuffered, main is the only reader; a send on a closed channel panics
WSendErr(i) ==
    /\ wk[i].pc = "senderr"
    /\ IF errsClosed
       THEN /\ panic' = TRUE /\ UNCHANGED errorCount /\ Set(i, "crashed", TRUE, FALSE)        \* the process dies here
       ELSE /\ mpc = "read" /\ MainReadsErrs                                        \* rendezvous with main's range loop
            /\ errorCount' = errorCount + 1 /\ UNCHANGED panic
            /\ Set(i, After(FALSE, wk[i].post), TRUE, wk[i].post)
    /\ lbl' = [op |-> "error", i |-> i]
    /\ UNCHANGED <<tree0, flags, W, fs, run, fs1, st1, evs, nextev, wpc, dpc, dcur, sem, wg, lastMod, hashes, inHash, race,
                   postq, postClosed, errsClosed, ppc, mpc, status, clock>>

\* postGeneration <- e : buffered (256), never full within the bounds
WPost(i) ==
    /\ wk[i].pc = "post"
    /\ IF postClosed THEN panic' = TRUE /\ UNCHANGED postq
       ELSE postq' = Append(postq, i) /\ UNCHANGED panic
    /\ Set(i, "finish", wk[i].err, TRUE)
    /\ lbl' = [op |-> "post", i |-> i]
    /\ UNCHANGED <<tree0, flags, W, fs, run, fs1, st1, evs, nextev, wpc, dpc, dcur, sem, wg, lastMod, hashes, inHash, race,
                   postClosed, errsClosed, ppc, mpc, errorCount, status, clock>>

\* deferred: <-sem ; eventsWG.Done()
WFinish(i) ==
    /\ wk[i].pc = "finish"
    /\ sem' = (IF SlotRelease = "onsuccess" /\ wk[i].err THEN sem ELSE sem - 1)    \* negative config: slot leaked on the error path
    /\ wg' = wg - 1
    /\ Set(i, "done", wk[i].err, wk[i].post)
    /\ lbl' = [op |-> "end", i |-> i]
    /\ UNCHANGED <<tree0, flags, W, fs, run, fs1, st1, evs, nextev, wpc, dpc, dcur, lastMod, hashes, inHash, race,
                   postq, postClosed, errsClosed, ppc, mpc, errorCount, status, panic, clock>>

Worker(i) == WStart(i) \/ WModTime(i) \/ WGen(i) \/ WHash(i) \/ WHash2(i) \/ WWrite(i) \/ WSendErr(i) \/ WPost(i) \/ WFinish(i)

-----------------------------------------------------------------------------
(* post-generation handler *)
PostConsume == /\ ppc = "run" /\ postq # << >>
               /\ postq' = Tail(postq)
               /\ lbl' = [op |-> "consume"]
               /\ UNCHANGED <<tree0, flags, W, fs, run, fs1, st1, evs, nextev, wpc, dpc, dcur, wk, sem, wg, lastMod, hashes, inHash, race,
                              postClosed, errsClosed, ppc, mpc, errorCount, status, panic, clock>>
PostExit == /\ ppc = "run" /\ postq = << >> /\ postClosed                      \* ge == nil: return; defer close(errs)
            /\ ppc' = "done" /\ errsClosed' = TRUE
            /\ lbl' = [op |-> "close-errs"]
            /\ UNCHANGED <<tree0, flags, W, fs, run, fs1, st1, evs, nextev, wpc, dpc, dcur, wk, sem, wg, lastMod, hashes, inHash, race,
                           postq, postClosed, mpc, errorCount, status, panic, clock>>

(* main *)
MainErrsClosed == /\ mpc = "read"
                  /\ (errsClosed \/ ~MainReadsErrs)        \* negative config: main does not read errs, it waits first
                  /\ mpc' = "waitall"
                  /\ lbl' = [op |-> "errs-drained"]
                  /\ UNCHANGED <<tree0, flags, W, fs, run, fs1, st1, evs, nextev, wpc, dpc, dcur, wk, sem, wg, lastMod, hashes, inHash, race,
                                 postq, postClosed, errsClosed, ppc, errorCount, status, panic, clock>>
MainExit == /\ mpc = "waitall"
            /\ wpc = "closed" /\ dpc = "done" /\ ppc = "done"                  \* pushHandlerWG, eventHandlerWG, postGenerationWG
            /\ mpc' = "done"
            /\ status' = IF errorCount > 0 THEN "fail" ELSE "ok"
            /\ lbl' = [op |-> "exit"]
            /\ UNCHANGED <<tree0, flags, W, fs, run, fs1, st1, evs, nextev, wpc, dpc, dcur, wk, sem, wg, lastMod, hashes, inHash, race,
                           postq, postClosed, errsClosed, ppc, errorCount, panic, clock>>

\* the command is run again on the tree the first run left behind (new process: empty maps)
Contents(fsys) == [k \in DOMAIN fsys |-> fsys[k].c]
FileList(fsys) == LET ks == SetToSortSeq(DOMAIN fsys, PathLess)
                  IN  [j \in 1..Len(ks) |-> [dir |-> ks[j][1], name |-> ks[j][2], c |-> fsys[ks[j]].c, m |-> fsys[ks[j]].m]]
SecondRun == /\ TwoRuns /\ run = 1 /\ mpc = "done" /\ ~panic
             /\ fs1' = fs /\ st1' = [status |-> status, errors |-> errorCount]
             /\ clock' = clock + 1
             /\ evs' = Events(fs) /\ nextev' = 1 /\ wpc' = "walk" /\ dpc' = "recv" /\ dcur' = 0
             /\ wk' = [i \in 1..Len(Events(fs)) |-> Idle]
             /\ sem' = 0 /\ wg' = 0 /\ lastMod' = {} /\ hashes' = {} /\ inHash' = {} /\ race' = race
             /\ postq' = << >> /\ postClosed' = FALSE /\ errsClosed' = FALSE /\ ppc' = "run"
             /\ mpc' = "read" /\ errorCount' = 0 /\ status' = "running" /\ panic' = FALSE
             /\ run' = 2
             /\ lbl' = [op |-> "second-run"]
             /\ UNCHANGED <<tree0, flags, W, fs>>

\* which deviations of the pinned code a configuration exercises under the rules of this run (attribution of the emitted case)
Why == (IF RootRule = "coded" /\ SkipName(flags.root) THEN <<"WalkFiles.RootSkipped">> ELSE << >>)
       \o (IF WalkRule = "coded" /\ \E e \in DirEntries(FsOf(tree0)) : ~Skipped(e[1]) /\ ~SkipName(e[2]) /\ Matches(e[2])
           THEN <<"WalkFiles.DirectoryMatchesPattern">> ELSE << >>)
       \o (IF OrphanStat = "coded" /\ ~flags.keep
              /\ \E k \in DOMAIN FsOf(tree0) : k[2] \in GenNames /\ ~Skipped(k[1]) /\ <<k[1], TemplOf(k[2])>> \in DirEntries(FsOf(tree0))
                                                /\ <<k[1], TemplOf(k[2])>> \notin DOMAIN FsOf(tree0)
           THEN <<"OrphanTest.DirectoryCountsAsTemplate">> ELSE << >>)
Finished == mpc = "done" /\ (run = 2 \/ ~TwoRuns \/ panic)
Terminated == /\ Finished /\ UNCHANGED vars
              /\ lbl' = [op |-> "case", files |-> FileList(FsOf(tree0)), flags |-> flags, w |-> W,
                         final1 |-> FileList(IF TwoRuns THEN fs1 ELSE fs),
                         status1 |-> IF TwoRuns THEN st1.status ELSE status,
                         errors1 |-> IF TwoRuns THEN st1.errors ELSE errorCount,
                         final2 |-> FileList(fs), status2 |-> status, errors2 |-> errorCount,
                         why |-> Why]

Next == \/ WalkSend \/ WalkClose \/ Spawn \/ EventsDrained \/ ClosePost
        \/ \E i \in 1..Len(evs) : Worker(i)
        \/ PostConsume \/ PostExit \/ MainErrsClosed \/ MainExit
        \/ SecondRun \/ Terminated

Spec == Init /\ [][Next]_vars

-----------------------------------------------------------------------------
(* the property, stated on the initial tree, the flags and the final tree *)
F0 == FsOf(tree0)
\* "outside skipped directories (vendor, node_modules, dot- and underscore-prefixed)" -- the property's own reading,
\* independent of the SkipRule switch of the walker above
\* ("vendor, node_modules, dot- and underscore-prefixed"): a name that merely contains, starts or ends with a skipped
\* name, or has the dot / underscore elsewhere, is NOT skipped
SkipNameProp(n) == n \in {"vendor", "node_modules"} \/ Head(Spell(n)) \in {".", "_"}
Live(k) == ~\E i \in 1..Len(k[1]) : SkipNameProp(k[1][i])
Templs  == {k \in DOMAIN F0 : k[2] \in TemplNames /\ Live(k)}        \* template FILES of the tree the user named
Sib(k)  == <<k[1], SibOf(k[2])>>
LazySkipped(k) == flags.lazy /\ Sib(k) \in DOMAIN F0 /\ F0[Sib(k)].m > F0[k].m      \* -lazy: a newer sibling is trusted
Attempted(k)   == ~LazySkipped(k)
Generated(k)   == Attempted(k) /\ F0[k].c = "good"
Fails(k)       == Attempted(k) /\ F0[k].c \in {"unparsable", "badgo"}
Orphans == {k \in DOMAIN F0 : k[2] \in GenNames /\ Live(k) /\ <<k[1], TemplOf(k[2])>> \notin DOMAIN F0}

\* the tree the first run must leave behind
Expected1(k) == IF \E t \in Templs : Generated(t) /\ k = Sib(t) THEN "gen"
                ELSE IF k \in Orphans /\ ~flags.keep THEN "absent"
                ELSE IF k \in DOMAIN F0 THEN "untouched" ELSE "absent"
AllKeys == DOMAIN F0 \cup {Sib(t) : t \in Templs}
Holds(fsys, k) == CASE Expected1(k) = "gen"       -> k \in DOMAIN fsys /\ fsys[k].c = GenContent
                    [] Expected1(k) = "absent"    -> k \notin DOMAIN fsys
                    [] Expected1(k) = "untouched" -> k \in DOMAIN fsys /\ fsys[k] = F0[k]

\* every accepted template has its own _templ.go NEXT TO IT, and no two templates share a target
TargetNextToSource == \A t \in Templs : Target(t) = Sib(t)
TargetInjective    == \A t1, t2 \in Templs : t1 # t2 => Target(t1) # Target(t2)

\* the first run has just terminated (the second run, if any, starts from here)
AfterRun1 == run = 1 /\ mpc = "done"
Fs1 == fs

SiblingEqualsSoloGeneration ==
    (AfterRun1 /\ ~panic) => \A t \in Templs : Generated(t) => (Sib(t) \in DOMAIN Fs1 /\ Fs1[Sib(t)].c = GenContent)
OrphansGoneUnlessKept ==
    (AfterRun1 /\ ~panic) => \A o \in Orphans : IF flags.keep THEN (o \in DOMAIN Fs1 /\ Fs1[o] = F0[o]) ELSE o \notin DOMAIN Fs1
NothingElseTouched ==
    (AfterRun1 /\ ~panic) => /\ DOMAIN Fs1 \subseteq AllKeys
                             /\ \A k \in AllKeys : Holds(Fs1, k)
ExitStatusIffSomeFileFailed ==
    (AfterRun1 /\ ~panic) => LET n == Cardinality({t \in Templs : Fails(t)})
                             IN  errorCount = n /\ (status = "fail" <=> n > 0)
\* a failing file does not stop the others: implied by SiblingEqualsSoloGeneration, stated separately
FailureIsolated ==
    (AfterRun1 /\ ~panic /\ \E t \in Templs : Fails(t)) =>
        \A t \in Templs : Generated(t) => (Sib(t) \in DOMAIN Fs1 /\ Fs1[Sib(t)].c = GenContent)
SecondRunChangesNothing ==
    (TwoRuns /\ run = 2 /\ mpc = "done" /\ ~panic) => /\ Contents(fs) = Contents(fs1)
                                                      /\ status = st1.status /\ errorCount = st1.errors

(* protocol invariants *)
Active == {i \in 1..Len(evs) : wk[i].pc \notin {"idle", "done"}}
AtMostWWorkers == Cardinality(Active) <= W /\ sem = Cardinality(Active) /\ sem <= W
Pending(i) == dpc = "acquire" /\ dcur = i                     \* received by the dispatcher, waiting for a slot
EachEventOnce  == /\ \A i \in 1..Len(evs) : (i < nextev /\ ~Pending(i)) => wk[i].pc # "idle"
                  /\ \A i \in 1..Len(evs) : (i >= nextev \/ Pending(i)) => wk[i].pc = "idle"
                  /\ mpc = "done" => \A i \in 1..Len(evs) : wk[i].pc = "done"       \* nothing is lost, nothing is still running
NoPanic    == ~panic
NoDataRace == ~race
WaitGroupOK == wg >= 0 /\ wg >= Cardinality(Active)
TypeOK == /\ run \in {1, 2} /\ sem \in 0..W /\ nextev \in 1..(Len(evs) + 1)
          /\ status \in {"running", "ok", "fail"}

View == vars
Emit == IF EmitCases /\ lbl'.op = "case" THEN PrintT(<<"CASE", ToJson(lbl')>>) ELSE TRUE
=============================================================================
