\* C12 emission C: every edge of the once-handle graph (one context, every mode).
CONSTANTS
  Ctxs <- Ctx1
  Modes = {"plain", "mw", "fresh"}
  Scripts = {"s1"}
  Classes = {"k1"}
  BlockHandles = {"h1", "h2"}
  ZeroHandles = {"z1", "z2"}
  FixedHandles = {"g1"}
  RegSeq <- RegK1
  OnSeqs <- OnSeqsCore
  ClassExprs <- ClassExprsCore
  Repaired = {}
  Variant = "asCoded"
  NonceCtxs = {}
  MaxNonces = 0
  MaxSteps = 99
  EmitEdges = TRUE
INIT Init
NEXT Next
VIEW View
ACTION_CONSTRAINT Emit
INVARIANTS TypeOK RegistryMatchesDocument
PROPERTIES ViolationsAreTagged StylesheetServesRegistered ContextsIndependent NonceKeepsRegistry
CHECK_DEADLOCK FALSE
