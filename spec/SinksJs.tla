------------------------------ MODULE SinksJs ------------------------------
(* C03 -- Go values placed into JavaScript arrive as data only.

   Closed product automaton per JavaScript position:
        input symbol (chosen nondeterministically, NOT stored)
          -> escaper chain of the position, as coded (per-symbol transducers of JsLex.tla)
          -> HTML consumer (script data: must never see `</script` nor `<!--`;  on* attribute: double-quoted
             value with character-reference decoding)
          -> JavaScript lexer (string / template literal)
   The state holds no input, so TLC's fixpoint covers string values of every length.

   Positions (what the generator/runtime do there):
     Bare      <script> x = {{ v }}            ScriptContentOutsideStringLiteral: json.Marshal
     InSQ/InDQ/InTpl   '{{ s }}' "{{ s }}" `{{ s }}`   ScriptContentInsideStringLiteral, string: replace(s, table)
     InSQj/InDQj/InTplj  same, non-string value:  replace(json.Marshal(v), table); the literal holds the JSON text
     OnAttr    onclick={ fn(v) }               SafeScript: EscapeString(json.Marshal(v)) inside a "..." attribute
     Inline    @fn(v) / JSFuncCall as component   SafeScriptInline: json.Marshal in <script>
     JsonBody  templ.JSONScript                json.Encoder.Encode in <script type="application/json">
   Structured values (slices/maps/structs) differ from strings only by punctuation that encoding/json
   writes itself; their leaves go through the same per-symbol tables. They are covered by the binding
   (TLC-chosen shapes and leaves replayed on the real code), the closed automaton covers string leaves. *)
EXTENDS JsLex, Json

CONSTANTS StrVariant,    \* "pinned" | "dollar" | negative: "nolt" "nobsl" "nobacktick"
          JsonVariant,   \* "std" | negative: "nohtml"
          HtmlVariant,   \* "std" | negative: "none"
          Positions,     \* subset of AllPositions explored
          EmitEdges

VARIABLES pos, phase, cs, decok, lbl
vars == <<pos, phase, cs, decok>>

AllPositions == {"Bare", "InSQ", "InDQ", "InTpl", "InSQj", "InDQj", "InTplj", "OnAttr", "Inline", "JsonBody"}

PosDef(p) ==
    CASE p \in {"Bare", "Inline", "JsonBody"} -> [stages |-> <<"json">>, html |-> "sd", mode |-> "top", wrap |-> TRUE, expect |-> "input"]
      [] p = "InSQ"   -> [stages |-> <<"jsstr">>, html |-> "sd", mode |-> "sq",  wrap |-> FALSE, expect |-> "input"]
      [] p = "InDQ"   -> [stages |-> <<"jsstr">>, html |-> "sd", mode |-> "dq",  wrap |-> FALSE, expect |-> "input"]
      [] p = "InTpl"  -> [stages |-> <<"jsstr">>, html |-> "sd", mode |-> "tpl", wrap |-> FALSE, expect |-> "input"]
      [] p = "InSQj"  -> [stages |-> <<"json", "jsstr">>, html |-> "sd", mode |-> "sq",  wrap |-> TRUE, expect |-> "json"]
      [] p = "InDQj"  -> [stages |-> <<"json", "jsstr">>, html |-> "sd", mode |-> "dq",  wrap |-> TRUE, expect |-> "json"]
      [] p = "InTplj" -> [stages |-> <<"json", "jsstr">>, html |-> "sd", mode |-> "tpl", wrap |-> TRUE, expect |-> "json"]
      [] p = "OnAttr" -> [stages |-> <<"json", "html">>, html |-> "attr", mode |-> "top", wrap |-> TRUE, expect |-> "input"]

Stage(sv, name, c) == CASE name = "json" -> JsJsonV(JsonVariant, c)
                        [] name = "jsstr" -> JsStrV(sv, c)
                        [] name = "html" -> JsHtmlV(HtmlVariant, c)
RECURSIVE ChainV(_, _, _)
ChainV(sv, stages, s) == IF stages = <<>> THEN s
                         ELSE ChainV(sv, Tail(stages), JsMap(LAMBDA x : Stage(sv, Head(stages), x), s))
EncodeV(sv, p, s) == ChainV(sv, PosDef(p).stages, s)
Encode(p, s) == EncodeV(StrVariant, p, s)
\* the quote json.Marshal puts around a string goes through the stages after "json"
EncodeQuoteV(sv, p) == ChainV(sv, Tail(PosDef(p).stages), <<DQ>>)
EncodeQuote(p) == EncodeQuoteV(StrVariant, p)
\* the mode the JS lexer is in while the dynamic text is being consumed
InnerMode(p) == IF PosDef(p).mode = "top" THEN "dq" ELSE PosDef(p).mode

-----------------------------------------------------------------------------
(* consumer: [h, cr, j]; one raw output symbol at a time *)
CsInit(p) == [h |-> <<>>, cr |-> FALSE,
              j |-> IF PosDef(p).mode = "top" THEN JsTop ELSE JsLit(PosDef(p).mode)]

RECURSIVE JsRun(_, _)
JsRun(j, s) == IF s = <<>> THEN [j |-> j, d |-> <<>>]
               ELSE LET a == JsStep(j, Head(s))
                        b == JsRun(a.j, Tail(s))
                    IN  [j |-> b.j, d |-> a.d \o b.d]

\* returns the new consumer state, d = the cooked characters of literals, t = the characters the JS engine receives
ConsumeSym(p, c0, s) ==
    \* HTML input-stream preprocessing: CR and CRLF become LF; U+0000 in script data becomes U+FFFD
    IF s = "LF" /\ c0.cr THEN [cs |-> [c0 EXCEPT !.cr = FALSE], d |-> <<>>, t |-> <<>>]
    ELSE LET c == IF s = "CR" THEN "LF" ELSE IF s = "NUL" THEN "FFFD" ELSE s
             crn == (s = "CR")
         IN IF PosDef(p).html = "sd" THEN
                LET h2 == JsSDStep(c0.h, c)
                    r == IF c0.h = <<"END">> THEN [j |-> c0.j, d |-> <<>>] ELSE JsRun(c0.j, <<c>>)
                IN  [cs |-> [h |-> h2, cr |-> crn, j |-> r.j], d |-> r.d, t |-> IF c0.h = <<"END">> THEN <<>> ELSE <<c>>]
            ELSE
                LET a == JsAttrStep(c0.h, c)
                    r == JsRun(c0.j, a.out)
                IN  [cs |-> [h |-> a.q, cr |-> crn, j |-> r.j], d |-> r.d, t |-> a.out]

RECURSIVE Consume(_, _, _)
\* top: the JS lexer was at top level (outside every literal) after one of the symbols
Consume(p, c0, s) == IF s = <<>> THEN [cs |-> c0, d |-> <<>>, t |-> <<>>, top |-> FALSE]
                     ELSE LET a == ConsumeSym(p, c0, Head(s))
                              b == Consume(p, a.cs, Tail(s))
                          IN  [cs |-> b.cs, d |-> a.d \o b.d, t |-> a.t \o b.t, top |-> (a.cs.j.m = "top" \/ b.top)]

NormSeq(s) == [i \in 1..Len(s) |-> JsNorm(s[i])]
Expected(p, c) == IF PosDef(p).expect = "json" THEN NormSeq(JsJsonV(JsonVariant, c)) ELSE <<JsNorm(c)>>

-----------------------------------------------------------------------------
Init == /\ pos \in Positions
        /\ phase = "pre"
        /\ cs = CsInit(pos)
        /\ decok = TRUE
        /\ lbl = [op |-> "init"]

\* the encoder's opening quote (positions where json.Marshal supplies it)
Start == /\ phase = "pre"
         /\ LET out == IF PosDef(pos).wrap THEN EncodeQuote(pos) ELSE <<>>
                r == Consume(pos, cs, out)
                exp == IF PosDef(pos).wrap /\ PosDef(pos).mode # "top" THEN <<DQ>> ELSE <<>>
            IN /\ cs' = r.cs
               /\ decok' = (NormSeq(r.d) = exp)
               /\ lbl' = [op |-> "start", sym |-> "", out |-> out, exp |-> exp]
         /\ phase' = "in"
         /\ pos' = pos

Feed(c) == /\ phase = "in"
           /\ LET out == Encode(pos, <<c>>)
                  r == Consume(pos, cs, out)
                  exp == Expected(pos, c)
              IN /\ cs' = r.cs
                 /\ decok' = (decok /\ NormSeq(r.d) = exp)
                 /\ lbl' = [op |-> "feed", sym |-> c, out |-> out, exp |-> exp]
           /\ UNCHANGED <<pos, phase>>

\* the closing quote: the encoder's (wrap) and/or the author's
Close == /\ phase = "in"
         /\ LET q1 == IF PosDef(pos).wrap THEN EncodeQuote(pos) ELSE <<>>
                q2 == IF PosDef(pos).mode # "top" THEN <<JsQuoteOf(PosDef(pos).mode)>> ELSE <<>>
                r == Consume(pos, cs, q1 \o q2)
                exp == IF PosDef(pos).wrap /\ PosDef(pos).mode # "top" THEN <<DQ>> ELSE <<>>
            IN /\ cs' = r.cs
               /\ decok' = (decok /\ NormSeq(r.d) = exp)
               /\ lbl' = [op |-> "close", sym |-> "", out |-> q1 \o q2, exp |-> exp]
         /\ phase' = "closed"
         /\ pos' = pos

\* the static text the generator/runtime write after the value: `)` and the end of the element / attribute
Finish == /\ phase = "closed"
          /\ LET out == IF PosDef(pos).html = "sd" THEN <<")">> \o SDEndTag ELSE <<")", DQ>>
                 r == Consume(pos, cs, out)
             IN /\ cs' = r.cs
                /\ lbl' = [op |-> "finish", sym |-> "", out |-> out, exp |-> <<>>]
          /\ phase' = "done"
          /\ UNCHANGED <<pos, decok>>

Next == Start \/ (\E c \in JsSym : Feed(c)) \/ Close \/ Finish
Spec == Init /\ [][Next]_vars

-----------------------------------------------------------------------------
(* C03 invariants *)
TypeOK == /\ pos \in AllPositions
          /\ phase \in {"pre", "in", "closed", "done"}
          /\ decok \in BOOLEAN

\* the value cannot end the script element / the attribute
StaysInScript == phase \in {"pre", "in", "closed"} => cs.h # <<"END">>
\* ... nor open an HTML comment (script data escaped states)
NoHtmlComment == cs.h # <<"ESC">>
\* ... nor end the string literal it is in, nor make it unlexable
StaysInLiteral == /\ ~(cs.j.m \in {"UNTERM", "BADESC"})
                  /\ phase = "in" => (cs.j.m = InnerMode(pos) \/ (InnerMode(pos) = "tpl" /\ cs.j.m \in {"tpl$", "INTERP"}))
                  /\ phase = "closed" => cs.j.m = "top"
\* ... nor open a template-literal interpolation
NoInterpolation == cs.j.m # "INTERP"
\* the cooked literal equals the input (the JSON text for a non-string value inside a literal)
DecodesToInput == decok
\* after every complete Feed no tag prefix / character reference / newline fix-up is pending
NeutralAfterFeed == phase = "in" => cs.h = <<>> /\ ~cs.cr
\* the generator's own terminator ends the element / attribute
SuffixTerminates == phase = "done" => cs.h = <<"END">>

(* The clauses with the one failure the pinned table is known to admit factored out (finding
   JsStr.NoDollarEntry.InTemplate): once a template-literal position has been driven into an
   interpolation, nothing more is claimed of it. Passing these shows that the interpolation is the ONLY
   way the pinned model breaks the property.                                                      *)
KnownInterp == pos \in {"InTpl", "InTplj"} /\ cs.j.m = "INTERP"
StaysInLiteralBut == KnownInterp \/ StaysInLiteral
DecodesToInputBut == KnownInterp \/ DecodesToInput
NoInterpolationBut == KnownInterp \/ NoInterpolation

-----------------------------------------------------------------------------
View == vars
Emit == IF EmitEdges
        THEN PrintT(<<"EDGE", ToJson([pos |-> pos, from |-> phase, lbl |-> lbl', to |-> phase',
                                      h |-> cs'.h, jm |-> cs'.j.m, decok |-> decok',
                                      kind |-> IF lbl'.op = "feed" THEN JsKind(lbl'.out, lbl'.sym) ELSE ""])>>)
        ELSE TRUE
EmitSyms == PrintT(<<"SYMS", ToJson([ranges |-> JsClassRanges, syms |-> JsSym])>>)
=============================================================================
