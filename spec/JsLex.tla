------------------------------- MODULE JsLex -------------------------------
(* C03 -- consumer automata and escaper tables for Go values placed into JavaScript.

   Self-contained (does not depend on Chars.tla / HtmlTok.tla): symbols are one-character strings
   for the ASCII characters that matter to an escaper, the HTML tokenizer or the JS lexer, and
   upper-case names for classes. A class is represented in the model by its canonical member; the
   harness checks per-symbol TABLE CONFORMANCE of the real escapers over every Unicode scalar value
   and every invalid byte, which is what lets the canonical member stand for the class.

     JsSym            the alphabet
     JsStr*           runtime/scriptelement.go: replace() with lowUnicodeReplacementTable +
                      jsStrReplacementTable + the two hard-coded U+2028/9 cases, as a per-symbol table
     JsJsonEsc        encoding/json string escaping with HTML escaping on (Go 1.23)
     JsHtmlEsc        html.EscapeString
     JsSDStep         WHATWG script-data tokenizer reduced to what ends / changes the element:
                      `</script` (case-insensitive) and `<!--` (enters the escaped states)
     JsAttrStep       double-quoted attribute value with character-reference decoding
     JsStep           ECMAScript string / template literal lexing (cooked value)              *)
EXTENDS Integers, Sequences, TLC

DQ  == "\""
BSL == "\\"

JsHexDigits == {"0","1","2","3","4","5","6","7","8","9","a","b","c","d","e","f"}
(* lower-case letters: hex letters, the letters of "script", of the escapes, of the entity names;
   "z" = every other lower-case letter. Upper case: letters of SCRIPT, "A" = other upper-case hex
   letters (A B D E F), "Z" = every other upper-case letter.                                   *)
JsLowerLetters == {"a","b","c","d","e","f","g","i","l","m","n","o","p","q","r","s","t","u","v","x","z"}
JsUpperLetters == {"A","C","I","P","R","S","T","Z"}
JsDigits == {"0","1","2","3","4","5","6","7","8","9"}
JsPunct == {DQ, "'", "`", BSL, "/", "<", ">", "&", "+", "$", "{", "}", "!", "-", "#", ";", "=",
            "(", ")", ",", ":", "[", "]", ".", " ", "PUNCT"}       \* PUNCT = % * ? @ ^ _ | ~
JsCtl == {"NUL", "C0", "BS", "TAB", "LF", "VT", "FF", "CR", "DEL"}  \* C0 = U+0001..7, U+000E..1F
JsNonAscii == {"C1", "LS", "PS", "FFFD", "NA", "BAD"}               \* NA = any other scalar >= U+00A0; BAD = invalid byte
JsSym == JsLowerLetters \cup JsUpperLetters \cup JsDigits \cup JsPunct \cup JsCtl \cup JsNonAscii

JsLower(c) == CASE c = "A" -> "a" [] c = "C" -> "c" [] c = "I" -> "i" [] c = "P" -> "p"
                [] c = "R" -> "r" [] c = "S" -> "s" [] c = "T" -> "t" [] c = "Z" -> "z" [] OTHER -> c
JsIsHex(c) == JsLower(c) \in JsHexDigits
JsIsAlnum(c) == c \in JsLowerLetters \cup JsUpperLetters \cup JsDigits

RECURSIVE JsFlat(_)
JsFlat(ss) == IF ss = <<>> THEN <<>> ELSE Head(ss) \o JsFlat(Tail(ss))
JsMap(F(_), s) == JsFlat([i \in 1..Len(s) |-> F(s[i])])

U4(a, b, c, d) == <<BSL, "u", a, b, c, d>>

-----------------------------------------------------------------------------
(* Escapers as per-symbol tables. kind: "fixed" the listed output; "self" the character itself;
   "hex" `\u` + four lower-case hex digits of the character (class C0).                        *)

\* lowUnicodeReplacementTable, then jsStrReplacementTable, then U+2028/9, else unchanged -- as coded at the pin.
JsStrPinned(c) ==
    CASE c = "NUL" -> U4("0","0","0","0")
      [] c = "C0"  -> U4("0","0","0","1")
      [] c = "BS"  -> U4("0","0","0","8")
      [] c = "TAB" -> <<BSL, "t">>
      [] c = "LF"  -> <<BSL, "n">>
      [] c = "VT"  -> U4("0","0","0","b")
      [] c = "FF"  -> <<BSL, "f">>
      [] c = "CR"  -> <<BSL, "r">>
      [] c = DQ    -> U4("0","0","2","2")
      [] c = "`"   -> U4("0","0","6","0")
      [] c = "&"   -> U4("0","0","2","6")
      [] c = "'"   -> U4("0","0","2","7")
      [] c = "+"   -> U4("0","0","2","b")
      [] c = "/"   -> <<BSL, "/">>
      [] c = "<"   -> U4("0","0","3","c")
      [] c = ">"   -> U4("0","0","3","e")
      [] c = BSL   -> <<BSL, BSL>>
      [] c = "LS"  -> U4("2","0","2","8")
      [] c = "PS"  -> U4("2","0","2","9")
      [] OTHER     -> <<c>>
(* There is NO entry for "$" (nor "{"): inside a template literal `${` survives -- see SinksJs.   *)

\* Variants: "pinned" as above; "dollar" = proposed repair ('$' -> backslash u0024); negative variants
\* (plausible bugs, on top of "dollar"): "nolt" ('<' entry deleted), "nobsl" (backslash entry deleted), "nobacktick".
JsStrV(variant, c) ==
    CASE variant # "pinned" /\ c = "$" -> U4("0","0","2","4")
      [] variant = "nolt" /\ c = "<" -> <<c>>
      [] variant = "nobsl" /\ c = BSL -> <<c>>
      [] variant = "nobacktick" /\ c = "`" -> <<c>>
      [] OTHER -> JsStrPinned(c)

JsJsonEsc(c) ==
    CASE c = DQ    -> <<BSL, DQ>>
      [] c = BSL   -> <<BSL, BSL>>
      [] c = "BS"  -> <<BSL, "b">>
      [] c = "FF"  -> <<BSL, "f">>
      [] c = "LF"  -> <<BSL, "n">>
      [] c = "CR"  -> <<BSL, "r">>
      [] c = "TAB" -> <<BSL, "t">>
      [] c = "NUL" -> U4("0","0","0","0")
      [] c = "C0"  -> U4("0","0","0","1")
      [] c = "VT"  -> U4("0","0","0","b")
      [] c = "<"   -> U4("0","0","3","c")
      [] c = ">"   -> U4("0","0","3","e")
      [] c = "&"   -> U4("0","0","2","6")
      [] c = "LS"  -> U4("2","0","2","8")
      [] c = "PS"  -> U4("2","0","2","9")
      [] c = "BAD" -> U4("f","f","f","d")
      [] OTHER     -> <<c>>
\* negative variant "nohtml": json.Encoder.SetEscapeHTML(false)
JsJsonV(variant, c) == IF variant = "nohtml" /\ c \in {"<", ">", "&"} THEN <<c>> ELSE JsJsonEsc(c)

JsHtmlEsc(c) ==
    CASE c = "<" -> <<"&","l","t",";">>
      [] c = ">" -> <<"&","g","t",";">>
      [] c = "&" -> <<"&","a","m","p",";">>
      [] c = "'" -> <<"&","#","3","9",";">>
      [] c = DQ  -> <<"&","#","3","4",";">>
      [] OTHER   -> <<c>>
\* negative variant "none": SafeScript without EscapeString
JsHtmlV(variant, c) == IF variant = "none" THEN <<c>> ELSE JsHtmlEsc(c)

JsKind(out, c) == IF out = <<c>> THEN "self"
                  ELSE IF c = "C0" /\ Len(out) = 6 THEN "hex" ELSE "fixed"

-----------------------------------------------------------------------------
(* HTML script data. State = the part of `</script` or `<!--` matched so far (a sequence),
   <<"END">> once `</script` has been seen, <<"ESC">> once `<!--` has been seen (both sticky).  *)
SDEndTag == <<"<", "/", "s", "c", "r", "i", "p", "t">>
SDComment == <<"<", "!", "-", "-">>
SDIsPrefix(p, w) == Len(p) <= Len(w) /\ \A i \in 1..Len(p) : p[i] = w[i]
JsSDStep(q, c) ==
    IF q \in {<<"END">>, <<"ESC">>} THEN q
    ELSE LET n == Append(q, JsLower(c)) IN
         IF n = SDEndTag THEN <<"END">>
         ELSE IF n = SDComment THEN <<"ESC">>
         ELSE IF SDIsPrefix(n, SDEndTag) \/ SDIsPrefix(n, SDComment) THEN n
         ELSE IF c = "<" THEN <<"<">> ELSE <<>>          \* mismatch: the character is reconsumed in script data

(* Double-quoted attribute value. State: <<>> in the value, <<"&", ...>> inside a character
   reference, <<"END">> after the closing quote (sticky). Returns [q, out]: out = decoded
   characters handed to the attribute's consumer.                                              *)
AttrNamed == (<<"a","m","p">> :> "&") @@ (<<"l","t">> :> "<") @@ (<<"g","t">> :> ">") @@
             (<<"q","u","o","t">> :> DQ) @@ (<<"a","p","o","s">> :> "'") @@
             (<<"#","3","4">> :> DQ) @@ (<<"#","3","9">> :> "'") @@ (<<"#","3","8">> :> "&") @@
             (<<"#","6","0">> :> "<") @@ (<<"#","6","2">> :> ">") @@ (<<"#","9","2">> :> BSL) @@
             (<<"#","9","6">> :> "`") @@ (<<"#","3","6">> :> "$")
AttrLegacy == {<<"a","m","p">>, <<"l","t">>, <<"g","t">>, <<"q","u","o","t">>}   \* decoded without ';' (not before '=' / alnum)
AttrMaxRef == 5
RECURSIVE JsAttrStep(_, _)
JsAttrStep(q, c) ==
    IF q = <<"END">> THEN [q |-> q, out |-> <<>>]
    ELSE IF q = <<>> THEN
         IF c = DQ THEN [q |-> <<"END">>, out |-> <<>>]
         ELSE IF c = "&" THEN [q |-> <<"&">>, out |-> <<>>]
         ELSE [q |-> <<>>, out |-> <<c>>]
    ELSE LET name == Tail(q) IN
         IF c = ";" THEN
             IF name \in DOMAIN AttrNamed THEN [q |-> <<>>, out |-> <<AttrNamed[name]>>]
             ELSE [q |-> <<>>, out |-> q \o <<c>>]
         ELSE IF (JsIsAlnum(c) \/ (c = "#" /\ name = <<>>)) /\ Len(name) < AttrMaxRef THEN
             [q |-> Append(q, c), out |-> <<>>]
         ELSE \* the reference ends without ';'
             LET flushed == IF name \in AttrLegacy /\ c # "=" /\ ~JsIsAlnum(c) THEN <<AttrNamed[name]>>
                            ELSE IF Len(name) > 1 /\ name[1] = "#" /\ name \in DOMAIN AttrNamed /\ ~JsIsAlnum(c)
                                 THEN <<AttrNamed[name]>>       \* numeric reference without ';' (parse error, still decoded)
                                 ELSE q
                 r == JsAttrStep(<<>>, c)
             IN  [q |-> r.q, out |-> flushed \o r.out]

(* class table: single source of truth for the harness (code point ranges, inclusive) *)
JsClassRanges == <<
   [sym |-> "z", lo |-> 104, hi |-> 104], [sym |-> "z", lo |-> 106, hi |-> 107], [sym |-> "z", lo |-> 119, hi |-> 119],
   [sym |-> "z", lo |-> 121, hi |-> 122],
   [sym |-> "A", lo |-> 65, hi |-> 66], [sym |-> "A", lo |-> 68, hi |-> 70],
   [sym |-> "Z", lo |-> 71, hi |-> 72], [sym |-> "Z", lo |-> 74, hi |-> 79], [sym |-> "Z", lo |-> 81, hi |-> 81],
   [sym |-> "Z", lo |-> 85, hi |-> 90],
   [sym |-> "PUNCT", lo |-> 37, hi |-> 37], [sym |-> "PUNCT", lo |-> 42, hi |-> 42], [sym |-> "PUNCT", lo |-> 63, hi |-> 64],
   [sym |-> "PUNCT", lo |-> 94, hi |-> 95], [sym |-> "PUNCT", lo |-> 124, hi |-> 124], [sym |-> "PUNCT", lo |-> 126, hi |-> 126],
   [sym |-> "NUL", lo |-> 0, hi |-> 0], [sym |-> "C0", lo |-> 1, hi |-> 7], [sym |-> "BS", lo |-> 8, hi |-> 8],
   [sym |-> "TAB", lo |-> 9, hi |-> 9], [sym |-> "LF", lo |-> 10, hi |-> 10], [sym |-> "VT", lo |-> 11, hi |-> 11],
   [sym |-> "FF", lo |-> 12, hi |-> 12], [sym |-> "CR", lo |-> 13, hi |-> 13], [sym |-> "C0", lo |-> 14, hi |-> 31],
   [sym |-> "DEL", lo |-> 127, hi |-> 127], [sym |-> "C1", lo |-> 128, hi |-> 159],
   [sym |-> "NA", lo |-> 160, hi |-> 8231], [sym |-> "LS", lo |-> 8232, hi |-> 8232], [sym |-> "PS", lo |-> 8233, hi |-> 8233],
   [sym |-> "NA", lo |-> 8234, hi |-> 55295], [sym |-> "NA", lo |-> 57344, hi |-> 65532],
   [sym |-> "FFFD", lo |-> 65533, hi |-> 65533], [sym |-> "NA", lo |-> 65534, hi |-> 1114111] >>
\* every other ASCII character is its own symbol; "BAD" = a byte that is not part of valid UTF-8


(* code point -> symbol: a class range if one contains it, else the ASCII character itself, else NA
   (only surrogates are in no range) *)
JsAscii == <<" ", "!", DQ, "#", "$", "%", "&", "'", "(", ")", "*", "+", ",", "-", ".", "/", "0", "1", "2", "3", "4", "5", "6", "7", "8", "9", ":", ";", "<", "=", ">", "?", "@", "A", "B", "C", "D", "E", "F", "G", "H", "I", "J", "K", "L", "M", "N", "O", "P", "Q", "R", "S", "T", "U", "V", "W", "X", "Y", "Z", "[", BSL, "]", "^", "_", "`", "a", "b", "c", "d", "e", "f", "g", "h", "i", "j", "k", "l", "m", "n", "o", "p", "q", "r", "s", "t", "u", "v", "w", "x", "y", "z", "{", "|", "}", "~">>     \* U+0020 .. U+007E
JsSymOfCode(n) ==
    IF \E i \in 1..Len(JsClassRanges) : JsClassRanges[i].lo <= n /\ n <= JsClassRanges[i].hi
    THEN JsClassRanges[CHOOSE i \in 1..Len(JsClassRanges) : JsClassRanges[i].lo <= n /\ n <= JsClassRanges[i].hi].sym
    ELSE IF 32 <= n /\ n <= 126 THEN JsAscii[n - 31] ELSE "NA"
JsHexVal == ("0" :> 0) @@ ("1" :> 1) @@ ("2" :> 2) @@ ("3" :> 3) @@ ("4" :> 4) @@ ("5" :> 5) @@ ("6" :> 6) @@ ("7" :> 7) @@
            ("8" :> 8) @@ ("9" :> 9) @@ ("a" :> 10) @@ ("b" :> 11) @@ ("c" :> 12) @@ ("d" :> 13) @@ ("e" :> 14) @@ ("f" :> 15)
RECURSIVE JsHexNum(_)
JsHexNum(acc) == IF acc = <<>> THEN 0 ELSE 16 * JsHexNum(SubSeq(acc, 1, Len(acc) - 1)) + JsHexVal[acc[Len(acc)]]

-----------------------------------------------------------------------------
(* ECMAScript literal lexing. State [m, lit, acc]:
     m    "top" | "sq" | "dq" | "tpl" | "tpl$" | "esc" | "u" | "x" | "uext" | errors "INTERP" "UNTERM" "BADESC"
     lit  the literal kind to return to after an escape ("-" at top level)
     acc  hex digits collected so far
   JsStep returns [j, d]: d = cooked characters produced.                                       *)
\* the symbol of the code point written in hex (more than 6 digits / beyond U+10FFFF: NA)
JsDecodeHex(acc) == LET n == JsHexNum(acc) IN IF n > 1114111 THEN "NA" ELSE JsSymOfCode(n)

JsTop == [m |-> "top", lit |-> "-", acc |-> <<>>]
JsLit(k) == [m |-> k, lit |-> k, acc |-> <<>>]
JsErr(e) == [m |-> e, lit |-> "-", acc |-> <<>>]
JsIsErr(j) == j.m \in {"INTERP", "UNTERM", "BADESC"}
JsQuoteOf(k) == CASE k = "sq" -> "'" [] k = "dq" -> DQ [] k = "tpl" -> "`" [] OTHER -> "-"

JsSimpleEsc == ("n" :> "LF") @@ ("t" :> "TAB") @@ ("r" :> "CR") @@ ("b" :> "BS") @@ ("f" :> "FF") @@
               ("v" :> "VT") @@ ("0" :> "NUL")       \* `\0` followed by a digit (legacy octal) is not distinguished

RECURSIVE JsStep(_, _)
JsStep(j, c) ==
    IF JsIsErr(j) THEN [j |-> j, d |-> <<>>]
    ELSE IF j.m = "top" THEN
        [j |-> CASE c = "'" -> JsLit("sq") [] c = DQ -> JsLit("dq") [] c = "`" -> JsLit("tpl") [] OTHER -> JsTop,
         d |-> <<>>]
    ELSE IF j.m \in {"sq", "dq"} THEN
        IF c = JsQuoteOf(j.m) THEN [j |-> JsTop, d |-> <<>>]
        ELSE IF c = BSL THEN [j |-> [m |-> "esc", lit |-> j.lit, acc |-> <<>>], d |-> <<>>]
        ELSE IF c \in {"LF", "CR"} THEN [j |-> JsErr("UNTERM"), d |-> <<>>]
        ELSE [j |-> j, d |-> <<c>>]                         \* U+2028/9 are legal in strings since ES2019
    ELSE IF j.m = "tpl" THEN
        IF c = "`" THEN [j |-> JsTop, d |-> <<>>]
        ELSE IF c = BSL THEN [j |-> [m |-> "esc", lit |-> "tpl", acc |-> <<>>], d |-> <<>>]
        ELSE IF c = "$" THEN [j |-> [m |-> "tpl$", lit |-> "tpl", acc |-> <<>>], d |-> <<"$">>]
        ELSE IF c = "CR" THEN [j |-> j, d |-> <<"LF">>]     \* template values normalise CR to LF
        ELSE [j |-> j, d |-> <<c>>]
    ELSE IF j.m = "tpl$" THEN
        IF c = "{" THEN [j |-> JsErr("INTERP"), d |-> <<>>] ELSE JsStep(JsLit("tpl"), c)
    ELSE IF j.m = "esc" THEN
        IF c = "u" THEN [j |-> [j EXCEPT !.m = "u"], d |-> <<>>]
        ELSE IF c = "x" THEN [j |-> [j EXCEPT !.m = "x"], d |-> <<>>]
        ELSE IF c \in DOMAIN JsSimpleEsc THEN [j |-> JsLit(j.lit), d |-> <<JsSimpleEsc[c]>>]
        ELSE IF c \in {"1","2","3","4","5","6","7","8","9"} THEN
             IF j.lit = "tpl" THEN [j |-> JsErr("BADESC"), d |-> <<>>]
             ELSE [j |-> JsLit(j.lit), d |-> <<IF c \in {"8","9"} THEN c ELSE "C0">>]   \* legacy octal (sloppy mode)
        ELSE IF c \in {"LF", "CR", "LS", "PS"} THEN [j |-> JsLit(j.lit), d |-> <<>>]   \* line continuation
        ELSE [j |-> JsLit(j.lit), d |-> <<c>>]
    ELSE IF j.m = "u" THEN
        IF c = "{" /\ j.acc = <<>> THEN [j |-> [j EXCEPT !.m = "uext"], d |-> <<>>]
        ELSE IF JsIsHex(c) THEN
             LET a == Append(j.acc, JsLower(c)) IN
             IF Len(a) = 4 THEN [j |-> JsLit(j.lit), d |-> <<JsDecodeHex(a)>>]
             ELSE [j |-> [j EXCEPT !.acc = a], d |-> <<>>]
        ELSE [j |-> JsErr("BADESC"), d |-> <<>>]
    ELSE IF j.m = "x" THEN
        IF JsIsHex(c) THEN
             LET a == Append(j.acc, JsLower(c)) IN
             IF Len(a) = 2 THEN [j |-> JsLit(j.lit), d |-> <<JsDecodeHex(a)>>]
             ELSE [j |-> [j EXCEPT !.acc = a], d |-> <<>>]
        ELSE [j |-> JsErr("BADESC"), d |-> <<>>]
    ELSE \* "uext": \u{h...}
        IF JsIsHex(c) /\ Len(j.acc) < 6 THEN [j |-> [j EXCEPT !.acc = Append(j.acc, JsLower(c))], d |-> <<>>]
        ELSE IF c = "}" /\ j.acc # <<>> THEN
             [j |-> JsLit(j.lit),
              d |-> <<JsDecodeHex(j.acc)>>]
        ELSE [j |-> JsErr("BADESC"), d |-> <<>>]

(* what a UTF-8 decoder makes of the symbol: an invalid byte arrives as U+FFFD *)
JsNorm(c) == IF c = "BAD" THEN "FFFD" ELSE c
=============================================================================
