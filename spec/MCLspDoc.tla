------------------------------ MODULE MCLspDoc ------------------------------
(* Model-checking instance of LspDoc: replacement texts of the C17 quantifier. *)
EXTENDS LspDoc
TextsDef == { <<>>, <<"a">>, <<"n">>, <<"a","n">>, <<"n","a">>, <<"a","n","a">>, <<"n","n">> }
=============================================================================
