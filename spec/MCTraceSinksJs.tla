--------------------------- MODULE MCTraceSinksJs ---------------------------
EXTENDS TraceSinksJs
PositionsDef == AllPositions
GenTokensDef == << <<"a">> >>
LeafTokensDef == << <<"a">> >>
KeyTokensDef == << <<"a">> >>
=============================================================================
