---------------------------- MODULE MCSinksHtml ----------------------------
(* Model-checking instances of SinksHtml (cfg files cannot hold functions). *)
EXTENDS SinksHtml
NoOverride  == <<>>                     \* html.EscapeString as written
NegOverride == (cLT :> <<cLT>>)         \* negative config: the escaper leaves "<" alone
=============================================================================
