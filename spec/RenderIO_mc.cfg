\* C10 MC+GEN: every program up to MaxOps ops x every fault plan, one render; terminal behaviours printed when Emit.
CONSTANTS
  Caps = {2}
  ProgSet <- AllProgs
  MaxOps = 3
  MaxDepth = 3
  LitSizes = {1, 3}
  ExprSizes = {1, 4}
  XKinds = {}
  HandKinds = {0, 1}
  SideKs = {0, 1, 3}
  LeafSizes = {2}
  Runs = 1
  Modes <- AllModes
  Pairs = TRUE
  SWs <- BothSW
  SameWriter = FALSE
  PoolAny = TRUE
  Bug = "none"
  Emit = FALSE
INIT Init
NEXT Next
VIEW View
INVARIANTS TypeOK Prefix NilMeansComplete FaultMeansError LaterRendersUnaffected NoCarryOver OneOwnerFlushes FailStop PrintCase
CHECK_DEADLOCK FALSE
