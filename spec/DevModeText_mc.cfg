\* C16 text file round trip, EscapeRule = quote (as coded)
CONSTANTS
  MaxLits = 2
  MaxLen = 2
  EscapeRule = "quote"
  EmitCases = TRUE
INIT Init
NEXT Next
VIEW View
ACTION_CONSTRAINT Emit
INVARIANTS TextRoundTrip
CHECK_DEADLOCK FALSE
