\* C11 emission: every terminal state (Finish edge) is printed for replay on the real templ.Handler.
CONSTANTS
  MaxK = 3
  MaxReq = 3
  Variant = "asCoded"
  EmitEdges = TRUE
INIT Init
NEXT Next
VIEW View
ACTION_CONSTRAINT Emit
INVARIANTS TypeOK AllOrNothing StreamedOnlyIfConfigured FailureIsReported NoDocumentAfterFailure AbortedSendsNothing UntouchedWhileRendering PooledBuffersAreEmpty StreamedAsDocumented
CHECK_DEADLOCK FALSE
