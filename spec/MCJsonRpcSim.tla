---------------------------- MODULE MCJsonRpcSim ----------------------------
(* Simulation instance of JsonRpc: whole behaviours (the labels of the actions taken) are printed when the
   system is settled, and replayed against the real conn -- the harness is the environment (callers'
   contexts, the peer) and steers the real goroutines through the hook points.  The id vocabularies of the
   peer (StrayIdSeq, PeerCallIdSeq: typed ids) are printed with every behaviour: a "stray" / "pcall" label
   names its id by index, and the harness puts exactly that id, with that JSON type, on the wire.        *)
EXTENDS JsonRpc
VARIABLES hist, cplan, sbudget
\* Cancel is enabled almost everywhere, so a uniform random walk would cancel every call early and never in
\* the windows that matter.  Each behaviour draws, with its initial state, a cancellation plan per caller
\* (weighted by repetition) and the number of stray responses (0..MaxStray) it may use:
\*   never   the call is not cancelled
\*   any     cancelled at an arbitrary point (in a random walk: early -- before or during the write)
\*   wait    cancelled while the call waits for its response
\*   lookup  cancelled exactly between the run loop's lookup (id found in pending) and its send on the reply
\*           channel -- the window the channel's buffer exists for; when it opens, the cancellation is the next step
PlanSeq == <<"never", "never", "never", "any", "any", "wait", "lookup", "lookup">>
Plan(c) == PlanSeq[cplan[c]]
SimInit == Init /\ hist = <<>> /\ cplan \in [Callers -> 1..Len(PlanSeq)] /\ sbudget \in 0..MaxStray
CancelOK(c) == CASE Plan(c) = "any"    -> TRUE
                 [] Plan(c) = "wait"   -> pc[c] = "wait"
                 [] Plan(c) = "lookup" -> rd.pc = "send" /\ rd.to = c
                 [] OTHER              -> FALSE
Forced == {c \in Callers : Plan(c) = "lookup" /\ rd.pc = "send" /\ rd.to = c /\ ~cancelled[c] /\ pc[c] # "done"}
SimNext == \E l \in Labels : /\ (Forced # {} => (l.a = "cancel" /\ l.w \in Forced))
                             /\ (l.a = "cancel" => CancelOK(l.w))
                             /\ Do(l)
                             /\ hist' = Append(hist, l)
                             /\ cplan' = cplan
                             /\ IF l.a = "stray" THEN sbudget > 0 /\ sbudget' = sbudget - 1 ELSE sbudget' = sbudget
\* nothing is in progress: every call has returned or waits for a response the peer has not sent
Settled == /\ \A c \in Callers : pc[c] = "done" \/ (pc[c] = "wait" /\ c \notin replied /\ ~cancelled[c])
           /\ \A n \in Notifiers : pc[n] = "done"
           /\ rd.pc = "read" /\ inq = <<>> /\ mu = None
ResultSeq == [c \in Callers |-> result[c]]
PrintHist == Settled => PrintT(<<"HIST", ToJson([hist |-> hist, result |-> ResultSeq, nc |-> NC, nn |-> NN,
                                                  strayIds |-> StrayIdSeq, pcallIds |-> PeerCallIdSeq])>>)
=============================================================================
