//go:build c06hook

package main

import (
	"sync"

	"github.com/a-h/parse"
	"github.com/a-h/templ/parser/v2"
)

// Built only when the repository under test carries hooks/C06-parser-loops.diff (parser.VerifLoopHook).

const hookPresent = true

type topEvent struct {
	Frame uint64
	Loop  string
	Index int
}

// noProgress is the panic value that aborts a parse whose loop came back to its top without consuming.
type noProgress struct {
	Loop  string
	Index int
}

type recorder struct {
	record bool
	last   map[uint64]int
	events []topEvent
}

var recorders sync.Map // *parse.Input -> *recorder

func init() {
	parser.VerifLoopHook = func(pi *parse.Input, loop string, frame uint64, index int) {
		v, ok := recorders.Load(pi)
		if !ok {
			return
		}
		r := v.(*recorder)
		if r.record && len(r.events) < 400000 {
			r.events = append(r.events, topEvent{frame, loop, index})
		}
		if l, seen := r.last[frame]; seen && index <= l {
			panic(&noProgress{Loop: loop, Index: index})
		}
		r.last[frame] = index
	}
}

func attach(pi *parse.Input, n int, record bool) *recorder {
	r := &recorder{record: record, last: map[uint64]int{}}
	recorders.Store(pi, r)
	return r
}

func detach(pi *parse.Input, r *recorder) []topEvent {
	recorders.Delete(pi)
	return r.events
}
