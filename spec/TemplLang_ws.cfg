\* Whitespace family: text / expression / inline+block element / void with every trailing and leading whitespace kind.
CONSTANTS
  MaxNodes = 3
  MaxDepth = 3
  Kinds = {"text", "expr", "el", "void"}
  InlineNames = {"span", "x-tag"}
  BlockNames = {"div"}
  VoidNames = {"img", "br", "wbr"}
  AttrChoices <- AttrChoicesNone
  WsChoices = {"", "h", "v"}
  Words = {"w1", "w3", "w4"}
  Exprs = {"E1", "E3"}
  Conds = {"C1", "C2"}
  Lists = {"L1"}
  EnvSeq <- EnvSeqOne
INIT Init
NEXT Next
VIEW View
INVARIANTS TypeOK MustOnlyBetweenInline DenotedDocumentsBalanced EmitProgram
CHECK_DEADLOCK FALSE
