\* C13 negative config: generated callees that do not clear the slot must be rejected.
CONSTANTS
  Kinds = {"c1", "c0", "c2", "fn", "onceA", "onceF", "flush", "join", "raw"}
  FirstKinds = {"c1", "c0", "c2", "fn", "onceA", "onceF", "flush", "join", "raw"}
  MaxNodes = 3
  MaxDepth = 3
  MaxOut = 120
  Repaired = {"OnceAgain", "OnceFirst", "Flush", "Join", "Raw", "Nop", "Script", "Json"}
  BlockFlushes = TRUE
  GenClears = FALSE
  EmitEdges = FALSE
INIT Init
NEXT Next
VIEW View
INVARIANTS TypeOK ImplEqualsIdeal
CHECK_DEADLOCK FALSE
