------------------------------- MODULE LspDoc -------------------------------
(* C17 -- the language server's copy of a document tracks the editor's buffer.

   Two layers over the same actions:
     doc    the EDITOR's buffer: a flat character sequence; an LSP content change is a splice
            between two clamped line/character positions (the reference semantics),
     lines  the SERVER's copy as cmd/templ/lspcmd/proxy/documentcontents.go keeps it: a list of
            lines mutated by normalize / isWholeDocument / Insert / Delete / Overwrite, transcribed
            operator by operator (0-based indices of the Go code are kept; TLA+ sequences are
            1-based, hence the +1 in the accessors).
   Property (C17): Join(lines) = doc after every action.
   Characters: "a" stands for any non-newline ASCII character, "n" for the newline.             *)
EXTENDS Integers, Sequences, TLC, Json

CONSTANTS MaxLen,        \* documents explored further have at most this many characters
          Texts,         \* replacement texts (sequences over {"a","n"})
          WholeDocRule,  \* "and" = isWholeDocument as coded after the fix; "or" = the defective original
          EmitEdges      \* TRUE: print every explored transition for replay against the real code

VARIABLES doc, lines, lbl
vars == <<doc, lines>>

Char == {"a", "n"}

-----------------------------------------------------------------------------
(* helpers on flat documents *)
RECURSIVE Split(_)
Split(s) == IF s = <<>> THEN << <<>> >>
            ELSE LET r == Split(Tail(s)) IN
                 IF Head(s) = "n" THEN << <<>> >> \o r
                 ELSE << <<Head(s)>> \o r[1] >> \o Tail(r)

RECURSIVE Join(_)
Join(ls) == IF Len(ls) = 1 THEN ls[1] ELSE ls[1] \o <<"n">> \o Join(Tail(ls))

Min(a, b) == IF a < b THEN a ELSE b

(* Reference: clamp a 0-based (line, character) position and turn it into an offset. *)
ClampPos(ls, l, c) == IF l >= Len(ls) THEN <<Len(ls) - 1, Len(ls[Len(ls)])>>
                      ELSE <<l, Min(c, Len(ls[l + 1]))>>
RECURSIVE LineStart(_, _)
LineStart(ls, l) == IF l = 0 THEN 0 ELSE LineStart(ls, l - 1) + Len(ls[l]) + 1
Off(d, l, c) == LET ls == Split(d)
                    p  == ClampPos(ls, l, c)
                IN  LineStart(ls, p[1]) + p[2]

RefSplice(d, sl, sc, el, ec, t) ==
    LET a == Off(d, sl, sc)
        b == Off(d, el, ec)
    IN  SubSeq(d, 1, a) \o t \o SubSeq(d, b + 1, Len(d))

-----------------------------------------------------------------------------
(* Implementation layer: documentcontents.go, one operator per Go function. *)
L(ls, i) == ls[i + 1]                       \* d.Lines[i]
Pre(s, k) == SubSeq(s, 1, k)                \* s[:k]
Suf(s, k) == SubSeq(s, k + 1, Len(s))       \* s[k:]
SetLine(ls, i, v) == [ls EXCEPT ![i + 1] = v]
SetElem(s, i, v) == [s EXCEPT ![i + 1] = v]

\* normalize(r): each clamp uses the fields already rewritten, in the order of the Go code
Normalize(ls, sl, sc, el, ec) ==
    LET n   == Len(ls)
        sl1 == IF sl >= n THEN n - 1 ELSE sl
        sc1 == IF sl >= n THEN Len(L(ls, sl1)) ELSE sc
        sc2 == IF sc1 > Len(L(ls, sl1)) THEN Len(L(ls, sl1)) ELSE sc1
        el1 == IF el >= n THEN n - 1 ELSE el
        ec1 == IF el >= n THEN Len(L(ls, el1)) ELSE ec
        ec2 == IF ec1 > Len(L(ls, el1)) THEN Len(L(ls, el1)) ELSE ec1
    IN  [sl |-> sl1, sc |-> sc2, el |-> el1, ec |-> ec2]

\* isWholeDocument(r) for a non-nil range. d.Len() returns (number of lines, length of last line).
IsWholeOr(ls, r)  == r.sl = 0 /\ r.sc = 0 /\ (r.el = Len(ls) \/ r.ec = Len(ls[Len(ls)]))      \* original
IsWholeAnd(ls, r) == r.sl = 0 /\ r.sc = 0 /\ (r.el = Len(ls) - 1 /\ r.ec = Len(ls[Len(ls)]))  \* repaired
IsWhole(ls, r) == IF WholeDocRule = "or" THEN IsWholeOr(ls, r) ELSE IsWholeAnd(ls, r)

InsertLines(ls, i, wl) == Pre(ls, i) \o wl \o Suf(ls, i)
DeleteLines(ls, i, j) == Pre(ls, i) \o Suf(ls, j)

ImplInsert(ls, line, col, wl) ==
    LET prefix == Pre(L(ls, line), col)
        suffix == Suf(L(ls, line), col)
        wl1 == SetElem(wl, 0, prefix \o wl[1])
        ls1 == SetLine(ls, line, wl1[1])
        ls2 == IF Len(wl1) > 1 THEN InsertLines(ls1, line + 1, Tail(wl1)) ELSE ls1
    IN  SetLine(ls2, line + Len(wl1) - 1, wl1[Len(wl1)] \o suffix)

ImplDelete(ls, fl, fc, tl, tc) ==
    LET prefix == Pre(L(ls, fl), fc)
        suffix == Suf(L(ls, tl), tc)
        ls1 == DeleteLines(ls, fl, fl + (tl - fl))
    IN  SetLine(ls1, fl, prefix \o suffix)

ImplOverwrite(ls, fl, fc, tl, tc, wl) ==
    LET suffix == Suf(L(ls, tl), tc)
        toLen == Len(L(ls, tl))
        ls1 == ImplDelete(ls, fl, fc, tl, toLen)
        wl1 == SetElem(wl, Len(wl) - 1, wl[Len(wl)] \o suffix)
    IN  ImplInsert(ls1, fl, fc, wl1)

\* Document.Apply(r, with) for a non-nil range; returns the new line list and the branch taken.
ImplApply(ls, sl, sc, el, ec, t) ==
    LET wl == Split(t)
        r  == Normalize(ls, sl, sc, el, ec)
        empty == r.el = r.sl /\ r.sc = r.ec
    IN  IF IsWhole(ls, r) THEN [lines |-> wl, branch |-> "whole"]
        ELSE IF empty /\ t # <<>> THEN [lines |-> ImplInsert(ls, r.sl, r.sc, wl), branch |-> "insert"]
        ELSE IF ~empty /\ t = <<>> THEN [lines |-> ImplDelete(ls, r.sl, r.sc, r.el, r.ec), branch |-> "delete"]
        ELSE IF ~empty /\ t # <<>> THEN [lines |-> ImplOverwrite(ls, r.sl, r.sc, r.el, r.ec, wl), branch |-> "overwrite"]
        ELSE [lines |-> ls, branch |-> "noop"]

-----------------------------------------------------------------------------
Coord == 0 .. (MaxLen + 1)
PosLE(sl, sc, el, ec) == sl < el \/ (sl = el /\ sc <= ec)

Init == /\ doc = <<>>
        /\ lines = << <<>> >>
        /\ lbl = [op |-> "init"]

\* didOpen / a content change without a range: the whole text is replaced
ReplaceAll(t) == /\ doc' = t
                 /\ lines' = Split(t)
                 /\ lbl' = [op |-> "replace", text |-> t, branch |-> "nil-range"]

\* an incremental content change
Edit(sl, sc, el, ec, t) ==
    /\ PosLE(sl, sc, el, ec)
    /\ LET r == ImplApply(lines, sl, sc, el, ec, t) IN
       /\ doc' = RefSplice(doc, sl, sc, el, ec, t)
       /\ lines' = r.lines
       /\ lbl' = [op |-> "edit", sl |-> sl, sc |-> sc, el |-> el, ec |-> ec, text |-> t, branch |-> r.branch,
                  a |-> Off(doc, sl, sc), b |-> Off(doc, el, ec),
                  \* attribution: would the original rule have treated this range as the whole document?
                  orwhole |-> IsWholeOr(lines, Normalize(lines, sl, sc, el, ec))]   \* splice offsets, for the concrete replay

Next == \/ \E t \in Texts : ReplaceAll(t)
        \/ \E sl, sc, el, ec \in Coord, t \in Texts : Edit(sl, sc, el, ec, t)

Spec == Init /\ [][Next]_vars

-----------------------------------------------------------------------------
(* properties *)
TypeOK == /\ doc \in Seq(Char)
          /\ Len(lines) >= 1

ServerTracksEditor == Join(lines) = doc          \* C17
LinesHaveNoNewline == \A i \in 1..Len(lines) : \A j \in 1..Len(lines[i]) : lines[i][j] # "n"
SplitJoin == Join(Split(doc)) = doc

(* exploration bound and edge emission *)
Bound == Len(doc) <= MaxLen
\* The bound guards the SOURCE state, so that every edit of every in-bound document is explored (and
\* emitted) even when its result is longer than MaxLen; such results are not expanded further.
BoundedNext == Bound /\ Next
View == <<doc, lines>>
Emit == IF EmitEdges
        THEN PrintT(<<"EDGE", ToJson([from |-> doc, lbl |-> lbl', to |-> doc', impl |-> Join(lines')])>>)
        ELSE TRUE
=============================================================================
