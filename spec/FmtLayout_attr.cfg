\* Formatter layout model (FmtLayout.tla) over this family; code as it is (after the repairs).
\* Attribute family: every attribute kind (constant incl. character references and both quote kinds, boolean, ?=, expression, spread, conditional with else).
CONSTANTS
  NonTrailerRule = "source"
  ForcedBreaks = "asCoded"
  MaxNodes = 2
  MaxDepth = 3
  Kinds = {"text", "el", "void"}
  InlineNames = {"span"}
  BlockNames = {"div"}
  VoidNames = {"input"}
  AttrChoices <- AttrChoicesFull
  WsChoices = {"", "v"}
  Words = {"w1", "w3"}
  Exprs = {"E1"}
  Conds = {"C1", "C2"}
  Lists = {"L1"}
  EnvSeq <- EnvSeqDef
INIT Init
NEXT Next
VIEW View
INVARIANTS TypeOK Idempotent FmtKeepsTokens FmtKeepsMust EmitFmt
CHECK_DEADLOCK FALSE
