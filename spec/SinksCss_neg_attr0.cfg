\* C05 negative: style attribute values not HTML-escaped at all must end the attribute
CONSTANTS
  Classes <- ClassesDef
  Contexts <- ContextsDef
  Alphabet <- FullAlphabet
  RegularExtra <- NoExtra
  AngleGuard = TRUE
  FontFix = TRUE
  BgFix = TRUE
  TrackAttribution = FALSE
  AttrEscapes = 0
  KvSafeProp = "unsupported"
  EmitEdges = FALSE
INIT Init
NEXT Next
VIEW View

INVARIANTS TypeOK OneDeclaration InnocuousOnReject
CHECK_DEADLOCK FALSE
