\* C18 conn: NEGATIVE: unbuffered reply channel -- must violate ReaderNeverBlocks.
CONSTANTS
  NC = 2
  NN = 0
  MaxPN = 0
  MaxPC = 0
  MaxStray = 0
  UseWriteMu = TRUE
  ChanCap = 0
  RegisterFirst = TRUE
  AtomicAlloc = TRUE
  IdDecode = "strict"
  IdVocab = "small"
  KindShift = 0
  NullResult = "ok"
INIT Init
NEXT Next
INVARIANTS TypeOK Matched ReaderNeverBlocks
CHECK_DEADLOCK FALSE
