\* negative config: a newline attributed to the following line must be rejected.
CONSTANTS
  MaxLen = 4
  Widths = {1, 2}
  NewlineRule = "lt"
  EntryCopy = "same"
  ColMode = "bytes"
  EolEntry = TRUE
  SymLineMap = "keep"
INIT Init
NEXT Next
INVARIANTS PositionIsAdvance
CHECK_DEADLOCK FALSE
