--------------------------- MODULE TraceRenderPool ---------------------------
(* Trace validation (VAL) of the pool protocol for C10 and C14.

   trace.ndjson holds the events of the `verif` pool hooks of the real code (runtime.GetBuffer /
   ReleaseBuffer, templ.GetBuffer / ReleaseBuffer) in the order of a global sequence number taken at
   the hook, plus begin/end markers of each render written by the harness:
       begin r | acquire b | existing b | flush b err | release b | get b | put b | end r err
   Every event carries the render r that was running on the calling goroutine.  The state is the
   holding relation of RenderPool.tla (module RenderPoolOps) for each of the two pools and each event
   applies the corresponding operator (the content of sync.Pool itself is not tracked: an object the
   garbage collector dropped from the pool is indistinguishable from one that is never taken again).  The spec consumes the whole trace and collects every line at
   which the real code left the protocol:
       ExclusiveBuffer.*   a buffer handed out while held / touched by a render that does not hold it
                           (flush after release = Put before the last use)
       NoCarryOver.*       an acquired buffer is not empty with a nil error / not attached to this render's writer
       OneOwner.*          a second buffer acquired for a destination the render already buffers, a render returned
                           while holding one (acquired but never flushed and released)                              *)
EXTENDS Integers, Sequences, FiniteSets, TLC, Json, RenderPoolOps

CONSTANTS NB,         \* buffer object ids are 1..NB (informative only)
          CheckWriter \* TRUE: the harness gives writer id = render id, so acquire must report it (0 = a writer without id)

Trace == ndJsonDeserialize("trace.ndjson")

VARIABLES i, hr, hb, dest, active, viol, vcnt, cnt
vars == <<i, hr, hb, dest, active, viol, vcnt, cnt>>

Kinds == {"begin", "end", "acquire", "existing", "flush", "release", "get", "put"}
VKinds == {"Harness.RenderBeginTwice", "OneOwner.HeldAfterReturn", "OneOwner.SecondAcquire",
           "ExclusiveBuffer.AcquireWhileHeld", "ExclusiveBuffer.UseNotHeld", "ExclusiveBuffer.UseAfterRelease",
           "ExclusiveBuffer.ReleaseNotHeld", "ExclusiveBuffer.BytesAcquireWhileHeld", "ExclusiveBuffer.BytesReleaseNotHeld",
           "NoCarryOver.DirtyAcquire", "NoCarryOver.WrongWriter", "NoCarryOver.DirtyBytesBuffer", "NoCarryOver.PutWithoutReset"}

Init == /\ i = 0
        /\ hr = {} /\ hb = {} /\ dest = {}
        /\ active = {} /\ viol = <<>>
        /\ vcnt = [k \in VKinds |-> 0]
        /\ cnt = [k \in Kinds |-> 0]

\* optional fields: an event kind that has no use for a field may omit it
IsDirty(e) == "dirty" \in DOMAIN e /\ e.dirty
WriterOf(e) == IF "w" \in DOMAIN e THEN e.w ELSE 0
BufOf(e) == IF "buf" \in DOMAIN e THEN e.buf ELSE 0
IsOwn(e) == "own" \in DOMAIN e /\ e.own      \* the caller's own *runtime.Buffer, made outside the pool

P(c, k) == IF c THEN <<k>> ELSE <<>>

\* the violation kinds event e (of render r on buffer b) commits in the current state
Fired(e, r, b) ==
    CASE e.ev = "begin"    -> P(r \in active, "Harness.RenderBeginTwice")
      [] e.ev = "end"      -> P(Holds(hr, r) \/ Holds(hb, r), "OneOwner.HeldAfterReturn")
      [] e.ev = "acquire"  -> P(~GetLegal(hr, r, b), "ExclusiveBuffer.AcquireWhileHeld")          \* GetBuffer: Get + Reset
                              \o P(IsDirty(e), "NoCarryOver.DirtyAcquire")
                              \* the render's own writer has id r; a writer private to a hand-written component has a negative id
                              \o P(CheckWriter /\ WriterOf(e) > 0 /\ WriterOf(e) # r, "NoCarryOver.WrongWriter")
                              \* a render buffers each destination once: nested components reuse the buffer, only a block
                              \* rendered into another writer acquires (and flushes, releases) one more
                              \o P(IF WriterOf(e) = 0 THEN Holds(hr, r) ELSE <<r, WriterOf(e)>> \in dest, "OneOwner.SecondAcquire")
      [] e.ev = "existing" -> P(~IsOwn(e) /\ ~UseLegal(hr, r, b), "ExclusiveBuffer.UseNotHeld")                \* GetBuffer: the writer already is a *Buffer
      [] e.ev = "flush"    -> P(~UseLegal(hr, r, b), "ExclusiveBuffer.UseAfterRelease")           \* ReleaseBuffer: b.Flush()
      [] e.ev = "release"  -> P(~UseLegal(hr, r, b), "ExclusiveBuffer.ReleaseNotHeld")            \* ReleaseBuffer: bufferPool.Put(b)
      [] e.ev = "get"      -> P(~GetLegal(hb, r, b), "ExclusiveBuffer.BytesAcquireWhileHeld")     \* templ.GetBuffer (bytes.Buffer pool):
                              \o P(IsDirty(e), "NoCarryOver.DirtyBytesBuffer")                    \*   the acquired bytes.Buffer must be empty
      [] e.ev = "put"      -> P(~UseLegal(hb, r, b), "ExclusiveBuffer.BytesReleaseNotHeld")       \* templ.ReleaseBuffer: Reset + Put
                              \o P(IsDirty(e), "NoCarryOver.PutWithoutReset")

\* viol lists the first MaxPerKind offending lines of every kind (a broken tree produces one per render, and
\* an ever growing sequence in every state would make the validation quadratic); vcnt counts all of them
MaxPerKind == 15
RECURSIVE Record(_, _, _)
Record(s, n, ks) == IF ks = <<>> THEN s
                    ELSE Record(IF vcnt[Head(ks)] < MaxPerKind THEN Append(s, [line |-> n, kind |-> Head(ks)]) ELSE s, n, Tail(ks))
RECURSIVE Count(_, _)
Count(c, ks) == IF ks = <<>> THEN c ELSE Count([c EXCEPT ![Head(ks)] = @ + 1], Tail(ks))

Step ==
    /\ i < Len(Trace)
    /\ LET e == Trace[i + 1]
           n == i + 1
           r == e.r
           b == BufOf(e)
           f == Fired(e, r, b)
       IN
       /\ i' = n
       /\ cnt' = [cnt EXCEPT ![e.ev] = @ + 1]
       /\ viol' = Record(viol, n, f)
       /\ vcnt' = Count(vcnt, f)
       /\ active' = CASE e.ev = "begin" -> active \cup {r} [] e.ev = "end" -> active \ {r} [] OTHER -> active
       /\ hr' = CASE e.ev = "acquire" -> HGet(hr, r, b) [] e.ev = "release" -> HDrop(hr, r, b) [] OTHER -> hr
       /\ hb' = CASE e.ev = "get" -> HGet(hb, r, b) [] e.ev = "put" -> HDrop(hb, r, b) [] OTHER -> hb
       /\ dest' = CASE e.ev = "acquire" -> dest \cup {<<r, WriterOf(e)>>}
                    [] e.ev = "release" -> dest \ {<<r, WriterOf(e)>>}
                    [] e.ev = "end" -> {x \in dest : x[1] # r}
                    [] OTHER -> dest

Next == Step
Spec == Init /\ [][Next]_vars

\* the same invariants as RenderPool.tla, evaluated on every state of the trace; a violation is also
\* collected in viol by the step that caused it, so the run goes on and reports every offending line
ExclusiveNow == Exclusive(hr) /\ Exclusive(hb)

Done == i = Len(Trace)
Report == Done => PrintT(<<"TRACE", ToJson([lines |-> i, viol |-> viol, vcnt |-> vcnt, cnt |-> cnt,
                                            exclusive |-> ExclusiveNow,
                                            stillheld |-> Cardinality(hr) + Cardinality(hb)])>>)
=============================================================================
