\* C17 edge emission: every explored transition is printed for replay on the real Document.
CONSTANTS
  MaxLen = 4
  Texts <- TextsDef
  WholeDocRule = "and"
  EmitEdges = TRUE
INIT Init
NEXT BoundedNext
VIEW View
ACTION_CONSTRAINT Emit
INVARIANTS TypeOK ServerTracksEditor LinesHaveNoNewline SplitJoin
CHECK_DEADLOCK FALSE
