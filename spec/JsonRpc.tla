------------------------------- MODULE JsonRpc -------------------------------
(* C18, second half -- calls on a jsonrpc2 conn are matched to their responses.

   The model follows lsp/jsonrpc2/conn.go, one action per critical section / blocking point:

     Call:    reg     pendingMu { pending[id] = rchan }                         (hook "reg")
              acq     writeMu.Lock                                              (hook "wbeg")
              refuse  stream.Write sees ctx.Done() and writes nothing
              whdr    stream.Write: header bytes reach the wire    \  two steps, so that the
              wbody   stream.Write: body bytes reach the wire      /  mutex matters
              rel     writeMu.Unlock                                            (hook "wend")
              recv    select: <-rchan            cancelled  select: <-ctx.Done()
              del     deferred: pendingMu { delete(pending, id) }               (hook "del")
     Notify:  acq, whdr, wbody, rel
     run:     take    stream.Read returned the next message of the peer
              lookup  pendingMu { rchan, ok = pending[msg.id] }                 (hook "disp")
              send    rchan <- msg
              a call of the peer is answered synchronously by the handler: acq, whdr, wbody, rel as writer 0
     environment: cancel(c) at any time; the peer answers a call it has received completely at any later
              time, in any order, or never (reply), sends notifications (pnotify) and calls (pcall).

   Caller c uses id c (the real conn draws ids from an atomic counter; only their uniqueness matters).
   Constants flip the model into plausible bugs: UseWriteMu = FALSE, ChanCap = 0, RegisterFirst = FALSE. *)
EXTENDS Integers, Sequences, FiniteSets, TLC, Json

CONSTANTS NC,            \* callers 1..NC
          NN,            \* notifiers 11..10+NN
          MaxPN, MaxPC,  \* notifications / calls the peer may send
          UseWriteMu,    \* TRUE as coded
          ChanCap,       \* 1 as coded (buffered reply channel); 0 = unbuffered
          RegisterFirst  \* TRUE as coded: pending insert before the call is sent

Callers   == 1..NC
Notifiers == 11..(10 + NN)
Rd        == 0                      \* run's goroutine, as a writer of replies to the peer's calls
Writers   == Callers \cup Notifiers \cup {Rd}
None      == -1
CANCEL    == -1                     \* result values: a caller id = "the response carrying that id"
WERR      == -2
NORES     == 0

VARIABLES pc,         \* [Writers -> control state]
          cancelled,  \* [Callers -> BOOLEAN]  the call's context has been cancelled
          werr,       \* [Callers -> BOOLEAN]  stream.Write refused (context already done)
          result,     \* [Callers -> NORES | CANCEL | WERR | id of the response returned]
          pending,    \* ids in conn.pending
          chan,       \* [Callers -> Seq(ids)] buffered content of the call's reply channel
          mu,         \* holder of writeMu or None
          open,       \* writer whose header is on the wire without its body, or None
          wireBad,    \* some frame was interleaved with another
          got,        \* calls the peer has received completely
          replied,    \* calls the peer has answered
          inq,        \* byte stream from the peer, as a queue of whole messages
          rd,         \* run loop: [pc, id]
          pn, pcalls  \* notifications / calls sent by the peer so far

vars == <<pc, cancelled, werr, result, pending, chan, mu, open, wireBad, got, replied, inq, rd, pn, pcalls>>

Resp(c) == [t |-> "resp", id |-> c]
Notif   == [t |-> "notif", id |-> 0]
PCall   == [t |-> "call", id |-> 0]

Init == /\ pc = [w \in Writers |-> "idle"]
        /\ cancelled = [c \in Callers |-> FALSE]
        /\ werr = [c \in Callers |-> FALSE]
        /\ result = [c \in Callers |-> NORES]
        /\ pending = {}
        /\ chan = [c \in Callers |-> <<>>]
        /\ mu = None /\ open = None /\ wireBad = FALSE
        /\ got = {} /\ replied = {}
        /\ inq = <<>>
        /\ rd = [pc |-> "read", id |-> 0]
        /\ pn = 0 /\ pcalls = 0

-----------------------------------------------------------------------------
(* Call / Notify *)
Register(c) == /\ c \in Callers /\ pc[c] = "idle"
               /\ pc' = [pc EXCEPT ![c] = "reg"]
               /\ pending' = IF RegisterFirst THEN pending \cup {c} ELSE pending
               /\ UNCHANGED <<cancelled, werr, result, chan, mu, open, wireBad, got, replied, inq, rd, pn, pcalls>>

WantsToWrite(w) == \/ w \in Callers /\ pc[w] = "reg"
                   \/ w \in Notifiers /\ pc[w] = "idle"
                   \/ w = Rd /\ pc[w] = "want"

Acquire(w) == /\ WantsToWrite(w)
              /\ UseWriteMu => mu = None
              /\ mu' = IF UseWriteMu THEN w ELSE mu
              /\ pc' = [pc EXCEPT ![w] = "hdr"]
              /\ UNCHANGED <<cancelled, werr, result, pending, chan, open, wireBad, got, replied, inq, rd, pn, pcalls>>

\* stream.Write checks the context once, before the first byte
Refuse(c) == /\ c \in Callers /\ pc[c] = "hdr" /\ cancelled[c]
             /\ pc' = [pc EXCEPT ![c] = "rel"]
             /\ werr' = [werr EXCEPT ![c] = TRUE]
             /\ UNCHANGED <<cancelled, result, pending, chan, mu, open, wireBad, got, replied, inq, rd, pn, pcalls>>

WriteHdr(w) == /\ pc[w] = "hdr"
               /\ pc' = [pc EXCEPT ![w] = "body"]
               /\ wireBad' = (wireBad \/ open # None)
               /\ open' = w
               /\ UNCHANGED <<cancelled, werr, result, pending, chan, mu, got, replied, inq, rd, pn, pcalls>>

WriteBody(w) == /\ pc[w] = "body"
                /\ pc' = [pc EXCEPT ![w] = "rel"]
                /\ wireBad' = (wireBad \/ open # w)
                /\ open' = IF open = w THEN None ELSE open
                /\ got' = IF w \in Callers THEN got \cup {w} ELSE got
                /\ UNCHANGED <<cancelled, werr, result, pending, chan, mu, replied, inq, rd, pn, pcalls>>

Release(w) == /\ pc[w] = "rel"
              /\ mu' = IF UseWriteMu THEN None ELSE mu
              /\ IF w \in Callers
                 THEN /\ pc' = [pc EXCEPT ![w] = IF werr[w] THEN "del" ELSE IF RegisterFirst THEN "wait" ELSE "late"]
                      /\ result' = IF werr[w] THEN [result EXCEPT ![w] = WERR] ELSE result
                      /\ rd' = rd
                 ELSE IF w \in Notifiers
                 THEN pc' = [pc EXCEPT ![w] = "done"] /\ UNCHANGED <<result, rd>>
                 ELSE pc' = [pc EXCEPT ![w] = "idle"] /\ rd' = [pc |-> "read", id |-> 0] /\ UNCHANGED result
              /\ UNCHANGED <<cancelled, werr, pending, chan, open, wireBad, got, replied, inq, pn, pcalls>>

\* only in the RegisterFirst = FALSE bug model: the pending insert happens after the call was sent
LateRegister(c) == /\ c \in Callers /\ pc[c] = "late"
                   /\ pc' = [pc EXCEPT ![c] = "wait"]
                   /\ pending' = pending \cup {c}
                   /\ UNCHANGED <<cancelled, werr, result, chan, mu, open, wireBad, got, replied, inq, rd, pn, pcalls>>

RecvResp(c) == /\ c \in Callers /\ pc[c] = "wait" /\ chan[c] # <<>>
               /\ result' = [result EXCEPT ![c] = Head(chan[c])]
               /\ chan' = [chan EXCEPT ![c] = Tail(@)]
               /\ pc' = [pc EXCEPT ![c] = "del"]
               /\ UNCHANGED <<cancelled, werr, pending, mu, open, wireBad, got, replied, inq, rd, pn, pcalls>>

Cancelled(c) == /\ c \in Callers /\ pc[c] = "wait" /\ cancelled[c]
                /\ result' = [result EXCEPT ![c] = CANCEL]
                /\ pc' = [pc EXCEPT ![c] = "del"]
                /\ UNCHANGED <<cancelled, werr, pending, chan, mu, open, wireBad, got, replied, inq, rd, pn, pcalls>>

DeletePending(c) == /\ c \in Callers /\ pc[c] = "del"
                    /\ pending' = pending \ {c}
                    /\ pc' = [pc EXCEPT ![c] = "done"]
                    /\ UNCHANGED <<cancelled, werr, result, chan, mu, open, wireBad, got, replied, inq, rd, pn, pcalls>>

-----------------------------------------------------------------------------
(* run loop *)
\* ReaderTake/Lookup/Send are labelled with the id they concern (0: a notification or call of the peer)
ReaderTake == /\ rd.pc = "read" /\ inq # <<>>
              /\ inq' = Tail(inq)
              /\ LET m == Head(inq) IN
                 CASE m.t = "resp"  -> rd' = [pc |-> "lookup", id |-> m.id] /\ pc' = pc
                   [] m.t = "notif" -> rd' = rd /\ pc' = pc
                   [] OTHER         -> rd' = [pc |-> "handle", id |-> 0] /\ pc' = [pc EXCEPT ![Rd] = "want"]
              /\ UNCHANGED <<cancelled, werr, result, pending, chan, mu, open, wireBad, got, replied, pn, pcalls>>

ReaderLookup == /\ rd.pc = "lookup"
                /\ rd' = IF rd.id \in pending THEN [rd EXCEPT !.pc = "send"] ELSE [pc |-> "read", id |-> 0]
                /\ UNCHANGED <<pc, cancelled, werr, result, pending, chan, mu, open, wireBad, got, replied, inq, pn, pcalls>>

\* can the send on the reply channel complete now?
CanSend(c) == IF ChanCap >= 1 THEN Len(chan[c]) < ChanCap ELSE pc[c] = "wait"
ReaderSend == /\ rd.pc = "send" /\ CanSend(rd.id)
              /\ IF ChanCap >= 1
                 THEN /\ chan' = [chan EXCEPT ![rd.id] = Append(@, rd.id)]
                      /\ UNCHANGED <<pc, result>>
                 ELSE /\ result' = [result EXCEPT ![rd.id] = rd.id]          \* rendezvous with the waiting caller
                      /\ pc' = [pc EXCEPT ![rd.id] = "del"]
                      /\ chan' = chan
              /\ rd' = [pc |-> "read", id |-> 0]
              /\ UNCHANGED <<cancelled, werr, pending, mu, open, wireBad, got, replied, inq, pn, pcalls>>

-----------------------------------------------------------------------------
(* environment *)
Cancel(c) == /\ c \in Callers /\ ~cancelled[c] /\ pc[c] # "done"
             /\ cancelled' = [cancelled EXCEPT ![c] = TRUE]
             /\ UNCHANGED <<pc, werr, result, pending, chan, mu, open, wireBad, got, replied, inq, rd, pn, pcalls>>

PeerReply(c) == /\ c \in got \ replied
                /\ replied' = replied \cup {c}
                /\ inq' = Append(inq, Resp(c))
                /\ UNCHANGED <<pc, cancelled, werr, result, pending, chan, mu, open, wireBad, got, rd, pn, pcalls>>

PeerNotify == /\ pn < MaxPN /\ pn' = pn + 1 /\ inq' = Append(inq, Notif)
              /\ UNCHANGED <<pc, cancelled, werr, result, pending, chan, mu, open, wireBad, got, replied, rd, pcalls>>

PeerCall == /\ pcalls < MaxPC /\ pcalls' = pcalls + 1 /\ inq' = Append(inq, PCall)
            /\ UNCHANGED <<pc, cancelled, werr, result, pending, chan, mu, open, wireBad, got, replied, rd, pn>>

-----------------------------------------------------------------------------
(* labelled transition relation: Next, the simulation and the trace spec all go through Do *)
Lab(a, w) == [a |-> a, w |-> w]
Do(l) == CASE l.a = "reg"       -> Register(l.w)
           [] l.a = "acq"       -> Acquire(l.w)
           [] l.a = "refuse"    -> Refuse(l.w)
           [] l.a = "whdr"      -> WriteHdr(l.w)
           [] l.a = "wbody"     -> WriteBody(l.w)
           [] l.a = "rel"       -> Release(l.w)
           [] l.a = "late"      -> LateRegister(l.w)
           [] l.a = "recv"      -> RecvResp(l.w)
           [] l.a = "cancelled" -> Cancelled(l.w)
           [] l.a = "del"       -> DeletePending(l.w)
           [] l.a = "take"      -> ReaderTake /\ l.w = Head(inq).id
           [] l.a = "lookup"    -> ReaderLookup /\ l.w = rd.id
           [] l.a = "send"      -> ReaderSend /\ l.w = rd.id
           [] l.a = "cancel"    -> Cancel(l.w)
           [] l.a = "reply"     -> PeerReply(l.w)
           [] l.a = "pnotify"   -> PeerNotify
           [] l.a = "pcall"     -> PeerCall

CallerActs == {"reg", "refuse", "late", "recv", "cancelled", "del", "cancel", "reply"}
WriterActs == {"acq", "whdr", "wbody", "rel"}
Labels == {Lab(a, c) : a \in CallerActs, c \in Callers}
          \cup {Lab(a, w) : a \in WriterActs, w \in Writers}
          \cup {Lab(a, c) : a \in {"take", "lookup", "send"}, c \in Callers \cup {0}}
          \cup {Lab(a, 0) : a \in {"pnotify", "pcall"}}
EnvActs == {"cancel", "reply", "pnotify", "pcall"}

Next == \E l \in Labels : Do(l)

\* the conn's own steps are fair (Go's mutex does not starve a waiter: strong fairness for Acquire);
\* nothing is assumed about the environment
ConnLabels == {l \in Labels : l.a \notin EnvActs /\ l.a # "reg"}
Fairness == /\ \A l \in {x \in ConnLabels : x.a # "acq"} : WF_vars(Do(l))
            /\ \A w \in Writers : SF_vars(Acquire(w))
Spec == Init /\ [][Next]_vars /\ Fairness

-----------------------------------------------------------------------------
(* properties *)
InFlight == {"reg", "hdr", "body", "rel", "late", "wait", "del"}

TypeOK == /\ pending \subseteq Callers /\ got \subseteq Callers /\ replied \subseteq got
          /\ mu \in Writers \cup {None} /\ open \in Writers \cup {None}
          /\ \A c \in Callers : result[c] \in Callers \cup {NORES, CANCEL, WERR}

\* a call returns only the response carrying its id, or its own cancellation
Matched == \A c \in Callers : pc[c] \in {"del", "done"} =>
               \/ result[c] = c
               \/ result[c] \in {CANCEL, WERR} /\ cancelled[c]

\* ... and it only returns a response the peer actually sent
NoInventedResponse == \A c \in Callers : result[c] = c => c \in replied

FramesNeverInterleave == ~wireBad

MutexOK == UseWriteMu => Cardinality({w \in Writers : pc[w] \in {"hdr", "body", "rel"}}) <= 1

\* the run loop is never stuck on a reply channel: whenever it is about to send, either the send can
\* complete at once or (unbuffered model) the caller is still on its way to the select
ReaderNeverBlocks == rd.pc = "send" =>
    \/ CanSend(rd.id)
    \/ ChanCap = 0 /\ pc[rd.id] \in {"reg", "hdr", "body", "rel", "late"}

\* pending holds exactly the calls in flight (as coded: registered before sending, removed on return)
PendingExact == RegisterFirst => pending = {c \in Callers : pc[c] \in InFlight}
\* "registered before sending": no byte of a call is on the wire while its id is not in pending
RegisteredBeforeSending == \A c \in Callers : pc[c] \in {"body", "rel", "late"} => c \in pending
PendingEmptyAtQuiescence == (\A c \in Callers : pc[c] \in {"idle", "done"}) => pending = {}

\* every call whose response arrives or whose context is cancelled returns
CallsReturn == \A c \in Callers : ((c \in replied \/ cancelled[c]) /\ pc[c] # "idle") ~> (pc[c] = "done")
=============================================================================
