// c08 checks C08 (formatting never changes what a template renders) and C09 (formatting is idempotent)
// on programs enumerated by TLC from spec/TemplLang.tla and on corpus files, using the repository's
// real parser, formatter (fmtcmd.Run, stdin to stdout) and generator.
//
//	c08 progs  <progs.ndjson>     TLC programs, every spelling variant
//	c08 corpus <listfile>         .templ files of the repository (one path per line)
//	c08 layout <fmt.ndjson>       conformance of the layout model: FmtLayout.tla's Fmt(p), printed in the canonical
//	                              spelling, must be what the real formatter prints for every spelling of p
package main

import (
	"bytes"
	"hash/fnv"
	"encoding/json"
	"fmt"
	"go/ast"
	"go/format"
	goparser "go/parser"
	"go/printer"
	"go/token"
	"io"
	"log/slog"
	"os"
	"regexp"
	"runtime"
	"sort"
	"strconv"
	"strings"
	"sync"

	"github.com/a-h/templ/cmd/templ/fmtcmd"
	"github.com/a-h/templ/generator"
	parser "github.com/a-h/templ/parser/v2"

	"verifharness/templang"
	"verifharness/vhlib"
)

var logger = slog.New(slog.NewTextHandler(io.Discard, nil))

// realFormat runs the repository's formatter the way `templ fmt` does for stdin when the editor names the file
// (-stdin-filepath): with a file name the formatter also rewrites the import block (cmd/templ/imports).
//
// Rewriting imports runs golang.org/x/tools/imports over generated code (milliseconds per call), so one source
// in eight (by hash: the same source is always formatted the same way) takes that path.
func realFormat(src string) (string, error) { return realFormatMode(src, viaImports(src)) }

// realFormatMode formats with (via) or without a file name; a second run on the output uses the mode of the first.
func realFormatMode(src string, via bool) (string, error) {
	var out bytes.Buffer
	args := fmtcmd.Arguments{}
	if via {
		args.StdinFilepath = "/nonexistent-verif/p/p.templ"
	}
	err := fmtcmd.Run(logger, strings.NewReader(src), &out, args)
	return out.String(), err
}

// viaImports: this source is formatted with a file name.
func viaImports(src string) bool {
	h := fnv.New32a()
	h.Write([]byte(src))
	return h.Sum32()%importsEvery == 0
}

var errPos = regexp.MustCompile(`(templ\.Error\{Err: templ_7745c5c3_Err, FileName: [^\n]*?, Line: )\d+(, Col: )\d+\}`)

// program returns the generated Go program for a source, normalised as C08 allows: positions embedded
// in error values masked, gofmt layout.
func program(src string) (string, error) {
	p, _, err := programAndImports(src)
	return p, err
}

// importSpec is one import of the generated program: local name and path.
type importSpec struct{ name, path string }

// programAndImports returns the generated program WITHOUT its import declarations, and the imports separately:
// `templ fmt` with a file name rewrites the import block on purpose (drops unused imports, adds missing ones,
// regroups), so the imports are compared by what they have to provide, not textually (importsAgree).
func programAndImports(src string) (string, []importSpec, error) {
	tf, err := parser.ParseString(src)
	if err != nil {
		return "", nil, fmt.Errorf("parse: %w", err)
	}
	var b bytes.Buffer
	if _, err = generator.Generate(tf, &b, generator.WithFileName("p.templ"), generator.WithSkipCodeGeneratedComment()); err != nil {
		return "", nil, fmt.Errorf("generate: %w", err)
	}
	masked := errPos.ReplaceAll(b.Bytes(), []byte("${1}0${2}0}"))
	if _, err := format.Source(masked); err != nil {
		return "", nil, fmt.Errorf("gofmt: %w", err)
	}
	// "gofmt-level layout of the embedded Go code" is not part of the program: compare the syntax tree printed
	// without comments (blank lines and comment placement are layout; every literal and statement stays exact)
	fset := token.NewFileSet()
	file, err := goparser.ParseFile(fset, "p_templ.go", masked, 0)
	if err != nil {
		return "", nil, fmt.Errorf("go/parser: %w", err)
	}
	var imps []importSpec
	for _, im := range file.Imports {
		path := strings.Trim(im.Path.Value, "\"`")
		name := path[strings.LastIndex(path, "/")+1:]
		if im.Name != nil {
			name = im.Name.Name
		}
		imps = append(imps, importSpec{name, path})
	}
	var decls []ast.Decl
	for _, d := range file.Decls {
		if g, ok := d.(*ast.GenDecl); ok && g.Tok == token.IMPORT {
			continue
		}
		decls = append(decls, d)
	}
	file.Decls = decls
	var out bytes.Buffer
	if err := (&printer.Config{Mode: printer.UseSpaces | printer.TabIndent, Tabwidth: 8}).Fprint(&out, token.NewFileSet(), file); err != nil {
		return "", nil, fmt.Errorf("go/printer: %w", err)
	}
	return out.String(), imps, nil
}

// importsAgree: formatting may regroup imports and drop unused ones, but an import the program uses must stay
// (same local name, same path) and an import that formatting adds must be used. prog is the program without imports.
func importsAgree(before, after []importSpec, prog string) string {
	has := func(l []importSpec, x importSpec) bool {
		for _, y := range l {
			if x == y {
				return true
			}
		}
		return false
	}
	used := func(x importSpec) bool {
		if x.name == "_" || x.name == "." {
			return true
		}
		return regexp.MustCompile(`\b` + regexp.QuoteMeta(x.name) + `\.`).MatchString(prog)
	}
	for _, x := range before {
		if !has(after, x) && used(x) {
			return fmt.Sprintf("formatting removed the import %s %q, which the program uses", x.name, x.path)
		}
	}
	for _, x := range after {
		if !has(before, x) && !used(x) {
			return fmt.Sprintf("formatting added the import %s %q, which the program does not use", x.name, x.path)
		}
	}
	return ""
}

type report struct {
	ID        int    `json:"id,omitempty"`
	File      string `json:"file,omitempty"`
	Variant   int    `json:"variant"`
	Source    string `json:"source"`
	Formatted string `json:"formatted,omitempty"`
	Detail    string `json:"detail"`
}

type outcome struct {
	kind   string // "", "c08-rejected", "c08-changed", "c09"
	detail string
	fmted  string
}

func firstDiff(a, b string) string {
	al, bl := strings.Split(a, "\n"), strings.Split(b, "\n")
	for i := 0; i < len(al) && i < len(bl); i++ {
		if al[i] != bl[i] {
			return fmt.Sprintf("line %d: %q  vs  %q", i+1, strings.TrimSpace(al[i]), strings.TrimSpace(bl[i]))
		}
	}
	return fmt.Sprintf("length %d vs %d lines", len(al), len(bl))
}

// checkSource applies the C08 and C09 oracles to one accepted source text.
func checkSource(src string) (accepted bool, outs []outcome, prog string) {
	return checkSourceMode(src, viaImports(src))
}

// checkSourceMode: via = format with a file name (import rewriting), for both runs.
func checkSourceMode(src string, via bool) (accepted bool, outs []outcome, prog string) {
	p1, imps1, err := programAndImports(src)
	if err != nil {
		return false, []outcome{{kind: "rejected", detail: err.Error()}}, ""
	}
	f1, err := realFormatMode(src, via)
	if err != nil {
		return true, []outcome{{kind: "c08-rejected", detail: "formatter failed on an accepted file: " + err.Error()}}, p1
	}
	p2, imps2, err := programAndImports(f1)
	if err != nil {
		outs = append(outs, outcome{kind: "c08-rejected", detail: "formatted file is not accepted: " + err.Error(), fmted: f1})
	} else if p1 != p2 {
		outs = append(outs, outcome{kind: "c08-changed", detail: "generated program differs: " + firstDiff(p1, p2), fmted: f1})
	} else if d := importsAgree(imps1, imps2, p1); d != "" {
		outs = append(outs, outcome{kind: "c08-changed", detail: d, fmted: f1})
	}
	f2, err := realFormatMode(f1, via)
	if err != nil {
		if len(outs) == 0 { // otherwise already reported as not accepted
			outs = append(outs, outcome{kind: "c09", detail: "formatter failed on its own output: " + err.Error(), fmted: f1})
		}
	} else if f2 != f1 {
		outs = append(outs, outcome{kind: "c09", detail: "fmt(fmt(x)) != fmt(x): " + firstDiff(f1, f2), fmted: f1})
	}
	return true, outs, p1
}

// ---- attribution ------------------------------------------------------------------------------

func mapAttrs(as []templang.Attr, f func(templang.Attr) templang.Attr) []templang.Attr {
	var out []templang.Attr
	for _, a := range as {
		a = f(a)
		a.Then = mapAttrs(a.Then, f)
		a.Else = mapAttrs(a.Else, f)
		out = append(out, a)
	}
	return out
}

func mapNodes(ns []templang.Node, f func(templang.Node) templang.Node) []templang.Node {
	var out []templang.Node
	for _, n := range ns {
		n = f(n)
		n.Kids = mapNodes(n.Kids, f)
		n.Els = mapNodes(n.Els, f)
		n.Body = mapNodes(n.Body, f)
		// fresh slices: the rewritten program must not share (and so modify) the branches of the original
		brs := make([]templang.Branch, len(n.Brs))
		for i, b := range n.Brs {
			brs[i] = templang.Branch{C: b.C, Body: mapNodes(b.Body, f)}
		}
		n.Brs = brs
		cs := make([]templang.Case, len(n.Cases))
		for i, c := range n.Cases {
			cs[i] = templang.Case{Key: c.Key, Body: mapNodes(c.Body, f)}
		}
		n.Cases = cs
		out = append(out, n)
	}
	return out
}

func kinds(ns []templang.Node) []string {
	set := map[string]bool{}
	mapNodes(ns, func(n templang.Node) templang.Node {
		k := n.K
		if k == "el" || k == "void" || k == "raw" {
			k += ":" + n.Name
		}
		set[k] = true
		return n
	})
	var out []string
	for k := range set {
		out = append(out, k)
	}
	sort.Strings(out)
	return out
}

// ablations are AST rewrites that remove one suspect feature; if the failure disappears with the
// rewrite, the feature is the root cause as far as this machinery can tell.
var ablations = []struct {
	name string
	f    func(templang.Node) templang.Node
}{
	{"ConstantAttribute.ValueWithQuoteRewrittenUnescaped", func(n templang.Node) templang.Node {
		n.Attrs = mapAttrs(n.Attrs, func(a templang.Attr) templang.Attr {
			if a.A == "const" && a.V == "k3" {
				a.V = "k1"
			}
			return a
		})
		return n
	}},
	{"ConstantAttribute.ValueWithCharRefRewrittenUnescaped", func(n templang.Node) templang.Node {
		n.Attrs = mapAttrs(n.Attrs, func(a templang.Attr) templang.Attr {
			if a.A == "const" && (a.V == "k2" || a.V == "k4") {
				a.V = "k1"
			}
			return a
		})
		return n
	}},
}

// mapLists applies f to every sibling list of the tree (children first).
func mapLists(ns []templang.Node, f func([]templang.Node) []templang.Node) []templang.Node {
	out := make([]templang.Node, len(ns))
	for i, n := range ns {
		n.Kids = mapLists(n.Kids, f)
		n.Els = mapLists(n.Els, f)
		n.Body = mapLists(n.Body, f)
		brs := make([]templang.Branch, len(n.Brs))
		for j, b := range n.Brs {
			brs[j] = templang.Branch{C: b.C, Body: mapLists(b.Body, f)}
		}
		n.Brs = brs
		cs := make([]templang.Case, len(n.Cases))
		for j, c := range n.Cases {
			cs[j] = templang.Case{Key: c.Key, Body: mapLists(c.Body, f)}
		}
		n.Cases = cs
		out[i] = n
	}
	return f(out)
}

// Layout model of the formatter (parser/v2/types.go writeNodes): where it forces a line break.
var blockNames = map[string]bool{"div": true, "p": true, "br": true, "hr": true, "style": true, "script": true, "section": true}

func wsAfter(n templang.Node) string {
	switch n.K {
	case "text", "expr", "void", "el", "gocodei":
		return n.Tr
	case "slot", "hcomment", "mcomment", "raw", "call", "callb":
		return n.After
	}
	return "v"
}

// Spelling variant 2 ("loose") writes every attribute on its own line: an element with attributes then
// spans lines, and so do all elements containing it.
func openTagSpansLines(n templang.Node, loose bool) bool {
	return loose && (n.K == "el" || n.K == "void") && len(n.Attrs) > 0
}

// importsEvery: one source in so many is formatted with a file name (VERIF_FMT_IMPORTS_EVERY, default 8).
var importsEvery = func() uint32 {
	if n, err := strconv.Atoi(os.Getenv("VERIF_FMT_IMPORTS_EVERY")); err == nil && n > 0 {
		return uint32(n)
	}
	return 8
}()

// spansLines reports whether an element's children are not all on the open tag's line (IndentChildren).
// odd: feature mask of the odd spelling the source is written in (0 for the other spellings).
func spansLines(n templang.Node, loose bool, odd int) bool {
	if len(n.Kids) == 0 {
		return false
	}
	if n.Lead == "v" {
		return true
	}
	for _, k := range n.Kids {
		if wsAfter(k) == "v" || openTagSpansLines(k, loose) || (k.K == "el" && spansLines(k, loose, odd)) {
			return true
		}
		switch k.K {
		case "callb", "if", "for", "switch", "gcomment", "gocodeml":
			return true // always written on several lines (as in FmtLayout.tla's SpansLines)
		}
		// the odd spelling: Go code that gofmt splits into lines, start tags whose attribute expression spans lines
		if odd != 0 && (k.K == "gocodei" && odd&templang.OddGoCodeTwo != 0 || templang.OddStartTagSpansLines(k, odd)) {
			return true
		}
		for _, a := range k.Attrs {
			if a.A == "cond" {
				return true
			}
		}
	}
	return false
}

func blockish(n templang.Node, loose bool, odd int) bool {
	switch n.K {
	case "if", "for", "switch":
		return true
	case "el":
		return blockNames[n.Name] || spansLines(n, loose, odd)
	case "void", "raw":
		return blockNames[n.Name]
	}
	return false
}

// separateWhereBreaksAreForced writes a line break into the source wherever the formatter would force one
// (before block-level nodes and elements with indented children, after br/hr), so that the formatter
// no longer changes the whitespace class between those two nodes.
func separateWhereBreaksAreForced(v templang.Variant) func(ns []templang.Node) []templang.Node {
	odd := 0
	if v == 3 {
		odd = templang.OddAll
	}
	return func(ns []templang.Node) []templang.Node { return separateForced(ns, v == 2, odd) }
}

func separateForced(ns []templang.Node, loose bool, odd int) []templang.Node {
	for i := 0; i+1 < len(ns); i++ {
		cur := ns[i]
		forced := blockish(ns[i+1], loose, odd) || (cur.K == "void" && (cur.Name == "br" || cur.Name == "hr"))
		if !forced {
			continue
		}
		switch cur.K {
		case "text", "expr", "void", "el", "gocodei":
			ns[i].Tr = "v"
		case "slot", "hcomment", "mcomment", "raw", "call", "callb":
			ns[i].After = "v"
		}
	}
	return ns
}

func dropGoComments(ns []templang.Node) []templang.Node {
	var out []templang.Node
	for _, n := range ns {
		if n.K != "gcomment" {
			out = append(out, n)
		}
	}
	return out
}

func src(prog []templang.Node, v templang.Variant) string {
	if v == 3 {
		return srcOdd(prog, templang.OddAll)
	}
	return templang.HeaderV("p", v) + templang.Template("P", prog, v)
}

// During attribution the failure kind carries the formatting mode of the failing case ("c09@via": formatted with a
// file name), so that every re-run of the oracle on a rewritten program uses the mode of the original failure
// (the mode is otherwise chosen by a hash of the source, which every rewrite changes).
func modeKind(kind string, via bool) string {
	if via {
		return kind + "@via"
	}
	return kind + "@plain"
}

func splitKind(kind string) (base string, via bool) {
	if i := strings.IndexByte(kind, '@'); i >= 0 {
		return kind[:i], kind[i:] == "@via"
	}
	return kind, false
}

func failsSrc(s string, kind string) bool {
	base, via := splitKind(kind)
	_, outs, _ := checkSourceMode(s, via)
	for _, o := range outs {
		if o.kind == base {
			return true
		}
	}
	return false
}

// failsWith re-runs the oracle on a rewritten program and reports whether the same kind of failure remains.
func failsWith(p2 []templang.Node, v templang.Variant, kind string) bool {
	return failsSrc(src(p2, v), kind)
}

// callsEndTheirLine rewrites every component call so that a line break follows it.
func callsEndTheirLine(n templang.Node) templang.Node {
	if n.K == "call" {
		n.After = "v"
	}
	return n
}

var oddFeatures = []struct {
	bit  int
	name string
}{
	{templang.OddCRLF, "File.WindowsLineEndings"},
	{templang.OddCallArgSpacing, "CallTemplateExpression.ArgumentsNotFormatted"},
	{templang.OddGoCodeTwo, "GoCode.TwoStatementsOnOneLine"},
	{templang.OddCondOneLine, "ConditionalAttribute.WrittenOnOneLine"},
	{templang.OddExprComment, "StringExpression.BlockCommentInsideBraces"},
	{templang.OddCallBlockOneLine, "TemplElementExpression.BlockWrittenOnOneLine"},
	{templang.OddCommentBeforeTempl, "TemplateFile.IndentedCommentBeforeTempl"},
	{templang.OddHeaderSpansLines, "ControlFlowHeader.ExpressionSpansLines"},
	{templang.OddAttrExprSpansLines, "ExpressionAttribute.RawStringInExpressionThatSpansLines"},
}

func srcOdd(prog []templang.Node, odd int) string {
	s := templang.HeaderV("p", 3) + templang.TemplateOdd("P", prog, 3, odd)
	// Windows line endings for every second program (chosen by the program, not by the spelling, so that switching
	// another odd feature off does not switch this one)
	if odd&templang.OddCRLF != 0 {
		b, _ := json.Marshal(prog)
		h := fnv.New32a()
		h.Write(b)
		if h.Sum32()%2 == 0 {
			s = strings.ReplaceAll(s, "\n", "\r\n")
		}
	}
	return s
}

// fileLevel names failures that concern the file's import block rather than the template (no ablation of the
// template's nodes can explain those).
func fileLevel(o outcome, sig string) string {
	if !strings.HasPrefix(sig, "Format.") {
		return sig
	}
	switch {
	case strings.HasPrefix(o.detail, "formatting removed the import"):
		return "Imports.UsedImportRemoved"
	case strings.HasPrefix(o.detail, "formatting added the import"):
		return "Imports.UnusedImportAdded"
	case strings.Contains(o.detail, "\"import"):
		return "Imports.BlockChanged"
	}
	return sig
}

func attribute(prog []templang.Node, v templang.Variant, kind string) string {
	{
		// a call followed by something on its line: when the failure needs that adjacency, the adjacency is the
		// root cause, whatever else (an unusual spelling of the neighbour) is needed as well
		b1, _ := json.Marshal(prog)
		p2 := mapNodes(prog, callsEndTheirLine)
		b2, _ := json.Marshal(p2)
		if !bytes.Equal(b1, b2) && !failsWith(p2, v, kind) {
			if strings.Contains(src(prog, v), "{!") {
				return "CallTemplateExpression.LegacyCallNotFollowedByLineBreak"
			}
			return "CallTemplateExpression.CallFollowedOnTheSameLine"
		}
	}
	if base, _ := splitKind(kind); v == 3 && base == "c08-changed" {
		// The forced line break (known root cause, see attributeRest) comes first: an unusual spelling can be what
		// makes an element span lines (Go code that gofmt splits, an attribute expression over several lines), and
		// spelling it normally then removes the symptom although the line break the formatter forces is the cause.
		// Writing the whitespace where the break is forced keeps every spelling and removes only that cause.
		b1, _ := json.Marshal(prog)
		p2 := mapLists(prog, separateWhereBreaksAreForced(v))
		b2, _ := json.Marshal(p2)
		if !bytes.Equal(b1, b2) && !failsWith(p2, v, kind) {
			return "WriteNodes.ForcedLineBreakRendered"
		}
	}
	if v == 3 {
		// unusual spellings of single constructs: does the failure disappear when one of them is spelled normally?
		for _, f := range oddFeatures {
			if srcOdd(prog, templang.OddAll) != srcOdd(prog, templang.OddAll&^f.bit) && !failsSrc(srcOdd(prog, templang.OddAll&^f.bit), kind) {
				return f.name
			}
		}
	}
	{
		// the formatter rewrites the legacy call syntax {! c() } to @c() even when something follows on the same line
		b1, _ := json.Marshal(prog)
		p2 := mapNodes(prog, callsEndTheirLine)
		b2, _ := json.Marshal(p2)
		if !bytes.Equal(b1, b2) {
			// only a source that actually uses the legacy syntax can be explained by that finding; `@c() w1` is
			// the current syntax and a failure there is a different root cause
			name := "CallTemplateExpression.CallFollowedOnTheSameLine"
			if strings.Contains(src(prog, v), "{!") {
				name = "CallTemplateExpression.LegacyCallNotFollowedByLineBreak"
			}
			if !failsWith(p2, v, kind) {
				return name
			}
			// still failing with every call ending its line: is the failure explained without looking at the calls?
			if r := attributeRest(prog, v, kind); !strings.HasPrefix(r, "Format.") {
				return r
			}
			// no: a second root cause is involved as well
			if rest := attribute(p2, v, kind); !strings.HasPrefix(rest, "Format.") && failsWith(p2, v, kind) {
				return name + "+" + rest
			}
		}
	}
	return attributeRest(prog, v, kind)
}

// attributeRest attributes a failure to one of the root causes that do not involve what follows a component call.
func attributeRest(prog []templang.Node, v templang.Variant, kind string) string {
	if base, _ := splitKind(kind); base == "c08-changed" {
		b1, _ := json.Marshal(prog)
		// Known root cause: writeNodes forces a line break (before block-level nodes and elements whose
		// children are indented, after br/hr) even where the source has no whitespace between the two
		// nodes, and the generator renders that break as a space (between inline content, and anywhere
		// inside control-flow / case / call-block bodies, whose interior whitespace nodes are kept).
		p2 := mapLists(prog, separateWhereBreaksAreForced(v))
		b2, _ := json.Marshal(p2)
		if !bytes.Equal(b1, b2) && !failsWith(p2, v, kind) {
			return "WriteNodes.ForcedLineBreakRendered"
		}
		// Known root cause: a `//` comment consumes its line break; the indentation the formatter writes
		// on the next line becomes a whitespace node that control-flow bodies render.
		p3 := mapLists(prog, dropGoComments)
		b3, _ := json.Marshal(p3)
		if !bytes.Equal(b1, b3) && !failsWith(p3, v, kind) {
			return "GoComment.IndentAfterLineCommentRendered"
		}
		p4 := mapLists(p3, separateWhereBreaksAreForced(v))
		b4, _ := json.Marshal(p4)
		if !bytes.Equal(b1, b4) && !failsWith(p4, v, kind) {
			return "WriteNodes.ForcedLineBreakRendered+GoComment.IndentAfterLineCommentRendered"
		}
	}
	for _, ab := range ablations {
		p2 := mapNodes(prog, ab.f)
		b1, _ := json.Marshal(prog)
		b2, _ := json.Marshal(p2)
		if bytes.Equal(b1, b2) {
			continue
		}
		if !failsWith(p2, v, kind) {
			return ab.name
		}
	}
	base, _ := splitKind(kind)
	return "Format." + base + ":" + strings.Join(kinds(prog), ",")
}

func main() {
	if len(os.Args) < 3 {
		vhlib.Fatal("usage")
	}
	switch os.Args[1] {
	case "progs":
		progs(os.Args[2])
	case "corpus":
		corpus(os.Args[2])
	case "layout":
		layout(os.Args[2])
	default:
		vhlib.Fatal("unknown mode")
	}
}

func progs(path string) {
	var all []templang.Program
	err := vhlib.Each(path, func(line []byte) error {
		p, err := templang.ParseProgram(line)
		if err != nil {
			return err
		}
		all = append(all, p)
		return nil
	})
	if err != nil {
		vhlib.Fatal("%v", err)
	}
	type result struct {
		ncase, rejected, c08, c09 int
		firstRejected             *report
	}
	workers := runtime.NumCPU()
	results := make([]result, workers)
	var wg sync.WaitGroup
	for w := 0; w < workers; w++ {
		wg.Add(1)
		go func(w int) {
			defer wg.Done()
			r := &results[w]
			for i := w; i < len(all); i += workers {
				p := all[i]
				for v := templang.Variant(0); v < templang.Variants; v++ {
					s := src(p.Prog, v)
					r.ncase++
					accepted, outs, _ := checkSource(s)
					if !accepted {
						r.rejected++
						if r.firstRejected == nil {
							r.firstRejected = &report{ID: p.ID, Variant: int(v), Source: s, Detail: outs[0].detail}
						}
						continue
					}
					for _, o := range outs {
						rep := report{ID: p.ID, Variant: int(v), Source: s, Formatted: o.fmted, Detail: o.detail}
						switch o.kind {
						case "c08-rejected", "c08-changed":
							r.c08++
							vhlib.Emit(map[string]any{"kind": "fail", "prop": "C08", "sig": fileLevel(o, attribute(p.Prog, v, modeKind(o.kind, viaImports(s)))), "what": "formatting changed the template's meaning: " + o.kind, "case": rep})
						case "c09":
							r.c09++
							vhlib.Emit(map[string]any{"kind": "fail", "prop": "C09", "sig": fileLevel(o, attribute(p.Prog, v, modeKind(o.kind, viaImports(s)))), "what": "formatting is not idempotent", "case": rep})
						}
					}
					if i%1501 == 0 && v == 0 {
						f, _ := realFormat(s)
						vhlib.Sample(report{ID: p.ID, Variant: int(v), Source: s, Formatted: f, Detail: "ok"})
					}
				}
			}
		}(w)
	}
	wg.Wait()
	var tot result
	for _, r := range results {
		tot.ncase += r.ncase
		tot.rejected += r.rejected
		tot.c08 += r.c08
		tot.c09 += r.c09
		if tot.firstRejected == nil {
			tot.firstRejected = r.firstRejected
		}
	}
	if tot.firstRejected != nil {
		vhlib.Emit(map[string]any{"kind": "rejected", "case": tot.firstRejected})
	}
	vhlib.Summary(map[string]any{"programs": len(all), "cases": tot.ncase, "rejected": tot.rejected, "c08": tot.c08, "c09": tot.c09})
}

func corpus(list string) {
	var n, rejected, c08, c09 int
	err := vhlib.Each(list, func(line []byte) error {
		file := string(line)
		b, err := os.ReadFile(file)
		if err != nil {
			return err
		}
		n++
		accepted, outs, _ := checkSource(string(b))
		if !accepted {
			rejected++
			return nil
		}
		for _, o := range outs {
			r := report{File: file, Formatted: o.fmted, Detail: o.detail}
			switch o.kind {
			case "c08-rejected", "c08-changed":
				c08++
				vhlib.Emit(map[string]any{"kind": "fail", "prop": "C08", "sig": "Corpus." + o.kind + ":" + file[strings.LastIndex(file, "/generator/")+1:], "what": "formatting changed the meaning of a repository template", "case": r})
			case "c09":
				c09++
				vhlib.Emit(map[string]any{"kind": "fail", "prop": "C09", "sig": "Corpus.c09:" + file[strings.LastIndex(file, "/generator/")+1:], "what": "formatting a repository template is not idempotent", "case": r})
			}
		}
		return nil
	})
	if err != nil {
		vhlib.Fatal("%v", err)
	}
	vhlib.Summary(map[string]any{"files": n, "rejected": rejected, "c08": c08, "c09": c09})
}

type layoutRec struct {
	Prog []templang.Node `json:"prog"`
	Fmt  []templang.Node `json:"fmt"`
	FmtL []templang.Node `json:"fmtl"` // prediction for the loose spelling (attributes on their own lines)
}

// layout compares the layout model's prediction with the real formatter. A difference is model drift
// (the property is decided by the progs mode on real output), reported so the evidence can say how far
// the model-level results (idempotence of Fmt) carry over to the code.
func layout(path string) {
	var all []layoutRec
	err := vhlib.Each(path, func(line []byte) error {
		var r layoutRec
		if err := json.Unmarshal(line, &r); err != nil {
			return err
		}
		all = append(all, r)
		return nil
	})
	if err != nil {
		vhlib.Fatal("%v", err)
	}
	workers := runtime.NumCPU()
	type res struct{ n, agree, drift int }
	results := make([]res, workers)
	var wg sync.WaitGroup
	for w := 0; w < workers; w++ {
		wg.Add(1)
		go func(w int) {
			defer wg.Done()
			r := &results[w]
			for i := w; i < len(all); i += workers {
				rec := all[i]
				for v := templang.Variant(0); v < templang.LayoutVariants; v++ {
					pred := rec.Fmt
					if v == 2 {
						pred = rec.FmtL
					}
					s := src(rec.Prog, v)
					want := templang.FormattedHeaderV("p", v, viaImports(s)) + templang.FormatPrint(pred, v)
					got, err := realFormat(s)
					r.n++
					if err == nil && got == want {
						r.agree++
						continue
					}
					r.drift++
					if r.drift <= 2 {
						d := "formatter error"
						if err == nil {
							d = firstDiff(want, got)
						}
						vhlib.Drift("layout model and formatter disagree: "+d, report{Variant: int(v), Source: s, Formatted: got, Detail: "model predicts: " + want})
					}
				}
			}
		}(w)
	}
	wg.Wait()
	var tot res
	for _, r := range results {
		tot.n += r.n
		tot.agree += r.agree
		tot.drift += r.drift
	}
	vhlib.Summary(map[string]any{"programs": len(all), "cases": tot.n, "agree": tot.agree, "drift": tot.drift})
}
