\* C20 design check: the pipeline (with the repaired unsupported-encoding rule) satisfies C20 on every configuration.
CONSTANTS
  UnsupportedRule = "pass"
  HeadRule = "pass"
  StatusRule = "pass"
  CtRule = "caseinsensitive"
  ParseRule = "scripting"
  CspRule = "policylist"
  LengthRule = "set"
  EmitCases = FALSE
INIT Init
NEXT Next
INVARIANTS TypeOK PassThroughIsIdentity HtmlGetsExactlyOneScript DocumentOnlyAppendedTo LengthMatchesBody EncodingHeaderDescribesBody HeadIsUntouched
CHECK_DEADLOCK FALSE
