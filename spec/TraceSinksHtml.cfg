\* C01 trace validation of real gallery outputs (one shard per TLC run).
INIT Init
NEXT Next
CHECK_DEADLOCK FALSE
POSTCONDITION AllConsumed
