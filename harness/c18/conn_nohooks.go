//go:build !c18hooks

package main

import "verifharness/vhlib"

// The conn half needs the verif hooks of lsp/jsonrpc2 (hooks/C18-jsonrpc2-conn.diff). The check
// detects them in the repository under test and builds with -tags c18hooks only when they exist.
func connMain([]string) {
	vhlib.Fatal("built without -tags c18hooks: the verif hooks of lsp/jsonrpc2 are not in the repository under test")
}
