\* C18 conn GEN: simulated behaviours = peer scripts (reply order, delays, drops, cancellations, peer traffic).
CONSTANTS
  NC = 3
  NN = 2
  MaxPN = 1
  MaxPC = 1
  UseWriteMu = TRUE
  ChanCap = 1
  RegisterFirst = TRUE
INIT SimInit
NEXT SimNext
INVARIANTS Matched FramesNeverInterleave ReaderNeverBlocks PendingExact PrintHist
CHECK_DEADLOCK FALSE
