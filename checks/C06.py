#!/usr/bin/env python3
"""C06 -- the parser is total and every recorded position is faithful to the source.

MC   : spec/ParseCursor.tla (cursor discipline: under the loop-top contract every loop invocation has at
       most N+1 tops and every parse ends -- invariant + liveness; negative config: a sub-parser that
       matches without consuming breaks the bound) and spec/SourceMapPos.tla (parse.Input.PositionAt is the
       position algebra Advance*; ranges ordered / in bounds; negative config: newline off by one).
       Both specs carry the end-of-input dimension (N / the text is the CALLER's input; an entry point that
       parses a longer private copy is rejected: ParseCursor_negeof, SourceMapPos_negeof) and ParseCursor the
       nesting dimension (work of a finished nested invocation is not redone: ReparseBound; ParseCursor_negnest).
EXPLORE (harness/c06), every input through the exported parser.ParseString and judged against the caller's
       string: inputs cut exactly at the end of every construct kind with no final newline / "\n" / "\r" / "\r\n",
       one construct kind nested d levels deep (loop tops must not multiply per level),
       the repository's .templ files and parser test inputs, every truncation of them
       (quick: all truncations of the smaller inputs + a seeded sample of the larger ones), seeded
       structure-aware mutations (token insert/delete/duplicate/replace/swap from a vocabulary,
       bracket/quote/tag imbalance, multi-byte text before expressions, CRLF), each parsed by the real
       parser in a worker pool with recover and a watchdog.  Panic = violation.  Watchdog timeout =
       suspect, confirmed by re-running the single input with a long timeout and goroutine dumps
       (violation only if it still hangs inside a parser loop; otherwise exit 2 / noted as load).
VAL  : with hooks/C06-parser-loops.diff in the repository (optional, detected at build time) every loop
       top of the parser is an event; sampled event sequences are validated by TLC against
       spec/TraceParseCursor.tla; a loop top without progress aborts the parse at once (non-termination).
       Positions of parse errors and, for inputs that parse + generate + gofmt, every Expression /
       NameRange / Range of the tree are validated by TLC against spec/TraceRanges.tla.
"""
import concurrent.futures
import json
import os
import re
import subprocess
import sys
sys.path.insert(0, os.path.join(os.path.dirname(os.path.abspath(__file__)), "..", "lib"))
import vlib


def cfg(name, **subst):
    text = open(os.path.join(vlib.SPEC, name)).read()
    for k, v in subst.items():
        text, n = re.subn(r"(?m)^(\s*%s\s*(=|<-)\s*).*$" % k, lambda m: m.group(1) + v, text)
        if n != 1:
            raise vlib.InfraError("cfg %s: cannot set %s" % (name, k))
    return text


def build_harness():
    """Build with the loop-top hook if the repository under test has it, else without."""
    out = os.path.join(vlib.scratch(), "c06")
    d = vlib.harness_dir()
    p = vlib.run(["go", "build", "-tags", "verif,c06hook", "-o", out, "./c06"], cwd=d, check=False)
    if p.returncode == 0:
        return out, True
    err = p.stderr.decode(errors="replace")
    if "VerifLoopHook" not in err:
        raise vlib.InfraError("harness c06 does not build:\n" + err[-3000:])
    vlib.run(["go", "build", "-tags", "verif", "-o", out, "./c06"], cwd=d)
    return out, False


def looping_function(dumps):
    """The parser function that stays on the stack of the parsing goroutine across all dumps:
    the innermost frame common to every dump is the loop that does not end."""
    stacks = []
    for d in dumps:
        best = None
        for g in d.split("\n\n"):
            if "github.com/a-h/templ/parser/v2" in g and "main.single" in g:
                frames = [l.strip() for l in g.splitlines()[1:] if not l.startswith("\t")]
                frames = [re.sub(r"\(.*\)$", "", f) for f in frames]
                best = frames
        if best:
            stacks.append(list(reversed(best)))   # outermost first
    if not stacks:
        return None
    common = []
    for i in range(min(len(s) for s in stacks)):
        if all(s[i] == stacks[0][i] for s in stacks):
            common.append(stacks[0][i])
        else:
            break
    inner = [f for f in common if "templ/parser/v2" in f]
    if not inner:
        return None
    return inner[-1].replace("github.com/a-h/templ/parser/v2", "")


def main():
    ck = vlib.Check("C06", "exploration")
    thorough = ck.tier == "thorough"
    sc = vlib.scratch()

    # --- MC -------------------------------------------------------------------------------------
    sub = dict(N="4", MaxDepth="3", MaxTries="2") if thorough else {}
    mc = vlib.tlc("MCParseCursor", "mc.cfg", files={"mc.cfg": cfg("ParseCursor_mc.cfg", **sub)}, workers=8, timeout=1200)
    if not mc.ok:
        raise vlib.InfraError("ParseCursor: the contract does not give termination (%s)" % mc.violated)
    ck.add_tlc(mc, "ParseCursor_mc (TopBound + Termination)")
    for negcfg, inv in (("ParseCursor_neg.cfg", "TopBound"), ("ParseCursor_negeof.cfg", "CursorInBounds"),
                        ("ParseCursor_negnest.cfg", "ReparseBound")):
        neg = vlib.tlc("MCParseCursor", negcfg, workers=1, timeout=300)
        if neg.violated != inv:
            raise vlib.InfraError("negative config %s not rejected by %s: %s" % (negcfg, inv, neg.violated))
    pos = vlib.tlc("SourceMapPos", "pos.cfg", files={"pos.cfg": cfg("SourceMapPos_mc.cfg", MaxLen="5" if thorough else "4")},
                   workers=8, timeout=1200)
    if not pos.ok:
        raise vlib.InfraError("SourceMapPos: PositionAt is not the position algebra (%s)" % pos.violated)
    ck.add_tlc(pos, "SourceMapPos_mc")
    for negcfg, inv in (("SourceMapPos_neg.cfg", "PositionIsAdvance"), ("SourceMapPos_negeof.cfg", "EofPositionInInput")):
        negp = vlib.tlc("SourceMapPos", negcfg, workers=1, timeout=300)
        if negp.violated != inv:
            raise vlib.InfraError("negative config %s not rejected by %s: %s" % (negcfg, inv, negp.violated))
    ck.set("negative_configs_rejected", 5)

    # --- exploration ------------------------------------------------------------------------------
    binp, hook = build_harness()
    ck.set("hook_present", hook)
    outdir = os.path.join(sc, "c06out")
    os.makedirs(outdir)
    p = vlib.run([binp, "run", vlib.REPO, outdir, str(ck.seed), ck.tier], check=False, timeout=3000)
    fails, summary = [], None
    for line in p.stdout.decode(errors="replace").splitlines():
        if not line.startswith("{"):
            continue
        r = json.loads(line)
        if r.get("kind") == "fail":
            fails.append(r)
        elif r.get("kind") == "sample":
            ck.sample(r["case"])
        elif r.get("kind") == "summary":
            summary = r
    if p.returncode != 0 or summary is None:
        raise vlib.InfraError("harness c06 failed rc=%s: %s" % (p.returncode, p.stderr.decode(errors="replace")[-3000:]))
    s = summary
    if s["hook"] != hook:
        raise vlib.InfraError("hook mismatch between build and run")
    min_eval = 300000 if thorough else 40000
    if s["evaluations"] < min_eval and not s["stopped_early"]:
        raise vlib.InfraError("only %d inputs were parsed" % s["evaluations"])
    for fam in ("corpus", "trunc", "mut", "ends", "nest"):
        if s["by_kind"].get(fam, 0) == 0:
            raise vlib.InfraError("input family %s is empty" % fam)
    if s["gofmt_ok"] < 1000 or s["errors_with_position"] < 1000:
        raise vlib.InfraError("exploration is lopsided: %s accepted+gofmt, %s positioned errors" % (s["gofmt_ok"], s["errors_with_position"]))
    if hook:
        need = {"templateNodeParser", "expressionParser", "scriptElementParser", "templateFile.nodes", "templateFile.goLines",
                "templateFile.header", "attributesParser", "cssParser", "switchExpressionParser.cases"}
        if not need <= set(s["loops_seen"]):
            raise vlib.InfraError("a hooked parser loop never fired: %s" % sorted(need - set(s["loops_seen"])))

    # panics and (hook) no-progress loops reported by the harness
    noprogress_reported = 0
    for f in fails:
        if f["sig"].startswith("NoProgress:"):
            noprogress_reported += 1
        if f["sig"].startswith("ReparseBound:"):
            f["case"]["growth_with_depth"] = [w for w in s.get("nest_work", []) if w["kind"].split(":")[1] == f["case"]["kind"].split(":")[1]][:14]
        ck.violation(f["sig"], f["what"], f["case"])

    # watchdog suspects: confirm with a long single run + goroutine dumps
    long_t = 60 if thorough else 15
    unconfirmed = []

    def confirm(su):
        try:
            q = subprocess.run([binp, "single", su["file"], str(long_t)], stdout=subprocess.PIPE, stderr=subprocess.PIPE,
                               timeout=long_t + 60)
        except subprocess.TimeoutExpired:
            raise vlib.InfraError("single run of a suspect did not even dump: %s" % su)
        lines = [l for l in q.stdout.decode(errors="replace").splitlines() if l.startswith("{")]
        return su, q.returncode, (json.loads(lines[-1]) if lines else {})

    suspects = (s["suspects"] or [])[:6]
    with concurrent.futures.ThreadPoolExecutor(max_workers=6) as ex:
        confirmed = list(ex.map(confirm, suspects))
    for su, rc, res in confirmed:
        data = open(su["file"], "rb").read()
        if rc == 3 and res.get("result") == "timeout":
            fn = looping_function(res.get("dumps", []))
            if fn is None:
                raise vlib.InfraError("suspect still running after %ss but no parser frame in the dumps: %s" % (long_t, su))
            ck.violation("hang:" + fn, "parser does not return within %ss on a %d-byte input; goroutine stays in %s " % (
                long_t, len(data), fn),
                {"input_go_quoted": json.dumps(data.decode("latin-1")), "kind": su["kind"], "origin": su["origin"],
                 "looping_function": fn, "dump": res["dumps"][0][:6000], "reproduce": "parser.ParseString(input)"})
        elif res.get("result", "").startswith("panic"):
            raise vlib.InfraError("suspect panics when run alone but not in the pool: %s" % res)
        else:
            unconfirmed.append({"origin": su["origin"], "kind": su["kind"], "seconds_alone": res.get("seconds")})
    slow = [u for u in unconfirmed if (u["seconds_alone"] or 0) > 2.0]
    if unconfirmed:
        ck.notes.append("watchdog timeouts not confirmed as hangs (machine load): %s" % json.dumps(unconfirmed)[:600])

    # --- VAL: TLC on the recorded positions and loop-top events ------------------------------------
    rpath = os.path.join(outdir, "ranges.ndjson")
    cpath = os.path.join(outdir, "cursor.ndjson")
    rlines = open(rpath).read().splitlines()
    if len(rlines) != s["range_lines"]:
        raise vlib.InfraError("ranges trace truncated")

    # binding self-tests on small prefixes of the real traces
    head = [json.loads(l) for l in rlines[:400]]
    vi = next(i for i, e in enumerate(head) if e["k"] == "r" and e["r"]["t"] == "expr" and e["r"]["a"][2] > 0)
    head[vi]["r"]["a"][2] -= 1          # column one byte off
    st = vlib.tlc("TraceRanges", "TraceRanges.cfg", workers=1, timeout=300, xss="256m",
                  files={"trace.ndjson": "".join(json.dumps(e) + "\n" for e in head)})
    if not any(b["line"] == vi + 1 and "PositionConsistent" in b["sigs"] for b in st.tagged("BAD")):
        raise vlib.InfraError("binding self-test: corrupted column in the ranges trace was not rejected")
    selftests = ["corrupted column rejected by TraceRanges"]

    def run_ranges():
        return vlib.tlc("TraceRanges", "TraceRanges.cfg", workers=1, timeout=1500, xss="256m", xmx="6g",
                        files={"trace.ndjson": "\n".join(rlines) + "\n"})

    def run_cursor(text):
        return vlib.tlc("TraceParseCursor", "TraceParseCursor.cfg", workers=1, timeout=1500, xss="256m", xmx="6g",
                        files={"trace.ndjson": text})

    jobs = {}
    with concurrent.futures.ThreadPoolExecutor(max_workers=4) as ex:
        jobs["ranges"] = ex.submit(run_ranges)
        if hook:
            clines = open(cpath).read().splitlines()
            if len(clines) != s["cursor_lines"] or s["cursor_inputs"] < 200:
                raise vlib.InfraError("cursor trace incomplete: %d lines, %d inputs" % (len(clines), s["cursor_inputs"]))
            chead = [json.loads(l) for l in clines[:60]]
            ti = next(i for i, e in enumerate(chead) if e["k"] == "top")
            chead.insert(ti + 1, dict(chead[ti]))      # the same loop top twice: no progress
            jobs["cursor_selftest"] = ex.submit(run_cursor, "".join(json.dumps(e) + "\n" for e in chead))
            # split at input boundaries into up to 3 chunks
            bounds = [i for i, l in enumerate(clines) if '"k":"in"' in l]
            cuts = [0]
            for k in (1, 2):
                tgt = len(clines) * k // 3
                c = next((b for b in bounds if b >= tgt), None)
                if c and c > cuts[-1]:
                    cuts.append(c)
            cuts.append(len(clines))
            for k in range(len(cuts) - 1):
                jobs["cursor-%d" % k] = ex.submit(run_cursor, "\n".join(clines[cuts[k]:cuts[k + 1]]) + "\n")
        res = {k: j.result() for k, j in jobs.items()}

    for name, r in res.items():
        if name == "cursor_selftest":
            if not any("NoProgress" in b["sigs"] for b in r.tagged("BAD")):
                raise vlib.InfraError("binding self-test: repeated loop top was not rejected by TraceParseCursor")
            selftests.append("repeated loop top rejected by TraceParseCursor")
            continue
        if not r.ok or r.postcondition_failed or len(r.tagged("DONE")) != 1:
            raise vlib.InfraError("trace validation %s did not complete:\n%s" % (name, r.out[-2000:]))
        ck.add_tlc(r, "Trace " + name)
    ck.set("binding_selftests", selftests)

    # ranges: TLC's verdict, cross-checked with the harness's own flags (two keys)
    bad_lines = {}
    for b in res["ranges"].tagged("BAD"):
        bad_lines[b["line"]] = b
    flagged = set(i + 1 for i, l in enumerate(rlines) if '"flag":1' in l)
    if set(bad_lines) != flagged:
        raise vlib.InfraError("TLC (TraceRanges) and the harness disagree about faulty positions: TLC %s, harness %s" % (
            sorted(bad_lines)[:10], sorted(flagged)[:10]))
    if res["ranges"].tagged("DONE")[0]["events"] != len(rlines):
        raise vlib.InfraError("TraceRanges consumed %s of %d lines" % (res["ranges"].tagged("DONE"), len(rlines)))
    for ln, b in sorted(bad_lines.items()):
        e = json.loads(rlines[ln - 1])
        f = next(x for x in (json.loads(rlines[k]) for k in range(ln - 1, -1, -1)) if x["k"] == "f")
        r = e["r"]
        for sig in b["sigs"]:
            what = {"err": "error position outside the input or line/col inconsistent with the index",
                    "expr": "expression range unfaithful", "name": "name range does not cover the name",
                    "range": "range unfaithful"}[r["t"]]
            ck.violation("%s:%s" % (sig, r["h"]), "%s (%s, %s of %s)" % (what, sig, f.get("kind"), f.get("origin")),
                         {"input_go_quoted": f.get("src"), "origin": f.get("origin"), "kind": f.get("kind"), "record": r,
                          "line_lengths": f.get("ll")[:50], "reproduce": "parser.ParseString(input); inspect " + str(r.get("path") or "the error position")})

    # cursor: every non-termination the harness reported must be rejected by TLC as well
    if hook:
        nev = sum(r.tagged("DONE")[0]["events"] for k, r in res.items() if k.startswith("cursor-"))
        if nev != s["cursor_lines"]:
            raise vlib.InfraError("TraceParseCursor consumed %d of %d lines" % (nev, s["cursor_lines"]))
        # two keys: what TLC rejects per parse must be what the harness flagged for that parse
        tlc_ids = {"NoProgress": set(), "CursorInBounds": set(), "ReparseBound": set()}
        topbound = set()
        for k, r in res.items():
            if k.startswith("cursor-"):
                for b in r.tagged("BAD"):
                    for sig in b["sigs"]:
                        if sig == "TopBound":
                            topbound.add(b["id"])    # n+2 tops: only possible after NoProgress or a cursor beyond n
                        else:
                            tlc_ids[sig].add(b["id"])
        har_ids = {"NoProgress": set(), "CursorInBounds": set(), "ReparseBound": set()}
        for l in clines:
            if '"k":"in"' in l:
                e = json.loads(l)
                if e["flag"]:
                    har_ids["NoProgress"].add(e["id"])
                if e["oob"]:
                    har_ids["CursorInBounds"].add(e["id"])
                if e["rp"]:
                    har_ids["ReparseBound"].add(e["id"])
        if tlc_ids != har_ids or not topbound <= (har_ids["NoProgress"] | har_ids["CursorInBounds"]):
            raise vlib.InfraError("TLC (TraceParseCursor) and the harness disagree: TLC %s, harness %s" % (
                {k: sorted(v)[:5] for k, v in tlc_ids.items()}, {k: sorted(v)[:5] for k, v in har_ids.items()}))
        if har_ids["CursorInBounds"]:
            ck.notes.append("model drift: the parser's cursor went beyond the caller's input in %d parses (ParseCursor.CursorInBounds; "
                            "positions taken there are judged by TraceRanges)" % len(har_ids["CursorInBounds"]))
        ck.set("loop_top_events_validated", nev)
        ck.set("parses_with_validated_events", s["cursor_inputs"])
        ck.set("max_tops_per_loop_invocation", s["max_tops_per_frame"])
        ck.set("loops_observed", s["loops_seen"])

    if slow and not ck._nviol:
        raise vlib.InfraError("watchdog timeouts that are slow but not hangs when run alone (needs a look): %s" % slow)

    ck.set("evaluations", s["evaluations"])
    ck.set("distinct_nontrivial", s["distinct"])
    ck.set("rule", "distinct byte strings (FNV-64 of the input) among: corpus inputs (.templ files, txtar sections of parser "
                   "test data, parser fuzz seeds), their byte-wise truncations, and seeded token-level mutations of them")
    ck.set("corpus_inputs", s["corpus_inputs"])
    ck.set("by_kind", s["by_kind"])
    ck.set("max_entries_of_one_loop_at_one_index", s["max_entries_same_loop_same_index"])
    ck.set("nesting_work", [w for w in s.get("nest_work", []) if w["kind"].split(":")[2] in ("2", "4", "8")])
    ck.set("cursor_beyond_input", s["cursor_beyond_input"])
    ck.set("accepted_by_parser", s["accepted"])
    ck.set("accepted_generated_gofmt", s["gofmt_ok"])
    ck.set("errors_with_position", s["errors_with_position"])
    ck.set("errors_without_position", s["errors_without_position"])
    ck.set("error_types", s["error_types"])
    ck.set("panics", s["panics"])
    ck.set("watchdog_timeouts", s["timeouts"])
    ck.set("no_progress_aborts", s["no_progress"])
    ck.set("position_records_validated_by_tlc", len(rlines))
    ck.set("range_kinds_checked_by_harness", s["range_kinds"])
    ck.set("truncations", "every byte-wise truncation of every corpus input" if thorough else
           "every truncation of inputs <= 2000 bytes, 80 seeded truncation points of each larger input")
    ck.assume("'promptly' is judged by deterministic work counts from the loop-top hook (entries of one loop at one input index "
              "per parse <= 16; the corpus needs 4), not by wall time")
    ck.assume("NOT covered: coverage-guided random bytes (a fuzzing technique outside this family; the repository's Fuzz* targets do that)")
    ck.assume("absence of panics / hangs is observed on the explored inputs, not proved; loops inside github.com/a-h/parse combinators are not hooked")
    ck.assume("position faithfulness is demanded only for inputs that parse, generate and gofmt (as the property states); all such inputs are "
              "checked by the harness, the corpus plus a deterministic sample of them (and every flagged one) by TLC")
    if not hook:
        ck.assume("hooks/C06-parser-loops.diff is not applied to the repository under test: per-iteration progress events are not "
                  "validated; a hang would be detected by the watchdog and confirmed by a long single run with goroutine dumps")
    ck.assume("strings in the position records pass through JSON: invalid UTF-8 bytes are compared after replacement by U+FFFD")
    ck.finish()


vlib.main(main)
