\* C20 as coded: a response to a HEAD request goes through the rewrite (502 for gzip, synthetic Content-Length otherwise): TLC must reject HeadIsUntouched.
CONSTANTS
  UnsupportedRule = "pass"
  HeadRule = "rewrite"
  StatusRule = "pass"
  CtRule = "caseinsensitive"
  ParseRule = "scripting"
  CspRule = "policylist"
  LengthRule = "set"
  EmitCases = FALSE
INIT Init
NEXT Next
INVARIANTS TypeOK PassThroughIsIdentity HtmlGetsExactlyOneScript DocumentOnlyAppendedTo LengthMatchesBody EncodingHeaderDescribesBody HeadIsUntouched
CHECK_DEADLOCK FALSE
