\* C05 edge emission
CONSTANTS
  Classes <- ClassesDef
  Contexts <- ContextsDef
  RegularExtra <- NoExtra
  AngleGuard = TRUE
  FontFix = FALSE
  BgFix = FALSE
  TrackAttribution = TRUE
  AttrEscapes = 2
  EmitEdges = TRUE
INIT Init
NEXT Next
VIEW View
ACTION_CONSTRAINT Emit
INVARIANTS TypeOK
CHECK_DEADLOCK FALSE
