----------------------------- MODULE MCRenderIO -----------------------------
(* Model-checking instance of RenderIO: every program of the op grammar up to MaxOps ops and
   MaxDepth nesting levels.                                                                  *)
EXTENDS RenderIO
AllProgs == GrammarProgs
BothSW == {TRUE, FALSE}
AllModes == {"err", "short", "zero"}
=============================================================================
