-------------------------------- MODULE Proxy --------------------------------
(* C20 -- the live-reload proxy (cmd/templ/generatecmd/proxy/proxy.go) alters HTML responses only by
   appending the reload script.

   One behaviour = one proxied exchange. The initial states are the abstract configuration space
   (content type x content encoding x request kind x skip marker x CSP shape x body shape x client
   Accept-Encoding); the actions are the steps of the response pipeline in the order the Go code runs
   them:

     Transport      http.DefaultTransport.RoundTrip: when the client sent no Accept-Encoding the transport
                    asked for gzip itself and decodes a gzip response transparently (header and length
                    removed)
     MarkHtmx       roundTripper.setShouldSkipResponseModificationHeader
     Decide         modifyResponse: skip marker? content type prefix? Content-Encoding switch
     Decode         newReader + io.ReadAll
     Insert         insertScriptTagIntoBody(parseNonce(csp), body): html.Parse, first body element,
                    AppendChild(script), html.Render   (no body element: the decoded text is kept)
     Encode         newWriter
     SetLength      r.ContentLength / Content-Length header
     Deliver        the client has the response

   The response is abstract: which headers it carries and a body record saying which document it is, whether
   a script was inserted (and with which nonce), in which coding the bytes are and whether they are still
   the backend's bytes.

   UnsupportedRule selects what `default:` of the encoding switch does:
     "rewrite"  as coded at the pinned commit: log a warning, continue with the identity reader/writer
     "pass"     repaired: log a warning, return (pass through)                                         *)
EXTENDS Integers, Sequences, TLC, Json

CONSTANTS UnsupportedRule,   \* "rewrite" | "pass"
          LengthRule,        \* "set" (as coded) | "forget" (plausible bug for the negative config)
          EmitCases

VARIABLES cfg, hdr, body, pc, path

vars == <<cfg, hdr, body, pc, path>>

ContentTypes == {"html", "htmlcharset", "other", "none"}
Encodings    == {"none", "gzip", "br", "unsupported"}
Requests     == {"plain", "htmx"}
Csps         == {"none", "scriptsrc", "several", "otheronly", "nononce", "afterother", "defaultfirst"}
Bodies       == {"empty", "fragment", "full", "scriptbody", "nonascii", "scripts", "frameset"}
Accepts      == {"browser", "absent"}

IsHtml(ct) == ct \in {"html", "htmlcharset"}           \* strings.HasPrefix(contentType, "text/html")
HasBody(b) == b # "frameset"                           \* html.Parse synthesises html/head/body for everything else

\* the nonces a browser accepts for a script element under the page's policy (symbolic names; the harness
\* owns the concrete header strings): the nonce sources of the script-src directive
ScriptNonces(csp) == CASE csp = "scriptsrc"  -> {"N1"}
                       [] csp = "several"    -> {"N1", "N2"}
                       [] csp = "afterother" -> {"N1"}
                       [] csp = "defaultfirst" -> {"N1"}     \* default-src carries a DIFFERENT nonce in front of script-src
                       [] OTHER              -> {}
\* parseNonce: the first nonce source of the first script-src directive that has one
ParseNonce(csp) == CASE csp \in {"scriptsrc", "several", "afterother", "defaultfirst"} -> "N1"
                     [] OTHER -> ""

Init ==
    /\ cfg \in [ct : ContentTypes, enc : Encodings, req : Requests, skip : BOOLEAN, csp : Csps,
                body : Bodies, accept : Accepts]
    /\ hdr = [ct |-> cfg.ct, enc |-> cfg.enc, skip |-> cfg.skip, csp |-> cfg.csp, cl |-> "match"]
    /\ body = [doc |-> cfg.body, inserted |-> 0, nonce |-> "", coding |-> cfg.enc, bytes |-> "backend"]
    /\ pc = "transport"
    /\ path = <<>>

Go(next, what) == pc' = next /\ path' = Append(path, what)

Transport ==
    /\ pc = "transport"
    /\ IF cfg.accept = "absent" /\ hdr.enc = "gzip"
       THEN /\ hdr' = [hdr EXCEPT !.enc = "none", !.cl = "absent"]
            /\ body' = [body EXCEPT !.coding = "none", !.bytes = "gunzipped"]
            /\ Go("mark", "Transport.TransparentGunzip")
       ELSE /\ UNCHANGED <<hdr, body>> /\ Go("mark", "Transport.AsIs")
    /\ UNCHANGED cfg

MarkHtmx ==
    /\ pc = "mark"
    /\ IF cfg.req = "htmx"
       THEN hdr' = [hdr EXCEPT !.skip = TRUE] /\ Go("decide", "MarkHtmx.Marked")
       ELSE UNCHANGED hdr /\ Go("decide", "MarkHtmx.NotHtmx")
    /\ UNCHANGED <<cfg, body>>

Decide ==
    /\ pc = "decide"
    /\ CASE hdr.skip -> Go("deliver", "Decide.SkipMarker")
         [] ~hdr.skip /\ ~IsHtml(hdr.ct) -> Go("deliver", "Decide.NotHtml")
         [] ~hdr.skip /\ IsHtml(hdr.ct) /\ hdr.enc = "unsupported" ->
                IF UnsupportedRule = "pass" THEN Go("deliver", "Decide.UnsupportedEncodingPasses")
                ELSE Go("decode", "Decide.UnsupportedEncodingFallsThrough")
         [] OTHER -> Go("decode", "Decide.Rewrite")
    /\ UNCHANGED <<cfg, hdr, body>>

\* gzip / br: real decoder; none: identity; unsupported (as coded): identity reader over encoded bytes
Decode ==
    /\ pc = "decode"
    /\ IF hdr.enc \in {"gzip", "br"}
       THEN body' = [body EXCEPT !.coding = "none", !.bytes = "decoded"] /\ Go("insert", "Decode." \o hdr.enc)
       ELSE UNCHANGED body /\ Go("insert", "Decode.Identity")
    /\ UNCHANGED <<cfg, hdr>>

Insert ==
    /\ pc = "insert"
    /\ IF body.coding # "none"
       THEN \* encoded bytes parsed as if they were HTML: whatever comes out is not the document any more
            /\ body' = [body EXCEPT !.bytes = "mangled", !.inserted = 1, !.nonce = ParseNonce(hdr.csp)]
            /\ Go("encode", "Insert.IntoEncodedBytes")
       ELSE IF HasBody(body.doc)
            THEN /\ body' = [body EXCEPT !.bytes = "rendered", !.inserted = 1, !.nonce = ParseNonce(hdr.csp)]
                 /\ Go("encode", "Insert.AppendedToBody")
            ELSE /\ UNCHANGED body /\ Go("encode", "Insert.BodyNotFound")
    /\ UNCHANGED <<cfg, hdr>>

Encode ==
    /\ pc = "encode"
    /\ IF hdr.enc \in {"gzip", "br"}
       THEN body' = [body EXCEPT !.coding = hdr.enc, !.bytes = IF @ = "decoded" THEN "recoded" ELSE @]
            /\ Go("length", "Encode." \o hdr.enc)
       ELSE UNCHANGED body /\ Go("length", "Encode.Identity")
    /\ hdr' = [hdr EXCEPT !.cl = IF body'.bytes = "backend" THEN @ ELSE "stale"]
    /\ UNCHANGED cfg

SetLength ==
    /\ pc = "length"
    /\ IF LengthRule = "set" THEN hdr' = [hdr EXCEPT !.cl = "match"] ELSE UNCHANGED hdr
    /\ Go("deliver", "SetLength")
    /\ UNCHANGED <<cfg, body>>

Deliver ==
    /\ pc = "deliver"
    /\ Go("done", "Deliver")
    /\ UNCHANGED <<cfg, hdr, body>>

Next == Transport \/ MarkHtmx \/ Decide \/ Decode \/ Insert \/ Encode \/ SetLength \/ Deliver
Spec == Init /\ [][Next]_vars

-----------------------------------------------------------------------------
(* the property, on the response the client receives *)
Done == pc = "done"

\* which exchanges C20 says must pass through
MustPass == \/ ~IsHtml(cfg.ct) \/ cfg.enc = "unsupported" \/ cfg.req = "htmx" \/ cfg.skip

\* the bytes are the backend's; the only tolerated difference is the Go transport's own transparent gunzip
\* for a client that did not ask for any encoding (then the header must say so)
Untouched == /\ body.inserted = 0
             /\ \/ body.bytes = "backend" /\ hdr.enc = cfg.enc /\ body.coding = cfg.enc
                \/ body.bytes = "gunzipped" /\ cfg.accept = "absent" /\ cfg.enc = "gzip" /\ hdr.enc = "none"

PassThroughIsIdentity == (Done /\ MustPass) => (Untouched /\ hdr.ct = cfg.ct /\ hdr.csp = cfg.csp)

HtmlGetsExactlyOneScript ==
    (Done /\ ~MustPass) =>
        /\ body.doc = cfg.body /\ body.bytes # "mangled"
        /\ body.inserted = (IF HasBody(cfg.body) THEN 1 ELSE 0)
        /\ body.inserted = 1 => (IF ScriptNonces(cfg.csp) = {} THEN body.nonce = "" ELSE body.nonce \in ScriptNonces(cfg.csp))

LengthMatchesBody == Done => (hdr.cl = "match" \/ (hdr.cl = "absent" /\ body.bytes = "gunzipped"))

EncodingHeaderDescribesBody == Done => (hdr.enc = body.coding /\ body.bytes # "mangled")

TypeOK == /\ pc \in {"transport", "mark", "decide", "decode", "insert", "encode", "length", "deliver", "done"}
          /\ body.inserted \in {0, 1}

\* every terminal state = one configuration with the response the spec predicts for it
EmitCase == (EmitCases /\ Done) =>
    PrintT(<<"CASE", ToJson([cfg |-> cfg, path |-> path, mustpass |-> MustPass, inserted |-> body.inserted,
                             nonce |-> body.nonce, nonces |-> ScriptNonces(cfg.csp), enc |-> hdr.enc, cl |-> hdr.cl,
                             bytes |-> body.bytes])>>)
=============================================================================
