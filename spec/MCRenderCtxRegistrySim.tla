------------------------ MODULE MCRenderCtxRegistrySim ------------------------
(* Simulation instance of RenderCtxRegistry: long random histories of uses over both contexts, every id and
   every container form; each history is carried in hist and printed when it is HistLen steps long.     *)
EXTENDS MCRenderCtxRegistry
CONSTANT HistLen
VARIABLES hist, printed
\* the mode a context was created in (winit = a fresh context that WithNonce has initialised since)
CreatedAs(m) == IF m = "winit" THEN "fresh" ELSE m
SimInit == Init /\ hist = <<>> /\ printed = FALSE
\* the behaviour is printed by a final deterministic step, i.e. once for the state the simulator actually chose
\* (an invariant would be evaluated, and print, for every candidate successor)
\* \E over singletons binds each random draw once, so that one step costs one evaluation (every step is a Next step)
SimStep ==
    \E c \in {RandomElement(CtxSet)}, kd \in {RandomElement(1..14)}, s2 \in {RandomElement(Scripts)}, k2 \in {RandomElement(Classes)}, cnd \in {RandomElement(BOOLEAN)}, s \in {RandomElement(Scripts)}, S \in {RandomElement(OnSeqs)},
       e \in {RandomElement(ClassExprs)}, k \in {RandomElement(Classes)}, h \in {RandomElement(BlockHandles \cup ZeroHandles)},
       g \in {RandomElement(FixedHandles)} :
        IF kd = 1 THEN RenderScriptComponent(c, s)
        ELSE IF kd = 2 THEN ElementWithOnAttrs(c, S)
        ELSE IF kd \in {3, 4, 5} THEN ElementWithClasses(c, e)
        ELSE IF kd = 6 THEN ElementWithClassAndOn(c, k, s)
        ELSE IF kd = 12 THEN ElementWithCondOn(c, cnd, s, s2)
        ELSE IF kd = 13 THEN ElementWithCondClass(c, cnd, k, k2)
        ELSE IF kd = 14 THEN \E h2 \in {RandomElement(BlockHandles \cup ZeroHandles)} : OnceNested(c, h, h2)
        ELSE IF kd = 7 THEN Once(c, "OnceWithBlock", h)
        ELSE IF kd = 8 THEN Once(c, "OnceWithComponent", g)
        ELSE IF kd = 9 /\ \E d \in CtxSet : mode[d] = "mw" THEN StylesheetRequest
        ELSE IF kd = 11 /\ c \in NonceCtxs /\ nonce[c] < MaxNonces THEN SetNonce(c)          \* WithNonce at a random point of the history
        ELSE ElementWithOnAttrs(c, S)
SimNext == \/ /\ Len(hist) < HistLen
              /\ SimStep
              /\ hist' = Append(hist, lbl')
              /\ UNCHANGED printed
           \/ /\ Len(hist) = HistLen /\ ~printed
              /\ printed' = TRUE
              /\ PrintT(<<"HIST", ToJson([modes |-> [j \in 1..Len(Ctxs) |-> CreatedAs(mode[Ctxs[j]])], hist |-> hist])>>)
              /\ UNCHANGED <<mode, emitted, defd, nonce, n, lbl, hist>>
=============================================================================
