\* Formatter layout model (FmtLayout.tla) over this family; code as it is (after the repairs).
\* Deep nesting family (exhaustive in the quick tier): single-line elements nested around call blocks, text and expressions.
CONSTANTS
  NonTrailerRule = "source"
  ForcedBreaks = "asCoded"
  MaxNodes = 4
  MaxDepth = 5
  Kinds = {"el", "callb", "expr"}
  InlineNames = {"span"}
  BlockNames = {}
  VoidNames = {}
  AttrChoices <- AttrChoicesNone
  WsChoices = {"", "v"}
  Words = {"w1"}
  Exprs = {"E1"}
  Conds = {"C1", "C2"}
  Lists = {"L1"}
  EnvSeq <- EnvSeqOne
INIT Init
NEXT Next
VIEW View
INVARIANTS TypeOK Idempotent FmtKeepsTokens FmtKeepsMust EmitFmt
CHECK_DEADLOCK FALSE
