\* Else-if family (exhaustive in the quick tier): expressions around and inside if / else-if / else chains over two conditions.
CONSTANTS
  MaxNodes = 3
  MaxDepth = 3
  Kinds = {"expr", "if", "elif"}
  InlineNames = {}
  BlockNames = {}
  VoidNames = {}
  AttrChoices <- AttrChoicesNone
  WsChoices = {"v"}
  Words = {"w1"}
  Exprs = {"E1"}
  Conds = {"C1", "C2"}
  Lists = {"L1"}
  EnvSeq <- EnvSeqDef
INIT Init
NEXT Next
VIEW View
INVARIANTS TypeOK MustOnlyBetweenInline DenotedDocumentsBalanced EmitProgram
CHECK_DEADLOCK FALSE
