\* C15 negative config: x.templ -> x_templ.go by cutting the path at the FIRST ".templ": TargetNextToSource must be violated.
CONSTANTS
  MaxFiles = 2
  Trees <- TreesNegTarget
  Ws = {2}
  FlagSets <- AllFlags
  Mutex = TRUE
  ErrsCloser = "postgen"
  MainReadsErrs = TRUE
  GenVariants = {1}
  SlotRelease = "deferred"
  TargetRule = "cutfirst"
  WalkRule = "filesonly"
  OrphanStat = "fileonly"
  RootRule = "exempt"
  RootTrees <- TreesRoot
  SkipRule = "coded"
  TwoRuns = FALSE
  EmitCases = FALSE
INIT Init
NEXT Next
VIEW View
INVARIANTS TypeOK TargetNextToSource
