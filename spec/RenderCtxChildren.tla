-------------------------- MODULE RenderCtxChildren --------------------------
(* C13 -- a component receives exactly the child block passed at its call site.

   RenderCtx, children part.  Two layers over the same call tree:

     Ideal   children are lexical: a call with a block gives the callee that block, a call without a
             block gives it none, wherever the call occurs (recursive operator IdealOut);
     Impl    what the code does: ONE mutable children pointer (slot) in the context value shared by
             the whole render.  Block call sites set it (generator: writeBlockTemplElementExpression,
             templ.WithChildren) and never clear it; generated callees read-then-clear on entry
             (writeTemplate: GetChildren + ClearChildren); a block closure does nothing on entry; the
             hand-written components templ ships touch the slot exactly as coded -- one labelled
             action per component kind below.  The Impl layer is a small-step machine: `ops` is the
             continuation of the render (a sequence of pending operations), every action pops its
             head.

   A call tree is the body of one template: a sequence of calls; a call is [k |-> kind, b |-> block]
   with b = <<>> (no block) or <<cs>> (a block whose nested calls are cs; every block also writes a
   unique marker, identified by the path of the call that owns it).

   Kinds:  c1 / c0 / c2   generated components with one / no / two children slots
           cw             generated component that passes its children on inside the block of an inner call
           fn             hand-written func component following the documented protocol
                          (GetChildren, then ClearChildren), rendering its children into the writer it was given
           fo / fh        the same protocol, but the children are rendered into a writer of the component's OWN
                          (fo: a strings.Builder, fh: templ.ToGoHTML) and the result is then copied to the given writer
           onceA          @hA.Once() {...}   handle without fixed component
           onceF          @hF.Once()         handle created WithComponent(cf)   (called without block)
           onceFb         @hF.Once() {...}   the same handle, called with or without a block: Once ignores the block (Ideal:
                          the fixed component is called by Once without a block and gets none); as coded the block stays
                          in the slot, so cf -- or, once rendered, the next block-less sibling -- receives it
           flush          @templ.Flush() {...}
           join           @templ.Join(cj, cj)
           raw nop script json   templ.Raw / templ.NopComponent / a script template / templ.JSONScript

   Writers.  Generated code writes through a templruntime.Buffer: a template or block closure that is handed a
   writer which already is such a Buffer writes into it; handed any other writer it wraps it in a Buffer of its
   own and must flush (release) that Buffer when it returns (generator: writeTemplBuffer, `if !IsBuffer { defer
   ReleaseBuffer }`).  Calls inside generated code always pass the Buffer on, so this only matters where a
   hand-written component renders its children into a writer of its own: wr is the stack of such writers (own =
   the component's writer, buf = the Buffer the block closure created over it), BlockExit flushes buf into own
   iff BlockFlushes (FALSE = modelled bug: the block's output never reaches the component).

   Repaired selects, per hand-written action, the original behaviour (leave the slot as it is) or
   the proposed repair (read-then-clear on entry), so that TLC checks the repair design; which of the
   two the code under test implements is determined from its real behaviour by the check.          *)
EXTENDS Integers, Sequences, FiniteSets, TLC, Json

CONSTANTS Kinds,      \* callee kinds used in the enumerated trees
          FirstKinds, \* only trees whose first call has one of these kinds (partitions the emission runs; = Kinds otherwise)
          MaxNodes,   \* calls per tree
          MaxDepth,   \* nesting depth of calls
          Repaired,   \* subset of RepairableActions
          MaxOut,     \* an Impl run that has written this many tokens is cut off and reported as divergent
          BlockFlushes, \* TRUE: a block closure flushes the Buffer it created over a foreign writer (as generated)
          GenClears,  \* TRUE: generated callees clear the slot on entry (as generated); FALSE = modelled bug
          EmitEdges

VARIABLES tree, ops, slot, out, done, leaks, fin, wr, lbl
vars == <<tree, ops, slot, out, done, leaks, fin, wr>>
\* fin: "" while rendering, "done" when the render returned, "diverged" when it was cut off (unbounded recursion)

RepairableActions == {"OnceAgain", "OnceFirst", "Flush", "Join", "Raw", "Nop", "Script", "Json"}
BlockKinds == Kinds \ {"onceF"}

-----------------------------------------------------------------------------
(* call trees *)
RECURSIVE NodeSet(_, _), BodySet(_, _)
NodeSet(n, d) ==
    IF n < 1 \/ d < 1 THEN {}
    ELSE {[k |-> k, b |-> <<>>] : k \in Kinds}
         \cup {[k |-> k, b |-> <<cs>>] : k \in BlockKinds, cs \in BodySet(n - 1, d - 1)}
BodySet(n, d) ==       \* bodies of at most two calls, at most n calls in total, nesting at most d
    {<<>>} \cup {<<a>> : a \in NodeSet(n, d)}
           \cup UNION {{<<a, b>> : a \in NodeSet(j, d), b \in NodeSet(n - j, d)} : j \in 1..(n - 1)}
Trees == BodySet(MaxNodes, MaxDepth) \ {<<>>}

(* output tokens: o/c = open/close tag of a component instance, m = block marker, x = text of a leaf component *)
Tok(t, k, p) == [t |-> t, k |-> k, p |-> p]
\* synthetic instances inside library components
JoinA(p) == Append(p, 91)
JoinB(p) == Append(p, 92)
WrapInner(p) == Append(p, 93)
OnceFixed(p) == <<94>>     \* the component fixed in the handle is the same instance wherever Once() is called

-----------------------------------------------------------------------------
(* Ideal: lexical children.  d = once handles rendered so far (document order). *)
RECURSIVE IdNode(_, _, _), IdBody(_, _, _, _), IdBlk(_, _, _)
IdBlk(node, p, d) ==
    IF node.b = <<>> THEN [o |-> <<>>, d |-> d]
    ELSE LET r == IdBody(node.b[1], p, 1, d) IN [o |-> <<Tok("m", "", p)>> \o r.o, d |-> r.d]
IdBody(cs, p, j, d) ==
    IF j > Len(cs) THEN [o |-> <<>>, d |-> d]
    ELSE LET a == IdNode(cs[j], Append(p, j), d)
             r == IdBody(cs, p, j + 1, a.d)
         IN  [o |-> a.o \o r.o, d |-> r.d]
IdNode(node, p, d) ==
    LET k == node.k
        wrap(kk, pp, inner) == <<Tok("o", kk, pp)>> \o inner \o <<Tok("c", kk, pp)>>
    IN  CASE k \in {"c1", "fn", "fo", "fh"} -> LET r == IdBlk(node, p, d) IN [o |-> wrap(k, p, r.o), d |-> r.d]
          [] k = "c0" -> [o |-> wrap(k, p, <<>>), d |-> d]
          [] k = "c2" -> LET r1 == IdBlk(node, p, d)
                             r2 == IdBlk(node, p, r1.d)
                         IN  [o |-> wrap(k, p, r1.o \o r2.o), d |-> r2.d]
          [] k = "cw" -> LET r == IdBlk(node, p, d)
                         IN  [o |-> wrap(k, p, wrap("c1", WrapInner(p), <<Tok("m", "", WrapInner(p))>> \o r.o)), d |-> r.d]
          [] k = "onceA" -> IF "hA" \in d THEN [o |-> <<>>, d |-> d] ELSE IdBlk(node, p, d \cup {"hA"})
          [] k \in {"onceF", "onceFb"} -> IF "hF" \in d THEN [o |-> <<>>, d |-> d]
                            ELSE [o |-> wrap("cf", OnceFixed(p), <<>>), d |-> d \cup {"hF"}]
          [] k = "flush" -> IdBlk(node, p, d)
          [] k = "join" -> [o |-> wrap("cj", JoinA(p), <<>>) \o wrap("cj", JoinB(p), <<>>), d |-> d]
          [] k \in {"raw", "script", "json"} -> [o |-> <<Tok("x", k, p)>>, d |-> d]
          [] k = "nop" -> [o |-> <<>>, d |-> d]
IdealOut(t) == IdBody(t, <<>>, 1, {}).o

-----------------------------------------------------------------------------
(* Impl: the shared children slot.
   A closure is [p |-> marker path (= path of the owning call), cs |-> nested calls,
                 kids |-> optional closure rendered after them ({ children... } of the enclosing template),
                 via |-> the hand-written action that left it in the slot ("" while fresh)].
   Optional closures are sequences of length 0 or 1.                                                   *)
Closure(p, cs, kids) == [p |-> p, cs |-> cs, kids |-> kids, via |-> ""]
Op(op, k, p, n, c) == [op |-> op, k |-> k, p |-> p, n |-> n, c |-> c]
CallOps(cs, p) == [j \in 1..Len(cs) |-> Op("call", cs[j].k, Append(p, j), <<cs[j]>>, <<>>)]
TokOp(t, k, p) == Op("tok", k, p, <<t>>, <<>>)
BlkOp(c) == Op("blk", "", <<>>, <<>>, c)
EnterOp(k, p) == Op("enter", k, p, <<>>, <<>>)

Cur == ops[1]
Rest == Tail(ops)

\* a callee at path p takes over a block that was not passed at its call site
Stale(p) == slot # <<>> /\ slot[1].p # p
LeakRec(p, k) == [via |-> IF slot[1].via = "" THEN "Gen" ELSE slot[1].via, at |-> p, by |-> k, blk |-> slot[1].p]
NoteLeak(p, k) == leaks' = IF Stale(p) THEN Append(leaks, LeakRec(p, k)) ELSE leaks
\* a hand-written component returns (or runs its children) with its own block still in the slot
Keep(p, action) == IF slot # <<>> /\ slot[1].p = p THEN <<[slot[1] EXCEPT !.via = action]>> ELSE slot
After(action, p) == IF action \in Repaired THEN <<>> ELSE Keep(p, action)

Init == /\ tree \in {t \in Trees : t[1].k \in FirstKinds}
        /\ ops = CallOps(tree, <<>>)
        /\ slot = <<>>       \* the top-level template was rendered without children and cleared the slot
        /\ out = <<>>
        /\ done = {}
        /\ leaks = <<>>
        /\ fin = ""
        /\ wr = <<>>         \* no hand-written component is rendering into a writer of its own
        /\ lbl = [a |-> "init"]

RECURSIVE Pending(_, _)
Pending(w, j) == IF j > Len(w) THEN 0 ELSE Len(w[j].pend) + Pending(w, j + 1)
Written == Len(out) + Pending(wr, 1)
Running == fin = "" /\ ops # <<>> /\ Written < MaxOut
\* tokens written to the current writer: the innermost own writer / its Buffer, else the document
Frame(t) == [t |-> t, pend |-> <<>>]
WriteTo(w, toks) == [w EXCEPT ![Len(w)].pend = @ \o toks]
Lbl(a) == lbl' = [a |-> a]

\* generator, writeBlockTemplElementExpression: callee.Render(templ.WithChildren(ctx, block), buf); nothing afterwards
CallWithBlock ==
    /\ Running /\ Cur.op = "call" /\ Cur.n[1].b # <<>>
    /\ slot' = <<Closure(Cur.p, Cur.n[1].b[1], <<>>)>>
    /\ ops' = <<EnterOp(Cur.k, Cur.p)>> \o Rest
    /\ UNCHANGED <<tree, out, done, leaks, fin>> /\ Lbl("CallWithBlock") /\ UNCHANGED wr

\* generator, writeSelfClosingTemplElementExpression: callee.Render(ctx, buf)
CallNoBlock ==
    /\ Running /\ Cur.op = "call" /\ Cur.n[1].b = <<>>
    /\ ops' = <<EnterOp(Cur.k, Cur.p)>> \o Rest
    /\ UNCHANGED <<tree, slot, out, done, leaks, fin>> /\ Lbl("CallNoBlock") /\ UNCHANGED wr

\* generator, writeTemplate: children := templ.GetChildren(ctx); ctx = templ.ClearChildren(ctx); then the body,
\* in which every { children... } renders that variable
GenBody(k, p, mine) ==
    CASE k = "c1" -> <<TokOp("o", k, p), BlkOp(mine), TokOp("c", k, p)>>
      [] k = "c0" -> <<TokOp("o", k, p), TokOp("c", k, p)>>
      [] k = "c2" -> <<TokOp("o", k, p), BlkOp(mine), BlkOp(mine), TokOp("c", k, p)>>
      [] k \in {"cf", "cj"} -> <<TokOp("o", k, p), BlkOp(mine), TokOp("c", k, p)>>
      [] k = "cw" -> <<TokOp("o", k, p),
                       \* @c1(inner) { marker { children... } }: the block closure captures this template's variable
                       Op("callc", "c1", WrapInner(p), <<>>, <<Closure(WrapInner(p), <<>>, mine)>>),
                       TokOp("c", k, p)>>
GenEnter ==
    /\ Running /\ Cur.op = "enter" /\ Cur.k \in {"c1", "c0", "c2", "cw", "cf", "cj"}
    /\ NoteLeak(Cur.p, Cur.k)
    /\ slot' = IF GenClears THEN <<>> ELSE slot
    /\ ops' = GenBody(Cur.k, Cur.p, slot) \o Rest
    /\ UNCHANGED <<tree, out, done, fin>> /\ Lbl("GenEnter") /\ UNCHANGED wr

\* a call with a block written inside a library component (cw)
CallWithClosure ==
    /\ Running /\ Cur.op = "callc"
    /\ slot' = Cur.c
    /\ ops' = <<EnterOp(Cur.k, Cur.p)>> \o Rest
    /\ UNCHANGED <<tree, out, done, leaks, fin>> /\ Lbl("CallWithBlock") /\ UNCHANGED wr

\* user func component following the documented protocol: GetChildren, ClearChildren, render where it wants
FuncEnter ==
    /\ Running /\ Cur.op = "enter" /\ Cur.k = "fn"
    /\ NoteLeak(Cur.p, Cur.k)
    /\ slot' = <<>>
    /\ ops' = <<TokOp("o", "fn", Cur.p), BlkOp(slot), TokOp("c", "fn", Cur.p)>> \o Rest
    /\ UNCHANGED <<tree, out, done, fin>> /\ Lbl("FuncEnter") /\ UNCHANGED wr

\* once.go, Once(): handle already rendered in this context -> return nil (slot untouched)
OnceAgain ==
    /\ Running /\ Cur.op = "enter" /\ Cur.k \in {"onceA", "onceF", "onceFb"}
    /\ (IF Cur.k = "onceA" THEN "hA" ELSE "hF") \in done
    /\ slot' = After("OnceAgain", Cur.p)
    /\ ops' = Rest
    /\ UNCHANGED <<tree, out, done, leaks, fin>> /\ Lbl("OnceAgain") /\ UNCHANGED wr

\* once.go, first render without fixed component: GetChildren(ctx).Render(ctx, w) (slot untouched)
OnceFirstBlock ==
    /\ Running /\ Cur.op = "enter" /\ Cur.k = "onceA" /\ "hA" \notin done
    /\ done' = done \cup {"hA"}
    /\ NoteLeak(Cur.p, Cur.k)
    /\ slot' = After("OnceFirst", Cur.p)
    /\ ops' = <<BlkOp(slot)>> \o Rest
    /\ UNCHANGED <<tree, out, fin>> /\ Lbl("OnceFirstBlock") /\ UNCHANGED wr

\* once.go, first render with a fixed component: o.c.Render(ctx, w) (slot untouched)
OnceFirstFixed ==
    /\ Running /\ Cur.op = "enter" /\ Cur.k \in {"onceF", "onceFb"} /\ "hF" \notin done
    /\ done' = done \cup {"hF"}
    /\ slot' = After("OnceFirst", Cur.p)      \* the block of this very call (onceFb), or a stale one, stays where it is
    /\ ops' = <<EnterOp("cf", OnceFixed(Cur.p))>> \o Rest
    /\ UNCHANGED <<tree, out, leaks, fin>> /\ Lbl("OnceFirstFixed") /\ UNCHANGED wr

\* flush.go: GetChildren(ctx).Render(ctx, w) (slot untouched), then flush the writer
FlushEnter ==
    /\ Running /\ Cur.op = "enter" /\ Cur.k = "flush"
    /\ NoteLeak(Cur.p, Cur.k)
    /\ slot' = After("Flush", Cur.p)
    /\ ops' = <<BlkOp(slot)>> \o Rest
    /\ UNCHANGED <<tree, out, done, fin>> /\ Lbl("FlushEnter") /\ UNCHANGED wr

\* join.go: every component rendered with the context untouched
JoinEnter ==
    /\ Running /\ Cur.op = "enter" /\ Cur.k = "join"
    /\ slot' = After("Join", Cur.p)
    /\ ops' = <<EnterOp("cj", JoinA(Cur.p)), EnterOp("cj", JoinB(Cur.p))>> \o Rest
    /\ UNCHANGED <<tree, out, done, leaks, fin>> /\ Lbl("JoinEnter") /\ UNCHANGED wr

\* Raw / NopComponent / ComponentScript / JSONScriptElement never look at the slot
IgnoreAction(k) == CASE k = "raw" -> "Raw" [] k = "nop" -> "Nop" [] k = "script" -> "Script" [] k = "json" -> "Json"
IgnoreEnter ==
    /\ Running /\ Cur.op = "enter" /\ Cur.k \in {"raw", "nop", "script", "json"}
    /\ slot' = After(IgnoreAction(Cur.k), Cur.p)
    /\ ops' = (IF Cur.k = "nop" THEN <<>> ELSE <<TokOp("x", Cur.k, Cur.p)>>) \o Rest
    /\ UNCHANGED <<tree, out, done, leaks, fin>> /\ Lbl("IgnoreEnter") /\ UNCHANGED wr

\* user func component that renders its children into a writer of its own (strings.Builder / templ.ToGoHTML):
\* GetChildren, ClearChildren, children.Render(ctx, &own), then <tag> + own + </tag> to the given writer
FuncOwnEnter ==
    /\ Running /\ Cur.op = "enter" /\ Cur.k \in {"fo", "fh"}
    /\ NoteLeak(Cur.p, Cur.k)
    /\ slot' = <<>>
    /\ wr' = Append(wr, Frame("own"))
    /\ ops' = <<BlkOp(slot), Op("ownend", Cur.k, Cur.p, <<>>, <<>>)>> \o Rest
    /\ UNCHANGED <<tree, out, done, fin>> /\ Lbl("FuncOwnEnter")

\* the component copies what its own writer received to the writer it was given
FuncOwnCopy ==
    /\ Running /\ Cur.op = "ownend"
    /\ LET got == wr[Len(wr)].pend
           below == SubSeq(wr, 1, Len(wr) - 1)
           toks == <<Tok("o", Cur.k, Cur.p)>> \o got \o <<Tok("c", Cur.k, Cur.p)>>
       IN  IF below = <<>> THEN out' = out \o toks /\ wr' = below
           ELSE wr' = WriteTo(below, toks) /\ UNCHANGED out
    /\ ops' = Rest
    /\ UNCHANGED <<tree, slot, done, leaks, fin>> /\ Lbl("FuncOwnCopy")

\* a block closure runs: nothing on entry for the slot; templruntime.GetBuffer(w): a foreign writer (the own writer of a
\* hand-written component) is wrapped in a new Buffer; then its marker, its calls, then { children... } of the
\* enclosing template; a Buffer it created is released (flushed) when it returns
RenderBlock ==
    /\ Running /\ Cur.op = "blk"
    /\ LET foreign == Cur.c # <<>> /\ wr # <<>> /\ wr[Len(wr)].t = "own" IN
       /\ wr' = IF foreign THEN Append(wr, Frame("buf")) ELSE wr
       /\ ops' = (IF Cur.c = <<>> THEN <<>>      \* templ.NopComponent
                  ELSE <<TokOp("m", "", Cur.c[1].p)>> \o CallOps(Cur.c[1].cs, Cur.c[1].p)
                       \o (IF Cur.c[1].kids = <<>> THEN <<>> ELSE <<BlkOp(Cur.c[1].kids)>>)
                       \o (IF foreign THEN <<Op("blkend", "", <<>>, <<>>, <<>>)>> ELSE <<>>)) \o Rest
    /\ UNCHANGED <<tree, slot, out, done, leaks, fin>> /\ Lbl("RenderBlock")

\* generator, block closure prologue: `if !IsBuffer { defer ReleaseBuffer(buffer) }` -- the Buffer the closure created
\* is flushed into the writer it wraps
BlockExit ==
    /\ Running /\ Cur.op = "blkend"
    /\ LET got == wr[Len(wr)].pend
           below == SubSeq(wr, 1, Len(wr) - 1)
       IN  wr' = IF BlockFlushes THEN WriteTo(below, got) ELSE below
    /\ ops' = Rest
    /\ UNCHANGED <<tree, slot, out, done, leaks, fin>> /\ Lbl("BlockExit")

WriteToken ==
    /\ Running /\ Cur.op = "tok"
    /\ IF wr = <<>> THEN out' = Append(out, Tok(Cur.n[1], Cur.k, Cur.p)) /\ UNCHANGED wr
       ELSE wr' = WriteTo(wr, <<Tok(Cur.n[1], Cur.k, Cur.p)>>) /\ UNCHANGED out
    /\ ops' = Rest
    /\ UNCHANGED <<tree, slot, done, leaks, fin>> /\ Lbl("WriteToken")

Vias == {leaks[j].via : j \in 1..Len(leaks)}
Result(f) == [a |-> "Finish", tree |-> tree, ideal |-> IdealOut(tree), impl |-> out, leaks |-> leaks, fin |-> f]
Finish ==
    /\ fin = "" /\ ops = <<>>
    /\ fin' = "done"
    /\ UNCHANGED <<tree, ops, slot, out, done, leaks, wr>>
    /\ lbl' = Result("done")

\* the render keeps re-entering a block it is already inside of (e.g. a Flush without block inside a Flush block
\* renders the enclosing block again): the real render recurses until the stack or the writer gives up
Diverge ==
    /\ fin = "" /\ ops # <<>> /\ Written >= MaxOut
    /\ fin' = "diverged"
    /\ UNCHANGED <<tree, ops, slot, out, done, leaks, wr>>
    /\ lbl' = Result("diverged")

Next == \/ CallWithBlock \/ CallNoBlock \/ CallWithClosure \/ GenEnter \/ FuncEnter
        \/ OnceAgain \/ OnceFirstBlock \/ OnceFirstFixed \/ FlushEnter \/ JoinEnter \/ IgnoreEnter
        \/ FuncOwnEnter \/ FuncOwnCopy \/ BlockExit
        \/ RenderBlock \/ WriteToken \/ Finish \/ Diverge

Spec == Init /\ [][Next]_vars

-----------------------------------------------------------------------------
(* properties *)
TypeOK == /\ Len(slot) <= 1
          /\ done \subseteq {"hA", "hF"}
          /\ Len(IdealOut(tree)) < MaxOut
          /\ fin = "done" => wr = <<>>       \* every own writer was copied out, every created Buffer released

\* C13: the shared-slot implementation renders exactly what lexical children denote
ImplEqualsIdeal == fin # "" => (fin = "done" /\ out = IdealOut(tree))

Count(seq, tok) == Cardinality({j \in 1..Len(seq) : seq[j] = tok})
NoDoubleRender == fin # "" => \A j \in 1..Len(out) : out[j].t = "m" => Count(out, out[j]) <= Count(IdealOut(tree), out[j])

\* the slot is empty whenever a callee that was given no block starts (the state meaning in the property record)
NoStaleSlot == leaks = <<>>

\* fail-closed attribution: every tree whose output differs from Ideal has a recorded leak
MismatchIsAttributed == (fin # "" /\ (fin = "diverged" \/ out # IdealOut(tree))) => leaks # <<>>

View == vars
\* a divergent run is reported without its (cut-off) token list
Emit == IF EmitEdges /\ lbl'.a = "Finish"
        THEN PrintT(<<"TREE", ToJson(IF lbl'.fin = "diverged" THEN [lbl' EXCEPT !.impl = <<>>] ELSE lbl')>>)
        ELSE TRUE
=============================================================================
