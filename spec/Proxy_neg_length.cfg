\* C20 negative config: Content-Length not updated after the rewrite: TLC must reject LengthMatchesBody.
CONSTANTS
  UnsupportedRule = "pass"
  HeadRule = "pass"
  StatusRule = "pass"
  CtRule = "caseinsensitive"
  ParseRule = "scripting"
  CspRule = "policylist"
  LengthRule = "forget"
  EmitCases = FALSE
INIT Init
NEXT Next
INVARIANTS TypeOK PassThroughIsIdentity HtmlGetsExactlyOneScript DocumentOnlyAppendedTo LengthMatchesBody EncodingHeaderDescribesBody HeadIsUntouched
CHECK_DEADLOCK FALSE
