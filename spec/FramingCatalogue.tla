-------------------------- MODULE FramingCatalogue --------------------------
(* Byte and rune lengths of the JSON bodies of the harness's message catalogue (harness/c18:
   catalogue()).  This file holds the values measured at the pinned commit; the check regenerates it
   in its scratch directory from `c18 catalogue` on every run, so that wire position i of the model is
   byte i of the real frame.                                                                       *)
CatalogueMsgs == <<
  [kind |-> "call", idk |-> "num", blen |-> 50, rlen |-> 50],
  [kind |-> "notify", idk |-> "none", blen |-> 44, rlen |-> 43],
  [kind |-> "call", idk |-> "str", blen |-> 74, rlen |-> 68],
  [kind |-> "response", idk |-> "num", blen |-> 40, rlen |-> 37],
  [kind |-> "response", idk |-> "str", blen |-> 52, rlen |-> 49],
  [kind |-> "response", idk |-> "num", blen |-> 76, rlen |-> 75],
  [kind |-> "notify", idk |-> "none", blen |-> 178, rlen |-> 178],
  [kind |-> "call", idk |-> "num", blen |-> 58, rlen |-> 58]
>>
=============================================================================
