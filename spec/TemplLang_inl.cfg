\* Single-line / mixed elements containing comments, calls, slots, raw elements, Go code (C09 quantifier).
CONSTANTS
  MaxNodes = 3
  MaxDepth = 3
  Kinds = {"text", "el", "slot", "hcomment", "gcomment", "mcomment", "gocodeml", "raw", "call", "gocode", "gocodei", "doctype"}
  InlineNames = {"span"}
  BlockNames = {"div"}
  VoidNames = {"br"}
  AttrChoices <- AttrChoicesNone
  WsChoices = {"", "h", "v"}
  Words = {"w1"}
  Exprs = {"E1"}
  Conds = {"C1", "C2"}
  Lists = {"L1"}
  EnvSeq <- EnvSeqOne
INIT Init
NEXT Next
VIEW View
INVARIANTS TypeOK MustOnlyBetweenInline DenotedDocumentsBalanced EmitProgram
CHECK_DEADLOCK FALSE
