
\* Deep nesting family (exhaustive in the quick tier): single-line elements nested around call blocks, text and expressions.
CONSTANTS
  MaxNodes = 4
  MaxDepth = 5
  Kinds = {"el", "callb", "expr"}
  InlineNames = {"span"}
  BlockNames = {}
  VoidNames = {}
  AttrChoices <- AttrChoicesNone
  WsChoices = {"", "v"}
  Words = {"w1"}
  Exprs = {"E1"}
  Conds = {"C1", "C2"}
  Lists = {"L1"}
  EnvSeq <- EnvSeqOne
INIT Init
NEXT Next
VIEW View
INVARIANTS TypeOK MustOnlyBetweenInline DenotedDocumentsBalanced EmitProgram
CHECK_DEADLOCK FALSE
