------------------------------ MODULE SinksCss ------------------------------
(* C05 -- dynamic CSS values cannot escape their declaration.

   Closed product automaton per (property class x context):
        input symbol (nondeterministic, NOT stored)
          -> the value sanitiser of the class, as coded in safehtml/style.go, as a streaming ACCEPTOR with one
             labelled branch per accept path (the sanitisers return their input verbatim or a fixed innocuous value)
          -> consumer: CssTok in declaration-value position
               ctx "style": inside <style> (css component), output unescaped, with RAWTEXT `</style` detection
               ctx "attr" : inside a style attribute (map / KeyValue): html.EscapeString twice as coded
                            (SanitizeStyleAttributeValues + generator), ONE decode by the browser
   OneDeclaration is judged when the value ends and templ appends ';'.

   Classes: "Regular" (listed regular properties and every unlisted name), "Enum" (display),
            "FontFamily", "BackgroundImage", and "Name" (the property-name acceptor).

   The background-image acceptor is nondeterministic: where the suffix `")` / `')` / `)` of a segment begins is
   GUESSED; a wrong guess ends in rejection, which is always safe, and exactly one guess sequence is the real
   computation, so `accepted => clean` over all guesses is the property of the real function.               *)
EXTENDS CssTok, Json

CONSTANTS Classes, Contexts,
          Alphabet,        \* input symbols explored (CssSym = all)
          RegularExtra,    \* extra characters admitted by the regular pattern (negative config; {} as coded)
          AngleGuard,      \* TRUE as coded: background-image rejects values containing '<' or '>'
          FontFix, BgFix,  \* FALSE as pinned; TRUE = proposed repairs (fixes/C05-*.diff)
          TrackAttribution,\* TRUE: carry what is needed to attribute a break to its root cause (second consumer, used branches)
          AttrEscapes,     \* 2 as pinned (escaped in SanitizeStyleAttributeValues AND by the generator); 1 = repaired; 0 = negative
          KvSafeProp,      \* how KeyValue[string, SafeCSSProperty] is treated: "unsupported" as coded (not in the type switch:
                           \* the fixed text zTemplUnsupportedStyleAttributeValue), "sanitised" (supported correctly), "raw" (negative)
          EmitEdges

VARIABLES cls, ctx, phase, acc, con, con1, raw, res, lbl
vars == <<cls, ctx, phase, acc, con, con1, raw, res>>

AllClasses == {"Regular", "Enum", "FontFamily", "BackgroundImage", "Name"}
AllContexts == {"style", "attr"}

IsWsGo(c) == c \in CssWs \cup {"UWS", "VT"}    \* strings.TrimSpace
IsAsciiLetter(c) == CIsLetter(c)

-----------------------------------------------------------------------------
(* sanitizeRegular: ^(?:[*/]?(?:[0-9a-zA-Z+-.!#%_ \t]|$))*$   -- `+-.` is a RANGE: + , - .                *)
RegSafe(c) == IsAsciiLetter(c) \/ c \in {"0", "+", ",", "-", ".", "!", "#", "PCT", "_", "SP", "TAB"} \/ c \in RegularExtra
RegStep(r, c) == IF r = "rej" THEN r
                 ELSE IF RegSafe(c) THEN "s0"
                 ELSE IF c \in {"*", "/"} /\ r = "s0" THEN "s1"
                 ELSE "rej"
RegAccept(r) == IF r # "rej" THEN "Regular.Match" ELSE ""

(* sanitizeEnum: ^[a-zA-Z-]*$ *)
EnumStep(r, c) == IF r = "ok" /\ (IsAsciiLetter(c) \/ c = "-") THEN "ok" ELSE "rej"
EnumAccept(r) == IF r = "ok" THEN "Enum.Match" ELSE ""

(* SanitizeCSSProperty: ^[-a-zA-Z]+$ *)
NameStep(r, c) == IF r \in {"empty", "ok"} /\ (IsAsciiLetter(c) \/ c = "-") THEN "ok" ELSE "rej"
NameAccept(r) == IF r = "ok" THEN "Name.Match" ELSE ""

(* sanitizeFontFamily: split on ','; TrimSpace; a segment that starts with '"' must end with '"' (branch
   QuotedSegment -- nothing in between is looked at, and a lone '"' is both); else ^[a-zA-Z][- a-zA-Z]+$
   (branch GenericName). Segment state [core, cur]: core = state at the last non-space character (what counts if
   the segment ends now, trailing space being trimmed), cur = state including the spaces read since.
   FontFix: the quoted segment must be a well-formed string token: no '"' '\' newline control '<' inside.  *)
FSegStep(s, c) ==
    CASE s = "lead" -> IF c = CDQ THEN "q_open1" ELSE IF IsAsciiLetter(c) THEN "g1" ELSE "bad"
      [] s \in {"q_open1", "q_in", "q_closed"} ->
            IF FontFix THEN
                 (IF s = "q_closed" THEN "bad"
                  ELSE IF c = CDQ THEN "q_closed"
                  ELSE IF c \in ({CBSL, "<", "CTL", "VT", "TAB"} \cup CssNl) THEN "bad" ELSE "q_in")
            ELSE (IF c = CDQ THEN "q_closed" ELSE "q_in")
      [] s \in {"g1", "g2"} -> IF IsAsciiLetter(c) \/ c \in {"-", "SP"} THEN "g2" ELSE "bad"
      [] OTHER -> "bad"
FSegAccept(s) == IF s = "q_closed" \/ (s = "q_open1" /\ ~FontFix) THEN "FontFamily.QuotedSegment"
                 ELSE IF s = "g2" THEN "FontFamily.GenericName" ELSE ""
FontInit == [core |-> "lead", cur |-> "lead", ok |-> TRUE, used |-> {}]
FontStep(f, c) ==
    IF c = "," THEN [core |-> "lead", cur |-> "lead", ok |-> f.ok /\ FSegAccept(f.core) # "", used |-> IF TrackAttribution THEN f.used \cup {FSegAccept(f.core)} ELSE {}]
    ELSE IF IsWsGo(c) THEN (IF f.cur = "lead" THEN f ELSE [f EXCEPT !.cur = FSegStep(f.cur, c)])
    ELSE LET n == FSegStep(f.cur, c) IN [f EXCEPT !.core = n, !.cur = n]
FontSegBranch(f) == FSegAccept(f.core)
FontAccept(f) == IF f.ok THEN FSegAccept(f.core) ELSE ""

(* urlIsSafe: net/url.Parse errors and scheme extraction, as far as modelled.
   States: "start" "slash1" scheme prefixes (sequences) "schother" "nosch1" "free" "okabs0" "okabs1" "okabs" "rej" "unk"
   "unk": features whose outcome in net/url is not modelled ('%' escapes, an authority after "//"); treated as
   accepted here (over-approximation; the binding takes the real verdict).                                   *)
UrlCtl(c) == c \in {"CTL", "VT", "TAB", "LF", "CR", "FF"}
UrlSchemeChar(c) == IsAsciiLetter(c) \/ c \in {"0", "+", "-", "."}
UrlStep(a, c0) ==
    LET c == CLower(c0) IN
    IF a = <<"rej">> THEN a
    ELSE IF UrlCtl(c) THEN <<"rej">>
    ELSE IF a = <<"unk">> \/ c = "PCT" THEN <<"unk">>
    ELSE IF a = <<"start">> THEN
         IF IsAsciiLetter(c) THEN (IF SchIsPrefix(<<c>>) THEN <<c>> ELSE <<"schother">>)
         ELSE IF c = ":" THEN <<"rej">>
         ELSE IF c = "/" THEN <<"slash1">>
         ELSE IF c \in {"?", "#"} THEN <<"free">>
         ELSE <<"nosch1">>
    ELSE IF a = <<"slash1">> THEN (IF c = "/" THEN <<"unk">> ELSE <<"free">>)
    ELSE IF a = <<"nosch1">> THEN (IF c = ":" THEN <<"rej">> ELSE IF c \in {"/", "?", "#"} THEN <<"free">> ELSE <<"nosch1">>)
    ELSE IF a \in {<<"free">>, <<"okabs">>} THEN a
    ELSE IF a = <<"okabs0">> THEN (IF c = "/" THEN <<"okabs1">> ELSE <<"okabs">>)
    ELSE IF a = <<"okabs1">> THEN (IF c = "/" THEN <<"unk">> ELSE <<"okabs">>)
    ELSE \* inside a scheme candidate: a sequence (prefix of an allowed name) or <<"schother">>
         IF c = ":" THEN (IF a \in SchemeNames THEN <<"okabs0">> ELSE <<"rej">>)
         ELSE IF UrlSchemeChar(c) THEN (IF a # <<"schother">> /\ SchIsPrefix(Append(a, c)) THEN Append(a, c) ELSE <<"schother">>)
         ELSE IF c \in {"/", "?", "#"} THEN <<"free">>
         ELSE <<"nosch1">>
UrlOk(a) == a # <<"rej">>

(* sanitizeBackgroundImage: no '<' '>'; split on ','; TrimSpace; the first of  url(" ")  url(' ')  url( )  whose prefix
   AND suffix match; inner = TrimPrefix/TrimSuffix; urlIsSafe(inner). Nothing else about the inner text is checked.
   Segment state:
     ph   "lead" "u" "ur" "url" "open" (just after `url(`) "body" "sfx" (guessed: the closing quote was just read, ')'
          must follow) "done" (suffix complete: only trailing space may follow) "bad"
     qk   "-" | CDQ | "'": the character right after `url(` (candidate branch UrlDQ / UrlSQ)
     A    urlIsSafe state over the text after `url(`            (inner text of branch UrlBare)
     B    urlIsSafe state over the text after the opening quote (inner text of branch UrlDQ / UrlSQ)
     nB   0 / 1: characters read after the opening quote
     lastq  the previous character was the quote qk
     badA, badB  (BgFix) the inner text contains a character that ends / breaks the url token or the string
     br   branch taken (when done)                                                                          *)
BgWs(c) == IF BgFix THEN c \in CssWs ELSE IsWsGo(c)      \* the repair trims only what CSS treats as white space
BgSegInit == [ph |-> "lead", qk |-> "-", A |-> <<"start">>, B |-> <<"start">>, nB |-> 0, lastq |-> FALSE,
              badA |-> FALSE, badB |-> FALSE, br |-> ""]
BareIllegal == CssWs \cup {CDQ, "'", "(", ")", CBSL, "CTL", "VT", "UWS"}
QuotedIllegal(q) == {q, CBSL, "CTL", "VT"} \cup CssNl
BranchOf(q) == IF q = CDQ THEN "BackgroundImage.UrlDQ" ELSE "BackgroundImage.UrlSQ"
BgDone(s, b, verdictState, bad) ==
    IF UrlOk(verdictState) /\ ~(BgFix /\ bad) THEN [s EXCEPT !.ph = "done", !.br = b] ELSE [s EXCEPT !.ph = "bad"]
\* successors of a segment state on a non-comma character
BgSegNext(s, c) ==
    IF s.ph = "lead" THEN {IF BgWs(c) THEN s ELSE IF c = "u" THEN [s EXCEPT !.ph = "u"] ELSE [s EXCEPT !.ph = "bad"]}
    ELSE IF s.ph = "u" THEN {IF c = "r" THEN [s EXCEPT !.ph = "ur"] ELSE [s EXCEPT !.ph = "bad"]}
    ELSE IF s.ph = "ur" THEN {IF c = "l" THEN [s EXCEPT !.ph = "url"] ELSE [s EXCEPT !.ph = "bad"]}
    ELSE IF s.ph = "url" THEN {IF c = "(" THEN [s EXCEPT !.ph = "open"] ELSE [s EXCEPT !.ph = "bad"]}
    ELSE IF s.ph = "sfx" THEN {IF c = ")" THEN BgDone(s, BranchOf(s.qk), s.B, s.badB) ELSE [s EXCEPT !.ph = "bad"]}
    ELSE IF s.ph = "done" THEN {IF BgWs(c) THEN s ELSE [s EXCEPT !.ph = "bad"]}
    ELSE IF s.ph = "bad" THEN {s}
    ELSE \* "open" / "body"
        LET quoted == s.qk # "-"
            asInner == [s EXCEPT !.ph = "body",
                                 !.qk = IF s.ph = "open" /\ c \in {CDQ, "'"} THEN c ELSE s.qk,
                                 !.A = UrlStep(s.A, c), !.badA = s.badA \/ c \in BareIllegal,
                                 !.B = IF quoted THEN UrlStep(s.B, c) ELSE s.B,
                                 !.badB = IF quoted THEN s.badB \/ c \in QuotedIllegal(s.qk) ELSE FALSE,
                                 !.nB = IF quoted THEN 1 ELSE 0,
                                 !.lastq = (c = s.qk /\ quoted) \/ (s.ph = "open" /\ c \in {CDQ, "'"})]
            \* guess: this quote is the closing one (the text after the opening quote has at least this quote)
            gQuote == IF quoted /\ c = s.qk THEN {[s EXCEPT !.ph = "sfx"]} ELSE {}
            \* guess: this ')' is the last character of the segment
            gParen == IF c # ")" THEN {}
                      ELSE IF quoted /\ s.lastq /\ s.nB = 0
                           THEN {BgDone(s, BranchOf(s.qk), UrlStep(s.B, ")"), TRUE)}       \* `url(")`: prefix and suffix overlap, inner = `)`
                      ELSE IF quoted /\ s.lastq THEN {}                                     \* the quoted form matches first (via "sfx")
                      ELSE {BgDone(s, "BackgroundImage.UrlBare", s.A, s.badA)}
        IN {asInner} \cup gQuote \cup gParen
BgInit == [seg |-> BgSegInit, ok |-> TRUE, used |-> {}]
BgSegAccept(s) == IF s.ph = "done" THEN s.br ELSE ""
BgNext(b, c) ==
    IF AngleGuard /\ c \in {"<", ">"} THEN {[b EXCEPT !.ok = FALSE]}
    ELSE IF c = "," THEN {[seg |-> BgSegInit, ok |-> b.ok /\ BgSegAccept(b.seg) # "", used |-> IF TrackAttribution THEN b.used \cup {BgSegAccept(b.seg)} ELSE {}]}
    ELSE {[b EXCEPT !.seg = n] : n \in BgSegNext(b.seg, c)}
BgSegBranch(b) == BgSegAccept(b.seg)
BgAccept(b) == IF b.ok THEN BgSegAccept(b.seg) ELSE ""

-----------------------------------------------------------------------------
(* acceptor dispatch *)
AccInit(k) == CASE k = "Regular" -> "s0" [] k = "Enum" -> "ok" [] k = "Name" -> "empty"
                [] k = "FontFamily" -> FontInit [] k = "BackgroundImage" -> BgInit
AccNext(k, a, c) == CASE k = "Regular" -> {RegStep(a, c)} [] k = "Enum" -> {EnumStep(a, c)} [] k = "Name" -> {NameStep(a, c)}
                      [] k = "FontFamily" -> {FontStep(a, c)} [] k = "BackgroundImage" -> BgNext(a, c)
AccAccept(k, a) == CASE k = "Regular" -> RegAccept(a) [] k = "Enum" -> EnumAccept(a) [] k = "Name" -> NameAccept(a)
                     [] k = "FontFamily" -> FontAccept(a) [] k = "BackgroundImage" -> BgAccept(a)
\* Attribution of a broken accepted value to an accept branch. Segments accepted by GenericName consist of
\* letters, '-' and spaces only and cannot cause an event, so the permissive branches come first.
BranchPriority == <<"FontFamily.QuotedSegment", "BackgroundImage.UrlDQ", "BackgroundImage.UrlSQ", "BackgroundImage.UrlBare">>
Attribute(k, a, b) ==
    LET used == IF k \in {"FontFamily", "BackgroundImage"} THEN a.used \cup {b} ELSE {b}
        hits == {i \in 1..Len(BranchPriority) : BranchPriority[i] \in used}
    IN  IF hits = {} THEN b ELSE BranchPriority[CHOOSE i \in hits : \A j \in hits : i <= j]

\* the acceptor can no longer accept, whatever follows
AccDead(k, a) == CASE k \in {"Regular", "Enum", "Name"} -> a = "rej"
                   [] k = "FontFamily" -> ~a.ok \/ a.core = "bad"
                   [] k = "BackgroundImage" -> ~a.ok \/ a.seg.ph = "bad"
DeadAcc(k) == CASE k \in {"Regular", "Enum", "Name"} -> "rej"
                [] k = "FontFamily" -> [FontInit EXCEPT !.ok = FALSE]
                [] k = "BackgroundImage" -> [BgInit EXCEPT !.ok = FALSE]

Innocuous == <<"z", "Z", "e", "m", "p", "l", "U", "z", "s", "a", "f", "e", "Z", "S", "S", "Z", "r", "o", "p", "e", "r", "t", "y", "Z", "a", "l", "u", "e">>

-----------------------------------------------------------------------------
(* consumer side: what the CSS parser receives for one value symbol in the context *)
ToCss(x, c) == IF x = "attr" /\ AttrEscapes = 2 THEN CssHtmlEsc(c) ELSE <<c>>
ConStep(k, s, c) == LET t == CssStep(s, c) IN
                    IF k = "Name" /\ ~CIsIdent(c) THEN [t EXCEPT !.ev = Ev(t, "NameNotIdent")] ELSE t
RECURSIVE ConRun(_, _, _)
ConRun(k, s, cs) == IF cs = <<>> THEN s ELSE ConRun(k, ConStep(k, s, Head(cs)), Tail(cs))

\* State reduction (exact for the invariants): the consumer's first event is sticky and decides the verdict, so the
\* rest of its state is dropped once an event happened; and nothing about the consumer matters once the acceptor
\* can no longer accept (the value will be replaced by the innocuous constant).
Collapse(s) == IF s.ev # "" THEN [CssInit EXCEPT !.ev = s.ev] ELSE s

Init == /\ cls \in Classes /\ ctx \in Contexts
        /\ phase = "in"
        /\ acc = AccInit(cls)
        /\ con = CssInit /\ con1 = CssInit /\ raw = <<>>
        /\ res = [br |-> "", ev |-> "", sig |-> ""]
        /\ lbl = [op |-> "init"]

Feed(c) ==
    /\ phase = "in"
    /\ \E a \in AccNext(cls, acc, c) :
        LET raw2 == IF ctx = "style" THEN CssRawStep(raw, c)
                    ELSE IF AttrEscapes = 0 /\ c = CDQ THEN <<"END">> ELSE raw
            conA == ConRun(cls, con, ToCss(ctx, c))
            \* the end of the <style> element / of the attribute is an event of the context
            con2 == IF raw2 = <<"END">> THEN [conA EXCEPT !.ev = Ev(conA, IF ctx = "style" THEN "EndStyle" ELSE "EndAttr")] ELSE conA
            con12 == IF TrackAttribution THEN ConStep(cls, con1, c) ELSE con1   \* what CSS would see with a single level of escaping
        IN IF AccDead(cls, a)
           THEN acc' = DeadAcc(cls) /\ con' = CssInit /\ con1' = CssInit /\ raw' = <<>>
           ELSE acc' = a /\ con' = Collapse(con2) /\ con1' = Collapse(con12) /\ raw' = IF con2.ev # "" THEN <<>> ELSE raw2
    /\ lbl' = [op |-> "feed", sym |-> c]
    /\ UNCHANGED <<cls, ctx, phase, res>>

\* the value ends; the sanitiser decides; templ appends ';'
Close ==
    /\ phase = "in"
    /\ LET b == AccAccept(cls, acc)
           ev == IF b = "" THEN CssEndEvent(ConRun(cls, CssInit, Innocuous))          \* InnocuousOnReject
                 ELSE CssEndEvent(con)
           ev1 == CssEndEvent(con1)
           sig == IF ev = "" THEN ""
                  ELSE IF b = "" THEN "InnocuousValueNotClean"
                  ELSE IF ev = "EndAttr" THEN "StyleAttr.NotEscaped"                       \* the value reached the attribute with no HTML escaping at all
                  ELSE IF ~TrackAttribution THEN b
                  ELSE IF ctx = "attr" /\ ev1 = "" THEN "StyleAttr.DoubleEscape"          \* clean with one level of escaping
                  ELSE Attribute(cls, acc, b)
       IN /\ res' = [br |-> b, ev |-> ev, sig |-> sig]
          /\ lbl' = [op |-> "close", sym |-> ""]
    /\ phase' = "closed"
    /\ UNCHANGED <<cls, ctx, acc, con, con1, raw>>

Next == (\E c \in Alphabet : Feed(c)) \/ Close
Spec == Init /\ [][Next]_vars

-----------------------------------------------------------------------------
TypeOK == cls \in AllClasses /\ ctx \in AllContexts /\ phase \in {"in", "closed"}
\* C05: an accepted value stays inside its declaration; a rejected one is replaced by something innocuous
OneDeclaration == phase = "closed" /\ res.br # "" => res.ev = ""
InnocuousOnReject == phase = "closed" /\ res.br = "" => res.ev = ""
\* the pinned sanitisers break OneDeclaration only through these root causes (the known findings)
KnownSigs == {"FontFamily.QuotedSegment", "BackgroundImage.UrlDQ", "BackgroundImage.UrlSQ", "BackgroundImage.UrlBare",
              "StyleAttr.DoubleEscape"}
OneDeclarationBut == phase = "closed" /\ res.br # "" /\ res.ev # "" => res.sig \in KnownSigs

(* Argument forms of runtime.SanitizeStyleAttributeValues (its type switch and doc comment), also inside slices and
   returned from funcs. What each form does with a NAME and a VALUE that are plain strings:
     "sanitised"    through safehtml.SanitizeCSS / SanitizeCSSProperty (classes above)
     "trusted"      the part has type SafeCSS / SafeCSSProperty: author-vouched, out of scope
     "unsupported"  the form is not handled: the fixed innocuous text is written
     "raw"          written as it is
   Rule (C05): a plain-string name or value is always sanitised, whatever typed partner it travels with.           *)
StyleArgForms == <<
   [form |-> "map_string",   name |-> "sanitised", value |-> "sanitised"],
   [form |-> "map_safeprop", name |-> "sanitised", value |-> "trusted"],
   [form |-> "kv_string",    name |-> "sanitised", value |-> "sanitised"],
   [form |-> "kv_safeprop",  name |-> KvSafeProp,  value |-> IF KvSafeProp = "unsupported" THEN "unsupported" ELSE "trusted"] >>
\* forms without a plain-string name/value pair (author-trusted text as a whole): string, SafeCSS, KeyValue[string,bool],
\* KeyValue[SafeCSS,bool]
StyleArgWrappers == <<"direct", "slice", "func", "func_err", "slice_of_func">>
ArgRule == phase \in {"in", "closed"} => \A i \in 1..Len(StyleArgForms) : StyleArgForms[i].name \in {"sanitised", "unsupported"} /\ StyleArgForms[i].value # "raw"

(* class table: single source of truth for the harness (code point ranges, inclusive); every other ASCII
   character is its own symbol; an invalid byte is treated as U+FFFD (NA) *)
CssClassRanges == <<
   [sym |-> "CTL", lo |-> 0, hi |-> 8], [sym |-> "TAB", lo |-> 9, hi |-> 9], [sym |-> "LF", lo |-> 10, hi |-> 10],
   [sym |-> "VT", lo |-> 11, hi |-> 11], [sym |-> "FF", lo |-> 12, hi |-> 12], [sym |-> "CR", lo |-> 13, hi |-> 13],
   [sym |-> "CTL", lo |-> 14, hi |-> 31], [sym |-> "SP", lo |-> 32, hi |-> 32], [sym |-> "OP", lo |-> 36, hi |-> 36],
   [sym |-> "PCT", lo |-> 37, hi |-> 37], [sym |-> "0", lo |-> 48, hi |-> 57], [sym |-> "OP", lo |-> 61, hi |-> 61],
   [sym |-> "Z", lo |-> 65, hi |-> 75], [sym |-> "Z", lo |-> 77, hi |-> 81], [sym |-> "Z", lo |-> 84, hi |-> 84],
   [sym |-> "Z", lo |-> 86, hi |-> 90], [sym |-> "OP", lo |-> 94, hi |-> 94], [sym |-> "OP", lo |-> 96, hi |-> 96],
   [sym |-> "f", lo |-> 98, hi |-> 100], [sym |-> "f", lo |-> 102, hi |-> 102], [sym |-> "z", lo |-> 103, hi |-> 103],
   [sym |-> "z", lo |-> 106, hi |-> 107], [sym |-> "z", lo |-> 113, hi |-> 113],
   [sym |-> "z", lo |-> 118, hi |-> 120], [sym |-> "z", lo |-> 122, hi |-> 122], [sym |-> "OP", lo |-> 124, hi |-> 124],
   [sym |-> "OP", lo |-> 126, hi |-> 126], [sym |-> "CTL", lo |-> 127, hi |-> 127],
   [sym |-> "NA", lo |-> 128, hi |-> 132], [sym |-> "UWS", lo |-> 133, hi |-> 133], [sym |-> "NA", lo |-> 134, hi |-> 159],
   [sym |-> "UWS", lo |-> 160, hi |-> 160], [sym |-> "NA", lo |-> 161, hi |-> 5759], [sym |-> "UWS", lo |-> 5760, hi |-> 5760],
   [sym |-> "NA", lo |-> 5761, hi |-> 8191], [sym |-> "UWS", lo |-> 8192, hi |-> 8202], [sym |-> "NA", lo |-> 8203, hi |-> 8231],
   [sym |-> "UWS", lo |-> 8232, hi |-> 8233], [sym |-> "NA", lo |-> 8234, hi |-> 8238], [sym |-> "UWS", lo |-> 8239, hi |-> 8239],
   [sym |-> "NA", lo |-> 8240, hi |-> 8286], [sym |-> "UWS", lo |-> 8287, hi |-> 8287], [sym |-> "NA", lo |-> 8288, hi |-> 12287],
   [sym |-> "UWS", lo |-> 12288, hi |-> 12288], [sym |-> "NA", lo |-> 12289, hi |-> 55295], [sym |-> "NA", lo |-> 57344, hi |-> 1114111] >>
EmitSyms == PrintT(<<"SYMS", ToJson([ranges |-> CssClassRanges, syms |-> CssSym])>>)

View == vars
Emit == IF EmitEdges
        THEN PrintT(<<"EDGE", ToJson([cls |-> cls, ctx |-> ctx, lbl |-> lbl', res |-> res'])>>)
        ELSE TRUE
=============================================================================
