\* C07 negative config: AddSymbolRange as coded before fixes/C07-symbol-range-keep-line-map.diff -- the
\* per-line map is re-created on every call, so the first of two declarations starting on one templ
\* line loses its symbol range.
CONSTANTS
  MaxLines = 1
  MaxRunes = 2
  Widths = {1, 2}
  Pres <- PresSome
  Offsets = {0}
  ColMode = "bytes"
  EolEntry = TRUE
  SymLineMap = "recreate"
INIT Init
NEXT Next
INVARIANTS TypeOK SymbolsFound
CHECK_DEADLOCK FALSE
