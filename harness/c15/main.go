// c15 replays the terminated behaviours of spec/Generate.tla on the real generatecmd.Run of the
// repository under test (in-process; the check builds this harness with -race).
//
//	c15 run <cases.ndjson> <workdir> <seed> <reps> <trace-out> <max-hooked-runs> <max-traced-runs> [corrupt]
//
// Each case is a tree (files with abstract contents and modification-time classes), the flags, and the
// trees / exit status the specification predicts after the first and after the second run. The harness
// materialises the tree, runs generatecmd.Run with W in {1, 2, 8}, compares the whole tree (presence,
// bytes, modification time of untouched files) and the returned error, runs it a second time and
// compares again. "Equal to the generation of that file alone" is computed by calling the real
// parser + generator + go/format on the single file.
// With the verif hook of cmd/templ/generatecmd present (build tag c15hook) every run also records the
// worker events for trace validation and perturbs the schedule at the hook points.
package main

import (
	"bytes"
	"context"
	"crypto/sha256"
	"encoding/json"
	"fmt"
	"go/format"
	"io"
	"io/fs"
	"log/slog"
	"math/rand"
	"os"
	"path/filepath"
	"regexp"
	"runtime"
	"sort"
	"strconv"
	"strings"
	"sync"
	"time"

	"github.com/a-h/templ"
	"github.com/a-h/templ/cmd/templ/generatecmd"
	"github.com/a-h/templ/generator"
	"github.com/a-h/templ/parser/v2"

	"verifharness/vhlib"
)

type file struct {
	Dir  []string `json:"dir"`
	Name string   `json:"name"`
	C    string   `json:"c"`
	M    int      `json:"m"`
}

func (f file) rel() string { return filepath.Join(append(append([]string{}, f.Dir...), f.Name)...) }

type flags struct {
	Keep bool `json:"keep"`
	Lazy bool `json:"lazy"`
	Ver  bool `json:"ver"`
	// Root is the name of the directory the command is run on ("d": a plain name; "_x", "vendor", ".x": a name the
	// skip rule knows)
	Root string `json:"root"`
}

type tcase struct {
	ID      int    `json:"-"`
	Files   []file `json:"files"`
	Flags   flags  `json:"flags"`
	W       int    `json:"w"`
	Final1  []file `json:"final1"`
	Status1 string `json:"status1"`
	Errors1 int    `json:"errors1"`
	Final2  []file `json:"final2"`
	Status2 string `json:"status2"`
	Errors2 int    `json:"errors2"`
	// Alts: what Generate.tla predicts when deviations of the pinned code are switched on (each alone and all together),
	// with the names of the deviations this configuration then exercises. A failing case whose real outcome is exactly
	// one of those predictions is attributed to these deviations (signature = their names).
	Alts []alt `json:"alts"`
	// Special: a deviation of the pinned code applies to this configuration (its events are not trace-validated)
	Special bool `json:"special"`
}

type alt struct {
	Why     []string `json:"why"`
	Final1  []file   `json:"final1"`
	Status1 string   `json:"status1"`
	Final2  []file   `json:"final2"`
	Status2 string   `json:"status2"`
}

var logger = slog.New(slog.NewTextHandler(io.Discard, nil))

var baseTime = time.Unix(1700000000, 0)

func mtime(m int) time.Time { return baseTime.Add(time.Duration(m-1) * 100 * time.Second) }

func ident(rel string) string {
	h := sha256.Sum256([]byte(rel))
	return fmt.Sprintf("%x", h[:4])
}

// concrete contents ---------------------------------------------------------------------------

func templSource(kind, rel string) string {
	id := ident(rel)
	switch kind {
	case "good":
		return goodTemplate(id, rel)
	case "unparsable":
		return "package p\n\ntempl Broken" + id + "() {\n\t<div>\n"
	case "badgo":
		return "package p\n\nfunc broken" + id + "( {\n\ntempl Invalid" + id + "() {\n\t<p></p>\n}\n"
	}
	vhlib.Fatal("unknown templ kind %q", kind)
	return ""
}

// goodTemplate is a template that generates. Its shape depends on the path, and it exercises the generator code
// that collects things per element before writing them (where an unordered collection would make the output
// depend on more than the file): elements with several DIFFERENT on* / hx-on: script expressions (also inside
// conditional attributes), several class expressions with css components, spread, conditional and boolean
// attributes, script and css templates.
func goodTemplate(id, rel string) string {
	h := sha256.Sum256([]byte("shape:" + rel))
	handlers := []string{`onmouseover={ hA` + id + `("x") }`, `onclick={ hB` + id + `() }`, `onfocus={ hC` + id + `() }`, `hx-on:click={ hD` + id + `() }`}
	// rotate / truncate (at least two different handlers stay)
	rot := int(h[0]) % len(handlers)
	handlers = append(handlers[rot:], handlers[:rot]...)
	handlers = handlers[:2+int(h[1])%3]
	var sb strings.Builder
	sb.WriteString("package p\n\n")
	for _, n := range []string{"A", "B", "C", "D"} {
		sb.WriteString("script h" + n + id + "(")
		if n == "A" {
			sb.WriteString("msg string")
		}
		sb.WriteString(") {\n\tconsole.log(\"" + n + "\");\n}\n\n")
	}
	sb.WriteString("css cA" + id + "() {\n\tcolor: red;\n}\n\ncss cB" + id + "(w string) {\n\twidth: { w };\n\tmargin: 0;\n}\n\n")
	sb.WriteString("templ Hello" + id + "(name string, on bool, attrs templ.Attributes) {\n")
	sb.WriteString("\t<div data-file=\"" + rel + "\" class={ \"k\", cA" + id + "(), templ.KV(cB" + id + "(\"1px\"), on) }>Hello, { name } \\ \"" + id + "\"</div>\n")
	sb.WriteString("\t<button " + strings.Join(handlers, " ") + " { attrs... }\n\t\tif on {\n\t\t\tdisabled\n\t\t\tonblur={ hB" + id + "() }\n\t\t\tonkeyup={ hD" + id + "() }\n\t\t} else {\n\t\t\ttitle=\"t\"\n\t\t\tonkeydown={ hC" + id + "() }\n\t\t}\n\t>go</button>\n")
	if h[2]%2 == 0 {
		sb.WriteString("\t<p class={ cA" + id + "(), \"x\" } style={ \"color:red\" } { attrs... } hidden?={ on }></p>\n")
	} else {
		sb.WriteString("\t<input type=\"text\" class={ cB" + id + "(\"2px\") } onchange={ hC" + id + "() } oninput={ hA" + id + "(name) } readonly?={ on }/>\n")
	}
	sb.WriteString("\t<script onload={ hB" + id + "() } onerror={ hA" + id + "(\"e\") }>var x = 1;</script>\n")
	sb.WriteString("}\n")
	return sb.String()
}

// solo generates one template in isolation: parser + generator + gofmt, nothing else.
func solo(src, relName string, ver bool) ([]byte, error) {
	tf, err := parser.ParseString(src)
	if err != nil {
		return nil, fmt.Errorf("parse: %w", err)
	}
	opts := []generator.GenerateOpt{generator.WithFileName(relName)}
	if ver {
		opts = append([]generator.GenerateOpt{generator.WithVersion(templ.Version())}, opts...)
	}
	var b bytes.Buffer
	if _, err := generator.Generate(tf, &b, opts...); err != nil {
		return nil, fmt.Errorf("generate: %w", err)
	}
	out, err := format.Source(b.Bytes())
	if err != nil {
		return nil, fmt.Errorf("format: %w", err)
	}
	return out, nil
}

// soloFn is "the generation of that file alone" as a function: it is computed several times, and if two of the
// results differ the generator is not a function of the file (second result = a differing generation).
func soloFn(src, relName string, ver bool, times int) (out []byte, other []byte, err error) {
	// the result for (file contents, name, flag) is remembered: the same file occurs in many cases
	type res struct{ out, other []byte }
	key := fmt.Sprintf("%d\x00%v\x00%s\x00%s", times, ver, relName, src)
	if r, ok := soloCache.Load(key); ok {
		return r.(res).out, r.(res).other, nil
	}
	defer func() {
		if err == nil {
			// concurrent first computations: everybody uses the result that was stored first
			r, _ := soloCache.LoadOrStore(key, res{out, other})
			out, other = r.(res).out, r.(res).other
		}
	}()
	for i := 0; i < times; i++ {
		o, err := solo(src, relName, ver)
		if err != nil {
			return nil, nil, err
		}
		if i == 0 {
			out = o
		} else if !bytes.Equal(o, out) {
			return out, o, nil
		}
	}
	return out, nil, nil
}

// content of a file of the abstract tree. For generated files ("genV"/"genN") it is the solo generation of
// the sibling template (of a good template at that place if there is none).
func content(f file) []byte {
	rel := f.rel()
	switch {
	case strings.HasSuffix(f.Name, ".templ"):
		return []byte(templSource(f.C, rel))
	case strings.HasSuffix(f.Name, "_templ.go"):
		if f.C == "junk" {
			return []byte("package p\n\n// stale or hand-written " + ident(rel) + "\n")
		}
		trel := strings.TrimSuffix(rel, "_templ.go") + ".templ"
		// remembered (soloFn): the bytes written into the tree and the bytes compared later are the same
		out, _, err := soloFn(templSource("good", trel), trel, f.C == "genV", 3)
		if err != nil {
			vhlib.Fatal("solo generation failed: %v", err)
		}
		return out
	case f.Name == "o.go":
		return []byte("package p\n\nvar O" + ident(rel) + " = 1\n")
	default:
		return []byte("notes " + ident(rel) + "\n")
	}
}

type snapshot map[string]struct {
	Data []byte
	Mod  time.Time
	Dir  bool
}

func snap(root string) (snapshot, error) {
	s := snapshot{}
	err := filepath.WalkDir(root, func(p string, d fs.DirEntry, err error) error {
		if err != nil {
			return err
		}
		rel, _ := filepath.Rel(root, p)
		if rel == "." {
			return nil
		}
		info, err := d.Info()
		if err != nil {
			return err
		}
		e := s[rel]
		e.Mod = info.ModTime()
		e.Dir = d.IsDir()
		if !d.IsDir() {
			e.Data, err = os.ReadFile(p)
			if err != nil {
				return err
			}
		}
		s[rel] = e
		return nil
	})
	return s, err
}

type failure struct {
	Sig  string
	What string
	Info map[string]any
}

// compare checks the real tree against the specification's predicted tree.
func compare(tc *tcase, run int, want []file, initial map[string]file, got snapshot, soloOf func(rel string, times int) ([]byte, []byte)) []failure {
	var out []failure
	wantSet := map[string]file{}
	for _, f := range want {
		wantSet[f.rel()] = f
	}
	place := func(rel string) string {
		for _, part := range strings.Split(filepath.Dir(rel), string(filepath.Separator)) {
			if part == "vendor" || part == "node_modules" || strings.HasPrefix(part, ".") && part != "." || strings.HasPrefix(part, "_") {
				return "SkippedDir(" + part + ")"
			}
		}
		return "LiveDir"
	}
	for rel, w := range wantSet {
		g, ok := got[rel]
		ini, had := initial[rel]
		switch {
		case !ok:
			sig := "NothingElseTouched.FileRemoved." + place(rel)
			if strings.HasSuffix(rel, "_templ.go") && !had {
				sig = "SiblingEqualsSoloGeneration.Missing"
			} else if strings.HasSuffix(rel, "_templ.go") && tc.Flags.Keep {
				sig = "OrphansGoneUnlessKept.KeptOrphanRemoved"
			}
			info := map[string]any{"file": rel, "run": run}
			if sig == "SiblingEqualsSoloGeneration.Missing" {
				// was the generation of this template written somewhere else?
				if exp, other := soloOf(rel, 3); other == nil {
					for orel, og := range got {
						if !og.Dir && orel != rel && bytes.Equal(og.Data, exp) {
							sig = "TargetNextToSource.WrittenElsewhere"
							info["written_to"] = orel
						}
					}
				}
			}
			out = append(out, failure{sig, "a file the specification keeps is missing", info})
		case w.M >= 3:
			// written by a run: must be the solo generation
			exp, other := soloOf(rel, 3)
			if other == nil && !bytes.Equal(g.Data, exp) {
				// before blaming the command: is "the generation of the file alone" a function at all?
				exp, other = soloOf(rel, 12)
			}
			if other != nil {
				out = append(out, failure{"SoloGeneration.NotAFunction", "generating the same template file twice (parser + generator + gofmt, nothing else) gives different bytes: the output is not a function of the file",
					map[string]any{"file": rel, "run": run, "generation_1": string(exp), "generation_2": string(other)}})
			} else if !bytes.Equal(g.Data, exp) {
				out = append(out, failure{"SiblingEqualsSoloGeneration.ContentDiffers", "generated file differs from the generation of its template alone",
					map[string]any{"file": rel, "run": run, "got": string(g.Data), "want": string(exp)}})
			}
		default:
			// untouched: same bytes, same modification time
			exp := content(ini)
			if !had {
				vhlib.Fatal("specification keeps a file that never existed: %s", rel)
			}
			if !bytes.Equal(g.Data, exp) {
				sig := "NothingElseTouched.ContentChanged." + place(rel)
				if strings.HasSuffix(rel, "_templ.go") && place(rel) == "LiveDir" && tc.Flags.Lazy {
					sig = "NothingElseTouched.LazyRegenerated"
				}
				out = append(out, failure{sig, "a file the specification leaves alone was rewritten",
					map[string]any{"file": rel, "run": run, "got": string(g.Data), "want": string(exp)}})
			} else if !g.Mod.Equal(mtime(ini.M)) {
				out = append(out, failure{"NothingElseTouched.Rewritten." + place(rel), "a file the specification leaves alone was written again (modification time changed)",
					map[string]any{"file": rel, "run": run}})
			}
		}
	}
	for rel, g := range got {
		if g.Dir {
			continue
		}
		if _, ok := wantSet[rel]; ok {
			continue
		}
		ini, had := initial[rel]
		sig := "NothingElseTouched.FileCreated." + place(rel)
		what := "a file exists that the specification does not predict"
		if had && strings.HasSuffix(rel, "_templ.go") {
			sig = "OrphansGoneUnlessKept.OrphanLeft"
			what = "an orphaned generated file was not removed"
			_ = ini
		}
		out = append(out, failure{sig, what, map[string]any{"file": rel, "run": run}})
	}
	return out
}

type traceLine map[string]any

var soloCache sync.Map

// watchdog bounds one generatecmd.Run (normally milliseconds).
var watchdog = 20 * time.Second

var (
	aborting  sync.RWMutex // held for reading by every Run; the hang confirmation waits for the others to finish
	frameRun  = regexp.MustCompile(`generatecmd\.Generate\.Run\.func`)
	frameWork = regexp.MustCompile(`generatecmd\.\(\*FSEventHandler\)\.(HandleEvent|generate)`)
	frameLine = regexp.MustCompile(`^\s+(/\S+\.go):(\d+)`)
)

// runWatched runs generatecmd.Run; if it does not return within the watchdog time it tries to confirm a leaked
// semaphore slot: after every other run has finished, two goroutine dumps one second apart must both show the same
// goroutine blocked in a channel send inside Generate.Run at a source line that acquires the semaphore ("sem <-"),
// while no goroutine is inside HandleEvent. An unconfirmed timeout is a machinery failure (exit 2).
func runWatched(args generatecmd.Arguments) (err error, hang map[string]any) {
	aborting.RLock()
	done := make(chan error, 1)
	go func() { done <- generatecmd.Run(context.Background(), logger, args) }()
	select {
	case err = <-done:
		aborting.RUnlock()
		return err, nil
	case <-time.After(watchdog):
	}
	aborting.RUnlock()
	// let the runs that are in flight finish (or time out themselves); no new run starts meanwhile
	locked := make(chan struct{})
	go func() { aborting.Lock(); close(locked) }()
	select {
	case <-locked:
	case <-time.After(watchdog + 5*time.Second):
	}
	blocked := func() (map[string]string, bool, string) {
		buf := make([]byte, 8<<20)
		buf = buf[:runtime.Stack(buf, true)]
		res := map[string]string{}
		working := false
		for _, g := range strings.Split(string(buf), "\n\n") {
			lines := strings.Split(g, "\n")
			if len(lines) < 3 || !strings.HasPrefix(lines[0], "goroutine ") {
				continue
			}
			if frameWork.MatchString(g) {
				working = true
			}
			if !strings.Contains(lines[0], "[chan send") || !frameRun.MatchString(g) {
				continue
			}
			// the first frame inside Generate.Run: its source line must be the semaphore acquire
			for i := 1; i+1 < len(lines); i++ {
				if frameRun.MatchString(lines[i]) {
					if m := frameLine.FindStringSubmatch(lines[i+1]); m != nil {
						n, _ := strconv.Atoi(m[2])
						if src, err := os.ReadFile(m[1]); err == nil {
							sl := strings.Split(string(src), "\n")
							if n >= 1 && n <= len(sl) && strings.Contains(sl[n-1], "sem <-") {
								res[strings.Fields(lines[0])[1]] = strings.TrimSpace(sl[n-1]) + " (" + filepath.Base(m[1]) + ":" + m[2] + ")"
							}
						}
					}
					break
				}
			}
		}
		return res, working, string(buf)
	}
	b1, w1, _ := blocked()
	time.Sleep(time.Second)
	b2, w2, dump := blocked()
	for id, at := range b1 {
		if b2[id] == at && !w1 && !w2 {
			if len(dump) > 6000 {
				dump = dump[:6000]
			}
			return nil, map[string]any{"blocked_goroutine": id, "blocked_at": at, "watchdog_seconds": watchdog.Seconds(), "goroutines": dump}
		}
	}
	vhlib.Fatal("generatecmd.Run did not return within %s, and a leaked semaphore slot could not be confirmed (blocked: %v / %v, workers running: %v %v)", watchdog, b1, b2, w1, w2)
	return nil, nil
}

func main() {
	if len(os.Args) < 7 || os.Args[1] != "run" {
		vhlib.Fatal("usage: c15 run <cases.ndjson> <workdir> <seed> <reps> <trace-out> <max-hooked-runs> <max-traced-runs> [corrupt]")
	}
	casesPath, work := os.Args[2], os.Args[3]
	seed, _ := strconv.ParseInt(os.Args[4], 10, 64)
	reps, _ := strconv.Atoi(os.Args[5])
	tracePath := os.Args[6]
	corrupt := len(os.Args) > 9 && os.Args[9] == "corrupt"
	maxTraced := 500
	if len(os.Args) > 8 {
		maxTraced, _ = strconv.Atoi(os.Args[8])
	}
	maxHooked := 0
	if len(os.Args) > 7 {
		maxHooked, _ = strconv.Atoi(os.Args[7])
	}

	// the concrete stand-ins must be what the specification says they are
	if _, err := parser.ParseString(templSource("unparsable", "x.templ")); err == nil {
		vhlib.Fatal("the 'unparsable' template parses")
	}
	if _, err := solo(templSource("good", "x.templ"), "x.templ", true); err != nil {
		vhlib.Fatal("the 'good' template does not generate: %v", err)
	}
	if _, err := solo(templSource("badgo", "x.templ"), "x.templ", true); err == nil || !strings.HasPrefix(err.Error(), "format:") {
		vhlib.Fatal("the 'badgo' template must parse, generate and fail in go/format, got: %v", err)
	}

	var cases []*tcase
	if err := vhlib.Each(casesPath, func(line []byte) error {
		var c tcase
		if err := json.Unmarshal(line, &c); err != nil {
			return err
		}
		c.ID = len(cases) + 1
		cases = append(cases, &c)
		return nil
	}); err != nil {
		vhlib.Fatal("%v", err)
	}
	// the specification's order of names (Generate.tla: Rank) must be the byte order fs.WalkDir uses: every emitted
	// file list is sorted by the specification; check that it is sorted component-wise as real paths
	for _, c := range cases {
		for i := 1; i < len(c.Files); i++ {
			a := append(append([]string{}, c.Files[i-1].Dir...), c.Files[i-1].Name)
			b := append(append([]string{}, c.Files[i].Dir...), c.Files[i].Name)
			less := false
			for k := 0; k < len(a) && k < len(b); k++ {
				if a[k] != b[k] {
					less = a[k] < b[k]
					break
				}
			}
			if !less {
				vhlib.Fatal("Generate.tla orders %q before %q, fs.WalkDir does not (Rank table out of date)", c.Files[i-1].rel(), c.Files[i].rel())
			}
		}
	}
	if corrupt && len(cases) > 0 {
		// binding self-test: flip one predicted exit status
		c := cases[len(cases)/2]
		if c.Status1 == "ok" {
			c.Status1, c.Errors1 = "fail", 1
		} else {
			c.Status1, c.Errors1 = "ok", 0
		}
	}

	workers := []int{1, 2, 8}
	type job struct {
		c      *tcase
		w      int
		rep    int
		n      int
		hooked bool // run in the sequential phase with the hook installed (recording + perturbation)
	}
	// phase 1: every case x worker count, 8 runs at a time, no hook.
	// phase 2 (hook present): a seeded sample of (case, W in {2, 8}) x reps, sequentially, hook installed:
	// events recorded for trace validation, schedule perturbed at the hook points.
	var jobs, hooked []job
	for _, c := range cases {
		for _, w := range workers {
			jobs = append(jobs, job{c: c, w: w, n: len(jobs)})
		}
	}
	if hooksPresent {
		srng := rand.New(rand.NewSource(seed))
		for r := 1; r <= reps; r++ {
			for _, c := range cases {
				if c.Special || len(c.Alts) > 0 {
					continue // the recorded runs are validated against the rules the property demands
				}
				hooked = append(hooked, job{c: c, w: workers[1+srng.Intn(2)], rep: r, hooked: true})
			}
		}
		srng.Shuffle(len(hooked), func(i, j int) { hooked[i], hooked[j] = hooked[j], hooked[i] })
		// runs in which more events than workers can be in flight come first (and use W = 2): these are the runs in
		// which the semaphore bound and the hand-over between workers are visible in the recorded events
		multi := func(c *tcase) bool { return len(c.Files) >= 3 && len(c.Files) <= 6 }
		sort.SliceStable(hooked, func(i, j int) bool { return multi(hooked[i].c) && !multi(hooked[j].c) })
		for i := range hooked {
			if multi(hooked[i].c) && i%4 != 3 {
				hooked[i].w = 2
			}
		}
		if maxHooked > 0 && len(hooked) > maxHooked {
			hooked = hooked[:maxHooked]
		}
		for i := range hooked {
			hooked[i].n = i
		}
	}
	var mu sync.Mutex
	runs, fails, traced := 0, 0, 0
	countDrift := 0
	regenerating := 0 // second runs that really rewrote at least one file (-lazy off)
	sigCount := map[string]int{}
	var traceOut *os.File
	if hooksPresent && tracePath != "-" {
		var err error
		traceOut, err = os.Create(tracePath)
		if err != nil {
			vhlib.Fatal("%v", err)
		}
		defer traceOut.Close()
	}
	// traced runs are spread evenly over the hooked jobs
	traceEvery := (len(hooked) + maxTraced - 1) / maxTraced
	if traceEvery < 1 {
		traceEvery = 1
	}
	samples := 0

	runJobs := func(js []job, par int) {
		jobCh := make(chan job)
		var wg sync.WaitGroup
		for p := 0; p < par; p++ {
			wg.Add(1)
			go func() {
				defer wg.Done()
				for j := range jobCh {
					c := j.c
					rootName := c.Flags.Root
					if rootName == "" {
						rootName = "d"
					}
					root := filepath.Join(work, fmt.Sprintf("case%05d-w%d-r%d-%d", c.ID, j.w, j.rep, j.n), rootName)
					if err := os.MkdirAll(root, 0o755); err != nil {
						vhlib.Fatal("%v", err)
					}
					initial := map[string]file{}
					for _, f := range c.Files {
						p := filepath.Join(root, f.rel())
						if err := os.MkdirAll(filepath.Dir(p), 0o755); err != nil {
							vhlib.Fatal("%v", err)
						}
						if err := os.WriteFile(p, content(f), 0o644); err != nil {
							vhlib.Fatal("%v", err)
						}
						if err := os.Chtimes(p, mtime(f.M), mtime(f.M)); err != nil {
							vhlib.Fatal("%v", err)
						}
						initial[f.rel()] = f
					}
					var fl []failure
					for _, f := range c.Files {
						// every template of the tree: is its generation a function of the file?
						if strings.HasSuffix(f.Name, ".templ") && f.C == "good" {
							if g1, g2, err := soloFn(templSource("good", f.rel()), filepath.ToSlash(f.rel()), c.Flags.Ver, 3); err == nil && g2 != nil {
								fl = append(fl, failure{"SoloGeneration.NotAFunction", "generating the same template file twice (parser + generator + gofmt, nothing else) gives different bytes: the output is not a function of the file",
									map[string]any{"file": f.rel(), "generation_1": string(g1), "generation_2": string(g2)}})
								break
							}
						}
					}
					soloOf := func(rel string, times int) ([]byte, []byte) {
						trel := strings.TrimSuffix(rel, "_templ.go") + ".templ"
						src, err := os.ReadFile(filepath.Join(root, trel))
						if err != nil {
							vhlib.Fatal("no template for generated file %s: %v", rel, err)
						}
						out, other, err := soloFn(string(src), filepath.ToSlash(trel), c.Flags.Ver, times)
						if err != nil {
							vhlib.Fatal("solo generation of %s failed: %v", trel, err)
						}
						return out, other
					}
					args := generatecmd.Arguments{Path: root, WorkerCount: j.w, KeepOrphanedFiles: c.Flags.Keep, Lazy: c.Flags.Lazy, IncludeVersion: c.Flags.Ver}
					var trace []traceLine
					var after1 snapshot
					record := j.hooked && traceOut != nil && (j.n%traceEvery == 0 || (len(c.Files) >= 3 && len(c.Files) <= 6 && j.n < maxTraced/2))
					rng := rand.New(rand.NewSource(seed*1000003 + int64(c.ID)*31 + int64(j.w)*7 + int64(j.rep)))
					for run := 1; run <= 2 && len(fl) == 0; run++ {
						if record {
							trace = append(trace, traceLine{"ev": "reset", "case": c.ID, "run": run, "w": j.w, "flags": c.Flags, "files": treeOf(root)})
						}
						var stop func() []hookEvent
						if j.hooked {
							stop = installHook(root, rng, true)
						}
						err, hang := runWatched(args)
						if hang != nil {
							// generatecmd.Run did not return: confirmed by two goroutine dumps (see confirmHang)
							hang["tree"] = c.Files
							hang["flags"] = c.Flags
							hang["workers"] = j.w
							hang["run"] = run
							vhlib.Fail("Deadlock.SemaphoreSlotLeaked", "generatecmd.Run never returns: the dispatcher is blocked on the semaphore acquire although no worker is running (a worker slot was not released)", hang)
							mu.Lock()
							vhlib.Summary(map[string]any{"cases": len(cases), "runs": runs, "aborted": true, "fails": fails + 1, "hooks": hooksPresent})
							os.Exit(0)
						}
						var evs []hookEvent
						if j.hooked {
							evs = stop()
						}
						want, status, nerr := c.Final1, c.Status1, c.Errors1
						if run == 2 {
							want, status, nerr = c.Final2, c.Status2, c.Errors2
						}
						gotStatus, gotErrs := "ok", 0
						if err != nil {
							gotStatus = "fail"
							if _, e := fmt.Sscanf(err.Error(), "generation completed with %d errors", &gotErrs); e != nil {
								gotErrs = -1
							}
						}
						if record {
							for _, e := range evs {
								trace = append(trace, traceLine{"ev": e.Ev, "dir": e.Dir, "name": e.Name})
							}
							trace = append(trace, traceLine{"ev": "exit", "status": gotStatus, "errors": gotErrs})
						}
						if gotStatus != status {
							fl = append(fl, failure{"ExitStatusIffSomeFileFailed", "the command fails although no file failed, or succeeds although a file failed",
								map[string]any{"run": run, "got": fmt.Sprint(err), "want_status": status, "want_errors": nerr}})
						} else if gotErrs != nerr && gotErrs >= 0 {
							// the number in the message is not part of the property
							mu.Lock()
							countDrift++
							mu.Unlock()
						}
						got, serr := snap(root)
						if serr != nil {
							vhlib.Fatal("%v", serr)
						}
						// after the second run the specification's tree has the same files with the same contents
						fl = append(fl, compare(c, run, want, initial, got, soloOf)...)
						if len(fl) > 0 {
							// is the real outcome exactly what the specification predicts for deviations of the pinned code?
							for _, a := range c.Alts {
								cw, cs := a.Final1, a.Status1
								if run == 2 {
									cw, cs = a.Final2, a.Status2
								}
								if gotStatus == cs && len(compare(c, run, cw, initial, got, soloOf)) == 0 {
									first := fl[0]
									first.Info["property_clause"] = first.Sig
									first.Info["root"] = c.Flags.Root
									fl = nil
									for _, why := range a.Why {
										fl = append(fl, failure{why, first.What + " (the outcome is the one Generate.tla predicts for this deviation of the code)", first.Info})
									}
									break
								}
							}
						}
						if run == 1 {
							after1 = got
						} else if len(fl) == 0 {
							// "running it again leaves the contents of every file unchanged" -- on the real bytes
							rewritten := 0
							for rel, g1 := range after1 {
								g2, ok := got[rel]
								if g1.Dir || !ok {
									continue
								}
								if !g2.Mod.Equal(g1.Mod) {
									rewritten++
								}
								if !bytes.Equal(g1.Data, g2.Data) {
									fl = append(fl, failure{"SecondRunChangesNothing.ContentChanged", "the second run changed the contents of a file",
										map[string]any{"file": rel, "after_run_1": string(g1.Data), "after_run_2": string(g2.Data)}})
								}
							}
							if rewritten > 0 {
								mu.Lock()
								regenerating++
								mu.Unlock()
							}
						}
						if len(fl) > 0 {
							break
						}
					}
					mu.Lock()
					runs++
					if record && len(fl) == 0 {
						traced++
						for _, l := range trace {
							b, _ := json.Marshal(l)
							traceOut.Write(b)
							traceOut.Write([]byte("\n"))
						}
					}
					if len(fl) > 0 {
						fails++
						seen := map[string]bool{}
						for _, f := range fl {
							if seen[f.Sig] {
								continue
							}
							seen[f.Sig] = true
							sigCount[f.Sig]++
							f.Info["tree"] = c.Files
							f.Info["flags"] = c.Flags
							f.Info["workers"] = j.w
							vhlib.Fail(f.Sig, f.What, f.Info)
						}
					} else if samples < 4 && len(c.Files) >= 3 && c.ID%37 == 0 {
						samples++
						vhlib.Sample(map[string]any{"tree": c.Files, "flags": c.Flags, "workers": j.w, "status": c.Status1, "final": c.Final1})
					}
					mu.Unlock()
					os.RemoveAll(filepath.Dir(root))
				}
			}()
		}
		for _, j := range js {
			jobCh <- j
		}
		close(jobCh)
		wg.Wait()
	}
	runJobs(jobs, 16)
	runJobs(hooked, 1)
	vhlib.Summary(map[string]any{"cases": len(cases), "runs": runs, "jobs": len(jobs) + len(hooked), "hooked_runs": len(hooked), "error_count_drift": countDrift, "second_runs_regenerating": regenerating, "watchdog_seconds": watchdog.Seconds(), "fails": fails, "worker_counts": workers, "reps": reps,
		"hooks": hooksPresent, "traced_runs": traced, "hook_events": hookEventCount(), "perturbations": perturbCount(), "signatures": sigCount})
}

// treeOf lists the current tree in the specification's vocabulary (for the trace's reset line).
func treeOf(root string) []map[string]any {
	out := []map[string]any{}
	s, err := snap(root)
	if err != nil {
		vhlib.Fatal("%v", err)
	}
	var rels []string
	for rel, e := range s {
		if !e.Dir {
			rels = append(rels, rel)
		}
	}
	sort.Strings(rels)
	for _, rel := range rels {
		dir := []string{}
		if d := filepath.Dir(rel); d != "." {
			dir = strings.Split(d, string(filepath.Separator))
		}
		e := s[rel]
		// modification-time class relative to the fixed times of the materialised tree
		m := 3
		for _, k := range []int{0, 1, 2} {
			if e.Mod.Equal(mtime(k)) {
				m = k
			}
		}
		c := "other"
		name := filepath.Base(rel)
		if strings.HasSuffix(name, ".templ") {
			src := string(e.Data)
			switch {
			case strings.Contains(src, "templ Hello"):
				c = "good"
			case strings.Contains(src, "templ Broken"):
				c = "unparsable"
			default:
				c = "badgo"
			}
		}
		out = append(out, map[string]any{"dir": dir, "name": name, "c": c, "m": m})
	}
	return out
}
