\* C18 framing NEGATIVE config: a decoder that rejects a response whose result is JSON null -- must violate Lossless.
CONSTANTS
  Cap = 40
  Msgs <- SmallMsgs
  MaxMsgs = 2
  LenMode = "bytes"
  IdDecode = "strict"
  NullResult = "rejected"
  Variants <- VariantsDef
  ChunkMax = 2
  AllCuts = TRUE
INIT Init
NEXT Next
VIEW View
INVARIANTS TypeOK ReadIsPrefixOfSent Lossless
CHECK_DEADLOCK FALSE
