// c20 replays every configuration enumerated by TLC from spec/Proxy.tla end to end against the real
// live-reload proxy: httptest backend -> real proxy.New handler (ReverseProxy + roundTripper +
// modifyResponse) -> HTTP client with transparent decompression off, and evaluates the C20 property on the
// response the client receives (byte identity for pass-through, DOM comparison with x/net/html for
// rewritten pages, Content-Length, Content-Encoding).
//
//	c20 probe                                        what does the tree do with an unsupported Content-Encoding: "pass" | "rewrite"
//	c20 cases <cases.ndjson> <seed> <quick|thorough>  replay every case x several body sizes
package main

import (
	"bytes"
	"compress/gzip"
	"compress/zlib"
	"encoding/json"
	"fmt"
	"io"
	"log/slog"
	"math/rand"
	"net/http"
	"net/http/httptest"
	"net/url"
	"os"
	"sort"
	"strconv"
	"strings"
	"sync"
	"time"

	"github.com/a-h/templ/cmd/templ/generatecmd/proxy"
	"github.com/andybalholm/brotli"
	"golang.org/x/net/html"

	"verifharness/vhlib"
)

type config struct {
	Method string `json:"method"`
	Status string `json:"status"` // upstream status: "200" | "204"
	Body   string `json:"body"`
	Ct     string `json:"ct"`
	Csp    string `json:"csp"`
	Enc    string `json:"enc"`
	Req    string `json:"req"`
	Skip   bool   `json:"skip"`
	Accept string `json:"accept"`
}

// CSP as the spec describes it: header lines > comma-separated policies > directives > sources.
type cspSrc struct {
	Kind  string `json:"kind"` // "nonce" | "other"
	N     string `json:"n"`    // symbolic nonce name
	Comma bool   `json:"comma"`
}
type cspDir struct {
	Name string   `json:"name"`
	Srcs []cspSrc `json:"srcs"`
}
type specNonce struct {
	N       string `json:"n"`       // symbolic name, "" = none
	Mangled bool   `json:"mangled"` // the policy separator stuck to the token
}

// tcase is one terminal state printed by TLC: the configuration and the response the spec predicts.
type tcase struct {
	Cfg      config       `json:"cfg"`
	Path     []string     `json:"path"`
	MustPass bool         `json:"mustpass"`
	Inserted int          `json:"inserted"`
	Nonce    specNonce    `json:"nonce"`
	Nonces   []string     `json:"nonces"`
	CspLines [][][]cspDir `json:"csplines"`
	Doc      specDoc      `json:"doc"`
	Status   string       `json:"status"` // "ok" | "badgateway": what the spec (as configured) predicts
	Fates    []string     `json:"fates"`
	Enc      string       `json:"enc"`
	Cl       string       `json:"cl"`
	Bytes    string       `json:"bytes"`
}

// prepared is what the backend sends for one exchange.
type prepared struct {
	header http.Header
	noCT   bool
	wire   []byte // the bytes on the wire (encoded)
	plain  []byte // the document
	encTok string // Content-Encoding token sent ("" = none)
	status int    // 200, or a status that excludes a body (then neither body nor Content-Length is sent)
}

var (
	store   sync.Map // exchange id -> *prepared
	discard = slog.New(slog.NewTextHandler(io.Discard, nil))
)

func backend(w http.ResponseWriter, r *http.Request) {
	v, ok := store.Load(r.Header.Get("X-Verif-Case"))
	if !ok {
		http.Error(w, "unknown case", http.StatusTeapot)
		return
	}
	p := v.(*prepared)
	for k, vs := range p.header {
		w.Header()[k] = vs
	}
	if p.noCT {
		w.Header()["Content-Type"] = nil // suppress net/http's content sniffing: really no Content-Type
	}
	if p.status != http.StatusOK {
		w.WriteHeader(p.status)
		return
	}
	w.Header().Set("Content-Length", strconv.Itoa(len(p.wire)))
	w.WriteHeader(http.StatusOK)
	w.Write(p.wire)
}

// ---------------------------------------------------------------------------------------------------
// concretisation of the abstract configuration
// ---------------------------------------------------------------------------------------------------

var words = strings.Fields("lorem ipsum dolor sit amet consectetur adipiscing elit sed do eiusmod tempor incididunt ut labore et dolore magna aliqua")
var wordsNonASCII = strings.Fields("héllo wörld naïve façade 日本語 テキスト Ελληνικά кириллица 🎉 emoji ñandú smörgåsbord")

// closedFiller: properly nested markup only (every element closed), so that parse/render/parse is stable.
func closedFiller(rng *rand.Rand, n int, nonASCII bool) string {
	var sb strings.Builder
	ws := words
	if nonASCII {
		ws = append(append([]string{}, words...), wordsNonASCII...)
	}
	text := func(it *strings.Builder) {
		k := 3 + rng.Intn(12)
		for i := 0; i < k; i++ {
			it.WriteString(ws[rng.Intn(len(ws))])
			it.WriteByte(' ')
		}
	}
	for {
		var it strings.Builder
		switch rng.Intn(6) {
		case 0:
			it.WriteString("<p>")
			text(&it)
			it.WriteString("</p>\n")
		case 1:
			it.WriteString("<p class=\"x y\" title=\"")
			it.WriteString(ws[rng.Intn(len(ws))])
			it.WriteString("\">")
			text(&it)
			it.WriteString("</p>\n")
		case 2:
			it.WriteString("<div><span>")
			text(&it)
			it.WriteString("</span></div>\n")
		case 3:
			it.WriteString("<ul><li>")
			text(&it)
			it.WriteString("</li><li>")
			text(&it)
			it.WriteString("</li></ul>\n")
		case 4:
			it.WriteString("<p>a &amp; b &lt; c <a href=\"/p?q=1&amp;r=2\">")
			text(&it)
			it.WriteString("</a></p>\n")
		case 5:
			it.WriteString("<table><tbody><tr><td>")
			text(&it)
			it.WriteString("</td></tr></tbody></table><!-- c -->\n")
		}
		if sb.Len()+it.Len() > n {
			return sb.String()
		}
		sb.WriteString(it.String())
	}
}

// Documents as the spec describes them (Doc(shape) in Proxy.tla): a skeleton, the kind of running text, and
// items -- elements whose content is not ordinary markup -- in head or body.
type docItem struct {
	In      string `json:"in"`      // "head" | "body"
	El      string `json:"el"`      // script style xmp iframe noembed title textarea noscript
	Content string `json:"content"` // markuplike entity element textentity metaonly bodytag src
}
type specDoc struct {
	Skeleton string    `json:"skeleton"` // empty fragment page frameset
	Text     string    `json:"text"`     // ascii nonascii
	Items    []docItem `json:"items"`
}

// renderItem writes one item concretely. k varies attributes between items of the same kind.
func renderItem(it docItem, k int, nonASCII bool) string {
	var content string
	switch it.Content {
	case "markuplike":
		content = "if (a < b && c > d) { x = \"</p><b>not markup</b>\"; } /* &amp; &lt; &copy stay as typed */"
		if it.El == "style" {
			content = "p > a::before { content: \"<b>&amp;</b>\"; } /* a < b */"
		}
	case "entity":
		content = "Fish &amp; Chips &lt;3 &copy; 2024 &#x2014; &quot;q&quot;"
		if it.El == "script" {
			content = "window.label = \"Fish &amp; Chips &lt;3 &copy; 2024\";"
		}
	case "element":
		content = "<img height=\"1\" width=\"1\" src=\"https://stats.example.com/pixel.gif?a=1&amp;b=2\"/>"
	case "textentity":
		content = "This app needs JavaScript &amp; cookies. <a href=\"/help?a=1&amp;b=2\">Help</a>"
	case "metaonly":
		content = "<link rel=stylesheet href=/ns.css><meta name=x content='y'>"
	case "bodytag":
		content = "const tpl = \"<body class='inner'><p>not markup</p></body>\"; if (1 < 2) { console.log(tpl) }"
	case "src":
	default:
		vhlib.Fatal("unknown item content %q", it.Content)
	}
	if nonASCII && it.Content != "src" && it.Content != "metaonly" {
		content += " Größe — 日本語"
		if it.El == "script" || it.El == "style" {
			content = strings.Replace(content, " Größe — 日本語", " /* Größe — 日本語 */", 1)
		}
	}
	attrs := ""
	switch {
	case it.El == "script" && it.Content == "src":
		attrs = []string{" src=\"/head.js\" defer", " type=\"module\" src=\"/m.js\" nonce=\"pagenonce\"", " src=\"/app.js\""}[k%3]
	case it.El == "script" && it.Content == "bodytag" && k%2 == 1:
		attrs = " type=\"text/template\""
	case it.El == "textarea":
		attrs = " name=\"t\" rows=\"2\""
	case it.El == "iframe":
		attrs = " src=\"/frame\""
	}
	return "<" + it.El + attrs + ">" + content + "</" + it.El + ">\n"
}

// document builds the page for a spec document with (about, then exactly) size bytes.
func document(d specDoc, size int, rng *rand.Rand) []byte {
	var pre, post string
	nonASCII := d.Text == "nonascii"
	var headItems, bodyBefore, bodyAfter strings.Builder
	hasTitle := false
	nb := 0
	for k, it := range d.Items {
		r := renderItem(it, k, nonASCII)
		switch {
		case it.In == "head":
			headItems.WriteString(r)
			if it.El == "title" {
				hasTitle = true
			}
		case nb%2 == 0:
			bodyBefore.WriteString(r)
			nb++
		default:
			bodyAfter.WriteString(r)
			nb++
		}
	}
	switch d.Skeleton {
	case "empty":
		return nil
	case "fragment":
		pre, post = "<h1>fragment</h1>\n", "<footer>end</footer>\n"
	case "page":
		title, lang, battrs, h1 := "page", "en", " class=\"page\" data-x=\"1\"", ""
		if nonASCII {
			title, lang, battrs = "日本語のページ — ünïcödé Café", "ja", " data-名前=\"値\" title=\"Ærøskøbing\""
			h1 = "<h1>Größe ≥ 10 µm · “quotes” · 🎉 Crème brûlée</h1>\n"
		}
		pre = "<!DOCTYPE html>\n<html lang=\"" + lang + "\">\n<head>\n<meta charset=\"utf-8\">\n" + headItems.String()
		if !hasTitle {
			pre += "<title>" + title + "</title>\n"
		}
		pre += "<link rel=\"stylesheet\" href=\"/s.css\">\n</head>\n<body" + battrs + ">\n" + h1 + bodyBefore.String() + "<main>\n"
		post = "</main>\n" + bodyAfter.String() + "</body>\n</html>\n"
	case "frameset":
		pre = "<!DOCTYPE html>\n<html>\n<head>\n<title>frames</title>\n<!-- "
		post = " -->\n</head>\n<frameset cols=\"50%,50%\">\n<frame src=\"/a\">\n<frame src=\"/b\">\n</frameset>\n</html>\n"
	default:
		vhlib.Fatal("unknown skeleton %q", d.Skeleton)
	}
	room := size - len(pre) - len(post)
	var mid string
	if d.Skeleton == "frameset" {
		// padding lives in a comment
		if room > 0 {
			mid = strings.Repeat("pad ", room/4+1)[:room]
		}
		return []byte(pre + mid + post)
	}
	if room > 0 {
		mid = closedFiller(rng, room-8, nonASCII)
		// exact size: pad with a trailing comment
		if d := size - len(pre) - len(post) - len(mid); d >= 7 {
			mid += "<!--" + strings.Repeat("x", d-7) + "-->"
		} else if d > 0 {
			mid += strings.Repeat("\n", d)
		}
	}
	return []byte(pre + mid + post)
}

type cspConcrete struct {
	headers []string          // one entry per Content-Security-Policy header line
	nonces  map[string]string // symbolic -> concrete
}

func (c cspConcrete) String() string { return strings.Join(c.headers, "  ||  ") }

var otherSources = map[string][]string{
	"default-src":     {"'self'", "'none'"},
	"img-src":         {"*", "data:"},
	"script-src":      {"'self'", "https://cdn.example.com", "'strict-dynamic'", "'unsafe-inline'"},
	"style-src":       {"'self'"},
	"object-src":      {"'none'"},
	"connect-src":     {"'self'"},
	"font-src":        {"'self'"},
	"frame-ancestors": {"'self'", "'none'"},
}

// cspFor renders the spec's abstract policy structure as concrete header lines: fresh nonce values per
// exchange, seeded choice of the non-nonce sources and of the white space around separators.
func cspFor(lines [][][]cspDir, rng *rand.Rand) cspConcrete {
	tok := func() string {
		const al = "ABCDEFGHIJKLMNOPQRSTUVWXYZabcdefghijklmnopqrstuvwxyz0123456789+/"
		b := make([]byte, 16+rng.Intn(8))
		for i := range b {
			b[i] = al[rng.Intn(len(al))]
		}
		return string(b) + "=="
	}
	c := cspConcrete{nonces: map[string]string{}}
	dirSep := []string{"; ", ";", "  ;  "}[rng.Intn(3)]
	srcSep := []string{" ", " ", "   "}[rng.Intn(3)]
	for _, line := range lines {
		var pols []string
		for _, pol := range line {
			var dirs []string
			for _, d := range pol {
				parts := []string{d.Name}
				k := 0
				for _, src := range d.Srcs {
					if src.Kind == "nonce" {
						if _, ok := c.nonces[src.N]; !ok {
							c.nonces[src.N] = tok()
						}
						parts = append(parts, "'nonce-"+c.nonces[src.N]+"'")
						continue
					}
					alts := otherSources[d.Name]
					if len(alts) == 0 {
						vhlib.Fatal("no concrete sources for directive %q", d.Name)
					}
					parts = append(parts, alts[(k+rng.Intn(len(alts)))%len(alts)])
					k++
				}
				dirs = append(dirs, strings.Join(parts, srcSep))
			}
			pols = append(pols, strings.Join(dirs, dirSep))
		}
		c.headers = append(c.headers, strings.Join(pols, ", "))
	}
	return c
}

func encode(enc string, plain []byte, rng *rand.Rand) (wire []byte, tok string) {
	var buf bytes.Buffer
	switch enc {
	case "none":
		return plain, ""
	case "gzip":
		zw := gzip.NewWriter(&buf)
		zw.Write(plain)
		zw.Close()
		return buf.Bytes(), "gzip"
	case "br":
		bw := brotli.NewWriterLevel(&buf, 4)
		bw.Write(plain)
		bw.Close()
		return buf.Bytes(), "br"
	case "unsupported":
		zw := zlib.NewWriter(&buf)
		zw.Write(plain)
		zw.Close()
		return buf.Bytes(), []string{"deflate", "zstd", "compress", "x-custom"}[rng.Intn(4)]
	}
	vhlib.Fatal("unknown encoding %q", enc)
	return nil, ""
}

func contentType(ct string, rng *rand.Rand) (string, bool) {
	switch ct {
	case "html":
		return "text/html", false
	case "htmlcharset":
		return []string{"text/html; charset=utf-8", "text/html;charset=UTF-8"}[rng.Intn(2)], false
	case "htmlcase":
		return []string{"TEXT/HTML", "Text/Html; charset=utf-8", "text/HTML;charset=UTF-8"}[rng.Intn(3)], false
	case "other":
		return []string{"application/json", "text/plain; charset=utf-8", "application/xhtml+xml", "text/css", "application/octet-stream"}[rng.Intn(5)], false
	case "none":
		return "", true
	}
	vhlib.Fatal("unknown content type %q", ct)
	return "", false
}

// ---------------------------------------------------------------------------------------------------
// DOM comparison
// ---------------------------------------------------------------------------------------------------

func firstBody(n *html.Node) *html.Node {
	if n.Type == html.ElementNode && n.Data == "body" {
		return n
	}
	for c := n.FirstChild; c != nil; c = c.NextSibling {
		if b := firstBody(c); b != nil {
			return b
		}
	}
	return nil
}

func isReload(n *html.Node) bool {
	if n.Type != html.ElementNode || n.Data != "script" {
		return false
	}
	for _, a := range n.Attr {
		if a.Key == "src" && a.Val == "/_templ/reload/script.js" {
			return true
		}
	}
	return false
}

func countReload(n *html.Node) int {
	k := 0
	if isReload(n) {
		k++
	}
	for c := n.FirstChild; c != nil; c = c.NextSibling {
		k += countReload(c)
	}
	return k
}

// sameTree compares two DOM trees; skip (may be nil) is a node of b that is ignored.
func sameTree(a, b *html.Node, skip *html.Node, where string) string {
	if a.Type != b.Type || a.Data != b.Data || a.Namespace != b.Namespace {
		return fmt.Sprintf("%s: node %q(%d) vs %q(%d)", where, a.Data, a.Type, b.Data, b.Type)
	}
	if len(a.Attr) != len(b.Attr) {
		return fmt.Sprintf("%s/%s: %d vs %d attributes", where, a.Data, len(a.Attr), len(b.Attr))
	}
	for i := range a.Attr {
		if a.Attr[i] != b.Attr[i] {
			return fmt.Sprintf("%s/%s: attribute %v vs %v", where, a.Data, a.Attr[i], b.Attr[i])
		}
	}
	ca, cb := a.FirstChild, b.FirstChild
	i := 0
	for {
		if cb != nil && cb == skip {
			cb = cb.NextSibling
			continue
		}
		if ca == nil || cb == nil {
			break
		}
		if d := sameTree(ca, cb, skip, where+"/"+a.Data+"["+strconv.Itoa(i)+"]"); d != "" {
			return d
		}
		ca, cb = ca.NextSibling, cb.NextSibling
		i++
	}
	if ca != nil || cb != nil {
		return fmt.Sprintf("%s/%s: different number of children", where, a.Data)
	}
	return ""
}

// ---------------------------------------------------------------------------------------------------
// one exchange
// ---------------------------------------------------------------------------------------------------

type report struct {
	Cfg         config   `json:"cfg"`
	Size        int      `json:"body_bytes"`
	ContentType string   `json:"content_type"`
	Encoding    string   `json:"content_encoding"`
	Csp         string   `json:"csp,omitempty"`
	SpecPath    []string `json:"spec_path"`
	Invariant   string   `json:"invariant"`
	Detail      string   `json:"detail"`
	GotHeaders  string   `json:"got_headers,omitempty"`
	GotLen      int      `json:"got_bytes"`
	SentLen     int      `json:"sent_bytes"`
	BodyHead    string   `json:"sent_body_head,omitempty"`
}

type env struct {
	proxyURL string
	client   *http.Client
	seq      int64
	mu       sync.Mutex
}

func (e *env) nextID() string {
	e.mu.Lock()
	defer e.mu.Unlock()
	e.seq++
	return strconv.FormatInt(e.seq, 10)
}

type outcome struct {
	headAsModelled  bool   // HEAD: the real response is altered the way the spec's as-coded pipeline predicts
	nonceFailure    bool   // the failing invariant is about the nonce of the reload script
	nonceAsModelled bool   // the real nonce attribute is what the spec's nonce extraction (as configured) yields
	invariant       string // "" = property holds
	detail          string
	drift           string
	inserted        int
	rep             report
}

// signature names the root cause as the spec names it: the branch of modifyResponse's decision, or -- for a
// nonce failure that the spec's nonce extraction reproduces exactly -- the branch of that extraction.
func signature(tc tcase, o outcome) string {
	if (tc.Cfg.Method == "HEAD" || tc.Cfg.Status != "200") && o.headAsModelled {
		for _, p := range tc.Path {
			if strings.HasPrefix(p, "Head.") || strings.HasPrefix(p, "NoBodyStatus.") {
				return p + ":" + o.invariant
			}
		}
	}
	if o.nonceFailure && o.nonceAsModelled {
		for _, p := range tc.Path {
			if strings.HasPrefix(p, "ParseNonce.") {
				return p + ":" + o.invariant
			}
		}
	}
	return decideBranch(tc.Path) + ":" + o.invariant
}

func decideBranch(path []string) string {
	for _, p := range path {
		if strings.HasPrefix(p, "Decide.") {
			return p
		}
	}
	return "Decide.?"
}

func (e *env) exchange(tc tcase, size int, rng *rand.Rand) outcome {
	c := tc.Cfg
	plain := document(tc.Doc, size, rng)
	wire, tok := encode(c.Enc, plain, rng)
	ct, noCT := contentType(c.Ct, rng)
	csp := cspFor(tc.CspLines, rng)
	upstreamStatus := http.StatusOK
	if c.Status != "" && c.Status != "200" {
		upstreamStatus, _ = strconv.Atoi(c.Status)
	}
	p := &prepared{header: http.Header{}, noCT: noCT, wire: wire, plain: plain, encTok: tok, status: upstreamStatus}
	if !noCT {
		p.header.Set("Content-Type", ct)
	}
	if tok != "" {
		p.header.Set("Content-Encoding", tok)
	}
	for _, h := range csp.headers {
		p.header.Add("Content-Security-Policy", h)
	}
	if c.Skip {
		p.header.Set("templ-skip-modify", "true")
	}
	p.header.Set("X-Backend", "1")
	id := e.nextID()
	store.Store(id, p)
	defer store.Delete(id)

	method := http.MethodGet
	if c.Method == "HEAD" {
		method = http.MethodHead
	}
	req, _ := http.NewRequest(method, e.proxyURL+"/page/"+id, nil)
	req.Header.Set("X-Verif-Case", id)
	if c.Accept == "browser" {
		req.Header.Set("Accept-Encoding", "gzip, deflate, br, zstd")
	}
	if c.Req == "htmx" {
		req.Header.Set("HX-Request", "true")
	}
	o := outcome{rep: report{Cfg: c, Size: len(plain), ContentType: ct, Encoding: tok, Csp: csp.String(), SpecPath: tc.Path, SentLen: len(wire)}}
	head := plain
	if len(head) > 160 {
		head = head[:160]
	}
	o.rep.BodyHead = string(head)
	bad := func(inv, detail string) outcome {
		o.invariant, o.detail = inv, detail
		o.rep.Invariant, o.rep.Detail = inv, detail
		return o
	}
	resp, err := e.client.Do(req)
	if err != nil {
		if upstreamStatus != http.StatusOK {
			o.headAsModelled = tc.Status == "aborted"
			return bad("HeadIsUntouched", fmt.Sprintf("GET -> %d (no body, Content-Type %q, Content-Encoding %q): the proxied exchange failed: %v", upstreamStatus, ct, tok, err))
		}
		return bad("LengthMatchesBody", "the proxied exchange failed: "+err.Error())
	}
	raw, rerr := io.ReadAll(resp.Body)
	resp.Body.Close()
	o.rep.GotLen = len(raw)
	var hs []string
	for _, k := range []string{"Content-Type", "Content-Encoding", "Content-Length", "Content-Security-Policy", "Templ-Skip-Modify"} {
		if v, ok := resp.Header[k]; ok {
			hs = append(hs, k+": "+strings.Join(v, ","))
		}
	}
	o.rep.GotHeaders = strings.Join(hs, " | ")
	if c.Method == "HEAD" || upstreamStatus != http.StatusOK {
		// HeadIsUntouched: no body to append to -- status, declared length, encoding and type are the upstream's
		kind := c.Method + " -> " + strconv.Itoa(upstreamStatus)
		cl := resp.Header.Get("Content-Length")
		wantCL := strconv.Itoa(len(wire))
		if upstreamStatus != http.StatusOK {
			wantCL = "" // the upstream declares no length with 204/304
		}
		o.headAsModelled = tc.Status != "aborted" && (tc.Status == "badgateway") == (resp.StatusCode == http.StatusBadGateway) &&
			(tc.Cl == "synthetic") == (resp.StatusCode == upstreamStatus && cl != wantCL)
		switch {
		case resp.StatusCode != upstreamStatus:
			return bad("HeadIsUntouched", fmt.Sprintf("%s: status %d instead of the upstream's %d (upstream headers: Content-Type %q, Content-Encoding %q)", kind, resp.StatusCode, upstreamStatus, ct, tok))
		case len(raw) != 0:
			return bad("HeadIsUntouched", fmt.Sprintf("%s: %d body bytes received", kind, len(raw)))
		case cl != wantCL:
			return bad("HeadIsUntouched", fmt.Sprintf("%s: Content-Length %q, the upstream declared %q", kind, cl, wantCL))
		case resp.Header.Get("Content-Encoding") != tok:
			return bad("HeadIsUntouched", fmt.Sprintf("%s: Content-Encoding %q became %q", kind, tok, resp.Header.Get("Content-Encoding")))
		}
		if tc.Status != "ok" || (tc.Cl != "match" && tc.Cl != "absent") {
			o.drift = "spec (as configured for this tree) predicts an altered bodyless response, the client received it unaltered"
		}
		return o
	}
	if resp.StatusCode != http.StatusOK {
		return bad("PassThroughIsIdentity", fmt.Sprintf("status %d instead of 200", resp.StatusCode))
	}
	transportGunzipped := c.Accept == "absent" && c.Enc == "gzip"

	// LengthMatchesBody: a declared length must be the number of bytes sent
	if rerr != nil {
		return bad("LengthMatchesBody", "reading the body failed (declared Content-Length "+resp.Header.Get("Content-Length")+"): "+rerr.Error())
	}
	if cl := resp.Header.Get("Content-Length"); cl != "" {
		if n, err := strconv.Atoi(cl); err != nil || n != len(raw) {
			return bad("LengthMatchesBody", fmt.Sprintf("Content-Length %q but %d bytes were sent", cl, len(raw)))
		}
	} else if !transportGunzipped {
		o.drift = "no Content-Length header on the proxied response"
	}

	gotEnc := resp.Header.Get("Content-Encoding")
	wantEnc := tok
	if transportGunzipped {
		wantEnc = ""
	}

	if tc.MustPass {
		want := wire
		if transportGunzipped {
			want = plain
		}
		if !bytes.Equal(raw, want) {
			n := countReloadBytes(raw)
			return bad("PassThroughIsIdentity", fmt.Sprintf("body altered: %d bytes sent by the backend, %d bytes received (reload script occurrences in the received bytes: %d)", len(want), len(raw), n))
		}
		if gotEnc != wantEnc {
			return bad("PassThroughIsIdentity", fmt.Sprintf("Content-Encoding %q became %q", wantEnc, gotEnc))
		}
		// (a response without Content-Type gets one from net/http's sniffing in the proxy's own server: not the proxy's doing)
		if got := resp.Header.Get("Content-Type"); got != ct && !noCT {
			o.drift = fmt.Sprintf("Content-Type %q became %q on a passed-through response", ct, got)
		}
		if tc.Inserted != 0 || (tc.Bytes != "backend" && tc.Bytes != "gunzipped") {
			o.drift = "spec (as configured for this tree) predicts a rewrite, the real proxy passed the response through"
		}
		return o
	}

	// EncodingHeaderDescribesBody
	if gotEnc != wantEnc {
		return bad("EncodingHeaderDescribesBody", fmt.Sprintf("Content-Encoding %q became %q", wantEnc, gotEnc))
	}
	var decoded []byte
	switch gotEnc {
	case "":
		decoded = raw
	case "gzip":
		zr, err := gzip.NewReader(bytes.NewReader(raw))
		if err == nil {
			decoded, err = io.ReadAll(zr)
		}
		if err != nil {
			return bad("EncodingHeaderDescribesBody", "header says gzip but the body does not gunzip: "+err.Error())
		}
	case "br":
		var err error
		decoded, err = io.ReadAll(brotli.NewReader(bytes.NewReader(raw)))
		if err != nil {
			return bad("EncodingHeaderDescribesBody", "header says br but the body does not decode: "+err.Error())
		}
	default:
		return bad("EncodingHeaderDescribesBody", "unexpected Content-Encoding "+gotEnc)
	}
	if got := resp.Header.Get("Content-Type"); got != ct {
		o.drift = fmt.Sprintf("Content-Type %q became %q", ct, got)
	}

	// DocumentOnlyAppendedTo on the bytes: nothing of the document may be missing
	if len(decoded) < len(plain) {
		return bad("DocumentOnlyAppendedTo", fmt.Sprintf("the received document has %d bytes, the original has %d: %d bytes are missing (cut off?)", len(decoded), len(plain), len(plain)-len(decoded)))
	}
	// HtmlGetsExactlyOneScript: decoded DOM = original DOM + one reload script as last child of the first body
	orig, err := html.Parse(bytes.NewReader(plain))
	if err != nil {
		vhlib.Fatal("original document does not parse: %v", err)
	}
	got, err := html.Parse(bytes.NewReader(decoded))
	if err != nil {
		return bad("HtmlGetsExactlyOneScript", "received document does not parse: "+err.Error())
	}
	origBody := firstBody(orig)
	base := countReload(orig)
	n := countReload(got) - base
	o.inserted = n
	if origBody == nil {
		if n != 0 {
			return bad("HtmlGetsExactlyOneScript", fmt.Sprintf("document has no body element but %d reload script(s) were added", n))
		}
		if !bytes.Equal(decoded, plain) {
			if d := sameTree(orig, got, nil, ""); d != "" {
				return bad("DocumentOnlyAppendedTo", "document without body was altered: "+d)
			}
		}
		if tc.Inserted != 0 {
			o.drift = "spec predicts an inserted script for a document without body"
		}
		return o
	}
	if n != 1 {
		return bad("HtmlGetsExactlyOneScript", fmt.Sprintf("%d reload scripts added to a document with a body element (expected exactly 1)", n))
	}
	gotBody := firstBody(got)
	if gotBody == nil || gotBody.LastChild == nil || !isReload(gotBody.LastChild) {
		return bad("HtmlGetsExactlyOneScript", "the reload script is not the last child of the first body element")
	}
	script := gotBody.LastChild
	if script.FirstChild != nil {
		return bad("HtmlGetsExactlyOneScript", "the reload script element has content")
	}
	nonce, hasNonce := "", false
	for _, a := range script.Attr {
		switch a.Key {
		case "src":
		case "nonce":
			nonce, hasNonce = a.Val, true
		default:
			o.drift = "reload script carries an extra attribute " + a.Key
		}
	}
	var allowed []string
	for _, s := range tc.Nonces {
		allowed = append(allowed, csp.nonces[s])
	}
	sort.Strings(allowed)
	// does the real nonce look like what the spec (configured as the tree was probed) predicts?
	want := csp.nonces[tc.Nonce.N]
	switch {
	case tc.Nonce.N == "":
		o.nonceAsModelled = !hasNonce
	case tc.Nonce.Mangled:
		o.nonceAsModelled = hasNonce && nonce != want && strings.HasPrefix(nonce, want)
	default:
		o.nonceAsModelled = hasNonce && nonce == want
	}
	if len(allowed) == 0 {
		if hasNonce {
			o.nonceFailure = true
			return bad("HtmlGetsExactlyOneScript", fmt.Sprintf("policy %q has no script nonce but the reload script carries nonce %q", csp.String(), nonce))
		}
	} else {
		ok := false
		for _, a := range allowed {
			if a == nonce {
				ok = true
			}
		}
		if !ok {
			o.nonceFailure = true
			if !hasNonce {
				return bad("HtmlGetsExactlyOneScript", fmt.Sprintf("Content-Security-Policy %q: the reload script carries no nonce, the page's script nonce is %v (the browser blocks the script)", csp.String(), allowed))
			}
			return bad("HtmlGetsExactlyOneScript", fmt.Sprintf("Content-Security-Policy %q: reload script nonce %q is not one of the script-src nonces %v (the browser blocks the script)", csp.String(), nonce, allowed))
		}
		if !o.nonceAsModelled {
			o.drift = "nonce is a valid script-src nonce but not the one parseNonce is modelled to pick"
		}
	}
	if d := sameTree(orig, got, script, ""); d != "" {
		return bad("DocumentOnlyAppendedTo", "the received document differs from the original beyond the appended script: "+d)
	}
	if tc.Inserted != 1 {
		o.drift = "spec predicts no insertion, the real proxy inserted the script"
	}
	return o
}

func countReloadBytes(b []byte) int {
	return bytes.Count(b, []byte("/_templ/reload/script.js"))
}

func newEnv() (*env, func()) {
	be := httptest.NewServer(http.HandlerFunc(backend))
	target, _ := url.Parse(be.URL)
	p := proxy.New(discard, "127.0.0.1", 0, target)
	ps := httptest.NewServer(p)
	tr := &http.Transport{DisableCompression: true, MaxIdleConnsPerHost: 64}
	e := &env{proxyURL: ps.URL, client: &http.Client{Transport: tr, Timeout: 120 * time.Second}}
	return e, func() { tr.CloseIdleConnections(); ps.Close(); be.Close() }
}

func main() {
	if len(os.Args) < 2 {
		vhlib.Fatal("usage: c20 probe | cases <file> <seed> <tier>")
	}
	switch os.Args[1] {
	case "probe":
		// what does the tree do (a) with an unsupported Content-Encoding, (b) with a script nonce that is only in the
		// second Content-Security-Policy header line? The answers select the spec constants.
		tcs := loadCases(os.Args[2])
		e, done := newEnv()
		defer done()
		rng := rand.New(rand.NewSource(1))
		u := find(tcs, config{Body: "full", Ct: "html", Csp: "none", Enc: "unsupported", Req: "plain", Accept: "browser"})
		u.MustPass, u.Bytes, u.Inserted = true, "backend", 0
		ou := e.exchange(u, 600, rng)
		rule := "pass"
		if ou.invariant != "" {
			rule = "rewrite"
		}
		l := find(tcs, config{Body: "full", Ct: "html", Csp: "linessecond", Enc: "none", Req: "plain", Accept: "browser"})
		l.Nonce, l.Nonces = specNonce{N: "N1"}, []string{"N1"}
		ol := e.exchange(l, 600, rng)
		csprule := "policylist"
		if ol.invariant != "" {
			csprule = "firstline"
		}
		// (c) a HEAD request for an html page, (d) a page whose content type is spelled TEXT/HTML
		h := find(tcs, config{Method: "HEAD", Body: "full", Ct: "html", Csp: "none", Enc: "none", Req: "plain", Accept: "browser"})
		h.Status, h.Cl = "ok", "match"
		oh := e.exchange(h, 600, rng)
		headrule := "pass"
		if oh.invariant != "" {
			headrule = "rewrite"
		}
		k := find(tcs, config{Body: "full", Ct: "htmlcase", Csp: "none", Enc: "none", Req: "plain", Accept: "browser"})
		k.MustPass, k.Inserted = false, 1
		ok := e.exchange(k, 600, rng)
		ctrule := "caseinsensitive"
		if ok.invariant != "" {
			ctrule = "casesensitive"
		}
		// (e) a 204 answer labelled text/html, gzip
		n := find(tcs, config{Status: "204", Body: "full", Ct: "html", Csp: "none", Enc: "gzip", Req: "plain", Accept: "browser"})
		n.Status, n.Cl = "ok", "absent"
		on := e.exchange(n, 600, rng)
		statusrule := "pass"
		if on.invariant != "" {
			statusrule = "rewrite"
		}
		vhlib.Summary(map[string]any{"statusrule": statusrule, "statusdetail": on.detail, "rule": rule, "detail": ou.detail, "csprule": csprule, "cspdetail": ol.detail,
			"headrule": headrule, "headdetail": oh.detail, "ctrule": ctrule, "ctdetail": ok.detail})
	case "selftest":
		// binding self-test: corrupted predictions must be reported
		tcs := loadCases(os.Args[2])
		e, done := newEnv()
		defer done()
		rng := rand.New(rand.NewSource(1))
		good := find(tcs, config{Body: "full", Ct: "html", Csp: "scriptsrc", Enc: "gzip", Req: "plain", Accept: "browser"})
		// (a) a configuration that is rewritten, declared "must pass through"
		ca := good
		ca.MustPass, ca.Bytes = true, "backend"
		a := e.exchange(ca, 5000, rng)
		// (b) a policy with a script nonce, declared to have none
		cb := find(tcs, config{Body: "full", Ct: "html", Csp: "scriptsrc", Enc: "br", Req: "plain", Accept: "browser"})
		cb.Nonces, cb.Nonce = nil, specNonce{}
		b := e.exchange(cb, 5000, rng)
		// (c) a pass-through configuration declared to be rewritten
		cc := find(tcs, config{Body: "full", Ct: "other", Csp: "none", Enc: "none", Req: "plain", Accept: "browser"})
		cc.MustPass, cc.Inserted = false, 1
		c := e.exchange(cc, 5000, rng)
		// (d) the uncorrupted twin of (a) holds
		d := e.exchange(good, 5000, rng)
		vhlib.Summary(map[string]any{"a": a.invariant, "b": b.invariant, "c": c.invariant, "d": d.invariant + d.drift})
	case "cases":
		cases(os.Args[2:])
	default:
		vhlib.Fatal("unknown mode %s", os.Args[1])
	}
}

func loadCases(path string) []tcase {
	var tcs []tcase
	err := vhlib.Each(path, func(line []byte) error {
		var tc tcase
		if err := json.Unmarshal(line, &tc); err != nil {
			return err
		}
		tcs = append(tcs, tc)
		return nil
	})
	if err != nil {
		vhlib.Fatal("%v", err)
	}
	return tcs
}

func find(tcs []tcase, c config) tcase {
	if c.Method == "" {
		c.Method = "GET"
	}
	if c.Status == "" {
		c.Status = "200"
	}
	for _, tc := range tcs {
		if tc.Cfg == c {
			return tc
		}
	}
	vhlib.Fatal("configuration %+v was not emitted by TLC", c)
	return tcase{}
}

var boundarySizes = []int{4095, 4096, 4097, 32767, 32768, 32769, 65536}

func cases(args []string) {
	if len(args) < 3 {
		vhlib.Fatal("usage: c20 cases <file> <seed> <tier>")
	}
	seed, _ := strconv.ParseInt(args[1], 10, 64)
	thorough := args[2] == "thorough"
	var tcs []tcase
	err := vhlib.Each(args[0], func(line []byte) error {
		var tc tcase
		if err := json.Unmarshal(line, &tc); err != nil {
			return err
		}
		tcs = append(tcs, tc)
		return nil
	})
	if err != nil {
		vhlib.Fatal("%v", err)
	}
	selfTestDocuments(seed, tcs)
	e, done := newEnv()
	defer done()

	type job struct {
		idx  int
		size int
	}
	rng := rand.New(rand.NewSource(seed))
	var jobs []job
	nbig := 16
	if thorough {
		nbig = 500
	}
	// multi-megabyte bodies for a seeded subset: mostly configurations that are rewritten, a few that pass through
	bigAt := map[int]bool{}
	var rw, pt []int
	for i, tc := range tcs {
		if tc.Cfg.Body == "empty" || tc.Cfg.Method == "HEAD" || tc.Cfg.Status != "200" {
			continue
		}
		if tc.MustPass {
			pt = append(pt, i)
		} else {
			rw = append(rw, i)
		}
	}
	rng.Shuffle(len(rw), func(a, b int) { rw[a], rw[b] = rw[b], rw[a] })
	rng.Shuffle(len(pt), func(a, b int) { pt[a], pt[b] = pt[b], pt[a] })
	for _, i := range rw[:min(nbig, len(rw))] {
		bigAt[i] = true
	}
	for _, i := range pt[:min(nbig/4, len(pt))] {
		bigAt[i] = true
	}
	for i, tc := range tcs {
		if tc.Cfg.Body == "empty" {
			jobs = append(jobs, job{i, 0})
			continue
		}
		if tc.Cfg.Method == "HEAD" || tc.Cfg.Status != "200" {
			// no body travels: one exchange, the size only sets the Content-Length the upstream declares
			jobs = append(jobs, job{i, 300 + rng.Intn(40000)})
			continue
		}
		if tc.MustPass && !thorough {
			// quick: a passed-through response is replayed at one size (small or at a buffer boundary)
			if rng.Intn(2) == 0 {
				jobs = append(jobs, job{i, 300 + rng.Intn(900)})
			} else {
				jobs = append(jobs, job{i, boundarySizes[rng.Intn(len(boundarySizes))]})
			}
			if bigAt[i] {
				jobs = append(jobs, job{i, 3<<20 + rng.Intn(4096)})
			}
			continue
		}
		jobs = append(jobs, job{i, 300 + rng.Intn(900)})
		if thorough {
			for _, s := range boundarySizes {
				jobs = append(jobs, job{i, s})
			}
		} else {
			jobs = append(jobs, job{i, boundarySizes[rng.Intn(len(boundarySizes))]})
		}
		if bigAt[i] {
			jobs = append(jobs, job{i, 3<<20 + rng.Intn(4096)})
		}
	}
	// multi-megabyte pages around powers of two (buffer / limit sizes): every supported encoding, one rewritten
	// configuration each in quick, several documents in thorough; the document is compared in full
	hugeSizes := []int{1<<22 - 1, 1<<22 + 1, 1<<23 + 1}
	hugeDocs := []string{"full"}
	if thorough {
		hugeSizes = []int{1<<20 + 1, 1<<21 + 1, 1<<22 - 1, 1 << 22, 1<<22 + 1, 1<<23 - 1, 1<<23 + 1, 1<<24 + 1}
		hugeDocs = []string{"full", "nonascii", "scripts"}
	}
	nhuge := 0
	for i, tc := range tcs {
		c := tc.Cfg
		if c.Method != "GET" || c.Status != "200" || tc.MustPass || c.Ct != "html" || c.Csp != "none" || c.Accept != "browser" || c.Enc == "unsupported" {
			continue
		}
		for _, d := range hugeDocs {
			if c.Body == d {
				for _, sz := range hugeSizes {
					jobs = append(jobs, job{i, sz})
					nhuge++
				}
			}
		}
	}
	if nhuge < 3*len(hugeSizes) {
		vhlib.Fatal("multi-megabyte family: only %d exchanges planned", nhuge)
	}
	var (
		mu        sync.Mutex
		fails     int
		drift     int
		exchanges int
		perInv    = map[string]int{}
		perBranch = map[string]int{}
		replayed  = make([]bool, len(tcs))
		inserted  int
		passed    int
		samples   int
		maxBody   int
	)
	ch := make(chan job)
	var wg sync.WaitGroup
	for w := 0; w < 8; w++ {
		wg.Add(1)
		wrng := rand.New(rand.NewSource(seed*131 + int64(w)))
		go func() {
			defer wg.Done()
			for j := range ch {
				tc := tcs[j.idx]
				o := e.exchange(tc, j.size, wrng)
				mu.Lock()
				exchanges++
				replayed[j.idx] = true
				perBranch[decideBranch(tc.Path)]++
				if o.rep.Size > maxBody {
					maxBody = o.rep.Size
				}
				if o.invariant != "" {
					fails++
					perInv[o.invariant]++
					vhlib.Fail(signature(tc, o), o.invariant+": "+o.detail, o.rep)
				} else {
					if tc.MustPass {
						passed++
					} else if o.inserted == 1 {
						inserted++
					}
					if o.drift != "" {
						drift++
						vhlib.Drift(o.drift, o.rep)
					}
					if samples < 4 && !tc.MustPass && tc.Cfg.Csp != "none" && tc.Cfg.Enc != "none" && j.size > 1000 {
						samples++
						r := o.rep
						r.BodyHead = ""
						vhlib.Sample(r)
					}
				}
				mu.Unlock()
			}
		}()
	}
	for _, j := range jobs {
		ch <- j
	}
	close(ch)
	wg.Wait()
	nrep := 0
	for _, r := range replayed {
		if r {
			nrep++
		}
	}
	vhlib.Summary(map[string]any{"cases": len(tcs), "cases_replayed": nrep, "exchanges": exchanges, "fails": fails, "drift": drift,
		"per_invariant": perInv, "per_branch": perBranch, "script_inserted_ok": inserted, "passed_through_ok": passed, "max_body_bytes": maxBody})
}

// selfTestDocuments: the generated documents must be stable under parse/render/parse, otherwise a DOM
// difference would be the fault of the test data, not of the proxy (machinery error, never a violation).
func selfTestDocuments(seed int64, tcs []tcase) {
	rng := rand.New(rand.NewSource(seed))
	docs := map[string]specDoc{}
	for _, tc := range tcs {
		docs[tc.Cfg.Body] = tc.Doc
	}
	for shape, sd := range docs {
		for _, size := range []int{0, 1500, 4097, 40000} {
			doc := document(sd, size, rng)
			if shape != "empty" && size >= 1500 && len(doc) != size {
				vhlib.Fatal("document(%s,%d) has %d bytes", shape, size, len(doc))
			}
			a, err := html.Parse(bytes.NewReader(doc))
			if err != nil {
				vhlib.Fatal("document(%s) does not parse: %v", shape, err)
			}
			var buf bytes.Buffer
			if err := html.Render(&buf, a); err != nil {
				vhlib.Fatal("document(%s) does not render: %v", shape, err)
			}
			b, err := html.Parse(bytes.NewReader(buf.Bytes()))
			if err != nil {
				vhlib.Fatal("rendered document(%s) does not parse: %v", shape, err)
			}
			if d := sameTree(a, b, nil, ""); d != "" {
				vhlib.Fatal("document(%s,%d) is not stable under parse/render/parse: %s", shape, size, d)
			}
			if (firstBody(a) != nil) != (sd.Skeleton != "frameset") {
				vhlib.Fatal("document(%s): body element presence differs from the spec's HasBody", shape)
			}
			// every item of the spec is in the document, as an element of that name in head or body
			for _, it := range sd.Items {
				if sd.Skeleton == "page" && !hasElementIn(a, it.In, it.El) {
					vhlib.Fatal("document(%s): item %s in %s is missing", shape, it.El, it.In)
				}
			}
		}
	}
}

func hasElementIn(root *html.Node, where, el string) bool {
	var walk func(n *html.Node, in bool) bool
	walk = func(n *html.Node, in bool) bool {
		if n.Type == html.ElementNode {
			if n.Data == where {
				in = true
			}
			if in && n.Data == el {
				return true
			}
		}
		for c := n.FirstChild; c != nil; c = c.NextSibling {
			if walk(c, in) {
				return true
			}
		}
		return false
	}
	return walk(root, false)
}
