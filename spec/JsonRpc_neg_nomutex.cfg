\* C18 conn: NEGATIVE: writeMu removed -- must violate FramesNeverInterleave.
CONSTANTS
  NC = 2
  NN = 1
  MaxPN = 0
  MaxPC = 0
  MaxStray = 0
  UseWriteMu = FALSE
  ChanCap = 1
  RegisterFirst = TRUE
  AtomicAlloc = TRUE
  IdDecode = "strict"
  IdVocab = "small"
  KindShift = 0
  NullResult = "ok"
INIT Init
NEXT Next
INVARIANTS TypeOK Matched FramesNeverInterleave
CHECK_DEADLOCK FALSE
