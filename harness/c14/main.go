// c14 renders shared components from many goroutines at once (build with -race -tags verif) and
// compares every render with the sequential reference; the `verif` pool hooks record the events
// that spec/TraceRenderPool.tla validates for ExclusiveBuffer.
//
//	c14 stress <seed> <goroutines> <renders> <events-out.ndjson>
//	c14 dev    <seed> <goroutines> <millis>  <events-out.ndjson>     (run with TEMPL_DEV_MODE=true, TEMPL_DEV_MODE_ROOT=<scratch>)
package main

import (
	"bufio"
	"bytes"
	"context"
	"encoding/json"
	"fmt"
	"io"
	"math/rand"
	"net/http/httptest"
	"os"
	"path/filepath"
	"regexp"
	"runtime"
	"strconv"
	"strings"
	"sync"
	"sync/atomic"
	"time"

	"github.com/a-h/templ"
	templruntime "github.com/a-h/templ/runtime"

	"verifharness/c10/interp"
	"verifharness/vhlib"
)

func L(n int) interp.Op              { return interp.Op{K: "L", N: n} }
func E(n int) interp.Op              { return interp.Op{K: "E", N: n} }
func Leaf(n int) interp.Op           { return interp.Op{K: "leaf", N: n} }
func Call(a ...interp.Op) interp.Op  { return interp.Op{K: "call", A: a} }
func Flush(a ...interp.Op) interp.Op { return interp.Op{K: "flush", A: a} }
func CB(a, b []interp.Op) interp.Op  { return interp.Op{K: "cb", A: a, B: b} }
func Join(a, b []interp.Op) interp.Op {
	return interp.Op{K: "join", A: a, B: b}
}

var slot = interp.Op{K: "slot"}
var exprFails = interp.Op{K: "EF"}
var leafFails = interp.Op{K: "leafF"}

// the shared programs: package-level components used by every goroutine
var programs = [][]interp.Op{
	{L(5), E(4), L(3)},
	{L(1), Call(L(2), E(1), Call(L(5), Leaf(4))), L(3)},
	{CB([]interp.Op{L(1), slot, L(2), slot}, []interp.Op{E(4), L(5)}), L(3)},
	{L(3), Flush(L(5), E(2)), L(5), Flush(Leaf(4)), E(4)},
	{Join([]interp.Op{L(5), E(4)}, []interp.Op{Leaf(2), L(3)}), L(1)},
	{L(5), L(5), L(5), E(4), E(4), L(5), L(5), Call(L(5), L(5), L(5), L(5)), L(5)},
	{L(2), E(1), exprFails, L(5)},             // fails midway: expression error
	{L(5), Call(L(3), leafFails, L(3)), L(1)}, // fails midway: nested component error
	{CB([]interp.Op{slot, L(5)}, []interp.Op{L(3), exprFails}), L(2)},
}

type plan struct {
	k    int
	mode string
}

var plans = []plan{{-1, "none"}, {-1, "none"}, {-1, "none"}, {-1, "none"}, {-1, "none"}, {-1, "none"}, {0, "err"}, {4, "err"}, {7, "short"}, {11, "zero"}, {13, "err"}, {30, "err"}}

type want struct {
	sink  string
	class string
}

func (w want) MarshalJSON() ([]byte, error) {
	return json.Marshal(map[string]string{"bytes": w.sink, "error": w.class})
}

var (
	rec      = interp.NewRecorder()
	shared   []templ.Component // Page(handle, items) per program: shared by all goroutines
	bare     []templ.Component // Interp(items) per program
	gallery  []templ.Component // Gallery(params) per variant
	library  []templ.Component // library components created ONCE: Join, Raw, ComponentScript, once handle with a component
	handles  []*templ.OnceHandle
	renderID int64
	hookN    int64
	mismatch int64
	renders  int64
	failedOK int64
	devMode  = os.Getenv("TEMPL_DEV_MODE") == "true"
)

// norm: in development mode a literal may come from either variant of the text file (as generated /
// upper-cased), per literal, whether a render runs alone or not; the comparison is modulo that choice.
func norm(s string) string {
	if devMode {
		if strings.Contains(s, "<HR>") || strings.Contains(s, "GHIJK") {
			noteVariant("upper")
		}
		if strings.Contains(s, "<hr>") || strings.Contains(s, "ghijk") {
			noteVariant("lower")
		}
		return strings.ToLower(s)
	}
	return s
}

func noteVariant(v string) {
	variantMu.Lock()
	variantSet[v] = true
	variantMu.Unlock()
}

// renderOnce renders component c under plan p on the calling goroutine and returns what the writer received.
func renderOnce(c templ.Component, p plan, slow bool) want {
	id := atomic.AddInt64(&renderID, 1)
	fw := &interp.FaultWriter{ID: id, K: p.k, M: p.mode}
	if slow {
		fw.Delay = runtime.Gosched
	}
	rec.Begin(id)
	err := c.Render(context.Background(), fw)
	cl := interp.Classify(err)
	rec.End(cl)
	return want{norm(string(fw.Buf)), cl}
}

// ---------------------------------------------------------------------------------------------
// destinations: what a goroutine renders into (spec/RenderPool.tla, DestKinds)

// dest is a goroutine's long-lived destination: its output, and in front of it its own bufio.Writer
// (at least as big as / smaller than the pool buffers) or its own *runtime.Buffer. The caller flushes after Render.
type dest struct {
	kind  string // bufioBig bufioSmall buffer
	out   bytes.Buffer
	w     io.Writer
	flush func() error
}

var destKinds = []string{"plain", "bufioBig", "bufioSmall", "buffer"}

func newDest(kind string) *dest {
	d := &dest{kind: kind}
	switch kind {
	case "bufioBig":
		size := templruntime.DefaultBufferSize
		if size < 4096 {
			size = 4096
		}
		bw := bufio.NewWriterSize(&d.out, size)
		d.w, d.flush = bw, bw.Flush
	case "bufioSmall":
		size := templruntime.DefaultBufferSize - 1
		if size > 64 {
			size = 64
		}
		bw := bufio.NewWriterSize(&d.out, size)
		d.w, d.flush = bw, bw.Flush
	case "buffer":
		b := &templruntime.Buffer{}
		b.Reset(&d.out)
		rec.Own(b) // the caller's own buffer: not an object of the pool
		d.w, d.flush = b, b.Flush
	}
	return d
}

// renderInto renders c into a goroutine's own destination, flushes it like the caller would, and returns what
// arrived in that goroutine's output since the last render.
func renderInto(d *dest, c templ.Component) want {
	id := atomic.AddInt64(&renderID, 1)
	rec.Begin(id)
	err := c.Render(context.Background(), d.w)
	if ferr := d.flush(); err == nil { // the caller flushes its writer whatever Render returned
		err = ferr
	}
	cl := interp.Classify(err)
	rec.End(cl)
	got := d.out.String()
	d.out.Reset()
	return want{norm(got), cl}
}

type preStep struct {
	kind string
	who  string
	prog int
	got  want
}

// destPreamble renders, on this one goroutine and before anything else has used the pools, into two
// destinations A and B of each kind in the order A, B, A, B (one fixed interleaving, independent of the scheduler).
func destPreamble() []preStep {
	var steps []preStep
	for _, kind := range destKinds[1:] {
		a, b := newDest(kind), newDest(kind)
		for k, d := range []*dest{a, b, a, b} {
			prog := k % len(programs)
			steps = append(steps, preStep{kind, []string{"A", "B", "A", "B"}[k], prog, renderInto(d, bare[prog])})
		}
	}
	return steps
}

// ---------------------------------------------------------------------------------------------
// a stalled writer (spec/RenderPool.tla: Stall / IndependentOfStalledWriters)

// gatedWriter accepts nothing until it is released; entered is closed when a Write is waiting.
type gatedWriter struct {
	got     []byte
	entered chan struct{}
	release chan struct{}
	once    sync.Once
}

func (w *gatedWriter) Write(p []byte) (int, error) {
	w.once.Do(func() { close(w.entered) })
	<-w.release
	w.got = append(w.got, p...)
	return len(p), nil
}

// stallTest renders a document that is larger than the render buffer into a writer that stalls, and while that
// render is blocked inside its writer lets other goroutines render into their own writers: they must all complete
// within the bound. Then the writer is released and the blocked render must deliver exactly its document.
// Every wait has a time limit: the harness ends in a verdict or a harness error, it never hangs.
func stallTest(ref map[job]want, others int, bound time.Duration) (completed int) {
	const n = 1500 // x 5 bytes: larger than any runtime.DefaultBufferSize used here
	prog := make([]interp.Op, n)
	for i := range prog {
		prog[i] = L(5)
	}
	items, err := interp.BuildStatic(prog)
	if err != nil {
		vhlib.Fatal("%v", err)
	}
	big := interp.Interp(items)
	var solo bytes.Buffer
	if err := big.Render(context.Background(), &solo); err != nil {
		vhlib.Fatal("big document does not render alone: %v", err)
	}
	gw := &gatedWriter{entered: make(chan struct{}), release: make(chan struct{})}
	aDone := make(chan error, 1)
	go func() {
		id := atomic.AddInt64(&renderID, 1)
		rec.Begin(id)
		err := big.Render(context.Background(), gw)
		rec.End(interp.Classify(err))
		aDone <- err
	}()
	select {
	case <-gw.entered:
	case err := <-aDone:
		vhlib.Fatal("the big render finished without ever writing through to its writer: %v", err)
	case <-time.After(20 * time.Second):
		vhlib.Fatal("the big render never reached its writer")
	}
	// the big render is now blocked inside its writer
	type res struct {
		j   job
		got want
	}
	out := make(chan res, others*3)
	for g := 0; g < others; g++ {
		go func(g int) {
			for k := 0; k < 3; k++ {
				j := job{prog: (g + k) % 6, plan: 0, via: k % 2}
				if k == 2 {
					j = job{prog: g % galleryVariants, plan: 0, via: 4}
				}
				out <- res{j, run(j, false)}
			}
		}(g)
	}
	timeout := time.After(bound)
	var got []res
wait:
	for len(got) < others*3 {
		select {
		case r := <-out:
			got = append(got, r)
		case <-timeout:
			break wait
		}
	}
	completed = len(got)
	if completed < others*3 {
		atomic.AddInt64(&mismatch, 1)
		vhlib.Fail("IndependentOfStalledWriters", "renders into their own writers did not complete while the writer of another render is stalled",
			map[string]any{"completed": completed, "of": others * 3, "bound": bound.String(), "development_mode": devMode,
				"stalled_render": fmt.Sprintf("document of %d bytes, buffer size %d, blocked in its writer's first Write", solo.Len(), templruntime.DefaultBufferSize)})
	}
	close(gw.release)
	// after the release everything must finish
	deadline := time.After(30 * time.Second)
	for len(got) < others*3 {
		select {
		case r := <-out:
			got = append(got, r)
		case <-deadline:
			vhlib.Fatal("renders still blocked 30s after the stalled writer was released")
		}
	}
	select {
	case err := <-aDone:
		if err != nil || norm(string(gw.got)) != norm(solo.String()) {
			atomic.AddInt64(&mismatch, 1)
			vhlib.Fail("Isolated", "the render whose writer had stalled did not deliver exactly its document after the release",
				map[string]any{"error": fmt.Sprint(err), "bytes": len(gw.got), "document_bytes": solo.Len()})
		}
	case <-time.After(30 * time.Second):
		vhlib.Fatal("the stalled render did not finish 30s after its writer was released")
	}
	for _, r := range got {
		if w := ref[r.j]; r.got != w {
			atomic.AddInt64(&mismatch, 1)
			vhlib.Fail("Isolated", "a render that ran while another render's writer was stalled differs from the same render alone",
				map[string]any{"job": r.j.String(), "alone": w, "got": r.got})
		}
	}
	return completed
}

func renderToGoHTML(c templ.Component) want {
	id := atomic.AddInt64(&renderID, 1)
	rec.Begin(id)
	h, err := templ.ToGoHTML(context.Background(), c)
	cl := interp.Classify(err)
	rec.End(cl)
	return want{norm(string(h)), cl}
}

func renderHandler(c templ.Component) want {
	id := atomic.AddInt64(&renderID, 1)
	rec.Begin(id)
	rr := httptest.NewRecorder()
	templ.Handler(c).ServeHTTP(rr, httptest.NewRequest("GET", "/", nil))
	rec.End(strconv.Itoa(rr.Code))
	return want{norm(rr.Body.String()), strconv.Itoa(rr.Code)}
}

type job struct {
	prog int
	plan int
	// via 5: library component `prog` (created once, shared by all goroutines) rendered directly into a FaultWriter
	via int // 0 Page into FaultWriter, 1 bare Interp into FaultWriter, 2 ToGoHTML, 3 buffered Handler, 4 Gallery variant `prog` into FaultWriter
}

func (j job) String() string {
	return fmt.Sprintf("program %d via %s, writer plan %+v", j.prog, []string{"Page", "Interp", "ToGoHTML", "Handler", "Gallery", "Library"}[j.via], plans[j.plan])
}

func run(j job, slow bool) want {
	switch j.via {
	case 0:
		return renderOnce(shared[j.prog], plans[j.plan], slow)
	case 1:
		return renderOnce(bare[j.prog], plans[j.plan], slow)
	case 2:
		return renderToGoHTML(shared[j.prog])
	case 3:
		return renderHandler(shared[j.prog])
	case 4:
		return renderOnce(gallery[j.prog], plans[j.plan], slow)
	default:
		return renderOnce(library[j.prog], plans[j.plan], slow)
	}
}

// component is the shared component a job renders.
func component(j job) templ.Component {
	switch j.via {
	case 1:
		return bare[j.prog]
	case 4:
		return gallery[j.prog]
	case 5:
		return library[j.prog]
	}
	return shared[j.prog]
}

const galleryVariants = 8

// galleryParams: every variant has its own class names, attribute values and data, so that anything
// leaking from a render of one variant into a concurrent render of another one is visible.
func galleryParams(v int) Params {
	id := fmt.Sprintf("v%d", v)
	return Params{ID: id, N: 10 + v,
		Attrs: templ.Attributes{"data-" + id: id, "title": "t-" + id, "hidden": v%2 == 0},
		Data:  map[string]any{"id": id, "n": v, "list": []int{v, v + 1}}}
}

func setup() {
	rec.Install()
	for range programs {
		handles = append(handles, templ.NewOnceHandle())
	}
	for i, p := range programs {
		items, err := interp.BuildStatic(p)
		if err != nil {
			vhlib.Fatal("%v", err)
		}
		shared = append(shared, Page(handles[i], items))
		bare = append(bare, interp.Interp(items))
	}
	for v := 0; v < galleryVariants; v++ {
		gallery = append(gallery, Gallery(galleryParams(v)))
	}
	// library components of the root package, each created once and rendered by every goroutine; the per-render
	// writer faults make some of those renders fail midway (in different parts of a Join)
	onceWith := templ.NewOnceHandle(templ.WithComponent(templ.Raw("<i>once-with-component</i>")))
	library = []templ.Component{
		templ.Join(bare[0], bare[3], bare[5]),
		templ.Join(templ.Raw("<header>"), bare[1], bare[7], templ.Raw("<footer>")), // bare[7] always fails
		templ.Join(templ.Raw("<a>"), templ.Join(bare[4], templ.Raw("<b>")), gallery[0]),
		templ.Raw("<raw>shared raw component</raw>"),
		greet("shared", 7),
		onceWith.Once(),
		templ.JSONScript("shared-data", map[string]any{"k": []int{1, 2, 3}}),
	}
}

func reference() map[job]want {
	ref := map[job]want{}
	for p := range programs {
		for pl := range plans {
			for via := 0; via < 4; via++ {
				if via >= 2 && pl != 0 {
					continue
				}
				j := job{p, pl, via}
				ref[j] = run(j, false)
			}
		}
	}
	for v := range library {
		for pl := range plans {
			j := job{v, pl, 5}
			ref[j] = run(j, false)
			if again := run(j, false); again != ref[j] {
				vhlib.Fatal("the solo reference of %s is not deterministic: %q vs %q", j, ref[j].sink, again.sink)
			}
		}
	}
	for v := 0; v < galleryVariants; v++ {
		for pl := range plans {
			j := job{v, pl, 4}
			ref[j] = run(j, false)
			if again := run(j, false); again != ref[j] {
				vhlib.Fatal("the solo reference of %s is not deterministic: %q vs %q", j, ref[j].sink, again.sink)
			}
		}
	}
	return ref
}

func writeEvents(path string) int {
	f, err := os.Create(path)
	if err != nil {
		vhlib.Fatal("%v", err)
	}
	defer f.Close()
	enc := json.NewEncoder(f)
	ev := rec.Take()
	for _, e := range ev {
		enc.Encode(e)
	}
	return len(ev)
}

var idRe = regexp.MustCompile(`\{?(\d+) `)

// handleIDs creates once handles concurrently and checks that their ids are distinct.
func handleIDs(goroutines int) (n int, dup string) {
	var mu sync.Mutex
	seen := map[string]int{}
	var wg sync.WaitGroup
	for g := 0; g < goroutines; g++ {
		wg.Add(1)
		go func() {
			defer wg.Done()
			for i := 0; i < 200; i++ {
				h := templ.NewOnceHandle()
				m := idRe.FindStringSubmatch(fmt.Sprintf("%v ", *h))
				if m == nil {
					continue
				}
				mu.Lock()
				seen[m[1]]++
				mu.Unlock()
			}
		}()
	}
	wg.Wait()
	for id, c := range seen {
		n += c
		if c > 1 {
			dup = id
		}
	}
	return
}

func main() {
	if len(os.Args) < 6 {
		vhlib.Fatal("usage: c14 stress|dev seed goroutines renders|millis events")
	}
	seed, _ := strconv.ParseInt(os.Args[2], 10, 64)
	G, _ := strconv.Atoi(os.Args[3])
	N, _ := strconv.Atoi(os.Args[4])
	dev := os.Args[1] == "dev"
	if dev != devMode {
		vhlib.Fatal("mode %s needs TEMPL_DEV_MODE=%v", os.Args[1], dev)
	}
	templruntime.DefaultBufferSize = []int{4096, 3, 16, 7}[seed%4]
	var stopRewriter func() int
	if dev {
		stopRewriter = startRewriter()
	}
	setup()
	pre := destPreamble()
	rec.On = false
	ref := reference()
	rec.Take()
	if os.Getenv("VERIF_C14_CORRUPT") == "1" {
		// binding self-test: a wrong expectation must be reported
		for j, w := range ref {
			if j.via == 0 && j.plan == 0 {
				w.sink += "#"
				ref[j] = w
			}
		}
	}
	rec.On = true
	var tick int64
	every := int64(2 + seed%5)
	rec.Perturb = func() {
		atomic.AddInt64(&hookN, 1)
		if atomic.AddInt64(&tick, 1)%every == 0 {
			runtime.Gosched()
		}
	}
	if dev {
		stopRewriter = restartRewriter(stopRewriter)
	}

	for _, st := range pre {
		if w := ref[job{st.prog, 0, 1}]; st.got != w {
			atomic.AddInt64(&mismatch, 1)
			vhlib.Fail("OwnDestinationOnly", "rendering A, B, A, B on one goroutine into two destinations of the same kind: a render's output differs from the same render alone",
				map[string]any{"destination_kind": st.kind, "destination": st.who, "program": st.prog, "alone": w, "got": st.got})
		}
	}
	stallCompleted := stallTest(ref, 4, 10*time.Second)
	var wg sync.WaitGroup
	start := time.Now()
	deadline := start.Add(time.Duration(N) * time.Millisecond)
	for g := 0; g < G; g++ {
		wg.Add(1)
		go func(g int) {
			defer wg.Done()
			rng := rand.New(rand.NewSource(seed*1000 + int64(g)))
			// every goroutine has a destination kind; all but "plain" are long-lived objects of that goroutine
			var d *dest
			if k := destKinds[g%len(destKinds)]; k != "plain" {
				d = newDest(k)
			}
			for m := 0; ; m++ {
				if dev {
					if time.Now().After(deadline) {
						return
					}
					// All goroutines leave the same 130ms of every 500ms without any render: whatever policy the
					// cache uses to decide WHEN to look at the file again (that is C16's business), it reloads
					// after such a gap, and the first renders after it race for the reload.
					if el := time.Since(start) % (500 * time.Millisecond); el < 130*time.Millisecond {
						time.Sleep(130*time.Millisecond - el)
					}
				} else if m >= N {
					return
				}
				j := job{prog: rng.Intn(len(programs)), plan: rng.Intn(len(plans)), via: rng.Intn(2)}
				switch rng.Intn(10) {
				case 0:
					j.via, j.plan = 2, 0
				case 1:
					j.via, j.plan = 3, 0
				case 2, 3, 4:
					// neighbouring goroutines render different variants at the same time
					j.via, j.prog = 4, (g+m)%galleryVariants
				case 5, 6, 7:
					// one shared library component value, many goroutines, some renders failing midway
					j.via, j.prog = 5, rng.Intn(len(library))
				}
				var got want
				if d != nil && j.via != 2 && j.via != 3 {
					j.plan = 0 // the goroutine's own destination does not fail
					got = renderInto(d, component(j))
				} else {
					got = run(j, g%3 == 0)
				}
				atomic.AddInt64(&renders, 1)
				w := ref[j]
				if got.class != "nil" && got.class != "200" {
					atomic.AddInt64(&failedOK, 1)
				}
				if got != w {
					if atomic.AddInt64(&mismatch, 1) <= 4 {
						vhlib.Fail("Isolated", "a concurrent render differs from the same render alone",
							map[string]any{"goroutine": g, "render": m, "job": j.String(), "alone": w, "concurrent": got, "goroutines": G, "destination_kind": destKinds[g%len(destKinds)]})
					}
				}
			}
		}(g)
	}
	wg.Wait()
	vhlib.Sample(map[string]any{"component": "Gallery variant 0 rendered alone (the reference of the concurrent renders)", "document": ref[job{0, 0, 4}].sink})
	nids, dup := handleIDs(G)
	if dup != "" {
		vhlib.Fail("UniqueIds", "two once handles created concurrently share an id", map[string]any{"id": dup})
	}
	reloads := 0
	if dev {
		reloads = stopRewriter()
	}
	nev := writeEvents(os.Args[5])
	vhlib.Summary(map[string]any{"renders": renders, "mismatches": mismatch, "failed_as_alone": failedOK, "events": nev,
		"hook_calls": atomic.LoadInt64(&hookN), "goroutines": G, "handle_ids": nids, "rewrites": reloads,
		"variants_seen": variantsSeen(), "completed_while_a_writer_was_stalled": stallCompleted, "buffer_size": templruntime.DefaultBufferSize})
}

// ---------------------------------------------------------------------------------------------
// development mode: the literal text files, and a goroutine that keeps rewriting them

var letterEscape = regexp.MustCompile(`\\[A-Za-z]`)

var litRe = regexp.MustCompile(`templruntime\.WriteString\(templ_7745c5c3_Buffer, (\d+), "((?:[^"\\]|\\.)*)"\)`)

type txtFile struct {
	path string
	a, b string // the two variants: as generated / upper-cased
}

var (
	txts       []txtFile
	variantMu  sync.Mutex
	variantSet = map[string]bool{}
)

func variantsSeen() int { variantMu.Lock(); defer variantMu.Unlock(); return len(variantSet) }

func literalFile(goFile string) txtFile {
	src, err := os.ReadFile(goFile)
	if err != nil {
		vhlib.Fatal("%v", err)
	}
	var lits []string
	for _, m := range litRe.FindAllStringSubmatch(string(src), -1) {
		i, _ := strconv.Atoi(m[1])
		if i != len(lits)+1 {
			vhlib.Fatal("literal indexes of %s are not 1..n", goFile)
		}
		if letterEscape.MatchString(m[2]) {
			vhlib.Fatal("literal with a letter escape in %s: upper-casing is not safe", goFile)
		}
		lits = append(lits, m[2])
	}
	if len(lits) == 0 {
		vhlib.Fatal("no literals found in %s", goFile)
	}
	a := strings.Join(lits, "\n") + "\n"
	return txtFile{path: templruntime.GetDevModeTextFileName(goFile), a: a, b: strings.ToUpper(a)}
}

func writeAtomic(path, content string) {
	tmp := path + ".tmp"
	if err := os.WriteFile(tmp, []byte(content), 0o644); err != nil {
		vhlib.Fatal("%v", err)
	}
	if err := os.Rename(tmp, path); err != nil {
		vhlib.Fatal("%v", err)
	}
}

// startRewriter writes variant a of every literal file (for the sequential reference) and returns a stop func.
func startRewriter() func() int {
	_, self, _, _ := runtime.Caller(0)
	txts = []txtFile{literalFile(interp.GeneratedFile()), literalFile(filepath.Join(filepath.Dir(self), "page_templ.go")),
		literalFile(filepath.Join(filepath.Dir(self), "shared_templ.go"))}
	for _, t := range txts {
		writeAtomic(t.path, t.a)
	}
	return func() int { return 0 }
}

// restartRewriter starts the goroutine that keeps replacing the files with variant a / b (atomic rename,
// as an editor or `templ generate --watch` would) while the renders run.
func restartRewriter(func() int) func() int {
	stop := make(chan struct{})
	done := make(chan int)
	go func() {
		n := 0
		for {
			select {
			case <-stop:
				done <- n
				return
			default:
			}
			for _, t := range txts {
				c := t.a
				if n%2 == 0 {
					c = t.b
				}
				writeAtomic(t.path, c)
			}
			n++
			// The cache looks at the file again only when the modification time it remembers is more than 100 ms
			// old (runtime/watchmode.go), so a file rewritten every 20 ms is never reloaded on an idle machine.
			// Alternate two quick rewrites with a pause longer than that: readers reload during the pauses and
			// run concurrently with the writer during the bursts.
			if n%3 == 0 {
				time.Sleep(140 * time.Millisecond)
			} else {
				time.Sleep(15 * time.Millisecond)
			}
		}
	}()
	return func() int { close(stop); return <-done }
}
