\* C17 negative config: the original isWholeDocument (||) must violate ServerTracksEditor.
CONSTANTS
  MaxLen = 4
  Texts <- TextsDef
  WholeDocRule = "or"
  EmitEdges = FALSE
INIT Init
NEXT BoundedNext
VIEW View
INVARIANTS TypeOK ServerTracksEditor LinesHaveNoNewline SplitJoin
CHECK_DEADLOCK FALSE
