------------------------------ MODULE RenderPool ------------------------------
(* C14 -- concurrent renders are isolated and race-free (process-level model).

   Goroutines G render M components each, at the same time.  What they share:
     * the runtime buffer pool (sync.Pool as a bag: Get returns any pooled object or a new one, Put adds);
       GetBuffer = Get + Reset(w), ReleaseBuffer = Flush + Put  (runtime/bufferpool.go),
     * the development-mode literal cache: watchStateMutex, watchModeCache (cached?, modTime, strings),
       os.Stat, reload (runtime/watchmode.go: getWatchedStrings / cacheStrings),
     * the once-handle id counter (once.go: atomic.AddInt64).
   Everything else a render touches is per render: its frame, its context value, its writer.

   A document is DocLen literals; literal i of render <<g, m>> is the token <<g, m, i, version>>
   (version = the literal-file version it was read from; 0 outside development mode).
   Seeded defects (Bug) for the negative configs:
     "putfirst"       ReleaseBuffer puts the buffer into the pool before flushing it
     "noreset"        GetBuffer does not Reset a pooled buffer
     "cacheunlocked"  getWatchedStrings reads the cache map before taking the mutex
     "idrace"         the once-handle id is read and written in two steps                          *)
EXTENDS Integers, Sequences, FiniteSets, TLC, RenderPoolOps

CONSTANTS G, M, DocLen, NBuf, FailAt, DevMode, MaxVer, Bug

Render == G \X (1..M)
Bufs == 1..NBuf

VARIABLES pc,        \* per goroutine
          m,         \* per goroutine: index of the render in progress
          i,         \* per goroutine: next literal
          held,      \* per goroutine: buffer object its render uses (0 = none)
          holders, pooled, made,   \* pool protocol state (RenderPoolOps); made = objects created so far
          buf,       \* per buffer object: [data, w]  data = tokens buffered, w = render whose writer it points at
          sink,      \* per render: tokens its writer received
          res,       \* per render: "run" | "nil" | "err"
          mutex,     \* watchStateMutex: holder or 0
          cache,     \* watchModeCache entry: [cached, ver]
          file,      \* current version of the literal text file
          inmap,     \* goroutines currently reading or writing the cache map
          lit,       \* per goroutine: version of the literal list it got from getWatchedStrings
          nextid, ids, tmpid       \* once-handle ids: counter, ids handed out (bag as sequence), per-goroutine read

vars == <<pc, m, i, held, holders, pooled, made, buf, sink, res, mutex, cache, file, inmap, lit, nextid, ids, tmpid>>

R(g) == <<g, m[g]>>
Doc(r) == [k \in 1..DocLen |-> <<r[1], r[2], k>>]          \* tokens without the version
Strip(s) == [k \in 1..Len(s) |-> <<s[k][1], s[k][2], s[k][3]>>]
NoR == <<0, 0>>

Init == /\ pc = [g \in G |-> "id"] /\ m = [g \in G |-> 1] /\ i = [g \in G |-> 1]
        /\ held = [g \in G |-> 0]
        /\ holders = {} /\ pooled = {} /\ made = 0
        /\ buf = [b \in Bufs |-> [data |-> <<>>, w |-> NoR]]
        /\ sink = [r \in Render |-> <<>>] /\ res = [r \in Render |-> "run"]
        /\ mutex = 0 /\ cache = [cached |-> FALSE, ver |-> 0] /\ file = 1 /\ inmap = {}
        /\ lit = [g \in G |-> 0]
        /\ nextid = 0 /\ ids = <<>> /\ tmpid = [g \in G |-> 0]

Goto(g, l) == pc' = [pc EXCEPT ![g] = l]

\* templ.NewOnceHandle(): id = atomic.AddInt64(&onceHandleIndex, 1)
NewHandle(g) ==
    /\ pc[g] = "id"
    /\ IF Bug = "idrace"
       THEN /\ tmpid' = [tmpid EXCEPT ![g] = nextid] /\ Goto(g, "id2") /\ UNCHANGED <<nextid, ids>>
       ELSE /\ nextid' = nextid + 1 /\ ids' = Append(ids, nextid + 1) /\ Goto(g, "get") /\ UNCHANGED tmpid
    /\ UNCHANGED <<m, i, held, holders, pooled, made, buf, sink, res, mutex, cache, file, inmap, lit>>
NewHandle2(g) ==
    /\ pc[g] = "id2"
    /\ nextid' = tmpid[g] + 1 /\ ids' = Append(ids, tmpid[g] + 1) /\ Goto(g, "get")
    /\ UNCHANGED <<m, i, held, holders, pooled, made, buf, sink, res, mutex, cache, file, inmap, lit, tmpid>>

\* b = bufferPool.Get().(*Buffer)
Get(g) ==
    /\ pc[g] = "get"
    /\ \E b \in pooled \cup (IF made < NBuf THEN {made + 1} ELSE {}) :
          /\ held' = [held EXCEPT ![g] = b]
          /\ holders' = HGet(holders, R(g), b)
          /\ pooled' = PGet(pooled, b)
          /\ made' = IF b = made + 1 THEN made + 1 ELSE made
    /\ Goto(g, "reset")
    /\ UNCHANGED <<m, i, buf, sink, res, mutex, cache, file, inmap, lit, nextid, ids, tmpid>>

\* b.Reset(w)
Reset(g) ==
    /\ pc[g] = "reset"
    /\ buf' = IF Bug = "noreset" /\ buf[held[g]].w # NoR THEN buf
              ELSE [buf EXCEPT ![held[g]] = [data |-> <<>>, w |-> R(g)]]
    /\ i' = [i EXCEPT ![g] = 1]
    /\ Goto(g, IF DevMode THEN "lock" ELSE "write")
    /\ UNCHANGED <<m, held, holders, pooled, made, sink, res, mutex, cache, file, inmap, lit, nextid, ids, tmpid>>

(* development mode: runtime.WriteString -> getWatchedStrings(txtFilePath) *)
CacheLock(g) ==
    /\ pc[g] = "lock"
    /\ IF Bug = "cacheunlocked"
       THEN Goto(g, "lookup") /\ UNCHANGED mutex            \* fast path reads the map before locking
       ELSE mutex = 0 /\ mutex' = g /\ Goto(g, "lookup")
    /\ UNCHANGED <<m, i, held, holders, pooled, made, buf, sink, res, cache, file, inmap, lit, nextid, ids, tmpid>>

\* state, cached := watchModeCache[txtFilePath]  ... begins touching the map
CacheLookup(g) ==
    /\ pc[g] = "lookup"
    /\ inmap' = inmap \cup {g}
    /\ Goto(g, "decide")
    /\ UNCHANGED <<m, i, held, holders, pooled, made, buf, sink, res, mutex, cache, file, lit, nextid, ids, tmpid>>

\* hit (fresh enough / not modified): return state.strings; miss or modified: cacheStrings writes the map
CacheDecide(g) ==
    /\ pc[g] = "decide"
    /\ \/ /\ cache.cached                                   \* time.Since(modTime) < 100ms, or ModTime not after
          /\ lit' = [lit EXCEPT ![g] = cache.ver] /\ UNCHANGED <<cache, mutex>>
       \/ /\ ~cache.cached \/ file > cache.ver              \* cacheStrings: read the file, store it
          /\ (Bug = "cacheunlocked") => (mutex = 0 \/ mutex = g)
          /\ cache' = [cached |-> TRUE, ver |-> file]
          /\ lit' = [lit EXCEPT ![g] = file]
          /\ mutex' = IF Bug = "cacheunlocked" THEN g ELSE mutex
    /\ Goto(g, "unlock")
    /\ UNCHANGED <<m, i, held, holders, pooled, made, buf, sink, res, file, inmap, nextid, ids, tmpid>>

CacheUnlock(g) ==
    /\ pc[g] = "unlock"
    /\ inmap' = inmap \ {g}
    /\ mutex' = IF mutex = g THEN 0 ELSE mutex
    /\ Goto(g, "write")
    /\ UNCHANGED <<m, i, held, holders, pooled, made, buf, sink, res, cache, file, lit, nextid, ids, tmpid>>

\* `templ generate --watch` rewrites the literal file
FileWrite ==
    /\ DevMode /\ file < MaxVer
    /\ file' = file + 1
    /\ UNCHANGED <<pc, m, i, held, holders, pooled, made, buf, sink, res, mutex, cache, inmap, lit, nextid, ids, tmpid>>

\* io.WriteString(buffer, literal i): buffered in the render's buffer object
Write(g) ==
    /\ pc[g] = "write"
    /\ buf' = [buf EXCEPT ![held[g]].data = Append(@, <<g, m[g], i[g], lit[g]>>)]
    /\ i' = [i EXCEPT ![g] = @ + 1]
    /\ Goto(g, IF i[g] = DocLen THEN "release" ELSE IF DevMode THEN "lock" ELSE "write")
    /\ UNCHANGED <<m, held, holders, pooled, made, sink, res, mutex, cache, file, inmap, lit, nextid, ids, tmpid>>

\* ReleaseBuffer: err = b.Flush(); bufferPool.Put(b)      ("putfirst": the other way round)
FlushTo(b) == LET w == buf[b].w
                  all == buf[b].data
                  \* the writer of render FailAt fails midway: it accepts all but the last buffered token
                  acc == IF w = FailAt /\ all # <<>> THEN SubSeq(all, 1, Len(all) - 1) ELSE all
              IN [w |-> w, acc |-> acc, err |-> (w = FailAt)]

Flush(g) ==
    /\ pc[g] = IF Bug = "putfirst" THEN "flush2" ELSE "release"
    /\ LET f == FlushTo(held[g]) IN
       /\ sink' = IF f.w = NoR THEN sink ELSE [sink EXCEPT ![f.w] = @ \o f.acc]
       /\ buf' = [buf EXCEPT ![held[g]].data = <<>>]
       /\ res' = [res EXCEPT ![R(g)] = IF f.err THEN "err" ELSE "nil"]
    /\ IF Bug = "putfirst"
       THEN /\ holders' = HDrop(holders, R(g), held[g]) /\ held' = [held EXCEPT ![g] = 0] /\ Goto(g, "end")
       ELSE /\ holders' = HDrop(holders, R(g), held[g]) /\ UNCHANGED held /\ Goto(g, "put")
    /\ UNCHANGED <<m, i, pooled, made, mutex, cache, file, inmap, lit, nextid, ids, tmpid>>

Put(g) ==
    /\ pc[g] = IF Bug = "putfirst" THEN "release" ELSE "put"
    /\ pooled' = PPut(pooled, held[g])
    /\ IF Bug = "putfirst"
       THEN Goto(g, "flush2") /\ UNCHANGED held
       ELSE Goto(g, "end") /\ held' = [held EXCEPT ![g] = 0]
    /\ UNCHANGED <<m, i, holders, made, buf, sink, res, mutex, cache, file, inmap, lit, nextid, ids, tmpid>>

\* Render returns; the goroutine starts its next render
EndRender(g) ==
    /\ pc[g] = "end"
    /\ IF m[g] < M THEN m' = [m EXCEPT ![g] = @ + 1] /\ Goto(g, "get")
                   ELSE UNCHANGED m /\ Goto(g, "done")
    /\ UNCHANGED <<i, held, holders, pooled, made, buf, sink, res, mutex, cache, file, inmap, lit, nextid, ids, tmpid>>

Next == \/ \E g \in G : \/ NewHandle(g) \/ NewHandle2(g) \/ Get(g) \/ Reset(g) \/ CacheLock(g) \/ CacheLookup(g)
                        \/ CacheDecide(g) \/ CacheUnlock(g) \/ Write(g) \/ Flush(g) \/ Put(g) \/ EndRender(g)
        \/ FileWrite

Spec == Init /\ [][Next]_vars

-----------------------------------------------------------------------------
IsPrefix(s, t) == Len(s) <= Len(t) /\ SubSeq(t, 1, Len(s)) = s

\* C14: no buffer object is owned by two renders at once; pooled objects are not in use
ExclusiveBuffer == Exclusive(holders) /\ PooledUnheld(holders, pooled)

\* C14: every render's writer receives its own document (a prefix while running or when it failed), nothing else
Isolated == \A r \in Render :
               /\ IsPrefix(Strip(sink[r]), Doc(r))
               /\ res[r] = "nil" => Strip(sink[r]) = Doc(r)
               /\ res[r] = "err" => r = FailAt

\* C14: the cache map is only touched by the holder of watchStateMutex
MutexProtectsCache == /\ Cardinality(inmap) <= 1
                      /\ \A g \in inmap : mutex = g
\* the literal list a render got is a version of the file that existed
LiteralsAreAVersion == \A g \in G : lit[g] \in 0..file

\* once-handle ids are unique
UniqueIds == \A a, b \in 1..Len(ids) : a # b => ids[a] # ids[b]

TypeOK == /\ pooled \subseteq Bufs /\ made \in 0..NBuf
          /\ \A g \in G : held[g] \in 0..NBuf
=============================================================================
