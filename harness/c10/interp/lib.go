// Package interp binds the abstract programs of spec/RenderIO.tla to real generated templ code:
// the template Interp (interp.templ, generated at check time with the repository's generator) is
// driven by data built here; FaultWriter is the instrumented io.Writer of the fault plans and
// Recorder collects the events of the `verif` pool hooks.
package interp

import (
	"bytes"
	"context"
	_ "embed"
	"errors"
	"fmt"
	"io"
	"path/filepath"
	"runtime"
	"strconv"
	"strings"
	"sync"
	"sync/atomic"

	"github.com/a-h/templ"
	templruntime "github.com/a-h/templ/runtime"
)

const (
	KLit1 = iota
	KLit2
	KLit3
	KLit5
	KExpr
	KExprML
	KCall
	KCallBlock
	KSlot
	KFlush
	KJoin
	KAttr      // <i title={ it.F() }></i>
	KScriptOut // <script>var x = {{ it.F() }}</script>
	KScriptIn  // <script>var y = "{{ it.F() }}"</script>
)

// Item is one op of a program, as the generated template sees it.
type Item struct {
	Kind int
	Fn   func() (string, error)
	C    templ.Component
	Body templ.Component
}

func (it Item) F() (string, error)         { return it.Fn() }
func (it Item) G(a, b int) (string, error) { return it.Fn() }

// Op is an op of the specification: k in L E leaf slot call cb flush join.
type Op struct {
	K string `json:"k"`
	N int    `json:"n"`
	A []Op   `json:"a"`
	B []Op   `json:"b"`
}

var (
	ErrInjected = errors.New("verif: injected writer failure")
	ErrExpr     = errors.New("verif: injected expression error")
	ErrComp     = errors.New("verif: injected component error")
	ErrSide     = errors.New("verif: injected failure of the collecting component's own writer")
)

// Plan is a fault plan of the specification.
type Plan struct {
	W struct {
		K int    `json:"k"`
		M string `json:"m"` // none err short zero
	} `json:"w"`
	L struct {
		K string `json:"k"` // none expr leaf cancel cancelat
		J int    `json:"j"`
	} `json:"l"`
	S struct { // fault of the collecting component's own writer
		K int    `json:"k"`
		M string `json:"m"`
	} `json:"s"`
}

// RenderState is the per-render state the items' closures refer to.
type RenderState struct {
	Plan        Plan
	Evals       int
	Leafs       int
	Cancel      context.CancelFunc
	ExprErr     bool // an expression returned its error
	LeafErr     bool
	SideFired   bool   // the collecting component's own writer failed
	SideCalls   int    // how often that writer was written to
	SW          bool   // the writers of this render implement io.StringWriter
	CancelFired bool   // an expression cancelled the context (plan cancelat)
	OnEval      func() // optional perturbation (C14)
}

func (rs *RenderState) Reset(p Plan, cancel context.CancelFunc) {
	*rs = RenderState{Plan: p, Cancel: cancel, OnEval: rs.OnEval, SW: rs.SW}
}

var litKinds = map[int]int{1: KLit1, 2: KLit2, 3: KLit3, 5: KLit5}
var litTexts = map[int]string{1: "a", 2: "bc", 3: "def", 5: "ghijk"}
var exprTexts = map[int]string{1: "A", 2: "BC", 4: "DEFG"}

const leafText = "wxyz"

// Build turns a program of the specification into the data of the generated template.
func Build(prog []Op, rs *RenderState) ([]Item, error) {
	items := make([]Item, 0, len(prog))
	for _, o := range prog {
		switch o.K {
		case "L":
			k, ok := litKinds[o.N]
			if !ok {
				return nil, fmt.Errorf("no literal of %d bytes in interp.templ", o.N)
			}
			items = append(items, Item{Kind: k})
		case "E":
			text, ok := exprTexts[o.N]
			if !ok {
				return nil, fmt.Errorf("no expression text of %d bytes", o.N)
			}
			kind := KExpr
			if o.N >= 4 {
				kind = KExprML
			}
			items = append(items, Item{Kind: kind, Fn: func() (string, error) {
				rs.Evals++
				if rs.OnEval != nil {
					rs.OnEval()
				}
				if rs.Plan.L.K == "expr" && rs.Plan.L.J == rs.Evals {
					rs.ExprErr = true
					return "", ErrExpr
				}
				if rs.Plan.L.K == "cancelat" && rs.Plan.L.J == rs.Evals && rs.Cancel != nil {
					rs.CancelFired = true
					rs.Cancel()
				}
				return text, nil
			}})
		case "X":
			// an expression of another kind (attribute / script outside / inside a string literal); its value is "A"
			kind, ok := map[int]int{1: KAttr, 2: KScriptOut, 3: KScriptIn}[o.N]
			if !ok {
				return nil, fmt.Errorf("no expression kind %d in interp.templ", o.N)
			}
			items = append(items, Item{Kind: kind, Fn: func() (string, error) {
				rs.Evals++
				if rs.Plan.L.K == "expr" && rs.Plan.L.J == rs.Evals {
					rs.ExprErr = true
					return "", ErrExpr
				}
				if rs.Plan.L.K == "cancelat" && rs.Plan.L.J == rs.Evals && rs.Cancel != nil {
					rs.CancelFired = true
					rs.Cancel()
				}
				return "A", nil
			}})
		case "leaf":
			if o.N < 1 || o.N > len(leafText) {
				return nil, fmt.Errorf("bad leaf size %d", o.N)
			}
			text := []byte(leafText[:o.N])
			items = append(items, Item{Kind: KCall, C: templ.ComponentFunc(func(ctx context.Context, w io.Writer) error {
				rs.Leafs++
				if rs.Plan.L.K == "leaf" && rs.Plan.L.J == rs.Leafs {
					rs.LeafErr = true
					return ErrComp
				}
				_, err := w.Write(text)
				return err
			})})
		case "slot":
			items = append(items, Item{Kind: KSlot})
		case "hcb":
			// @hand { @body }: the callee is a hand-written component, the block is the generated closure
			body, err := Build(o.A, rs)
			if err != nil {
				return nil, err
			}
			hand := PassThrough()
			if o.N == 1 {
				hand = Collector(rs)
			}
			items = append(items, Item{Kind: KCallBlock, C: hand, Body: Interp(body)})
		case "call", "flush", "cb", "join":
			a, err := Build(o.A, rs)
			if err != nil {
				return nil, err
			}
			var b []Item
			if o.K == "cb" || o.K == "join" {
				if b, err = Build(o.B, rs); err != nil {
					return nil, err
				}
			}
			switch o.K {
			case "call":
				items = append(items, Item{Kind: KCall, C: Interp(a)})
			case "flush":
				items = append(items, Item{Kind: KFlush, Body: Interp(a)})
			case "cb":
				items = append(items, Item{Kind: KCallBlock, C: Interp(a), Body: Interp(b)})
			case "join":
				items = append(items, Item{Kind: KJoin, C: Interp(a), Body: Interp(b)})
			}
		default:
			return nil, fmt.Errorf("unknown op %q", o.K)
		}
	}
	return items, nil
}

// BuildStatic builds stateless items for components that are shared between goroutines (C14):
// nothing in them is written after construction. Ops "EF" / "leafF" always fail.
func BuildStatic(prog []Op) ([]Item, error) {
	items := make([]Item, 0, len(prog))
	for _, o := range prog {
		switch o.K {
		case "EF":
			items = append(items, Item{Kind: KExpr, Fn: func() (string, error) { return "", ErrExpr }})
		case "leafF":
			items = append(items, Item{Kind: KCall, C: templ.ComponentFunc(func(ctx context.Context, w io.Writer) error { return ErrComp })})
		case "E":
			text, ok := exprTexts[o.N]
			if !ok {
				return nil, fmt.Errorf("no expression text of %d bytes", o.N)
			}
			kind := KExpr
			if o.N >= 4 {
				kind = KExprML
			}
			items = append(items, Item{Kind: kind, Fn: func() (string, error) { return text, nil }})
		case "leaf":
			text := []byte(leafText[:o.N])
			items = append(items, Item{Kind: KCall, C: templ.ComponentFunc(func(ctx context.Context, w io.Writer) error {
				_, err := w.Write(text)
				return err
			})})
		case "L", "slot":
			one, err := Build([]Op{o}, nil)
			if err != nil {
				return nil, err
			}
			items = append(items, one...)
		case "call", "flush", "cb", "join":
			a, err := BuildStatic(o.A)
			if err != nil {
				return nil, err
			}
			b, err := BuildStatic(o.B)
			if err != nil {
				return nil, err
			}
			switch o.K {
			case "call":
				items = append(items, Item{Kind: KCall, C: Interp(a)})
			case "flush":
				items = append(items, Item{Kind: KFlush, Body: Interp(a)})
			case "cb":
				items = append(items, Item{Kind: KCallBlock, C: Interp(a), Body: Interp(b)})
			case "join":
				items = append(items, Item{Kind: KJoin, C: Interp(a), Body: Interp(b)})
			}
		default:
			return nil, fmt.Errorf("unknown op %q", o.K)
		}
	}
	return items, nil
}

// GeneratedFile is the path of the generated Go file of interp.templ (for the development-mode text file).
func GeneratedFile() string {
	_, file, _, _ := runtime.Caller(0)
	return filepath.Join(filepath.Dir(file), "interp_templ.go")
}

// PassThrough is a hand-written component that renders the block it was given into the writer it was given.
func PassThrough() templ.Component {
	return templ.ComponentFunc(func(ctx context.Context, w io.Writer) error {
		children := templ.GetChildren(ctx)
		ctx = templ.ClearChildren(ctx)
		return children.Render(ctx, w)
	})
}

// Collector is a hand-written component that renders the block it was given into a writer of its own
// (which fails as the plan's S says) and then forwards what that writer received.
func Collector(rs *RenderState) templ.Component {
	return templ.ComponentFunc(func(ctx context.Context, w io.Writer) error {
		children := templ.GetChildren(ctx)
		ctx = templ.ClearChildren(ctx)
		side := &FaultWriter{ID: -1, K: -1, M: "none", Err: ErrSide}
		if rs != nil && rs.Plan.S.M != "" && rs.Plan.S.M != "none" {
			side.K, side.M = rs.Plan.S.K, rs.Plan.S.M
		}
		err := children.Render(ctx, side.Writer(rs != nil && rs.SW))
		if rs != nil {
			rs.SideFired = rs.SideFired || side.Dead
			rs.SideCalls += side.Calls
		}
		if err != nil {
			return err
		}
		_, err = w.Write(side.Buf)
		return err
	})
}

// Classify maps an error returned by Render to the specification's error names.
func Classify(err error) string {
	switch {
	case err == nil:
		return "nil"
	case errors.Is(err, ErrExpr):
		return "expr"
	case errors.Is(err, ErrComp):
		return "comp"
	case errors.Is(err, ErrSide):
		return "sinj"
	case errors.Is(err, ErrInjected):
		return "inj"
	case errors.Is(err, io.ErrShortWrite):
		return "short"
	case errors.Is(err, context.Canceled):
		return "ctx"
	}
	return "other: " + err.Error()
}

//go:embed interp.templ
var templSource string

// OtherExprLines: the lines of all single-line expressions of interp.templ (text, attribute, script).
var OtherExprLines []int

// ExprLines returns, for the single-line and the multi-line expression of interp.templ, the
// first and last source line (1-based) of the Go expression.
func ExprLines() (single [2]int, multi [2]int, err error) {
	lines := strings.Split(templSource, "\n")
	for i, l := range lines {
		if strings.Contains(l, "{ it.F() }") && single[0] == 0 {
			single = [2]int{i + 1, i + 1}
		}
		if strings.Contains(l, "it.F()") {
			OtherExprLines = append(OtherExprLines, i+1)
		}
		if strings.Contains(l, "{ it.G(") {
			multi[0] = i + 1
			for j := i; j < len(lines); j++ {
				if strings.Contains(lines[j], ") }") {
					multi[1] = j + 1
					break
				}
			}
		}
	}
	if single[0] == 0 || multi[0] == 0 || multi[1] <= multi[0] {
		err = errors.New("expression markers not found in interp.templ")
	}
	return
}

// ---------------------------------------------------------------------------------------------
// the instrumented writer

// FaultWriter accepts bytes up to offset K and then fails in mode M (err: partial count + error,
// short: partial count + nil, zero: 0 + nil); after it has failed every call returns (0, error).
type FaultWriter struct {
	ID      int64
	K       int
	M       string // "none" = never fails
	Buf     []byte
	Dead    bool
	Flushes []int // len(Buf) at each http.Flusher.Flush
	Delay   func()
	Err     error // the error it fails with (ErrInjected if nil)
	Calls   int
}

func (w *FaultWriter) fail() error {
	if w.Err != nil {
		return w.Err
	}
	return ErrInjected
}

func (w *FaultWriter) accept(n int) (int, error) {
	if w.Delay != nil {
		w.Delay()
	}
	w.Calls++
	if w.Dead {
		return 0, w.fail()
	}
	if w.M == "none" || w.M == "" || len(w.Buf)+n <= w.K {
		return n, nil
	}
	room := w.K - len(w.Buf)
	w.Dead = true
	switch w.M {
	case "err":
		return room, w.fail()
	case "short":
		return room, nil
	default: // zero
		return 0, nil
	}
}

func (w *FaultWriter) Write(p []byte) (int, error) {
	n, err := w.accept(len(p))
	w.Buf = append(w.Buf, p[:n]...)
	return n, err
}

// Flush implements http.Flusher.
func (w *FaultWriter) Flush() { w.Flushes = append(w.Flushes, len(w.Buf)) }

// StringFaultWriter additionally implements io.StringWriter (bufio's WriteString shortcut).
type StringFaultWriter struct{ *FaultWriter }

func (w StringFaultWriter) WriteString(s string) (int, error) {
	n, err := w.accept(len(s))
	w.Buf = append(w.Buf, s[:n]...)
	return n, err
}

// Writer returns the io.Writer to render into.
func (w *FaultWriter) Writer(stringWriter bool) io.Writer {
	if stringWriter {
		return StringFaultWriter{w}
	}
	return w
}

// WriterID extracts the id of the FaultWriter behind a writer (0 if it is something else).
func WriterID(w io.Writer) int64 {
	switch x := w.(type) {
	case *FaultWriter:
		return x.ID
	case StringFaultWriter:
		return x.ID
	}
	return 0
}

// ---------------------------------------------------------------------------------------------
// pool hook recorder

// Event is one pool hook event. Seq is a global sequence number taken at the hook.
type Event struct {
	Seq   int64  `json:"seq"`
	Ev    string `json:"ev"` // begin end | existing acquire flush release | get put
	Pool  string `json:"pool"`
	Buf   int    `json:"buf"`
	G     int64  `json:"g"`     // goroutine id
	R     int64  `json:"r"`     // render id current on that goroutine (0 = none)
	W     int64  `json:"w"`     // id of the FaultWriter the buffer points at (runtime pool)
	Dirty bool   `json:"dirty"` // acquire: buffered bytes or sticky error after Reset; get/put: non-empty bytes.Buffer
	Own   bool   `json:"own"`   // existing: the buffer is the caller's own object, not one of the pool
	Err   string `json:"err"`   // flush: error class; end: error class
}

// Recorder collects hook events; installed with Install.
type Recorder struct {
	mu      sync.Mutex
	events  []Event
	bufIDs  map[any]int
	renders sync.Map // goroutine id -> render id
	seq     int64
	Perturb func() // called at every hook before the event is taken (C14: runtime.Gosched)
	On      bool
	FixedG  int64 // != 0: single-goroutine harness, skip the goroutine-id lookup
	own     sync.Map
}

func NewRecorder() *Recorder { return &Recorder{bufIDs: map[any]int{}, On: true} }

// Own registers a *runtime.Buffer that the harness made itself (a caller's own buffer, never pooled).
func (r *Recorder) Own(b any) { r.own.Store(b, true) }

// GoID returns the id of the calling goroutine (harness-side only; parsed from the stack header).
func GoID() int64 {
	var b [64]byte
	n := runtime.Stack(b[:], false)
	s := b[:n]
	s = bytes.TrimPrefix(s, []byte("goroutine "))
	if i := bytes.IndexByte(s, ' '); i > 0 {
		id, _ := strconv.ParseInt(string(s[:i]), 10, 64)
		return id
	}
	return 0
}

func (r *Recorder) add(e Event, key any) {
	if r.Perturb != nil {
		r.Perturb()
	}
	e.G = r.gid()
	if v, ok := r.renders.Load(e.G); ok {
		e.R = v.(int64)
	}
	r.mu.Lock()
	if key != nil {
		id, ok := r.bufIDs[key]
		if !ok {
			id = len(r.bufIDs) + 1
			r.bufIDs[key] = id
		}
		e.Buf = id
	}
	r.seq++
	e.Seq = r.seq
	if r.On {
		r.events = append(r.events, e)
	}
	r.mu.Unlock()
}

func (r *Recorder) gid() int64 {
	if r.FixedG != 0 {
		return r.FixedG
	}
	return GoID()
}

// Begin / End delimit one render on the calling goroutine.
func (r *Recorder) Begin(render int64) {
	r.renders.Store(r.gid(), render)
	r.add(Event{Ev: "begin"}, nil)
}

func (r *Recorder) End(errClass string) {
	r.add(Event{Ev: "end", Err: errClass}, nil)
	r.renders.Delete(r.gid())
}

// Take returns and clears the recorded events.
func (r *Recorder) Take() []Event {
	r.mu.Lock()
	ev := r.events
	r.events = nil
	r.mu.Unlock()
	return ev
}

var hooksFired int64

// HooksFired is the number of hook calls seen so far.
func HooksFired() int64 { return atomic.LoadInt64(&hooksFired) }

// Install sets the `verif` hooks of runtime and templ (symbols exist only with hooks/C10-pool.diff).
func (r *Recorder) Install() {
	templruntime.VerifPoolHook = func(ev string, b *templruntime.Buffer, err error) {
		atomic.AddInt64(&hooksFired, 1)
		e := Event{Ev: ev, Pool: "runtime", W: WriterID(b.Underlying)}
		if _, ok := r.own.Load(b); ok {
			e.Own = true
		}
		switch ev {
		case "acquire":
			n, sticky := templruntime.VerifBufferState(b)
			e.Dirty = n != 0 || sticky != nil
		case "flush":
			e.Err = Classify(err)
		}
		r.add(e, b)
	}
	templ.VerifBytesPoolHook = func(ev string, b *bytes.Buffer) {
		atomic.AddInt64(&hooksFired, 1)
		r.add(Event{Ev: ev, Pool: "bytes", Dirty: b.Len() != 0}, b)
	}
}
