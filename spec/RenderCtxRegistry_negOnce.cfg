\* C12 negative config on C: the once handle is recorded only after its content rendered (a use of the same handle inside its own content renders it again) -- TLC must reject it (AtMostOnce).
CONSTANTS
  Ctxs <- Ctx1
  Modes = {"plain", "mw", "fresh"}
  Scripts = {"s1"}
  Classes = {"k1"}
  BlockHandles = {"h1", "h2"}
  ZeroHandles = {"z1", "z2"}
  FixedHandles = {"g1"}
  RegSeq <- RegK1
  OnSeqs <- OnSeqsCore
  ClassExprs <- ClassExprsCore
  Repaired = {"KvCompName", "SliceKVRules"}
  Variant = "markAfterRender"
  NonceCtxs = {}
  MaxNonces = 0
  MaxSteps = 99
  EmitEdges = FALSE
INIT Init
NEXT Next
VIEW View
INVARIANTS TypeOK RegistryMatchesDocument
PROPERTIES AtMostOnce DefBeforeFirstUse EveryUseHasCallOrName MiddlewareNeverInlined StylesheetServesRegistered ContextsIndependent NonceKeepsRegistry
CHECK_DEADLOCK FALSE
