package main

// Go port of the specification's consumer (spec/JsLex.tla + spec/SinksJs.tla + SinksJsCases.tla:
// JsSDStep, JsAttrStep, JsStep, ConsumeSym, ConsumeAll, Judge, Verdict). It works on the spec's
// symbols, operator by operator. The port is itself bound to the spec: a seeded sample of its verdicts
// on real outputs is re-computed by TLC (TraceSinksJs.tla) and every disagreement is a machinery error.

import (
	"strconv"
	"strings"
)

const (
	symDQ  = "\""
	symBSL = "\\"
)

var hexDigits = map[string]bool{}
var alnum = map[string]bool{}

func init() {
	for _, c := range "0123456789abcdef" {
		hexDigits[string(c)] = true
	}
	for _, c := range "abcdefgilmnopqrstuvxzACIPRSTZ0123456789" {
		alnum[string(c)] = true
	}
}

func jsLower(c string) string {
	switch c {
	case "A", "C", "I", "P", "R", "S", "T", "Z":
		return strings.ToLower(c)
	}
	return c
}
func jsIsHex(c string) bool { return hexDigits[jsLower(c)] }

// ---- HTML script data --------------------------------------------------------------------------

var sdEndTag = []string{"<", "/", "s", "c", "r", "i", "p", "t"}
var sdComment = []string{"<", "!", "-", "-"}

func isPrefix(p, w []string) bool {
	if len(p) > len(w) {
		return false
	}
	for i := range p {
		if p[i] != w[i] {
			return false
		}
	}
	return true
}
func eqSeq(a, b []string) bool { return len(a) == len(b) && isPrefix(a, b) }

func isEnd(q []string) bool { return len(q) == 1 && q[0] == "END" }
func isEsc(q []string) bool { return len(q) == 1 && q[0] == "ESC" }

func sdStep(q []string, c string) []string {
	if isEnd(q) || isEsc(q) {
		return q
	}
	n := append(append([]string{}, q...), jsLower(c))
	switch {
	case eqSeq(n, sdEndTag):
		return []string{"END"}
	case eqSeq(n, sdComment):
		return []string{"ESC"}
	case isPrefix(n, sdEndTag) || isPrefix(n, sdComment):
		return n
	case c == "<":
		return []string{"<"}
	}
	return nil
}

// ---- double-quoted attribute value ------------------------------------------------------------

var attrNamed = map[string]string{
	"amp": "&", "lt": "<", "gt": ">", "quot": symDQ, "apos": "'",
	"#34": symDQ, "#39": "'", "#38": "&", "#60": "<", "#62": ">", "#92": symBSL, "#96": "`", "#36": "$",
}
var attrLegacy = map[string]bool{"amp": true, "lt": true, "gt": true, "quot": true}

const attrMaxRef = 5

func attrStep(q []string, c string) (nq []string, out []string) {
	if isEnd(q) {
		return q, nil
	}
	if len(q) == 0 {
		switch c {
		case symDQ:
			return []string{"END"}, nil
		case "&":
			return []string{"&"}, nil
		}
		return nil, []string{c}
	}
	name := q[1:]
	key := strings.Join(name, "")
	if c == ";" {
		if v, ok := attrNamed[key]; ok {
			return nil, []string{v}
		}
		return nil, append(append([]string{}, q...), c)
	}
	if (alnum[c] || (c == "#" && len(name) == 0)) && len(name) < attrMaxRef {
		return append(append([]string{}, q...), c), nil
	}
	var flushed []string
	_, named := attrNamed[key]
	switch {
	case attrLegacy[key] && c != "=" && !alnum[c]:
		flushed = []string{attrNamed[key]}
	case len(name) > 1 && name[0] == "#" && named && !alnum[c]:
		flushed = []string{attrNamed[key]}
	default:
		flushed = append([]string{}, q...)
	}
	rq, rout := attrStep(nil, c)
	return rq, append(flushed, rout...)
}

// ---- ECMAScript literal lexing -------------------------------------------------------------------

type jsState struct {
	m, lit string
	acc    []string
}

var jsTop = jsState{m: "top", lit: "-"}

func jsLit(k string) jsState  { return jsState{m: k, lit: k} }
func jsErr(e string) jsState  { return jsState{m: e, lit: "-"} }
func (j jsState) isErr() bool { return j.m == "INTERP" || j.m == "UNTERM" || j.m == "BADESC" }
func jsQuoteOf(k string) string {
	switch k {
	case "sq":
		return "'"
	case "dq":
		return symDQ
	case "tpl":
		return "`"
	}
	return "-"
}

// jsDecodeHex = JsLex!JsDecodeHex: the symbol of the code point written in hex.
func jsDecodeHex(acc []string) string {
	n, err := strconv.ParseUint(strings.Join(acc, ""), 16, 32)
	if err != nil || n > 0x10ffff || (n >= 0xd800 && n <= 0xdfff) {
		return "NA"
	}
	return symOf(rune(n))
}

var jsSimpleEsc = map[string]string{"n": "LF", "t": "TAB", "r": "CR", "b": "BS", "f": "FF", "v": "VT", "0": "NUL"}

func jsStep(j jsState, c string) (jsState, []string) {
	if j.isErr() {
		return j, nil
	}
	switch j.m {
	case "top":
		switch c {
		case "'":
			return jsLit("sq"), nil
		case symDQ:
			return jsLit("dq"), nil
		case "`":
			return jsLit("tpl"), nil
		}
		return jsTop, nil
	case "sq", "dq":
		switch {
		case c == jsQuoteOf(j.m):
			return jsTop, nil
		case c == symBSL:
			return jsState{m: "esc", lit: j.lit}, nil
		case c == "LF" || c == "CR":
			return jsErr("UNTERM"), nil
		}
		return j, []string{c}
	case "tpl":
		switch c {
		case "`":
			return jsTop, nil
		case symBSL:
			return jsState{m: "esc", lit: "tpl"}, nil
		case "$":
			return jsState{m: "tpl$", lit: "tpl"}, []string{"$"}
		case "CR":
			return j, []string{"LF"}
		}
		return j, []string{c}
	case "tpl$":
		if c == "{" {
			return jsErr("INTERP"), nil
		}
		return jsStep(jsLit("tpl"), c)
	case "esc":
		switch {
		case c == "u":
			return jsState{m: "u", lit: j.lit}, nil
		case c == "x":
			return jsState{m: "x", lit: j.lit}, nil
		}
		if v, ok := jsSimpleEsc[c]; ok {
			return jsLit(j.lit), []string{v}
		}
		if len(c) == 1 && c[0] >= '1' && c[0] <= '9' {
			if j.lit == "tpl" {
				return jsErr("BADESC"), nil
			}
			if c == "8" || c == "9" {
				return jsLit(j.lit), []string{c}
			}
			return jsLit(j.lit), []string{"C0"}
		}
		if c == "LF" || c == "CR" || c == "LS" || c == "PS" {
			return jsLit(j.lit), nil
		}
		return jsLit(j.lit), []string{c}
	case "u":
		if c == "{" && len(j.acc) == 0 {
			return jsState{m: "uext", lit: j.lit}, nil
		}
		if jsIsHex(c) {
			a := append(append([]string{}, j.acc...), jsLower(c))
			if len(a) == 4 {
				return jsLit(j.lit), []string{jsDecodeHex(a)}
			}
			return jsState{m: "u", lit: j.lit, acc: a}, nil
		}
		return jsErr("BADESC"), nil
	case "x":
		if jsIsHex(c) {
			a := append(append([]string{}, j.acc...), jsLower(c))
			if len(a) == 2 {
				return jsLit(j.lit), []string{jsDecodeHex(a)}
			}
			return jsState{m: "x", lit: j.lit, acc: a}, nil
		}
		return jsErr("BADESC"), nil
	default: // uext
		if jsIsHex(c) && len(j.acc) < 6 {
			return jsState{m: "uext", lit: j.lit, acc: append(append([]string{}, j.acc...), jsLower(c))}, nil
		}
		if c == "}" && len(j.acc) > 0 {
			return jsLit(j.lit), []string{jsDecodeHex(j.acc)}
		}
		return jsErr("BADESC"), nil
	}
}

func jsNorm(c string) string {
	if c == "BAD" {
		return "FFFD"
	}
	return c
}
func normSeq(s []string) []string {
	o := make([]string, len(s))
	for i, c := range s {
		o[i] = jsNorm(c)
	}
	return o
}

// ---- positions (SinksJs.tla PosDef) and whole-value judgement (SinksJsCases.tla Judge) ---------------

type posDef struct {
	stages []string
	html   string
	mode   string
	wrap   bool
	expect string
}

func posDefOf(p string) posDef {
	switch p {
	case "Bare", "Inline", "JsonBody":
		return posDef{[]string{"json"}, "sd", "top", true, "input"}
	case "InSQ":
		return posDef{[]string{"jsstr"}, "sd", "sq", false, "input"}
	case "InDQ":
		return posDef{[]string{"jsstr"}, "sd", "dq", false, "input"}
	case "InTpl":
		return posDef{[]string{"jsstr"}, "sd", "tpl", false, "input"}
	case "InSQj":
		return posDef{[]string{"json", "jsstr"}, "sd", "sq", true, "json"}
	case "InDQj":
		return posDef{[]string{"json", "jsstr"}, "sd", "dq", true, "json"}
	case "InTplj":
		return posDef{[]string{"json", "jsstr"}, "sd", "tpl", true, "json"}
	case "OnAttr":
		return posDef{[]string{"json", "html"}, "attr", "top", true, "input"}
	}
	panic("unknown position " + p)
}

type consState struct {
	h  []string
	cr bool
	j  jsState
}

func consumeSym(d posDef, c0 consState, s string) (consState, []string, []string) {
	if s == "LF" && c0.cr {
		c0.cr = false
		return c0, nil, nil
	}
	c := s
	if s == "CR" {
		c = "LF"
	} else if s == "NUL" {
		c = "FFFD"
	}
	crn := s == "CR"
	if d.html == "sd" {
		h2 := sdStep(c0.h, c)
		j, dd := c0.j, []string(nil)
		var seen []string
		if !isEnd(c0.h) {
			j, dd = jsStep(c0.j, c)
			seen = []string{c}
		}
		return consState{h: h2, cr: crn, j: j}, dd, seen
	}
	q, out := attrStep(c0.h, c)
	j := c0.j
	var dd []string
	for _, o := range out {
		var d1 []string
		j, d1 = jsStep(j, o)
		dd = append(dd, d1...)
	}
	return consState{h: q, cr: crn, j: j}, dd, out
}

// judge = SinksJsCases!Judge: consume a complete dynamic output followed by the author's closing quote.
func judge(p string, raw, jt []string, isString bool, out []string) (viol string, dec []string) {
	d := posDefOf(p)
	c := consState{j: jsTop}
	if d.mode != "top" {
		c.j = jsLit(d.mode)
	}
	all := out
	if d.mode != "top" {
		all = append(append([]string{}, out...), jsQuoteOf(d.mode))
	}
	var seen []string // what the JS engine receives
	left := false     // the lexer left the author's literal before the author's closing quote
	for i, s := range all {
		var dd, tt []string
		c, dd, tt = consumeSym(d, c, s)
		dec = append(dec, dd...)
		seen = append(seen, tt...)
		if d.mode != "top" && i < len(out) && c.j.m == "top" {
			left = true
		}
	}
	dec = normSeq(dec)
	useRaw := isString && len(d.stages) == 1 && d.stages[0] == "jsstr"
	var exp []string
	switch {
	case useRaw:
		exp = normSeq(raw)
	case d.expect == "json":
		exp = normSeq(jt)
	case isString:
		exp = normSeq(raw)
	}
	ok := true
	if isString || d.expect == "json" {
		ok = eqSeq(dec, exp)
		if isString && d.mode == "top" {
			// a string in a code position: what the engine receives is one double-quoted literal
			ok = ok && len(seen) >= 2 && seen[0] == symDQ && seen[len(seen)-1] == symDQ
		}
	} else {
		// a non-string value in a code position: the JS engine must receive exactly the JSON text of the value
		ok = eqSeq(normSeq(seen), normSeq(jt))
	}
	switch {
	case isEnd(c.h):
		return "StaysInScript", dec
	case isEsc(c.h):
		return "NoHtmlComment", dec
	case c.j.m == "INTERP":
		return "NoInterpolation", dec
	case c.j.m != "top" || left:
		return "StaysInLiteral", dec
	case !ok:
		return "DecodesToInput", dec
	}
	return "", dec
}

func posFor(p0 string, isString bool) string {
	if !isString && (p0 == "InSQ" || p0 == "InDQ" || p0 == "InTpl") {
		return p0 + "j"
	}
	return p0
}

// judgeUnenc = SinksJsCases!PredictUnenc's verdict: a value without JSON encoding claims nothing about what arrives,
// but its output must not end the script element / attribute, open a comment or leave a literal open.
func judgeUnenc(p string, out []string) string {
	d := posDefOf(p)
	c := consState{j: jsTop}
	for _, s := range out {
		c, _, _ = consumeSym(d, c, s)
	}
	switch {
	case isEnd(c.h):
		return "StaysInScript"
	case isEsc(c.h):
		return "NoHtmlComment"
	case c.j.m == "INTERP":
		return "NoInterpolation"
	case c.j.m != "top":
		return "StaysInLiteral"
	}
	return ""
}
