\* C07 negative config: no entry past the end of a line must violate EndOfLineMapped.
CONSTANTS
  MaxLines = 2
  MaxRunes = 2
  Widths = {1, 2, 3, 4}
  Pres <- PresSome
  Offsets = {0, 1}
  ColMode = "bytes"
  EolEntry = FALSE
  SymLineMap = "keep"
INIT Init
NEXT Next
INVARIANTS TypeOK WriterIsAdvance SameByte EndOfLineMapped
CHECK_DEADLOCK FALSE
