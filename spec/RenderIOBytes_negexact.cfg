\* C10 bytes.Buffer pool, negative configs checked against Exact alone: the later render's result is altered.
CONSTANTS
  Entries = {"gohtml", "handler"}
  Kinds = {"func"}
  DocLens = {2}
  Runs = 2
  PoolAny = TRUE
  Bug = "gohtml_err_put_noreset"
  Emit = FALSE
INIT Init
NEXT Next
VIEW View
INVARIANTS TypeOK Exact
CHECK_DEADLOCK FALSE
