------------------------------ MODULE HtmlTok ------------------------------
(* The WHATWG HTML tokenizer (https://html.spec.whatwg.org/multipage/parsing.html#tokenization) as a
   PURE, character-at-a-time step function over the symbols of Chars.tla.  Shared by C01/C03/C04/C05.

   INTERFACE (stable: extend, never rename)
     InitTok                  tokenizer state at the start of a document (Data state)
     TokIn(s)                 InitTok switched to state s ("Rcdata", "ScriptData", ... for fragments)
     Step(q, c)               one input symbol: [q |-> next state, out |-> <<events>>]
     Run(q, cs)               fold Step over a sequence of symbols: [q |-> ..., out |-> <<all events>>]
     PreStep(p, c)            the input-stream preprocessing in front of the tokenizer, also a pure
                              step: p is TRUE iff the previous input symbol was CR;
                              [p |-> ..., out |-> <<symbols handed to Step>>]
                              (CR -> LF, CRLF -> LF; an undecodable byte -> U+FFFD, which is what the
                              byte-stream decoder in front of a real tokenizer does)
     RunPre(q, p, cs)         PreStep + Step over a sequence: [q |-> , p |-> , out |-> ]
     Ev(k, c)                 an event [k |-> kind, c |-> symbol or flag]; kinds:
        "ch" character token (c = the DECODED character)          text in Data/RCDATA/RAWTEXT/script/PLAINTEXT
        "so" start tag opened   "eo" end tag opened   (c = -1)    then "tn" tag-name characters (lower-cased)
        "ao" attribute started (c = -1)   "an" attribute-name character (lower-cased)
        "av" attribute-value character (DECODED)
        "te" tag token emitted (c = 1 if self-closing else 0)
        "co" comment opened  "cc" comment character  "ce" comment emitted
        "do" DOCTYPE opened  "dc" DOCTYPE character (raw)  "de" DOCTYPE emitted
     State classification (q.s is a string, the WHATWG state name without "state"):
        TextStates            Data Rcdata Rawtext ScriptData Plaintext and the script-data escaped families
        InCharRef(q)          a character reference is pending (q.ret is where it returns)
        AttrValueStates       AttrValDQ AttrValSQ AttrValUQ
        ContentState(name)    the state a start tag with that name switches the tokenizer to (what the
                              tree builder does for HTML-namespace elements: textarea/title -> Rcdata;
                              style xmp iframe noembed noframes noscript -> Rawtext; script -> ScriptData;
                              plaintext -> Plaintext; everything else Data)
     Words: tagTextarea tagTitle tagStyle tagScript tagXmp ... (sequences of symbols)

   State record:  s    state name
                  ret  return state while in a character reference
                  buf  temporary buffer (character reference characters after '&', end-tag-name
                       candidates in RCDATA/RAWTEXT/script data, "script" matcher, markup declaration)
                  name current tag name (lower-cased; capped at NameCap: a longer name becomes LongName)
                  last name of the last start tag if it switched the content model (for "appropriate
                       end tag"), else <<>>
                  endt TRUE iff the current tag token is an end tag
                  num  numeric character reference accumulator (saturates at 1114112)
                  m    length of the longest named reference matched so far inside buf

   Deliberate, outcome-preserving deviations from the standard's text (kept so that the closed
   automata stay finite):
     * an end-tag-name candidate in RCDATA/RAWTEXT/script data that is already longer than the
       last start tag's name is flushed early ("</" + buffer as characters); the standard keeps
       buffering ASCII letters and flushes the same characters at the first non-letter;
     * the "ambiguous ampersand state" is folded into its return state (it differs only in a parse
       error);  parse errors are not events;  duplicate attributes are not dropped (the consumer
       sees every attribute);  DOCTYPE internals are one run of "dc" characters up to '>';
     * CDATA sections exist only in foreign content; "<![CDATA[" is a bogus comment here;
     * EOF is not a symbol (consumers check the state at the end of input with AtRest).            *)
EXTENDS Chars, HtmlEntities

Ev(k, c) == [k |-> k, c |-> c]
R(q, out) == [q |-> q, out |-> out]

InitTok == [s |-> "Data", ret |-> "", buf |-> <<>>, name |-> <<>>, last |-> <<>>, endt |-> FALSE,
            num |-> 0, m |-> 0]
TokIn(s) == [InitTok EXCEPT !.s = s]

NameCap  == 12
LongName == <<-1>>
AppendName(n, c) == IF n = LongName THEN n ELSE IF Len(n) >= NameCap THEN LongName ELSE Append(n, c)

tagTextarea  == W(<<"t","e","x","t","a","r","e","a">>)
tagTitle     == W(<<"t","i","t","l","e">>)
tagStyle     == W(<<"s","t","y","l","e">>)
tagScript    == W(<<"s","c","r","i","p","t">>)
tagXmp       == W(<<"x","m","p">>)
tagIframe    == W(<<"i","f","r","a","m","e">>)
tagNoembed   == W(<<"n","o","e","m","b","e","d">>)
tagNoframes  == W(<<"n","o","f","r","a","m","e","s">>)
tagNoscript  == W(<<"n","o","s","c","r","i","p","t">>)
tagPlaintext == W(<<"p","l","a","i","n","t","e","x","t">>)
wDoctype     == W(<<"d","o","c","t","y","p","e">>)
wCdata       == <<cLBRK, 67, 68, 65, 84, 65, cLBRK>>      \* [CDATA[

RcdataTags  == {tagTextarea, tagTitle}
RawtextTags == {tagStyle, tagXmp, tagIframe, tagNoembed, tagNoframes, tagNoscript}
ContentState(name) ==
    IF name \in RcdataTags THEN "Rcdata"
    ELSE IF name \in RawtextTags THEN "Rawtext"
    ELSE IF name = tagScript THEN "ScriptData"
    ELSE IF name = tagPlaintext THEN "Plaintext"
    ELSE "Data"

AttrValueStates == {"AttrValDQ", "AttrValSQ", "AttrValUQ"}
CharRefStates   == {"CharRef", "NamedRef", "NumRefStart", "HexRefStart", "HexRef", "DecRef"}
ScriptEscStates == {"ScriptDataEscaped", "ScriptDataEscapedDash", "ScriptDataEscapedDashDash",
                    "ScriptDataDoubleEscaped", "ScriptDataDoubleEscapedDash", "ScriptDataDoubleEscapedDashDash"}
TextStates      == {"Data", "Rcdata", "Rawtext", "ScriptData", "Plaintext"} \cup ScriptEscStates
InCharRef(q)    == q.s \in CharRefStates
AtRest(q)       == q.s = "Data"

\* a character flushed or decoded by a character reference goes to the attribute value or to the text
RefEv(q, c) == Ev(IF q.ret \in AttrValueStates THEN "av" ELSE "ch", c)
RefEvs(q, cs) == [i \in 1..Len(cs) |-> RefEv(q, cs[i])]
ChEvs(cs) == [i \in 1..Len(cs) |-> Ev("ch", cs[i])]
CcEvs(cs) == [i \in 1..Len(cs) |-> Ev("cc", cs[i])]
TnEvs(cs) == [i \in 1..Len(cs) |-> Ev("tn", cs[i])]

Clean(q, s) == [q EXCEPT !.s = s, !.ret = "", !.buf = <<>>, !.name = <<>>, !.endt = FALSE, !.num = 0, !.m = 0]

\* "emit the current tag token" at '>' : the content model switch the tree builder performs is part of it
EmitTag(q, sc) ==
    IF q.endt THEN R([Clean(q, "Data") EXCEPT !.last = <<>>], <<Ev("te", sc)>>)
    ELSE LET cs == ContentState(q.name) IN
         R([Clean(q, cs) EXCEPT !.last = IF cs = "Data" THEN <<>> ELSE q.name], <<Ev("te", sc)>>)

\* numeric character reference end state: code -> character
Win1252 == <<8364, 129, 8218, 402, 8222, 8230, 8224, 8225, 710, 8240, 352, 8249, 338, 141, 381, 143,
             144, 8216, 8217, 8220, 8221, 8226, 8211, 8212, 732, 8482, 353, 8250, 339, 157, 382, 376>>
NumRefCp(n) == IF n = 0 \/ n > 1114111 \/ n \in 55296..57343 THEN 65533
               ELSE IF n \in 128..159 THEN Win1252[n - 127]
               ELSE n
NumSat(n) == IF n > 1114111 THEN 1114112 ELSE n

RECURSIVE Step(_, _)
\* reconsume c in state s after having emitted pre
Re(q, s, c, pre) == LET r == Step([q EXCEPT !.s = s], c) IN R(r.q, pre \o r.out)
\* leave a character reference: back to the return state with clean scratch fields
Back(q) == [q EXCEPT !.s = q.ret, !.ret = "", !.buf = <<>>, !.num = 0, !.m = 0]
ReBack(q, c, pre) == LET r == Step(Back(q), c) IN R(r.q, pre \o r.out)

-----------------------------------------------------------------------------
(* text states *)
SData(q, c) ==
    IF c = cAMP THEN R([q EXCEPT !.s = "CharRef", !.ret = "Data", !.buf = <<>>], <<>>)
    ELSE IF c = cLT THEN R([q EXCEPT !.s = "TagOpen"], <<>>)
    ELSE R(q, <<Ev("ch", c)>>)                     \* NUL: parse error, emitted as is
SRcdata(q, c) ==
    IF c = cAMP THEN R([q EXCEPT !.s = "CharRef", !.ret = "Rcdata", !.buf = <<>>], <<>>)
    ELSE IF c = cLT THEN R([q EXCEPT !.s = "RcdataLT"], <<>>)
    ELSE R(q, <<Ev("ch", IF c = cNUL THEN kFFFD ELSE c)>>)
SRawtext(q, c) ==
    IF c = cLT THEN R([q EXCEPT !.s = "RawtextLT"], <<>>)
    ELSE R(q, <<Ev("ch", IF c = cNUL THEN kFFFD ELSE c)>>)
SScriptData(q, c) ==
    IF c = cLT THEN R([q EXCEPT !.s = "ScriptDataLT"], <<>>)
    ELSE R(q, <<Ev("ch", IF c = cNUL THEN kFFFD ELSE c)>>)
SPlaintext(q, c) == R(q, <<Ev("ch", IF c = cNUL THEN kFFFD ELSE c)>>)

(* tags *)
STagOpen(q, c) ==
    IF c = cBANG THEN R([q EXCEPT !.s = "MarkupDeclOpen", !.buf = <<>>], <<>>)
    ELSE IF c = cSLASH THEN R([q EXCEPT !.s = "EndTagOpen"], <<>>)
    ELSE IF IsAlpha(c) THEN Re([q EXCEPT !.name = <<>>, !.endt = FALSE], "TagName", c, <<Ev("so", -1)>>)
    ELSE IF c = cQMARK THEN Re(q, "BogusComment", c, <<Ev("co", -1)>>)
    ELSE Re(q, "Data", c, <<Ev("ch", cLT)>>)
SEndTagOpen(q, c) ==
    IF IsAlpha(c) THEN Re([q EXCEPT !.name = <<>>, !.endt = TRUE], "TagName", c, <<Ev("eo", -1)>>)
    ELSE IF c = cGT THEN R([q EXCEPT !.s = "Data"], <<>>)
    ELSE Re(q, "BogusComment", c, <<Ev("co", -1)>>)
STagName(q, c) ==
    IF IsHtmlSpace(c) THEN R([q EXCEPT !.s = "BeforeAttrName"], <<>>)
    ELSE IF c = cSLASH THEN R([q EXCEPT !.s = "SelfClosingStartTag"], <<>>)
    ELSE IF c = cGT THEN EmitTag(q, 0)
    ELSE LET d == IF c = cNUL THEN kFFFD ELSE Lower(c) IN
         R([q EXCEPT !.name = AppendName(q.name, d)], <<Ev("tn", d)>>)

(* RCDATA / RAWTEXT / script data end tags: X in {"Rcdata","Rawtext","ScriptData","ScriptDataEscaped"} *)
SLT(q, c, X) ==
    IF c = cSLASH THEN R([q EXCEPT !.s = X \o "EndTagOpen", !.buf = <<>>], <<>>)
    ELSE Re(q, X, c, <<Ev("ch", cLT)>>)
SEndTagOpenX(q, c, X) ==
    IF IsAlpha(c) THEN Re([q EXCEPT !.name = <<>>, !.buf = <<>>], X \o "EndTagName", c, <<>>)
    ELSE Re(q, X, c, <<Ev("ch", cLT), Ev("ch", cSLASH)>>)
SEndTagNameX(q, c, X) ==
    LET appropriate == q.name = q.last /\ q.last # <<>>
        opened == [q EXCEPT !.endt = TRUE, !.buf = <<>>]
        openEv == <<Ev("eo", -1)>> \o TnEvs(q.name)
        giveUp == Re([q EXCEPT !.buf = <<>>, !.name = <<>>], X, c, <<Ev("ch", cLT), Ev("ch", cSLASH)>> \o ChEvs(q.buf))
    IN  IF IsHtmlSpace(c) /\ appropriate THEN R([opened EXCEPT !.s = "BeforeAttrName"], openEv)
        ELSE IF c = cSLASH /\ appropriate THEN R([opened EXCEPT !.s = "SelfClosingStartTag"], openEv)
        ELSE IF c = cGT /\ appropriate THEN LET r == EmitTag(opened, 0) IN R(r.q, openEv \o r.out)
        ELSE IF IsAlpha(c) /\ Len(q.buf) < Len(q.last)
             THEN R([q EXCEPT !.name = Append(q.name, Lower(c)), !.buf = Append(q.buf, c)], <<>>)
        ELSE giveUp

(* script data escaped families *)
SScriptDataLT(q, c) ==
    IF c = cSLASH THEN R([q EXCEPT !.s = "ScriptDataEndTagOpen", !.buf = <<>>], <<>>)
    ELSE IF c = cBANG THEN R([q EXCEPT !.s = "ScriptDataEscapeStart"], <<Ev("ch", cLT), Ev("ch", cBANG)>>)
    ELSE Re(q, "ScriptData", c, <<Ev("ch", cLT)>>)
SScriptDataEscapeStart(q, c) ==
    IF c = cDASH THEN R([q EXCEPT !.s = "ScriptDataEscapeStartDash"], <<Ev("ch", cDASH)>>)
    ELSE Re(q, "ScriptData", c, <<>>)
SScriptDataEscapeStartDash(q, c) ==
    IF c = cDASH THEN R([q EXCEPT !.s = "ScriptDataEscapedDashDash"], <<Ev("ch", cDASH)>>)
    ELSE Re(q, "ScriptData", c, <<>>)
\* P = "ScriptDataEscaped" or "ScriptDataDoubleEscaped"; n = number of dashes seen (0,1,2)
SScriptEsc(q, c, P, n) ==
    LET dbl == P = "ScriptDataDoubleEscaped" IN
    IF c = cDASH THEN R([q EXCEPT !.s = IF n = 0 THEN P \o "Dash" ELSE P \o "DashDash"], <<Ev("ch", cDASH)>>)
    ELSE IF c = cLT THEN R([q EXCEPT !.s = P \o "LT"], IF dbl THEN <<Ev("ch", cLT)>> ELSE <<>>)
    ELSE IF c = cGT /\ n = 2 THEN R([q EXCEPT !.s = "ScriptData"], <<Ev("ch", cGT)>>)
    ELSE R([q EXCEPT !.s = P], <<Ev("ch", IF c = cNUL THEN kFFFD ELSE c)>>)
SScriptDataEscapedLT(q, c) ==
    IF c = cSLASH THEN R([q EXCEPT !.s = "ScriptDataEscapedEndTagOpen", !.buf = <<>>], <<>>)
    ELSE IF IsAlpha(c) THEN Re([q EXCEPT !.buf = <<>>], "ScriptDataDoubleEscapeStart", c, <<Ev("ch", cLT)>>)
    ELSE Re(q, "ScriptDataEscaped", c, <<Ev("ch", cLT)>>)
\* shared by double escape start (to = DoubleEscaped, else = Escaped) and double escape end (the reverse)
SScriptDoubleEsc(q, c, match, other) ==
    IF IsHtmlSpace(c) \/ c = cSLASH \/ c = cGT
    THEN R([q EXCEPT !.s = IF q.buf = tagScript THEN match ELSE other, !.buf = <<>>], <<Ev("ch", c)>>)
    ELSE IF IsAlpha(c)
    THEN R([q EXCEPT !.buf = IF Len(q.buf) > 6 THEN q.buf ELSE Append(q.buf, Lower(c))], <<Ev("ch", c)>>)
    ELSE Re([q EXCEPT !.buf = <<>>], other, c, <<>>)
SScriptDataDoubleEscapedLT(q, c) ==
    IF c = cSLASH THEN R([q EXCEPT !.s = "ScriptDataDoubleEscapeEnd", !.buf = <<>>], <<Ev("ch", cSLASH)>>)
    ELSE Re(q, "ScriptDataDoubleEscaped", c, <<>>)

(* attributes *)
SBeforeAttrName(q, c) ==
    IF IsHtmlSpace(c) THEN R(q, <<>>)
    ELSE IF c = cSLASH \/ c = cGT THEN Re(q, "AfterAttrName", c, <<>>)
    ELSE IF c = cEQ THEN R([q EXCEPT !.s = "AttrName"], <<Ev("ao", -1), Ev("an", cEQ)>>)
    ELSE Re(q, "AttrName", c, <<Ev("ao", -1)>>)
SAttrName(q, c) ==
    IF IsHtmlSpace(c) \/ c = cSLASH \/ c = cGT THEN Re(q, "AfterAttrName", c, <<>>)
    ELSE IF c = cEQ THEN R([q EXCEPT !.s = "BeforeAttrValue"], <<>>)
    ELSE R(q, <<Ev("an", IF c = cNUL THEN kFFFD ELSE Lower(c))>>)
SAfterAttrName(q, c) ==
    IF IsHtmlSpace(c) THEN R(q, <<>>)
    ELSE IF c = cSLASH THEN R([q EXCEPT !.s = "SelfClosingStartTag"], <<>>)
    ELSE IF c = cEQ THEN R([q EXCEPT !.s = "BeforeAttrValue"], <<>>)
    ELSE IF c = cGT THEN EmitTag(q, 0)
    ELSE Re(q, "AttrName", c, <<Ev("ao", -1)>>)
SBeforeAttrValue(q, c) ==
    IF IsHtmlSpace(c) THEN R(q, <<>>)
    ELSE IF c = cDQ THEN R([q EXCEPT !.s = "AttrValDQ"], <<>>)
    ELSE IF c = cSQ THEN R([q EXCEPT !.s = "AttrValSQ"], <<>>)
    ELSE IF c = cGT THEN EmitTag(q, 0)
    ELSE Re(q, "AttrValUQ", c, <<>>)
SAttrValQ(q, c, quote, me) ==
    IF c = quote THEN R([q EXCEPT !.s = "AfterAttrValQ"], <<>>)
    ELSE IF c = cAMP THEN R([q EXCEPT !.s = "CharRef", !.ret = me, !.buf = <<>>], <<>>)
    ELSE R(q, <<Ev("av", IF c = cNUL THEN kFFFD ELSE c)>>)
SAttrValUQ(q, c) ==
    IF IsHtmlSpace(c) THEN R([q EXCEPT !.s = "BeforeAttrName"], <<>>)
    ELSE IF c = cAMP THEN R([q EXCEPT !.s = "CharRef", !.ret = "AttrValUQ", !.buf = <<>>], <<>>)
    ELSE IF c = cGT THEN EmitTag(q, 0)
    ELSE R(q, <<Ev("av", IF c = cNUL THEN kFFFD ELSE c)>>)
SAfterAttrValQ(q, c) ==
    IF IsHtmlSpace(c) THEN R([q EXCEPT !.s = "BeforeAttrName"], <<>>)
    ELSE IF c = cSLASH THEN R([q EXCEPT !.s = "SelfClosingStartTag"], <<>>)
    ELSE IF c = cGT THEN EmitTag(q, 0)
    ELSE Re(q, "BeforeAttrName", c, <<>>)
SSelfClosingStartTag(q, c) ==
    IF c = cGT THEN EmitTag(q, 1)
    ELSE Re(q, "BeforeAttrName", c, <<>>)

(* comments, markup declarations *)
CommentDone(q) == R(Clean(q, "Data"), <<Ev("ce", -1)>>)
SBogusComment(q, c) ==
    IF c = cGT THEN CommentDone(q)
    ELSE R(q, <<Ev("cc", IF c = cNUL THEN kFFFD ELSE c)>>)
IsPrefixOf(a, b) == Len(a) <= Len(b) /\ \A i \in 1..Len(a) : a[i] = b[i]
LowerSeq(a) == [i \in 1..Len(a) |-> Lower(a[i])]
SMarkupDeclOpen(q, c) ==
    LET nb == Append(q.buf, c) IN
    IF nb = <<cDASH, cDASH>> THEN R([q EXCEPT !.s = "CommentStart", !.buf = <<>>], <<Ev("co", -1)>>)
    ELSE IF LowerSeq(nb) = wDoctype THEN R([q EXCEPT !.s = "Doctype", !.buf = <<>>], <<Ev("do", -1)>>)
    ELSE IF nb = wCdata THEN R([q EXCEPT !.s = "BogusComment", !.buf = <<>>], <<Ev("co", -1)>> \o CcEvs(nb))
    ELSE IF IsPrefixOf(nb, <<cDASH, cDASH>>) \/ IsPrefixOf(LowerSeq(nb), wDoctype) \/ IsPrefixOf(nb, wCdata)
         THEN R([q EXCEPT !.buf = nb], <<>>)
    ELSE Re([q EXCEPT !.buf = <<>>], "BogusComment", c, <<Ev("co", -1)>> \o CcEvs(q.buf))
SDoctype(q, c) ==
    IF c = cGT THEN R(Clean(q, "Data"), <<Ev("de", -1)>>)
    ELSE R(q, <<Ev("dc", c)>>)
SCommentStart(q, c) ==
    IF c = cDASH THEN R([q EXCEPT !.s = "CommentStartDash"], <<>>)
    ELSE IF c = cGT THEN CommentDone(q)
    ELSE Re(q, "Comment", c, <<>>)
SCommentStartDash(q, c) ==
    IF c = cDASH THEN R([q EXCEPT !.s = "CommentEnd"], <<>>)
    ELSE IF c = cGT THEN CommentDone(q)
    ELSE Re(q, "Comment", c, <<Ev("cc", cDASH)>>)
SComment(q, c) ==
    IF c = cLT THEN R([q EXCEPT !.s = "CommentLT"], <<Ev("cc", cLT)>>)
    ELSE IF c = cDASH THEN R([q EXCEPT !.s = "CommentEndDash"], <<>>)
    ELSE R(q, <<Ev("cc", IF c = cNUL THEN kFFFD ELSE c)>>)
SCommentLT(q, c) ==
    IF c = cBANG THEN R([q EXCEPT !.s = "CommentLTBang"], <<Ev("cc", cBANG)>>)
    ELSE IF c = cLT THEN R(q, <<Ev("cc", cLT)>>)
    ELSE Re(q, "Comment", c, <<>>)
SCommentLTBang(q, c) ==
    IF c = cDASH THEN R([q EXCEPT !.s = "CommentLTBangDash"], <<>>)
    ELSE Re(q, "Comment", c, <<>>)
SCommentLTBangDash(q, c) ==
    IF c = cDASH THEN R([q EXCEPT !.s = "CommentLTBangDashDash"], <<>>)
    ELSE Re(q, "CommentEndDash", c, <<>>)
SCommentLTBangDashDash(q, c) == Re(q, "CommentEnd", c, <<>>)
SCommentEndDash(q, c) ==
    IF c = cDASH THEN R([q EXCEPT !.s = "CommentEnd"], <<>>)
    ELSE Re(q, "Comment", c, <<Ev("cc", cDASH)>>)
SCommentEnd(q, c) ==
    IF c = cGT THEN CommentDone(q)
    ELSE IF c = cBANG THEN R([q EXCEPT !.s = "CommentEndBang"], <<>>)
    ELSE IF c = cDASH THEN R(q, <<Ev("cc", cDASH)>>)
    ELSE Re(q, "Comment", c, <<Ev("cc", cDASH), Ev("cc", cDASH)>>)
SCommentEndBang(q, c) ==
    IF c = cDASH THEN R([q EXCEPT !.s = "CommentEndDash"], <<Ev("cc", cDASH), Ev("cc", cDASH), Ev("cc", cBANG)>>)
    ELSE IF c = cGT THEN CommentDone(q)
    ELSE Re(q, "Comment", c, <<Ev("cc", cDASH), Ev("cc", cDASH), Ev("cc", cBANG)>>)

(* character references; q.buf holds the characters consumed after '&' *)
SCharRef(q, c) ==
    IF IsAlnum(c) THEN Re([q EXCEPT !.buf = <<>>, !.m = 0], "NamedRef", c, <<>>)
    ELSE IF c = cHASH THEN R([q EXCEPT !.s = "NumRefStart", !.buf = <<cHASH>>, !.num = 0], <<>>)
    ELSE ReBack(q, c, <<RefEv(q, cAMP)>>)
\* resolve the named reference with what has been consumed (q.buf, longest match q.m) when the
\* next input character is c (not consumed); have = FALSE means the reference ended with ';'
NamedResolve(q, c, have) ==
    LET all  == <<RefEv(q, cAMP)>> \o RefEvs(q, q.buf)
        mt   == SubSeq(q.buf, 1, q.m)
        rest == SubSeq(q.buf, q.m + 1, Len(q.buf))
        nxt  == IF rest # <<>> THEN rest[1] ELSE IF have THEN c ELSE -1
        legacyBlocked == q.ret \in AttrValueStates /\ mt[q.m] # cSEMI /\ (nxt = cEQ \/ (nxt >= 0 /\ IsAlnum(nxt)))
        cps  == EntityMap[mt]
        dec  == [i \in 1..Len(cps) |-> RefEv(q, SymOfCp(cps[i]))] \o RefEvs(q, rest)
        outp == IF q.m = 0 \/ legacyBlocked THEN all ELSE dec
    IN  IF have THEN ReBack(q, c, outp) ELSE R(Back(q), outp)
SNamedRef(q, c) ==
    LET nb == Append(q.buf, c) IN
    IF nb \in EntityPrefixes
    THEN LET q2 == [q EXCEPT !.buf = nb, !.m = IF nb \in EntityNames THEN Len(nb) ELSE q.m] IN
         IF c = cSEMI THEN NamedResolve(q2, c, FALSE) ELSE R(q2, <<>>)
    ELSE NamedResolve(q, c, TRUE)
SNumRefStart(q, c) ==
    IF c = 120 \/ c = 88 THEN R([q EXCEPT !.s = "HexRefStart", !.buf = Append(q.buf, c)], <<>>)
    ELSE IF IsDigit(c) THEN Re(q, "DecRef", c, <<>>)
    ELSE ReBack(q, c, <<RefEv(q, cAMP)>> \o RefEvs(q, q.buf))
SHexRefStart(q, c) ==
    IF IsHexDigit(c) THEN Re(q, "HexRef", c, <<>>)
    ELSE ReBack(q, c, <<RefEv(q, cAMP)>> \o RefEvs(q, q.buf))
NumEndEv(q) == <<RefEv(q, SymOfCp(NumRefCp(q.num)))>>
SHexRef(q, c) ==
    IF IsHexDigit(c) THEN R([q EXCEPT !.num = NumSat(q.num * 16 + HexVal(c))], <<>>)
    ELSE IF c = cSEMI THEN R(Back(q), NumEndEv(q))
    ELSE ReBack(q, c, NumEndEv(q))
SDecRef(q, c) ==
    IF IsDigit(c) THEN R([q EXCEPT !.num = NumSat(q.num * 10 + DigitVal(c))], <<>>)
    ELSE IF c = cSEMI THEN R(Back(q), NumEndEv(q))
    ELSE ReBack(q, c, NumEndEv(q))

-----------------------------------------------------------------------------
Step(q, c) ==
    CASE q.s = "Data" -> SData(q, c)
      [] q.s = "Rcdata" -> SRcdata(q, c)
      [] q.s = "Rawtext" -> SRawtext(q, c)
      [] q.s = "ScriptData" -> SScriptData(q, c)
      [] q.s = "Plaintext" -> SPlaintext(q, c)
      [] q.s = "TagOpen" -> STagOpen(q, c)
      [] q.s = "EndTagOpen" -> SEndTagOpen(q, c)
      [] q.s = "TagName" -> STagName(q, c)
      [] q.s = "RcdataLT" -> SLT(q, c, "Rcdata")
      [] q.s = "RcdataEndTagOpen" -> SEndTagOpenX(q, c, "Rcdata")
      [] q.s = "RcdataEndTagName" -> SEndTagNameX(q, c, "Rcdata")
      [] q.s = "RawtextLT" -> SLT(q, c, "Rawtext")
      [] q.s = "RawtextEndTagOpen" -> SEndTagOpenX(q, c, "Rawtext")
      [] q.s = "RawtextEndTagName" -> SEndTagNameX(q, c, "Rawtext")
      [] q.s = "ScriptDataLT" -> SScriptDataLT(q, c)
      [] q.s = "ScriptDataEndTagOpen" -> SEndTagOpenX(q, c, "ScriptData")
      [] q.s = "ScriptDataEndTagName" -> SEndTagNameX(q, c, "ScriptData")
      [] q.s = "ScriptDataEscapeStart" -> SScriptDataEscapeStart(q, c)
      [] q.s = "ScriptDataEscapeStartDash" -> SScriptDataEscapeStartDash(q, c)
      [] q.s = "ScriptDataEscaped" -> SScriptEsc(q, c, "ScriptDataEscaped", 0)
      [] q.s = "ScriptDataEscapedDash" -> SScriptEsc(q, c, "ScriptDataEscaped", 1)
      [] q.s = "ScriptDataEscapedDashDash" -> SScriptEsc(q, c, "ScriptDataEscaped", 2)
      [] q.s = "ScriptDataEscapedLT" -> SScriptDataEscapedLT(q, c)
      [] q.s = "ScriptDataEscapedEndTagOpen" -> SEndTagOpenX(q, c, "ScriptDataEscaped")
      [] q.s = "ScriptDataEscapedEndTagName" -> SEndTagNameX(q, c, "ScriptDataEscaped")
      [] q.s = "ScriptDataDoubleEscapeStart" -> SScriptDoubleEsc(q, c, "ScriptDataDoubleEscaped", "ScriptDataEscaped")
      [] q.s = "ScriptDataDoubleEscaped" -> SScriptEsc(q, c, "ScriptDataDoubleEscaped", 0)
      [] q.s = "ScriptDataDoubleEscapedDash" -> SScriptEsc(q, c, "ScriptDataDoubleEscaped", 1)
      [] q.s = "ScriptDataDoubleEscapedDashDash" -> SScriptEsc(q, c, "ScriptDataDoubleEscaped", 2)
      [] q.s = "ScriptDataDoubleEscapedLT" -> SScriptDataDoubleEscapedLT(q, c)
      [] q.s = "ScriptDataDoubleEscapeEnd" -> SScriptDoubleEsc(q, c, "ScriptDataEscaped", "ScriptDataDoubleEscaped")
      [] q.s = "BeforeAttrName" -> SBeforeAttrName(q, c)
      [] q.s = "AttrName" -> SAttrName(q, c)
      [] q.s = "AfterAttrName" -> SAfterAttrName(q, c)
      [] q.s = "BeforeAttrValue" -> SBeforeAttrValue(q, c)
      [] q.s = "AttrValDQ" -> SAttrValQ(q, c, cDQ, "AttrValDQ")
      [] q.s = "AttrValSQ" -> SAttrValQ(q, c, cSQ, "AttrValSQ")
      [] q.s = "AttrValUQ" -> SAttrValUQ(q, c)
      [] q.s = "AfterAttrValQ" -> SAfterAttrValQ(q, c)
      [] q.s = "SelfClosingStartTag" -> SSelfClosingStartTag(q, c)
      [] q.s = "BogusComment" -> SBogusComment(q, c)
      [] q.s = "MarkupDeclOpen" -> SMarkupDeclOpen(q, c)
      [] q.s = "Doctype" -> SDoctype(q, c)
      [] q.s = "CommentStart" -> SCommentStart(q, c)
      [] q.s = "CommentStartDash" -> SCommentStartDash(q, c)
      [] q.s = "Comment" -> SComment(q, c)
      [] q.s = "CommentLT" -> SCommentLT(q, c)
      [] q.s = "CommentLTBang" -> SCommentLTBang(q, c)
      [] q.s = "CommentLTBangDash" -> SCommentLTBangDash(q, c)
      [] q.s = "CommentLTBangDashDash" -> SCommentLTBangDashDash(q, c)
      [] q.s = "CommentEndDash" -> SCommentEndDash(q, c)
      [] q.s = "CommentEnd" -> SCommentEnd(q, c)
      [] q.s = "CommentEndBang" -> SCommentEndBang(q, c)
      [] q.s = "CharRef" -> SCharRef(q, c)
      [] q.s = "NamedRef" -> SNamedRef(q, c)
      [] q.s = "NumRefStart" -> SNumRefStart(q, c)
      [] q.s = "HexRefStart" -> SHexRefStart(q, c)
      [] q.s = "HexRef" -> SHexRef(q, c)
      [] q.s = "DecRef" -> SDecRef(q, c)

AllStates == {"Data", "Rcdata", "Rawtext", "ScriptData", "Plaintext", "TagOpen", "EndTagOpen", "TagName",
    "RcdataLT", "RcdataEndTagOpen", "RcdataEndTagName", "RawtextLT", "RawtextEndTagOpen", "RawtextEndTagName",
    "ScriptDataLT", "ScriptDataEndTagOpen", "ScriptDataEndTagName", "ScriptDataEscapeStart",
    "ScriptDataEscapeStartDash", "ScriptDataEscaped", "ScriptDataEscapedDash", "ScriptDataEscapedDashDash",
    "ScriptDataEscapedLT", "ScriptDataEscapedEndTagOpen", "ScriptDataEscapedEndTagName",
    "ScriptDataDoubleEscapeStart", "ScriptDataDoubleEscaped", "ScriptDataDoubleEscapedDash",
    "ScriptDataDoubleEscapedDashDash", "ScriptDataDoubleEscapedLT", "ScriptDataDoubleEscapeEnd",
    "BeforeAttrName", "AttrName", "AfterAttrName", "BeforeAttrValue", "AttrValDQ", "AttrValSQ", "AttrValUQ",
    "AfterAttrValQ", "SelfClosingStartTag", "BogusComment", "MarkupDeclOpen", "Doctype", "CommentStart",
    "CommentStartDash", "Comment", "CommentLT", "CommentLTBang", "CommentLTBangDash", "CommentLTBangDashDash",
    "CommentEndDash", "CommentEnd", "CommentEndBang", "CharRef", "NamedRef", "NumRefStart", "HexRefStart",
    "HexRef", "DecRef"}

-----------------------------------------------------------------------------
(* folding over sequences *)
RECURSIVE RunFrom(_, _, _, _)
RunFrom(q, cs, i, acc) ==
    IF i > Len(cs) THEN R(q, acc)
    ELSE LET r == Step(q, cs[i]) IN RunFrom(r.q, cs, i + 1, acc \o r.out)
Run(q, cs) == RunFrom(q, cs, 1, <<>>)

(* input stream preprocessing (before the tokenizer) *)
PreStep(p, c) ==
    IF c = cCR THEN [p |-> TRUE, out |-> <<cLF>>]
    ELSE IF c = cLF /\ p THEN [p |-> FALSE, out |-> <<>>]
    ELSE IF c = kBADBYTE THEN [p |-> FALSE, out |-> <<kFFFD>>]
    ELSE [p |-> FALSE, out |-> <<c>>]
RECURSIVE RunPreFrom(_, _, _, _, _)
RunPreFrom(q, p, cs, i, acc) ==
    IF i > Len(cs) THEN [q |-> q, p |-> p, out |-> acc]
    ELSE LET pr == PreStep(p, cs[i])
             r  == Run(q, pr.out)
         IN  RunPreFrom(r.q, pr.p, cs, i + 1, acc \o r.out)
RunPre(q, p, cs) == RunPreFrom(q, p, cs, 1, <<>>)
=============================================================================
