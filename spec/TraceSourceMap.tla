--------------------------- MODULE TraceSourceMap ---------------------------
(* C07 binding (VAL): lookups recorded from the REAL parser + generator + source map, one ndjson line
   per Go expression (k = "e") or top-level declaration (k = "s"), written by harness/c07.

   An expression event carries the grid of rune widths of the expression (w), its true source start
   (sf) and one row per rune-boundary position plus the position past the end of every line:
     row == <<kind, li, sl, sc, si, sb, ok, tl, tc, ti, tb, toff, bok, bl, bc, bi, shared>>
       kind   0 = a rune of the expression, 1 = the newline ending an inner line, 2 = past the last line
       li     line of the expression (0-based)
       sl sc si   true source position (line, byte column, byte index), sb = rune found there
       ok tl tc ti   result of TargetPositionFromSource(sl, sc)
       toff tb  byte offset that (tl, tc) denotes in the generated text and the rune found THERE
                (toff = -1: no such line/column in the generated file)
       bok bl bc bi  result of SourcePositionFromTarget(tl, tc)
       shared 1 = the position also starts / lies in another expression of the tree (ambiguous owner)
   The invariants are those of SourceMap.tla, evaluated on the observed tuples; in addition the
   tables SourceMap.tla's Add builds for this grid are compared with the observed lookups (DRIFT).
   All failing events are printed (<<"BAD", json>>), none stops the run.                         *)
EXTENDS SourceMapOps, Json

CONSTANTS PredictMaxSyms      \* expressions up to this many symbols are also compared with the model's tables

VARIABLES i, nbad
vars == <<i, nbad>>

Trace == ndJsonDeserialize("trace.ndjson")
N == Len(Trace)

Kind(r) == r[1]   Li(r) == r[2]   SL(r) == r[3]   SC(r) == r[4]   SI(r) == r[5]   SB(r) == r[6]
Ok(r) == r[7] = 1 TL(r) == r[8]   TC(r) == r[9]   TI(r) == r[10]  TB(r) == r[11]  TOff(r) == r[12]
BOk(r) == r[13] = 1 BL(r) == r[14] BC(r) == r[15] BI(r) == r[16]  Shared(r) == r[17] = 1

-----------------------------------------------------------------------------
(* the invariants of SourceMap.tla on observed tuples; P = rows of one expression *)
Covered(e) == e.ls = 1 /\ \A j \in 1..Len(e.p) : Ok(e.p[j])

\* the (line, col) handed to gopls exists, holds the same rune, and the recorded index is that byte
SameByte(e) == \A j \in 1..Len(e.p) : LET r == e.p[j] IN
                  (Ok(r) /\ Kind(r) \in {0, 1}) => TOff(r) >= 0 /\ TB(r) = SB(r) /\ TI(r) = TOff(r)

Consecutive(e) == \A j \in 1..(Len(e.p) - 1) : LET r == e.p[j]  q == e.p[j + 1] IN
                  (Kind(r) = 0 /\ Ok(r) /\ Ok(q) /\ ~Shared(r) /\ ~Shared(q)) =>
                      /\ TI(q) = TI(r) + (SI(q) - SI(r))
                      /\ TL(q) = TL(r)
                      /\ TC(q) = TC(r) + (SC(q) - SC(r))

RoundTrip(e) == \A j \in 1..Len(e.p) : LET r == e.p[j] IN
                  Ok(r) => BOk(r) /\ BL(r) = SL(r) /\ BC(r) = SC(r) /\ BI(r) = SI(r)

\* past the end of a line: mapped, to a real position of the generated file whose index agrees;
\* after an empty line there is no preceding rune, so the row is tied to the expression start instead
EndOfLineMapped(e) == \A j \in 1..Len(e.p) : LET r == e.p[j] IN
                  Kind(r) \in {1, 2} => Ok(r) /\ (Shared(r) \/ (TOff(r) >= 0 /\ TI(r) = TOff(r)))

\* lines of the expression are laid out in the target as in the source
LineStructure(e) == \A j \in 1..Len(e.p) : LET r == e.p[j]  f == e.p[1] IN
                  (Ok(r) /\ Ok(f) /\ ~Shared(r) /\ ~Shared(f)) =>
                      /\ TL(r) - TL(f) = SL(r) - SL(f)
                      /\ TI(r) - TI(f) = SI(r) - SI(f)

-----------------------------------------------------------------------------
(* model prediction: SourceMap.Add on empty tables for this grid, from the observed start positions *)
NSyms(e) == Len(e.p)
Predicted(e) == LET f == e.p[1] IN
                AddTables(Empty, Empty, e.w, Pos(e.sf[3], e.sf[1], e.sf[2]), Pos(TI(f), TL(f), TC(f)))
AgreesWithModel(e) ==
    (NSyms(e) <= PredictMaxSyms /\ Ok(e.p[1]) /\ \A j \in 1..Len(e.p) : ~Shared(e.p[j])) =>
        LET st == Predicted(e) IN
        \A j \in 1..Len(e.p) : LET r == e.p[j]  t == TargetFromSource(st.s2t, SL(r), SC(r)) IN
            /\ t.ok = Ok(r)
            /\ (t.ok => t.p = Pos(TI(r), TL(r), TC(r)))
            /\ (t.ok /\ BOk(r) => SourceFromTarget(st.t2s, TL(r), TC(r)).p = Pos(BI(r), BL(r), BC(r)))

ExprViolations(e) ==
       (IF Covered(e) THEN {} ELSE {"Covered"})
  \cup (IF SameByte(e) THEN {} ELSE {"SameByte"})
  \cup (IF Consecutive(e) /\ LineStructure(e) THEN {} ELSE {"Consecutive"})
  \cup (IF RoundTrip(e) THEN {} ELSE {"RoundTrip"})
  \cup (IF EndOfLineMapped(e) THEN {} ELSE {"EndOfLineMapped"})

-----------------------------------------------------------------------------
(* symbol events: t == <<fl, fc, fi, tl, tc, ti, foff, toff, back>>, d == <<declFrom, declTo>> *)
SymbolRangeEncloses(e) ==
    IF e.found = 0 THEN e.opt = 1           \* only a Go block ending in a // comment may have none
    ELSE LET t == e.t IN
         /\ t[7] >= 0 /\ t[8] >= 0          \* both ends are real positions of the generated file
         /\ t[3] = t[7] /\ t[6] = t[8]      \* whose byte index is the recorded one
         /\ t[3] <= t[6]
         /\ t[9] = 1                        \* looked up from the target start it returns the source range
         /\ (e.d[1] >= 0 => t[3] <= e.d[1] /\ e.d[2] <= t[6])
SymViolations(e) == IF SymbolRangeEncloses(e) THEN {} ELSE {"SymbolRangeEncloses"}

Violations(e) == IF e.k = "e" THEN ExprViolations(e) ELSE SymViolations(e)
\* attribution: lookups that land in text the generator wrote for an expression that is not in the
\* source (Add called with the zero Range) are named after that branch
\* a declaration without symbol range although another declaration starts on the same templ line is
\* the branch SymLineMap = "recreate" of SourceMapOps!AddSym
Sig(e, v) == IF e.k = "e" /\ e.syn = 1 THEN "Add.SyntheticExpressionAtZeroRange"
             ELSE IF e.k = "s" /\ e.found = 0 /\ e.sl = 1 THEN "AddSymbolRange.LineMapRecreated"
             ELSE v
Drift(e) == e.k = "e" /\ Violations(e) = {} /\ ~AgreesWithModel(e)

-----------------------------------------------------------------------------
Init == i = 1 /\ nbad = 0

Next == /\ i <= N
        /\ LET e == Trace[i]
               v == Violations(e)
           IN  /\ IF v # {} THEN PrintT(<<"BAD", ToJson([id |-> e.id, sigs |-> {Sig(e, x) : x \in v}])>>) ELSE TRUE
               /\ IF Drift(e) THEN PrintT(<<"DRIFT", ToJson([id |-> e.id])>>) ELSE TRUE
               /\ nbad' = nbad + (IF v # {} THEN 1 ELSE 0)
        /\ i' = i + 1
        /\ TLCSet(7, i)

Spec == Init /\ [][Next]_vars

\* every line of the trace was consumed
AllConsumed == TLCGet(7) = N
Summary == i = N + 1 => PrintT(<<"DONE", ToJson([events |-> N, bad |-> nbad])>>)
=============================================================================
