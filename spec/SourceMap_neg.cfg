\* C07 negative config: columns advanced by runes instead of bytes in SourceMap.Add must be rejected.
CONSTANTS
  MaxLines = 2
  MaxRunes = 2
  Widths = {1, 2, 3, 4}
  Pres <- PresSome
  Offsets = {0, 1}
  ColMode = "runes"
  EolEntry = TRUE
  SymLineMap = "keep"
INIT Init
NEXT Next
INVARIANTS TypeOK WriterIsAdvance SameByte
CHECK_DEADLOCK FALSE
