\* C14: development-mode renders while the writer of one render is stalled (it may never come back).
CONSTANTS
  G <- G2
  M = 2
  DocLen = 2
  NBuf = 2
  FailAt <- Fail12
  DevMode = TRUE
  MaxVer = 2
  Scratch = FALSE
  DestKinds <- PlainOnly
  Stall <- Stall11
  Bug = "none"
INIT Init
NEXT Next
INVARIANTS TypeOK ExclusiveBuffer Isolated OwnDestinationOnly IndependentOfStalledWriters MutexProtectsCache LiteralsAreAVersion UniqueIds
CHECK_DEADLOCK FALSE
