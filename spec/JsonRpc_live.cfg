\* C18 conn: liveness: every call whose response arrives or whose context is cancelled returns.
CONSTANTS
  NC = 2
  NN = 0
  MaxPN = 1
  MaxPC = 0
  MaxStray = 0
  UseWriteMu = TRUE
  ChanCap = 1
  RegisterFirst = TRUE
  AtomicAlloc = TRUE
  IdDecode = "strict"
  IdVocab = "small"
  KindShift = 0
  NullResult = "ok"
SPECIFICATION Spec
INVARIANTS Matched UniqueIds
PROPERTIES CallsReturn
CHECK_DEADLOCK FALSE
