\* C18 conn: NEGATIVE: quoted numerals decode as numbers -- must violate PeerCallsEchoed (the peer's call "42" is answered with id 42).
CONSTANTS
  NC = 1
  NN = 0
  MaxPN = 0
  MaxPC = 1
  MaxStray = 0
  UseWriteMu = TRUE
  ChanCap = 1
  RegisterFirst = TRUE
  AtomicAlloc = TRUE
  IdDecode = "unquote"
  IdVocab = "full"
  KindShift = 0
  NullResult = "ok"
INIT Init
NEXT Next
INVARIANTS TypeOK PeerCallsEchoed
CHECK_DEADLOCK FALSE
