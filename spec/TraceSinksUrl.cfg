\* C04 trace validation of real verdicts / rendered href and action attributes (one shard per TLC run).
CONSTANTS
  AcceptMode = "coded"
INIT Init
NEXT Next
CHECK_DEADLOCK FALSE
POSTCONDITION AllConsumed
