\* C15 trace validation: recorded worker events of the real generatecmd.Run against Generate.tla.
CONSTANTS
  Trees = {}
  Ws = {1}
  FlagSets = {}
  Mutex = TRUE
  ErrsCloser = "postgen"
  MainReadsErrs = TRUE
  GenVariants = {1}
  SlotRelease = "deferred"
  TargetRule = "trimsuffix"
  WalkRule = "filesonly"
  OrphanStat = "fileonly"
  RootRule = "exempt"
  RootTrees = {}
  SkipRule = "coded"
  TwoRuns = FALSE
  EmitCases = FALSE
INIT TraceInit
NEXT TraceNext
VIEW TraceView
POSTCONDITION TraceAccepted
INVARIANTS SiblingEqualsSoloGeneration OrphansGoneUnlessKept NothingElseTouched ExitStatusIffSomeFileFailed AtMostWWorkers EachEventOnce NoPanic NoDataRace WaitGroupOK
CHECK_DEADLOCK FALSE
