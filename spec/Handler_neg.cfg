\* C11 negative config (Variant is replaced by the check for each modelled bug): TLC must reject it.
CONSTANTS
  MaxK = 3
  MaxReq = 3
  Variant = "headersFirst"
  EmitEdges = FALSE
INIT Init
NEXT Next
VIEW View
INVARIANTS TypeOK AllOrNothing
CHECK_DEADLOCK FALSE
