// fmtcmd replays every transition of spec/FmtCmd.tla (a run of `templ fmt <dir>` over a directory whose files are
// fixed / loose / invalid / not templ / in a skipped directory) through the repository's real fmtcmd.Run on a real
// directory, with 1 and with 4 workers, and compares what the run reported (exit class), what it printed and what
// it did to every file (content, and whether the file was replaced) with the transition.
package main

import (
	"bytes"
	"fmt"
	"io"
	"log/slog"
	"os"
	"path/filepath"
	"sort"
	"strings"
	"time"

	"encoding/json"

	"github.com/a-h/templ/cmd/templ/fmtcmd"
	parser "github.com/a-h/templ/parser/v2"

	"verifharness/vhlib"
)

type fileState struct {
	Kind     string `json:"kind"`
	Rewrites int    `json:"rewrites"`
}

type edge struct {
	Fail     bool                 `json:"fail"`
	ToStdout bool                 `json:"tostdout"`
	Pre      map[string]fileState `json:"pre"`
	Post     map[string]fileState `json:"post"`
	Exit     string               `json:"exit"`
	Changed  []string             `json:"changed"`
	Broken   []string             `json:"broken"`
	Printed  []string             `json:"printed"`
}

var logger = slog.New(slog.NewTextHandler(io.Discard, nil))

// loose is a valid template that the formatter changes; the package name tells the files apart on stdout.
func loose(f string) string {
	return "package " + f + "\n\nimport \"strings\"\n\nfunc up(s string) string { return strings.ToUpper(s) }\n\n" +
		"templ T(s string) {\n<div>   <b>{up(s)}</b>\n</div>\n}\n"
}

func invalid(f string) string { return "package " + f + "\n\ntempl T( {\n<div>\n" }

// fixed is the formatter's fixed point for loose(f), computed without the command (parser + TemplateFile.Write).
func fixed(f string) string {
	tf, err := parser.ParseString(loose(f))
	if err != nil {
		vhlib.Fatal("loose template does not parse: " + err.Error())
	}
	var b bytes.Buffer
	if err := tf.Write(&b); err != nil {
		vhlib.Fatal(err.Error())
	}
	if b.String() == loose(f) {
		vhlib.Fatal("loose template is already formatted")
	}
	return b.String()
}

var skipDirs = map[string]string{"a": "node_modules", "b": ".hidden", "c": "_gen"}

func pathOf(dir, f, kind string) string {
	switch kind {
	case "other":
		return filepath.Join(dir, f+".txt")
	case "skipped":
		d := skipDirs[f]
		if d == "" {
			d = "vendor"
		}
		return filepath.Join(dir, d, f+".templ")
	}
	if f == "b" {
		return filepath.Join(dir, "sub", "deep", f+".templ") // the walk is recursive
	}
	return filepath.Join(dir, f+".templ")
}

func contentOf(f, kind string) string {
	switch kind {
	case "fixed":
		return fixed(f)
	case "invalid":
		return invalid(f)
	}
	return loose(f) // loose, other, skipped
}

func exitClass(err error) string {
	switch {
	case err == nil:
		return "ok"
	case strings.Contains(err.Error(), "not formatted properly"):
		return "notformatted"
	case strings.Contains(err.Error(), "formatting failed"):
		return "failed"
	}
	return "other: " + err.Error()
}

// printedFiles splits the concatenated stdout of a -stdout run into the files it holds (each starts with
// its package clause) and returns them sorted.
func printedFiles(s string) []string {
	var out []string
	for _, part := range strings.Split(s, "package ") {
		if part != "" {
			out = append(out, "package "+part)
		}
	}
	sort.Strings(out)
	return out
}

func replay(e edge, workers int, root string, n int) (sig, what string) {
	dir := filepath.Join(root, fmt.Sprintf("d%06d", n))
	defer os.RemoveAll(dir)
	before := map[string]os.FileInfo{}
	for f, st := range e.Pre {
		p := pathOf(dir, f, st.Kind)
		if err := os.MkdirAll(filepath.Dir(p), 0o755); err != nil {
			vhlib.Fatal(err.Error())
		}
		if err := os.WriteFile(p, []byte(contentOf(f, st.Kind)), 0o644); err != nil {
			vhlib.Fatal(err.Error())
		}
		// an old modification time: a replaced or rewritten file cannot keep it by accident
		old := time.Now().Add(-48 * time.Hour).Truncate(time.Second)
		if err := os.Chtimes(p, old, old); err != nil {
			vhlib.Fatal(err.Error())
		}
		fi, err := os.Stat(p)
		if err != nil {
			vhlib.Fatal(err.Error())
		}
		before[f] = fi
	}
	var stdout bytes.Buffer
	err := fmtcmd.Run(logger, strings.NewReader(""), &stdout, fmtcmd.Arguments{
		Files: []string{dir}, FailIfChanged: e.Fail, ToStdout: e.ToStdout, WorkerCount: workers,
	})
	if got := exitClass(err); got != e.Exit {
		return "FmtCmd.Exit", fmt.Sprintf("run reported %q, the specification says %q", got, e.Exit)
	}
	var wantPrinted []string
	for _, f := range e.Printed {
		wantPrinted = append(wantPrinted, fixed(f))
	}
	sort.Strings(wantPrinted)
	if got := printedFiles(stdout.String()); strings.Join(got, "\x00") != strings.Join(wantPrinted, "\x00") {
		return "FmtCmd.Stdout", fmt.Sprintf("printed %d files %q, expected the formatted text of %v", len(got), got, e.Printed)
	}
	for f, post := range e.Post {
		pre := e.Pre[f]
		p := pathOf(dir, f, pre.Kind)
		data, err := os.ReadFile(p)
		if err != nil {
			return "FmtCmd.Disk", fmt.Sprintf("file %s (%s) is gone after the run: %v", f, pre.Kind, err)
		}
		if string(data) != contentOf(f, post.Kind) {
			return "FmtCmd.Disk", fmt.Sprintf("file %s (%s before the run) holds %q, expected the %s content", f, pre.Kind, data, post.Kind)
		}
		fi, _ := os.Stat(p)
		replaced := !os.SameFile(before[f], fi) || !fi.ModTime().Equal(before[f].ModTime())
		if want := post.Rewrites > pre.Rewrites; replaced != want {
			return "FmtCmd.Disk", fmt.Sprintf("file %s (%s before the run): replaced=%v, the specification says %v", f, pre.Kind, replaced, want)
		}
	}
	// nothing else appeared in the directory (temporary files of the atomic write, backups)
	count := 0
	filepath.WalkDir(dir, func(_ string, d os.DirEntry, _ error) error {
		if d != nil && !d.IsDir() {
			count++
		}
		return nil
	})
	if count != len(e.Pre) {
		return "FmtCmd.Disk", fmt.Sprintf("%d files in the directory after the run, %d before", count, len(e.Pre))
	}
	return "", ""
}

func main() {
	if len(os.Args) < 2 {
		vhlib.Fatal("usage: fmtcmd <edges.ndjson>")
	}
	root, err := os.MkdirTemp("", "verif-fmtcmd-")
	if err != nil {
		vhlib.Fatal(err.Error())
	}
	defer os.RemoveAll(root)
	edges, runs, fails := 0, 0, 0
	kinds := map[string]int{}
	err = vhlib.Each(os.Args[1], func(line []byte) error {
		var e edge
		if err := json.Unmarshal(line, &e); err != nil {
			return err
		}
		edges++
		kinds[e.Exit]++
		for _, w := range []int{1, 4} {
			runs++
			if sig, what := replay(e, w, root, runs); sig != "" {
				fails++
				vhlib.Fail(sig, what, map[string]any{"edge": e, "workers": w})
			}
		}
		if edges%400 == 1 {
			vhlib.Sample(map[string]any{"edge": e})
		}
		return nil
	})
	if err != nil {
		vhlib.Fatal(err.Error())
	}
	vhlib.Summary(map[string]any{"edges": edges, "runs": runs, "fails": fails, "exits": kinds})
}
