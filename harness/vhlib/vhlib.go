// Package vhlib is the small protocol between the Go conformance harnesses and the check
// scripts: harnesses read TLC-generated cases as ndjson and report, as ndjson on stdout, every
// case in which the real code's behaviour differs from what the specification allows.
package vhlib

import (
	"bufio"
	"encoding/json"
	"fmt"
	"os"
	"sync"
)

var (
	mu  sync.Mutex
	out = bufio.NewWriterSize(os.Stdout, 1<<20)
)

// Each calls fn with every line of an ndjson file.
func Each(path string, fn func(line []byte) error) error {
	f, err := os.Open(path)
	if err != nil {
		return err
	}
	defer f.Close()
	sc := bufio.NewScanner(f)
	sc.Buffer(make([]byte, 1<<20), 1<<28)
	n := 0
	for sc.Scan() {
		n++
		if len(sc.Bytes()) == 0 {
			continue
		}
		if err := fn(sc.Bytes()); err != nil {
			return fmt.Errorf("%s:%d: %w", path, n, err)
		}
	}
	return sc.Err()
}

// Emit writes one ndjson record to stdout.
func Emit(v any) {
	b, err := json.Marshal(v)
	if err != nil {
		panic(err)
	}
	mu.Lock()
	out.Write(b)
	out.WriteByte('\n')
	mu.Unlock()
}

// Fail reports a case where the real code breaks the property. sig names the root cause as the
// specification labels it (used for known-finding attribution).
func Fail(sig, what string, c any) {
	Emit(map[string]any{"kind": "fail", "sig": sig, "what": what, "case": c})
}

// Drift reports a case where the real code differs from the model's prediction although the
// property itself holds on the real outcome.
func Drift(what string, c any) {
	Emit(map[string]any{"kind": "drift", "what": what, "case": c})
}

// Sample reports an example of an explored case for the evidence file.
func Sample(c any) {
	Emit(map[string]any{"kind": "sample", "case": c})
}

// Summary reports counters and flushes.
func Summary(m map[string]any) {
	m["kind"] = "summary"
	Emit(m)
	Flush()
}

func Flush() {
	mu.Lock()
	out.Flush()
	mu.Unlock()
}

// Fatal reports a harness (machinery) failure: exit 2, never a violation.
func Fatal(format string, a ...any) {
	Flush()
	fmt.Fprintf(os.Stderr, "HARNESS-ERROR: "+format+"\n", a...)
	os.Exit(2)
}
