\* C12 negative config: the else-arm of a conditional attribute is not collected for hoisting -- TLC must reject it (DefBeforeFirstUse).
CONSTANTS
  Ctxs <- Ctx1
  Modes = {"plain", "mw", "fresh"}
  Scripts = {"s1", "s2"}
  Classes = {"k1", "k2"}
  BlockHandles = {"h1", "h2"}
  ZeroHandles = {}
  FixedHandles = {"g1"}
  RegSeq <- RegK1
  OnSeqs <- OnSeqsFull
  ClassExprs <- ClassExprsFull
  Repaired = {"KvCompName", "SliceKVRules"}
  Variant = "elseNotHoisted"
  NonceCtxs = {"c1"}
  MaxNonces = 1
  MaxSteps = 99
  EmitEdges = FALSE
INIT Init
NEXT Next
VIEW View
INVARIANTS TypeOK RegistryMatchesDocument
PROPERTIES AtMostOnce DefBeforeFirstUse EveryUseHasCallOrName MiddlewareNeverInlined StylesheetServesRegistered ContextsIndependent NonceKeepsRegistry
CHECK_DEADLOCK FALSE
