\* Cross-validation of HtmlTok.tla against golang.org/x/net/html (one shard per TLC run).
INIT Init
NEXT Next
CHECK_DEADLOCK FALSE
POSTCONDITION AllConsumed
