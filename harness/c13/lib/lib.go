package lib

import (
	"context"
	"errors"
	"io"
	"sort"
	"strings"

	"github.com/a-h/templ"
)

// HA is a once handle without a fixed component, HF one with the fixed component Cf("94").
var (
	HA = templ.NewOnceHandle()
	HF = templ.NewOnceHandle(templ.WithComponent(Cf("94")))
)

// Fn is a hand-written component that follows the documented protocol for children:
// GetChildren, then ClearChildren, then render them where it wants.
func Fn(id string) templ.Component {
	return templ.ComponentFunc(func(ctx context.Context, w io.Writer) error {
		children := templ.GetChildren(ctx)
		ctx = templ.ClearChildren(ctx)
		if _, err := io.WriteString(w, `<x-fn id="`+id+`">`); err != nil {
			return err
		}
		if err := children.Render(ctx, w); err != nil {
			return err
		}
		_, err := io.WriteString(w, `</x-fn>`)
		return err
	})
}

// ErrLimit makes unbounded recursion inside a component's own writer observable.
var ErrLimit = errors.New("verif: output limit of a component's own writer exceeded (unbounded recursion)")

type boundedBuilder struct {
	sb strings.Builder
}

func (b *boundedBuilder) Write(p []byte) (int, error) {
	if b.sb.Len()+len(p) > 1<<16 {
		return 0, ErrLimit
	}
	return b.sb.Write(p)
}

// Fo follows the same protocol as Fn but renders its children into a writer of its OWN (as a component does that
// post-processes, measures or caches its children) and then copies the result to the writer it was given.
func Fo(id string) templ.Component {
	return templ.ComponentFunc(func(ctx context.Context, w io.Writer) error {
		children := templ.GetChildren(ctx)
		ctx = templ.ClearChildren(ctx)
		var own boundedBuilder
		if err := children.Render(ctx, &own); err != nil {
			return err
		}
		_, err := io.WriteString(w, `<x-fo id="`+id+`">`+own.sb.String()+`</x-fo>`)
		return err
	})
}

// Fh renders its children with templ.ToGoHTML (as one does to hand them to html/template) and writes the result.
// Only used in tree families without Once/Flush: the pooled buffer of ToGoHTML is not bounded.
func Fh(id string) templ.Component {
	return templ.ComponentFunc(func(ctx context.Context, w io.Writer) error {
		children := templ.GetChildren(ctx)
		ctx = templ.ClearChildren(ctx)
		html, err := templ.ToGoHTML(ctx, children)
		if err != nil {
			return err
		}
		_, err = io.WriteString(w, `<x-fh id="`+id+`">`+string(html)+`</x-fh>`)
		return err
	})
}

var registry = map[string]func() templ.Component{}

// Register is called by the generated tree packages.
func Register(id string, f func() templ.Component) { registry[id] = f }

func Lookup(id string) (func() templ.Component, bool) { f, ok := registry[id]; return f, ok }

func IDs() []string {
	ids := make([]string, 0, len(registry))
	for k := range registry {
		ids = append(ids, k)
	}
	sort.Strings(ids)
	return ids
}
