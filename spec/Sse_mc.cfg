\* C19 design check: the repaired design ("done") satisfies every C19 property, all interleavings.
CONSTANTS
  Clients = {"c1", "c2"}
  NB = 2
  Design = "done"
  MaxPings = 1
  PingFirst = FALSE
  NoRaces = FALSE
  ServerCuts = FALSE
  Slow = {"c1"}
  EmitEdges = FALSE
SPECIFICATION Spec
VIEW View
INVARIANTS TypeOK RegistryExact NoPanic BroadcasterNeverBlocks OthersUnaffected NoLeak SpawnedAreTargets DeliveredAtQuiescence
PROPERTIES LiveClientStaysRegistered Delivered DeliveredDespiteStalledClient SendReturns NoLeakLive
CHECK_DEADLOCK FALSE
