\* C13 emission: one TREE line per call tree (tree, Ideal tokens, Impl tokens for the Repaired set the check detected, leaks).
CONSTANTS
  Kinds = {"c1", "c0", "c2", "fn", "onceA", "onceF", "flush", "join", "raw"}
  FirstKinds = {"c1", "c0", "c2", "fn", "onceA", "onceF", "flush", "join", "raw"}
  MaxNodes = 3
  MaxDepth = 3
  MaxOut = 120
  Repaired = {}
  BlockFlushes = TRUE
  GenClears = TRUE
  EmitEdges = TRUE
INIT Init
NEXT Next
VIEW View
ACTION_CONSTRAINT Emit
INVARIANTS TypeOK MismatchIsAttributed
CHECK_DEADLOCK FALSE
