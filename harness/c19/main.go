// c19 binds spec/Sse.tla to the real live-reload broadcaster (cmd/templ/generatecmd/sse through
// cmd/templ/generatecmd/proxy.Handler, as cmd.go uses it).
//
//	c19 replay <schedules.ndjson> <start>   replay TLC-generated schedules step by step through the verif hook
//	                                        (gate inside the delivery goroutine, exit gate, events under m)
//	c19 stress <seed> <episodes> <trace>    seeded stress of the real handler, every step logged for TraceSse.tla
//	c19 net    <seed> <rounds>              churn over a real HTTP server and real clients (outcome checks only)
//	c19 longlived <idle-seconds> <clients>  clients that just stay connected to the proxy started by StartProxy, then a broadcast
//
// The process is expendable: a panic inside templ's delivery goroutine kills it, which is exactly what the
// check observes (exit status + stderr). Every line printed is flushed immediately.
package main

import (
	"os"

	"verifharness/vhlib"
)

func main() {
	if len(os.Args) < 2 {
		vhlib.Fatal("usage: c19 replay|stress|net ...")
	}
	switch os.Args[1] {
	case "replay":
		replayMain(os.Args[2:])
	case "stress":
		stressMain(os.Args[2:])
	case "net":
		netMain(os.Args[2:])
	case "longlived":
		longlivedMain(os.Args[2:])
	default:
		vhlib.Fatal("unknown mode %s", os.Args[1])
	}
}

func emit(v any) {
	vhlib.Emit(v)
	vhlib.Flush()
}
