#!/usr/bin/env python3
"""usage: lib/addseed.py <srcdir> <property> <title> <needs> <detected_by> [ran-extra...]
Copies a verified seeded change into seeded/<property>-<next n>/ and writes meta.json."""
import json, os, shutil, sys, glob, re
src, prop, title, needs, det = sys.argv[1:6]
extra = sys.argv[6:]
here = os.path.dirname(os.path.dirname(os.path.abspath(__file__)))
ns = [int(re.search(r'-(\d+)$', d).group(1)) for d in glob.glob(os.path.join(here, 'seeded', prop + '-*')) if re.search(r'-(\d+)$', d)]
n = max(ns + [0]) + 1
dst = os.path.join(here, 'seeded', '%s-%d' % (prop, n))
shutil.copytree(src, dst)
ran = ["git apply patch.diff in a scratch worktree (bin/seedverify)",
       "existing tests of the touched packages and their dependants pass with the patch",
       "demonstration (see notes.md): fails with the patch, passes without"] + extra
json.dump({"property": prop, "title": title, "needs": needs, "ran": ran, "detected_by": det}, open(os.path.join(dst, 'meta.json'), 'w'), indent=1)
print(dst)
