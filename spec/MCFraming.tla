------------------------------ MODULE MCFraming ------------------------------
(* Bounded model-checking instance of Framing: short bodies (the reader does not look inside a body,
   so its length only scales the state space), every variant, every truncation point, every chunking
   built from chunks of 1..ChunkMax bytes or "the rest".                                          *)
EXTENDS Framing
SmallMsgs == << [kind |-> "call",     idk |-> "num",  blen |-> 3,  rlen |-> 3],
                [kind |-> "notify",   idk |-> "none", blen |-> 5,  rlen |-> 4],    \* one 2-byte character
                [kind |-> "response", idk |-> "str",  blen |-> 12, rlen |-> 9] >>  \* a 4-byte character: two-digit length
VariantsDef == AllVariants
=============================================================================
