\* C18 conn: NEGATIVE: quoted numerals decode as numbers -- must violate IdTypePreserved (a response with the STRING id "1" is looked up as call #1).
CONSTANTS
  NC = 1
  NN = 0
  MaxPN = 0
  MaxPC = 0
  MaxStray = 1
  UseWriteMu = TRUE
  ChanCap = 1
  RegisterFirst = TRUE
  AtomicAlloc = TRUE
  IdDecode = "unquote"
  IdVocab = "full"
  KindShift = 0
  NullResult = "ok"
INIT Init
NEXT Next
INVARIANTS TypeOK IdTypePreserved
CHECK_DEADLOCK FALSE
