------------------------------ MODULE TemplLang ------------------------------
(* The templ template language as a state machine that BUILDS a template (abstract syntax tree plus the
   spelling choices that matter: the whitespace written after each node and after an element's open tag)
   and a denotational semantics Denote(ast, env): the document the template denotes for an environment,
   as a sequence of output tokens with a separator requirement between consecutive tokens.

   Used by C02 (generated code renders what the template denotes), C08 (formatting preserves meaning),
   C09 (formatting is idempotent) and as a program source for other checks. TLC enumerates the builder's
   behaviours (BFS within a node budget per focus family, -simulate for depth); every completed program
   is printed with its denotation for each environment; the Go concretiser prints it as .templ source
   (in several concrete spellings) and the real parser/formatter/generator/compiled code is compared
   with what this module predicts.

   Separator requirements (the whitespace clause of C02 is a relation, not a function):
     "mustnot"  the two tokens come from adjacent nodes with NO whitespace between them in the source
     "must"     they come from adjacent sibling INLINE content (text, string expression, inline element)
                with whitespace between them in the source
     "may"      anything else (whitespace existed but need not be kept; or a control-flow / component
                boundary lies between the two tokens)                                                  *)
EXTENDS Integers, Sequences, FiniteSets, TLC, Json

CONSTANTS
    MaxNodes,      \* node budget of one template body
    MaxDepth,      \* maximal nesting of open constructs
    Kinds,         \* node kinds the builder may use in this focus family
    InlineNames,   \* element names that are certainly inline (span, a, b ...)
    BlockNames,    \* element names that are certainly block (div, p ...)
    VoidNames,     \* void element names (img, input inline; br, hr layout-breaking)
    AttrChoices,   \* set of attribute lists an element may carry
    Words,         \* static text words
    Exprs,         \* string expression ids  (value of id e is a fixed string, counted on evaluation)
    Conds,         \* boolean condition ids
    Lists,         \* list ids (for loops)
    WsChoices,     \* whitespace kinds the builder may write after a node / after a start tag
    EnvSeq         \* environments (a sequence of records [c: [Conds -> BOOLEAN], l: [Lists -> 0..2], s: "a"|"b"|"z"])

VARIABLES stack,   \* open constructs, innermost last; stack[1] is the template body
          used,    \* nodes created so far
          done,    \* the template body has been closed
          prog     \* the finished program (a node list) once done

vars == <<stack, used, done, prog>>

Envs == {EnvSeq[i] : i \in 1..Len(EnvSeq)}
Ws == WsChoices            \* subset of {"", "h", "v"}: no whitespace / horizontal / contains a newline

-----------------------------------------------------------------------------
(* Nodes *)
TextN(w, tr)        == [k |-> "text", w |-> w, tr |-> tr]
ExprN(e, tr)        == [k |-> "expr", e |-> e, tr |-> tr]
VoidN(nm, at, tr)   == [k |-> "void", name |-> nm, attrs |-> at, tr |-> tr]
ElN(nm, at, ld, ks, tr) == [k |-> "el", name |-> nm, attrs |-> at, lead |-> ld, kids |-> ks, tr |-> tr]
IfN(brs, els, he)   == [k |-> "if", brs |-> brs, els |-> els, haselse |-> he]     \* brs: <<[c, body]>>
ForN(l, body)       == [k |-> "for", l |-> l, body |-> body]
SwitchN(cases)      == [k |-> "switch", cases |-> cases]                           \* <<[key, body]>>
CallN(c, af)        == [k |-> "call", comp |-> c, after |-> af]   \* after = "": only spellable with the legacy {! c() } syntax; after = "h": `@c() w1`, `@c() <b>` or legacy
CallBN(c, body, af) == [k |-> "callb", comp |-> c, body |-> body, after |-> af]
SlotN(af)           == [k |-> "slot", after |-> af]
GoCodeN             == [k |-> "gocode"]
GoCodeIN(tr)        == [k |-> "gocodei", tr |-> tr]                               \* {{ ... }} anywhere on a line, with its own trailing whitespace
HCommentN(af)       == [k |-> "hcomment", after |-> af]
GCommentN           == [k |-> "gcomment"]                                           \* // line comment
MCommentN(af)       == [k |-> "mcomment", after |-> af]                             \* /* block comment */, may sit inside a line
GoCodeMLN           == [k |-> "gocodeml"]                                           \* {{ ... }} spanning several lines (raw string inside)
RawN(nm, af)        == [k |-> "raw", name |-> nm, after |-> af]                    \* <style>/<script> constant content; "scriptgo": <script> interpolating E1 twice with {{ }}; "scriptcls": <script class={ K1, K2 } src="x.js"></script> (a class list on a script element)
DoctypeN            == [k |-> "doctype"]

Trailer(nd) == nd.k \in {"text", "expr", "void", "el", "gocodei"}
\* whitespace written after a node in the source
WsAfter(nd) == IF nd.k = "text" /\ nd.tr = "" /\ "sp" \in DOMAIN nd /\ nd.sp THEN "h"   \* space kept inside the text value
               ELSE IF Trailer(nd) THEN nd.tr
               ELSE IF nd.k \in {"slot", "hcomment", "mcomment", "raw", "call", "callb"} THEN nd.after
               ELSE "v"                       \* control flow, calls, Go code, Go comments, doctype end their line
LineStart(k) == k \in {"if", "for", "switch", "gocode", "gocodeml", "gcomment", "doctype"}

\* whitespace in front of the next node to be added to a frame
WsBefore(fr) == IF fr.items = <<>> THEN fr.lead ELSE WsAfter(fr.items[Len(fr.items)])

\* Well-formedness of the concrete syntax: what may follow what.
LastKind(fr) == IF fr.items = <<>> THEN "none" ELSE fr.items[Len(fr.items)].k
CanAdd(fr, k) ==
    /\ LineStart(k) => WsBefore(fr) = "v"
    /\ (k = "text" /\ LastKind(fr) = "text") => WsBefore(fr) = "v"      \* two texts on one line are one text
    /\ (k \in {"mcomment", "call", "callb"} /\ LastKind(fr) = "text") => WsBefore(fr) = "v"  \* a text runs up to the next `<`, `{` or line break
    /\ k = "doctype" => (fr.k = "root" /\ fr.items = <<>>)

-----------------------------------------------------------------------------
(* Builder *)
Frame(k, h, lead) == [k |-> k, h |-> h, lead |-> lead, items |-> <<>>, parts |-> <<>>]

Init == /\ stack = << Frame("root", [x |-> 0], "v") >>
        /\ used = 0
        /\ done = FALSE
        /\ prog = <<>>

Top == stack[Len(stack)]
Push(fr) == stack' = Append(stack, fr)
AddToTop(nd) == stack' = [stack EXCEPT ![Len(stack)].items = Append(@, nd)]
Budget == ~done /\ used < MaxNodes

AddLeaf(nd) == /\ Budget
               /\ nd.k \in Kinds
               /\ CanAdd(Top, nd.k)
               /\ AddToTop(nd)
               /\ used' = used + 1
               /\ UNCHANGED <<done, prog>>

Leaves ==
    {TextN(w, tr) : w \in Words, tr \in Ws} \cup
    {ExprN(e, tr) : e \in Exprs, tr \in Ws} \cup
    {VoidN(nm, at, tr) : nm \in VoidNames, at \in AttrChoices, tr \in Ws} \cup
    {CallN(c, af) : c \in {"leaf", "wrap", "box.item", "show", "greetc"}, af \in Ws} \cup
    {SlotN(af) : af \in Ws} \cup
    {HCommentN(af) : af \in Ws} \cup
    {MCommentN(af) : af \in Ws} \cup
    {RawN(nm, af) : nm \in {"style", "script", "scriptgo", "scriptcls"}, af \in Ws} \cup
    {GoCodeIN(tr) : tr \in Ws} \cup
    {GoCodeN, GoCodeMLN, GCommentN, DoctypeN}

OpenFrame(fr) == /\ Budget
                 /\ Len(stack) < MaxDepth
                 /\ fr.k \in Kinds
                 /\ CanAdd(Top, fr.k)
                 /\ Push(fr)
                 /\ used' = used + 1
                 /\ UNCHANGED <<done, prog>>

Opens ==
    {Frame("el", [name |-> nm, attrs |-> at], ld) : nm \in InlineNames \cup BlockNames, at \in AttrChoices, ld \in Ws} \cup
    {Frame("if", [c |-> c], "v") : c \in Conds} \cup
    {Frame("for", [l |-> l], "v") : l \in Lists} \cup
    {Frame("switch", [key |-> "a"], "v")} \cup
    {Frame("callb", [comp |-> "wrap"], "v")}

\* `} else if c {` and `} else {` : the branch built so far is stored, a new one starts
\* (a chain has at most one arm per condition id: with two conditions one else-if, with three two)
ElseIf(c) == /\ ~done /\ Top.k = "if" /\ Top.h.c # "else" /\ Len(Top.parts) < Cardinality(Conds) - 1
             /\ WsBefore(Top) = "v"
             /\ "elif" \in Kinds
             /\ stack' = [stack EXCEPT ![Len(stack)] =
                            [@ EXCEPT !.parts = Append(@, [c |-> Top.h.c, body |-> Top.items]),
                                      !.h = [c |-> c], !.items = <<>>]]
             /\ UNCHANGED <<used, done, prog>>
Else ==      /\ ~done /\ Top.k = "if" /\ Top.h.c # "else"
             /\ WsBefore(Top) = "v"
             /\ "else" \in Kinds
             /\ stack' = [stack EXCEPT ![Len(stack)] =
                            [@ EXCEPT !.parts = Append(@, [c |-> Top.h.c, body |-> Top.items]),
                                      !.h = [c |-> "else"], !.items = <<>>]]
             /\ UNCHANGED <<used, done, prog>>
\* next `case "b":` / `default:` of a switch
NextCase(key) == /\ ~done /\ Top.k = "switch"
                 /\ WsBefore(Top) = "v"
                 \* every key at most once, in any order (Go allows `default` anywhere)
                 /\ key # Top.h.key
                 /\ \A i \in 1..Len(Top.parts) : Top.parts[i].key # key
                 /\ stack' = [stack EXCEPT ![Len(stack)] =
                                [@ EXCEPT !.parts = Append(@, [key |-> Top.h.key, body |-> Top.items]),
                                          !.h = [key |-> key], !.items = <<>>]]
                 /\ UNCHANGED <<used, done, prog>>

NodeOf(fr, tr) ==
    CASE fr.k = "el"     -> ElN(fr.h.name, fr.h.attrs, fr.lead, fr.items, tr)
      [] fr.k = "if"     -> IF fr.h.c = "else" THEN IfN(fr.parts, fr.items, TRUE)
                            ELSE IfN(Append(fr.parts, [c |-> fr.h.c, body |-> fr.items]), <<>>, FALSE)
      [] fr.k = "for"    -> ForN(fr.h.l, fr.items)
      [] fr.k = "switch" -> SwitchN(Append(fr.parts, [key |-> fr.h.key, body |-> fr.items]))
      [] fr.k = "callb"  -> CallBN(fr.h.comp, fr.items, tr)

\* close the innermost construct; an element also chooses the whitespace that follows its end tag
Close(tr) == /\ ~done /\ Len(stack) > 1
             /\ Top.k # "el" => WsBefore(Top) = "v"                    \* `}` sits on its own line
             /\ Top.k \notin {"el", "callb"} => tr = "v"               \* control flow ends its line; a call block may be followed directly
             /\ Top.k \in {"callb"} => Top.items # <<>>          \* `@wrap() { }` with an empty block is a plain call
             /\ LET nd == NodeOf(Top, tr) IN
                stack' = [SubSeq(stack, 1, Len(stack) - 1) EXCEPT ![Len(stack) - 1].items = Append(@, nd)]
             /\ UNCHANGED <<used, done, prog>>

Finish == /\ ~done /\ Len(stack) = 1
          /\ used > 0
          /\ WsBefore(Top) = "v"
          /\ done' = TRUE
          /\ prog' = stack[1].items
          /\ UNCHANGED <<stack, used>>

Next == \/ \E nd \in Leaves : AddLeaf(nd)
        \/ \E fr \in Opens : OpenFrame(fr)
        \/ \E c \in Conds : ElseIf(c)
        \/ Else
        \/ \E key \in {"b", "default"} : NextCase(key)
        \/ \E tr \in Ws : Close(tr)
        \/ Finish

Spec == Init /\ [][Next]_vars

-----------------------------------------------------------------------------
(* Denotation *)
Opaque(nd) == nd.k \in {"if", "for", "switch", "call", "callb", "slot", "gocode", "gocodei", "gocodeml", "gcomment", "mcomment"}
Inline(nd) == nd.k \in {"text", "expr"} \/ (nd.k \in {"el", "void"} /\ nd.name \in InlineNames)

\* what precedes the next token: st "open" = the parent's start tag, "node" = a sibling's last token,
\* "opaque" = a control-flow / component boundary (no adjacency claim possible)
POpen(ws)      == [st |-> "open", inl |-> FALSE, ws |-> ws]
PNode(nd)      == [st |-> "node", inl |-> Inline(nd), ws |-> WsAfter(nd)]
POpaque        == [st |-> "opaque", inl |-> FALSE, ws |-> "v"]

Gap(prev, nd) == IF prev.st = "opaque" THEN "may"
                 ELSE IF prev.ws = "" THEN "mustnot"
                 ELSE IF prev.st = "node" /\ prev.inl /\ Inline(nd) THEN "must"
                 ELSE "may"
GapClose(prev) == IF prev.st = "opaque" THEN "may"
                  ELSE IF prev.ws = "" THEN "mustnot" ELSE "may"

Tok(t, n, g) == [t |-> t, n |-> n, g |-> g, attrs |-> <<>>]
TagTok(n, at, g) == [t |-> "open", n |-> n, g |-> g, attrs |-> at]

\* Attributes: an attribute list is a sequence of records
\*   [a |-> "const", n, v]  [a |-> "boolc", n]  [a |-> "boole", n, c]  [a |-> "expr", n, e]
\*   [a |-> "spread", m]    [a |-> "cond", c, then, else]   (then/else: lists of const/boolc/expr/class attributes)
\*   [a |-> "class", e]     class={ expr } with a plain string class name (id K1...)
\*   [a |-> "class2"]       class={ K1, K2 }: two class expressions (not a single string expression)
\*   [a |-> "classkv", c]   class={ K1, templ.KV(K2, c) }: the second class is present iff condition c holds
\*   [a |-> "url", u]       href={ templ.URL(U) }: a URL attribute; U1 is an allowed URL, U2 a javascript: URL, which is
\*                          replaced by the fixed failed-sanitization URL (what the sanitiser admits is C04's subject)
\*   [a |-> "style", e]     style={ T }: a style attribute value (T1 a declaration string, T2 a map with one declaration)
\*   [a |-> "cssclassx"]    class={ tinted("green") }: a css template with an expression-valued property (its class id
\*                          is computed at render time from the css text, value included)
\*   [a |-> "classmix"]     class={ "card", boxed(), "wide" }: a css template class between two string literals
\*   [a |-> "scriptcall2", n] onclick={ span2(1, 2) }: a script template whose parameters share a type (lo, hi int)
\*   [a |-> "cssclass"]     class={ boxed() }: the class of a css template; its <style> element is written in front of
\*                          the start tag, once per rendering (a "def" token, see Dedupe)
\*   [a |-> "scriptcall", n] onclick={ greet("x") }: a call of a script template (n: the handler attribute); the <script> element defining the
\*                          function is written in front of the start tag, once per rendering
\* What a spread map contributes, in key order (RenderAttributes sorts the keys). M1 holds one string value;
\* M2 holds one entry of every value kind the runtime distinguishes: string, *string, bool, *bool,
\* KeyValue[string,bool], KeyValue[bool,bool], func() bool -- each in its "present" and "absent" form.
SpreadPairs(m) ==
    IF m = "M1" THEN << [n |-> "data-M1", v |-> "M1"] >>
    ELSE << [n |-> "a-str", v |-> "M1"], [n |-> "b-ptrstr", v |-> "M1"], [n |-> "c-true", v |-> ""],
            [n |-> "e-ptrtrue", v |-> ""], [n |-> "g-kvs", v |-> "M1"], [n |-> "i-kvb", v |-> ""], [n |-> "m-fn", v |-> ""] >>

RECURSIVE DenAttrs(_, _)
DenAttrs(at, env) ==
    IF at = <<>> THEN [pairs |-> <<>>, evs |-> <<>>, defs |-> <<>>]
    ELSE LET a == Head(at)
             rest == DenAttrs(Tail(at), env)
             one == CASE a.a = "const"  -> [pairs |-> << [n |-> a.n, v |-> a.v] >>, evs |-> <<>>]
                      [] a.a = "boolc"  -> [pairs |-> << [n |-> a.n, v |-> ""] >>, evs |-> <<>>]
                      [] a.a = "boole"  -> [pairs |-> IF env.c[a.c] THEN << [n |-> a.n, v |-> ""] >> ELSE <<>>,
                                            evs |-> << a.c >>]
                      [] a.a = "expr"   -> [pairs |-> << [n |-> a.n, v |-> a.e] >>, evs |-> << a.e >>]
                      [] a.a = "class"  -> [pairs |-> << [n |-> "class", v |-> a.e] >>, evs |-> << a.e >>]
                      [] a.a = "class2" -> [pairs |-> << [n |-> "class", v |-> "K12"] >>, evs |-> << "K1", "K2" >>]
                      [] a.a = "classkv" -> [pairs |-> << [n |-> "class", v |-> IF env.c[a.c] THEN "K12" ELSE "K1"] >>,
                                             evs |-> << "K1", "K2", a.c >>]
                      [] a.a = "spread" -> [pairs |-> SpreadPairs(a.m), evs |-> << a.m >>]
                      [] a.a = "cond"   -> LET sub == DenAttrs(IF env.c[a.c] THEN a.then ELSE a.else, env)
                                           IN [pairs |-> sub.pairs, evs |-> << a.c >> \o sub.evs]
                      [] a.a = "url"        -> [pairs |-> << [n |-> "href", v |-> IF a.u = "U2" THEN "UBAD" ELSE a.u] >>, evs |-> << a.u >>]
                      [] a.a = "style"      -> [pairs |-> << [n |-> "style", v |-> a.e] >>, evs |-> << a.e >>]
                      [] a.a = "cssclass"   -> [pairs |-> << [n |-> "class", v |-> "CSSB"] >>, evs |-> <<>>]
                      [] a.a = "cssclassx"  -> [pairs |-> << [n |-> "class", v |-> "CSST"] >>, evs |-> <<>>]
                      [] a.a = "classmix"   -> [pairs |-> << [n |-> "class", v |-> "CMIX"] >>, evs |-> <<>>]
                      [] a.a = "scriptcall2" -> [pairs |-> << [n |-> a.n, v |-> "SCR2"] >>, evs |-> <<>>]
                      [] a.a = "scriptcall" -> [pairs |-> << [n |-> a.n, v |-> "SCRG"] >>, evs |-> <<>>]
             defs == CASE a.a = "cssclass"   -> << "cssB" >>
                       [] a.a = "cssclassx"  -> << "cssT" >>
                       [] a.a = "classmix"   -> << "cssB" >>
                       [] a.a = "scriptcall2" -> << "scriptS" >>
                       [] a.a = "scriptcall" -> << "scriptG" >>
                       \* as coded: the definitions needed by EITHER arm of a conditional attribute are written in
                       \* front of the start tag whatever the condition is (the handler attribute itself is
                       \* conditional); a definition too many is harmless, one too few breaks the handler
                       [] a.a = "cond" -> DenAttrs(a.then, env).defs \o DenAttrs(a.else, env).defs
                       [] OTHER -> <<>>
         IN [pairs |-> one.pairs \o rest.pairs, evs |-> one.evs \o rest.evs, defs |-> defs \o rest.defs]

\* a start tag with the definitions its attributes need in front of it: the first token carries the gap
StartTag(name, a, g) ==
    [i \in 1..Len(a.defs) |-> Tok("def", a.defs[i], IF i = 1 THEN g ELSE "mustnot")]
    \o << TagTok(name, a.pairs, IF a.defs = <<>> THEN g ELSE "mustnot") >>

\* fixed components of the harness: leaf = <i>leaf</i>, wrap = <section>{ children... }</section>,
\* the template itself is rendered with the child block <u>kid</u>
LeafToks(g) == << TagTok("i", <<>>, g), Tok("word", "leaf", "mustnot"), Tok("close", "i", "mustnot") >>
KidToks     == << TagTok("u", <<>>, "may"), Tok("word", "kid", "mustnot"), Tok("close", "u", "mustnot") >>

RECURSIVE DenList(_, _, _), DenNode(_, _, _), DenRepeat(_, _, _, _), DenBranches(_, _, _, _, _), DenCases(_, _, _, _)

\* result: [toks, evs, prev]
DenList(nodes, prev, env) ==
    IF nodes = <<>> THEN [toks |-> <<>>, evs |-> <<>>, prev |-> prev]
    ELSE LET one == DenNode(Head(nodes), prev, env)
             rest == DenList(Tail(nodes), one.prev, env)
         IN [toks |-> one.toks \o rest.toks, evs |-> one.evs \o rest.evs, prev |-> rest.prev]

(* Control flow is transparent for adjacency at its two ends (the generator hands the node that follows the
   if/for/switch to the last node of each body): the first node of the body that runs is adjacent to the sibling
   in front of the statement, and the sibling after the statement is adjacent to the last node of the body that
   ran. A body that renders nothing, and the seam between two iterations of a loop, make no adjacency claim.   *)
BodyEnd(body, r) == IF body = <<>> THEN POpaque ELSE r.prev

DenRepeat(body, k, prev, env) ==
    IF k = 0 THEN [toks |-> <<>>, evs |-> <<>>, prev |-> POpaque]
    ELSE LET one == DenList(body, prev, env)
             rest == DenRepeat(body, k - 1, POpaque, env)
         IN [toks |-> one.toks \o rest.toks, evs |-> one.evs \o rest.evs,
             prev |-> IF k = 1 THEN BodyEnd(body, one) ELSE rest.prev]

DenBranches(brs, els, prev, env, i) ==
    IF i > Len(brs) THEN LET r == DenList(els, prev, env) IN [toks |-> r.toks, evs |-> r.evs, prev |-> BodyEnd(els, r)]
    ELSE IF env.c[brs[i].c]
         THEN LET r == DenList(brs[i].body, prev, env)
              IN [toks |-> r.toks, evs |-> << brs[i].c >> \o r.evs, prev |-> BodyEnd(brs[i].body, r)]
         ELSE LET r == DenBranches(brs, els, prev, env, i + 1)
              IN [toks |-> r.toks, evs |-> << brs[i].c >> \o r.evs, prev |-> r.prev]

\* Go's switch: the case whose key equals the value runs wherever it stands; `default` runs only if none does
CaseIndex(cases, env) ==
    LET exact == {i \in 1..Len(cases) : cases[i].key = env.s}
        dflt  == {i \in 1..Len(cases) : cases[i].key = "default"}
    IN  IF exact # {} THEN CHOOSE i \in exact : TRUE
        ELSE IF dflt # {} THEN CHOOSE i \in dflt : TRUE ELSE 0
DenCases(cases, prev, env, i) ==
    LET k == CaseIndex(cases, env) IN
    IF k = 0 THEN [toks |-> <<>>, evs |-> <<>>, prev |-> POpaque]
    ELSE LET r == DenList(cases[k].body, prev, env)
         IN [toks |-> r.toks, evs |-> r.evs, prev |-> BodyEnd(cases[k].body, r)]

\* what a control-flow statement sees in front of it: only an inline trailer sibling keeps its claim
\* (the statement starts a new line, so whitespace is always present and nothing can be "mustnot")
Through(prev) == IF prev.st = "node" /\ prev.inl /\ prev.ws # "" THEN prev ELSE POpaque
\* what follows a control-flow statement sees: the last node of the body that ran, if it is an inline trailer
After(p) == IF p.st = "node" /\ p.inl /\ p.ws # "" THEN p ELSE POpaque

DenNode(nd, prev, env) ==
    CASE nd.k = "text" -> [toks |-> << Tok("word", nd.w, Gap(prev, nd)) >>, evs |-> <<>>, prev |-> PNode(nd)]
      [] nd.k = "expr" -> [toks |-> << Tok("val", nd.e, Gap(prev, nd)) >>, evs |-> << nd.e >>, prev |-> PNode(nd)]
      [] nd.k = "void" -> LET a == DenAttrs(nd.attrs, env) IN
                          [toks |-> StartTag(nd.name, a, Gap(prev, nd)), evs |-> a.evs, prev |-> PNode(nd)]
      [] nd.k = "el"   -> LET a == DenAttrs(nd.attrs, env)
                              ks == DenList(nd.kids, POpen(nd.lead), env)
                              cg == IF nd.kids = <<>> THEN "mustnot" ELSE GapClose(ks.prev)
                          IN [toks |-> StartTag(nd.name, a, Gap(prev, nd)) \o ks.toks \o << Tok("close", nd.name, cg) >>,
                              evs |-> a.evs \o ks.evs, prev |-> PNode(nd)]
      [] nd.k = "if"   -> LET r == DenBranches(nd.brs, nd.els, Through(prev), env, 1)
                          IN [toks |-> r.toks, evs |-> r.evs, prev |-> After(r.prev)]
      [] nd.k = "for"  -> LET r == DenRepeat(nd.body, env.l[nd.l], Through(prev), env)
                          IN [toks |-> r.toks, evs |-> << nd.l >> \o r.evs, prev |-> After(r.prev)]
      [] nd.k = "switch" -> LET r == DenCases(nd.cases, Through(prev), env, 1)
                            IN [toks |-> r.toks, evs |-> << "S" >> \o r.evs, prev |-> After(r.prev)]
      [] nd.k = "call" -> [toks |-> IF nd.comp = "leaf" THEN LeafToks("may")
                                    \* a template with a receiver: templ (b boxT) item() { <em>m</em> }, called as @box.item()
                                    \* a template with a parameter: templ show(s string) { <q>{ s }</q> }, called as @show(env.E(1))
                                    ELSE IF nd.comp = "show" THEN << TagTok("q", <<>>, "may"), Tok("val", "E1", "mustnot"), Tok("close", "q", "mustnot") >>
                                    \* a script template rendered as a component: @greet(env.E(1)) writes the function's definition
                                    \* (once per rendering) and a script element that calls it with the JSON of the argument
                                    ELSE IF nd.comp = "greetc" THEN << Tok("def", "scriptG", "may"), Tok("scall", "scriptG", "mustnot") >>
                                    ELSE IF nd.comp = "box.item" THEN << TagTok("em", <<>>, "may"), Tok("word", "m", "mustnot"), Tok("close", "em", "mustnot") >>
                                    ELSE << TagTok("section", <<>>, "may"), Tok("close", "section", "may") >>,
                           evs |-> IF nd.comp \in {"show", "greetc"} THEN << "E1" >> ELSE <<>>, prev |-> POpaque]
      [] nd.k = "callb" -> LET r == DenList(nd.body, POpaque, env) IN
                           [toks |-> << TagTok("section", <<>>, "may") >> \o r.toks \o << Tok("close", "section", "may") >>,
                            evs |-> r.evs, prev |-> POpaque]
      [] nd.k = "slot" -> [toks |-> KidToks, evs |-> <<>>, prev |-> POpaque]
      [] nd.k \in {"gocode", "gocodei"} -> [toks |-> <<>>, evs |-> << "G" >>, prev |-> POpaque]
      [] nd.k = "gocodeml" -> [toks |-> <<>>, evs |-> << "G" >>, prev |-> POpaque]
      [] nd.k = "gcomment" -> [toks |-> <<>>, evs |-> <<>>, prev |-> POpaque]
      [] nd.k = "mcomment" -> [toks |-> <<>>, evs |-> <<>>, prev |-> POpaque]
      [] nd.k = "hcomment" -> [toks |-> << Tok("comment", "c", Gap(prev, nd)) >>, evs |-> <<>>, prev |-> PNode(nd)]
      [] nd.k = "raw" -> [toks |-> << Tok("raw", nd.name, Gap(prev, nd)) >>,
                          evs |-> IF nd.name = "scriptgo" THEN << "E1", "E1" >>
                                  ELSE IF nd.name = "scriptcls" THEN << "K1", "K2" >> ELSE <<>>, prev |-> PNode(nd)]
      [] nd.k = "doctype" -> [toks |-> << Tok("doctype", "html", "may") >>, evs |-> <<>>, prev |-> POpaque]

\* A definition is rendered once per rendering: every later "def" token of the same name is dropped, and the token
\* behind it inherits its gap (the registry of rendered classes and scripts lives in the rendering's context: C12).
RECURSIVE Dedupe(_, _, _)
Dedupe(toks, seen, carry) ==
    IF toks = <<>> THEN <<>>
    ELSE LET t == IF carry = "none" THEN Head(toks) ELSE [Head(toks) EXCEPT !.g = carry] IN
         IF t.t = "def" /\ t.n \in seen THEN Dedupe(Tail(toks), seen, t.g)
         ELSE << t >> \o Dedupe(Tail(toks), IF t.t = "def" THEN seen \cup {t.n} ELSE seen, "none")

Denote(nodes, env) == LET r == DenList(nodes, POpaque, env) IN [toks |-> Dedupe(r.toks, {}, "none"), evs |-> r.evs]

-----------------------------------------------------------------------------
(* Properties of the language model itself (checked by TLC on every explored state) *)
TypeOK == /\ used \in 0..MaxNodes
          /\ Len(stack) \in 1..MaxDepth
          /\ done \in BOOLEAN

\* the denotation never asks for a separator that the adjacency rules cannot justify:
\* a "must" separator only ever sits between two tokens of inline content
MustOnlyBetweenInline ==
    done => \A env \in Envs : LET d == Denote(prog, env).toks IN
        \A i \in 1..Len(d) : d[i].g = "must" =>
            /\ i > 1
            /\ d[i].t \in {"word", "val", "open", "def"}
            /\ d[i - 1].t \in {"word", "val", "close", "open"}

\* tags are balanced in every denoted document
RECURSIVE Balanced(_, _, _)
Balanced(d, i, open) ==
    IF i > Len(d) THEN open = <<>>
    ELSE IF d[i].t = "open" /\ d[i].n \notin VoidNames THEN Balanced(d, i + 1, Append(open, d[i].n))
    ELSE IF d[i].t = "close" THEN open # <<>> /\ open[Len(open)] = d[i].n /\ Balanced(d, i + 1, SubSeq(open, 1, Len(open) - 1))
    ELSE Balanced(d, i + 1, open)
DenotedDocumentsBalanced == done => \A env \in Envs : Balanced(Denote(prog, env).toks, 1, <<>>)

\* expressions are evaluated only where control flow reaches them: an expression under a false
\* condition does not appear in the evaluation list (sanity of Denote: evs of the false branch absent)
View == <<stack, used, done>>

\* emission of finished programs for the conformance harnesses
EmitProgram == done => PrintT(<<"PROG", ToJson([prog |-> prog,
                   den |-> [i \in 1..Len(EnvSeq) |-> [env |-> EnvSeq[i], d |-> Denote(prog, EnvSeq[i])]]])>>)
=============================================================================
