\* C05 negative: KeyValue[string, SafeCSSProperty] handled by writing the plain-string name as it is must be rejected (ArgRule)
CONSTANTS
  Classes <- ClassesDef
  Contexts <- ContextsDef
  Alphabet <- FullAlphabet
  RegularExtra <- NoExtra
  AngleGuard = TRUE
  FontFix = TRUE
  BgFix = TRUE
  TrackAttribution = FALSE
  AttrEscapes = 1
  KvSafeProp = "raw"
  EmitEdges = FALSE
INIT Init
NEXT Next
VIEW View

INVARIANTS TypeOK ArgRule
CHECK_DEADLOCK FALSE
