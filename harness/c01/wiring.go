package main

// Wiring audit (C01 binding 3): the Go code the repository's generator produced for a corpus of templates is
// read with go/ast into an event list per generated component
//
//	lit  a literal the generator writes (templruntime.WriteString(buf, n, "..."))
//	dyn  any other write to the buffer, with the outermost function applied to the value
//	     (templ.EscapeString, <var>.Call, var<-templruntime.ScriptContentOutsideStringLiteral, ...)
//	attrs / cssitems / scriptitems / component   runtime helpers that write markup themselves
//	bs / be  start and end of a branch or loop body (if / else / for / switch case)
//
// and TraceGenWiring.tla runs HtmlTok over the literals and requires, at every dyn, that the wrapper is allowed
// in the tokenizer context reached.  A sink that forgets the escaper is rejected even if no gallery entry
// exercises it.
//
//	c01 wiring <chars.json> <dir> <out.ndjson>

import (
	"bufio"
	"encoding/json"
	"go/ast"
	"go/parser"
	"go/token"
	"os"
	"path/filepath"
	"strconv"
	"strings"

	. "verifharness/c01/sinklib"
	"verifharness/vhlib"
)

type wev struct {
	K string `json:"k"`
	W string `json:"w"`
	S []int  `json:"s"`
}

type wcomp struct {
	ID   int    `json:"id"`
	File string `json:"file"`
	Fn   string `json:"fn"`
	Evs  []wev  `json:"evs"`
}

func exprName(e ast.Expr) string {
	switch x := e.(type) {
	case *ast.Ident:
		return x.Name
	case *ast.SelectorExpr:
		return exprName(x.X) + "." + x.Sel.Name
	case *ast.IndexExpr:
		return exprName(x.X)
	case *ast.IndexListExpr:
		return exprName(x.X)
	case *ast.ParenExpr:
		return exprName(x.X)
	case *ast.CallExpr:
		return exprName(x.Fun) + "()"
	}
	return "?"
}

const (
	bufName = "templ_7745c5c3_Buffer"
	errName = "templ_7745c5c3_Err"
)

type walker struct {
	t    *Table
	evs  []wev
	defs map[string]string // generated variable -> function whose result it holds
	subs []*ast.FuncLit    // nested generated templates (children blocks), audited separately
}

// isErrCheck recognises the generator's own control flow (error checks, buffer ownership, children default):
// the condition mentions only generated identifiers.
func (w *walker) isErrCheck(s *ast.IfStmt) bool {
	own, other := 0, 0
	ast.Inspect(s.Cond, func(n ast.Node) bool {
		if id, ok := n.(*ast.Ident); ok && id.Name != "nil" {
			if strings.HasPrefix(id.Name, "templ_7745c5c3_") {
				own++
			} else {
				other++
			}
		}
		return true
	})
	return own > 0 && other == 0
}

func (w *walker) call(c *ast.CallExpr, lhs []ast.Expr) {
	name := exprName(c.Fun)
	// remember what a generated variable holds; collect nested templates
	for _, a := range c.Args {
		if fl, ok := a.(*ast.FuncLit); ok && strings.HasSuffix(name, "GeneratedTemplate") {
			w.subs = append(w.subs, fl)
		}
	}
	if len(lhs) > 0 {
		if id, ok := lhs[0].(*ast.Ident); ok && id.Name != "_" && id.Name != errName {
			w.defs[id.Name] = name
		}
	}
	switch {
	case name == "templruntime.WriteString" && len(c.Args) == 3:
		if bl, ok := c.Args[2].(*ast.BasicLit); ok && bl.Kind == token.STRING {
			s, err := strconv.Unquote(bl.Value)
			if err != nil {
				vhlib.Fatal("cannot unquote literal %s", bl.Value)
			}
			w.evs = append(w.evs, wev{K: "lit", S: w.t.Syms(s)})
			return
		}
		w.evs = append(w.evs, wev{K: "dyn", W: "non-literal templruntime.WriteString", S: []int{}})
	case name == bufName+".WriteString" && len(c.Args) == 1:
		w.evs = append(w.evs, wev{K: "dyn", W: w.wrapper(c.Args[0]), S: []int{}})
	case name == bufName+".Write" || name == "io.WriteString" || name == "fmt.Fprintf" || name == "fmt.Fprint":
		w.evs = append(w.evs, wev{K: "dyn", W: name, S: []int{}})
	case name == "templ.RenderAttributes":
		w.evs = append(w.evs, wev{K: "attrs", S: []int{}})
	case name == "templ.RenderCSSItems":
		w.evs = append(w.evs, wev{K: "cssitems", S: []int{}})
	case name == "templ.RenderScriptItems":
		w.evs = append(w.evs, wev{K: "scriptitems", S: []int{}})
	case strings.HasSuffix(name, ".Render") && len(c.Args) == 2 && exprName(c.Args[1]) == bufName:
		w.evs = append(w.evs, wev{K: "component", S: []int{}})
	}
}

// wrapper names the outermost function applied to a value written to the buffer.
func (w *walker) wrapper(e ast.Expr) string {
	switch x := e.(type) {
	case *ast.CallExpr:
		n := exprName(x.Fun)
		if n == "string" && len(x.Args) == 1 {
			return w.wrapper(x.Args[0]) // a conversion is not a wrapper
		}
		return n
	case *ast.SelectorExpr:
		if x.Sel.Name == "Call" {
			return ".Call"
		}
		return "field " + exprName(x)
	case *ast.Ident:
		if d, ok := w.defs[x.Name]; ok {
			return "var<-" + d
		}
		return "var " + x.Name
	case *ast.BasicLit:
		return "literal"
	case *ast.ParenExpr:
		return w.wrapper(x.X)
	}
	return "expr"
}

func (w *walker) stmts(list []ast.Stmt) {
	for _, s := range list {
		w.stmt(s)
	}
}

func (w *walker) branch(body []ast.Stmt) {
	w.evs = append(w.evs, wev{K: "bs", S: []int{}})
	w.stmts(body)
	w.evs = append(w.evs, wev{K: "be", S: []int{}})
}

func (w *walker) stmt(s ast.Stmt) {
	switch x := s.(type) {
	case *ast.ExprStmt:
		if c, ok := x.X.(*ast.CallExpr); ok {
			w.call(c, nil)
		}
	case *ast.AssignStmt:
		for _, r := range x.Rhs {
			if c, ok := r.(*ast.CallExpr); ok {
				w.call(c, x.Lhs)
			}
		}
	case *ast.DeclStmt:
		if gd, ok := x.Decl.(*ast.GenDecl); ok {
			for _, sp := range gd.Specs {
				if vs, ok := sp.(*ast.ValueSpec); ok {
					for i, v := range vs.Values {
						if c, ok := v.(*ast.CallExpr); ok && i < len(vs.Names) {
							w.call(c, []ast.Expr{vs.Names[i]})
						} else if i < len(vs.Names) {
							// var vn templ.SafeURL = expr : the declared type is what matters
							w.defs[vs.Names[i].Name] = "typed " + exprName(vs.Type)
						}
					}
				}
			}
		}
	case *ast.IfStmt:
		if w.isErrCheck(x) {
			return
		}
		if x.Init != nil {
			w.stmt(x.Init)
		}
		w.branch(x.Body.List)
		switch e := x.Else.(type) {
		case *ast.BlockStmt:
			w.branch(e.List)
		case *ast.IfStmt:
			w.stmt(e)
		}
	case *ast.ForStmt:
		w.branch(x.Body.List)
	case *ast.RangeStmt:
		w.branch(x.Body.List)
	case *ast.SwitchStmt:
		for _, cc := range x.Body.List {
			w.branch(cc.(*ast.CaseClause).Body)
		}
	case *ast.TypeSwitchStmt:
		for _, cc := range x.Body.List {
			w.branch(cc.(*ast.CaseClause).Body)
		}
	case *ast.BlockStmt:
		w.stmts(x.List)
	case *ast.LabeledStmt:
		w.stmt(x.Stmt)
	}
}

func wiring(args []string) {
	t, err := LoadTable(args[0])
	if err != nil {
		vhlib.Fatal("%v", err)
	}
	out, err := os.Create(args[2])
	if err != nil {
		vhlib.Fatal("%v", err)
	}
	defer out.Close()
	bw := bufio.NewWriterSize(out, 1<<20)
	files, comps, lits, dyns := 0, 0, 0, 0
	wrappers := map[string]int{}
	fset := token.NewFileSet()
	err = filepath.Walk(args[1], func(path string, info os.FileInfo, err error) error {
		if err != nil || info.IsDir() || !strings.HasSuffix(path, "_templ.go") {
			return err
		}
		f, perr := parser.ParseFile(fset, path, nil, parser.SkipObjectResolution)
		if perr != nil {
			vhlib.Fatal("generated file does not parse: %v", perr)
		}
		files++
		rel, _ := filepath.Rel(args[1], path)
		// every function literal handed to templruntime.GeneratedTemplate is one generated component body
		var roots []struct {
			fn string
			fl *ast.FuncLit
		}
		for _, d := range f.Decls {
			fd, ok := d.(*ast.FuncDecl)
			if !ok || fd.Body == nil {
				continue
			}
			ast.Inspect(fd.Body, func(n ast.Node) bool {
				c, ok := n.(*ast.CallExpr)
				if !ok || !strings.HasSuffix(exprName(c.Fun), "GeneratedTemplate") {
					return true
				}
				for _, a := range c.Args {
					if fl, ok := a.(*ast.FuncLit); ok {
						roots = append(roots, struct {
							fn string
							fl *ast.FuncLit
						}{fd.Name.Name, fl})
					}
				}
				return false // nested templates are collected by the walker
			})
		}
		for len(roots) > 0 {
			r := roots[0]
			roots = roots[1:]
			w := &walker{t: t, defs: map[string]string{}}
			w.stmts(r.fl.Body.List)
			for _, sub := range w.subs {
				roots = append(roots, struct {
					fn string
					fl *ast.FuncLit
				}{r.fn + "/children", sub})
			}
			comps++
			for _, e := range w.evs {
				if e.K == "lit" {
					lits++
				} else if e.K == "dyn" {
					dyns++
					wrappers[e.W]++
				}
			}
			if w.evs == nil {
				w.evs = []wev{}
			}
			b, _ := json.Marshal(wcomp{ID: comps, File: rel, Fn: r.fn, Evs: w.evs})
			bw.Write(b)
			bw.WriteByte('\n')
		}
		return nil
	})
	if err != nil {
		vhlib.Fatal("%v", err)
	}
	bw.Flush()
	vhlib.Summary(map[string]any{"files": files, "components": comps, "literals": lits, "dynamic_writes": dyns, "wrappers": wrappers})
}
