--------------------------- MODULE MCTraceSinksCss ---------------------------
(* C05 trace validation instance: the CSS-adversarial token alphabet of every class. *)
EXTENDS TraceSinksCss
ClassesDef == AllClasses
ContextsDef == AllContexts
FullAlphabet == CssSym
NoExtra == {}
Common == << <<";">>, <<"}">>, <<"{">>, <<"<","/","s","t","y","l","e",">">>, <<"/","*">>, <<CBSL>>, <<"LF">>, <<"SP">>, <<"a">>, <<",">>, <<CDQ>>, <<"'">>,
            <<"!","i","m","p","o","r","t","a","n","t">>, <<"!">> >>   \* the priority flag (delim '!' + ident) and a lone '!'
CssTokensDef ==
  [k \in AllClasses |->
     CASE k = "FontFamily" -> Common \o << <<CDQ,"a",CDQ>>, <<"s","e","r","i","f">>, <<"UWS">>, <<"(">>, <<")">>, <<":">>, <<"&">> >>
       [] k = "BackgroundImage" -> Common \o << <<"u","r","l","(">>, <<")">>, <<CDQ,")">>, <<"'",")">>, <<"/","a">>, <<":">>,
                                              <<"h","t","t","p",":">>, <<"z","a","z","a",":">>, <<"(">>, <<"UWS">>, <<"PCT">>, <<"&">>, <<"/","/">> >>
       [] k = "Regular" -> Common \o << <<"0">>, <<"#">>, <<"!">>, <<"/">>, <<"*">>, <<"(">>, <<")">>, <<":">>, <<"@">>, <<"-">>, <<"TAB">> >>
       [] k = "Enum" -> Common \o << <<"-">>, <<"0">>, <<"(">>, <<":">>, <<"Z">> >>
       [] k = "Name" -> Common \o << <<"-">>, <<"0">>, <<":">>, <<"Z">>, <<"_">>, <<"NA">> >>]
=============================================================================
