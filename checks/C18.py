#!/usr/bin/env python3
"""C18 -- JSON-RPC framing is lossless and calls are matched to their responses.

Framing half (spec/Framing.tla, no hook needed)
  MC   : the closed reader automaton (any byte at every step, EOF at any time: all inputs of all lengths);
         the bounded system (message sequences x every variant x every truncation point x chunkings);
         negative config (header counts runes) must violate Lossless.
  GEN  : simulated behaviours (message sequence, variant, chunking, predicted decoded sequence / error class) on
         wires with the byte lengths of the real messages are replayed on the real jsonrpc2.NewStream: over a reader
         that yields exactly those chunks, under further chunkings (ChunkingIrrelevant), through an io.Pipe (prompt
         delivery after each complete frame, no hang after close) and round-trip through the real stream.Write,
         whose header is compared with the number of bytes it wrote.
Conn half (spec/JsonRpc.tla, needs hooks/C18-jsonrpc2-conn.diff in the repository under test)
  MC   : callers x notifiers x run loop x peer x cancellations, safety + liveness; negative configs (no writeMu,
         unbuffered reply channel, pending insert after sending) must be rejected.
  GEN  : simulated behaviours are peer scripts replayed against the real Conn (the harness is the peer and owns the
         contexts; environment actions are executed inside the hook that precedes them in the behaviour), -race.
  VAL  : the hook events + the harness's own events of every case are validated by TLC against TraceJsonRpc.tla.
"""
import json, os, re, sys
sys.path.insert(0, os.path.join(os.path.dirname(os.path.abspath(__file__)), "..", "lib"))
import vlib

HOOK_FILE = "lsp/jsonrpc2/verifhook_on.go"
HOOK_CALLS = ['verifPending(c, "reg"', 'verifPending(c, "del"', 'verifPending(c, "disp"', 'verifWrite(c, "wbeg"', 'verifWrite(c, "wend"']


def tla_id(i):
    if not re.fullmatch(r"[A-Za-z0-9 _.+%-]*", i["v"]):
        raise vlib.InfraError("catalogue id text %r is not in the TLA-safe spelling" % i["v"])
    return '[t |-> "%s", v |-> "%s", n |-> %s]' % (i["t"], i["v"], "NoNum" if i["n"] == -1000 else ("0 - %d" % -i["n"] if i["n"] < 0 else str(i["n"])))


def catalogue_module(rows):
    ents = ",\n".join('  [kind |-> "%s", idk |-> "%s", id |-> %s, blen |-> %d, rlen |-> %d]' % (r["kind"], r["idk"], tla_id(r["id"]), r["blen"], r["rlen"])
                      for r in rows)
    return ("-------------------------- MODULE FramingCatalogue --------------------------\n"
            "(* Byte and rune lengths and typed ids of the JSON bodies of the harness's message catalogue (harness/c18:\n"
            "   catalogue()).  This file holds the values measured at the pinned commit; the check regenerates it\n"
            "   in its scratch directory from `c18 catalogue` on every run, so that wire position i of the model is\n"
            "   byte i of the real frame.  Id texts are in the harness's tlaSafe spelling (%XX for other bytes).   *)\n"
            "LOCAL INSTANCE Integers\n"
            "LOCAL NoNum == 0 - 1000\n"
            "CatalogueMsgs == <<\n" + ents + "\n>>\n"
            "=============================================================================\n")


def hooks_present():
    p = os.path.join(vlib.REPO, HOOK_FILE)
    if not os.path.exists(p):
        return "%s does not exist" % HOOK_FILE
    src = open(p).read()
    for sym in ("func SetVerifHook(", "func VerifSeq(", "type VerifEvent struct"):
        if sym not in src:
            return "%s lacks %s" % (HOOK_FILE, sym)
    conn = open(os.path.join(vlib.REPO, "lsp/jsonrpc2/conn.go")).read()
    for call in HOOK_CALLS:
        if call not in conn:
            return "lsp/jsonrpc2/conn.go lacks the hook call %s...)" % call
    return None


def write_lines(path, objs):
    with open(path, "w") as fh:
        for o in objs:
            fh.write(json.dumps(o) + "\n")


def framing(ck, thorough, binp):
    sc = vlib.scratch()
    # --- MC ---------------------------------------------------------------------------------------
    closed = vlib.tlc("MCFramingClosed", "Framing_closed.cfg", workers=4, timeout=300)
    if not closed.ok:
        raise vlib.InfraError("closed reader automaton violates %s: the model of stream.Read is wrong" % closed.violated)
    ck.add_tlc(closed, "Framing_closed (reader automaton, all inputs)")
    mcfg = open(os.path.join(vlib.SPEC, "Framing_mc.cfg")).read()
    if thorough:
        mcfg = mcfg.replace("MaxMsgs = 2", "MaxMsgs = 3").replace("ChunkMax = 2", "ChunkMax = 2")
    mc = vlib.tlc("MCFraming", "mc.cfg", files={"mc.cfg": mcfg}, workers=8, timeout=900, xss="512m")
    if not mc.ok:
        raise vlib.InfraError("Framing model violates %s: spec and code model disagree" % mc.violated)
    ck.add_tlc(mc, "Framing_mc")
    neg = vlib.tlc("MCFraming", "Framing_neg.cfg", workers=1, timeout=300, xss="512m")
    if neg.violated != "Lossless":
        raise vlib.InfraError("negative config (Content-Length counts runes) was not rejected by Lossless (got %s)" % neg.violated)
    ck.set("framing_negative_config_rejected", True)

    # --- GEN --------------------------------------------------------------------------------------
    p = vlib.run([binp, "catalogue"])
    rows = json.loads(p.stdout.decode())
    num = 4000 if thorough else 600
    sim = vlib.tlc("MCFramingSim", "Framing_sim.cfg", files={"FramingCatalogue.tla": catalogue_module(rows)}, workers=1,
                   simulate="num=%d" % num, depth=800, tlc_seed=ck.seed, timeout=900, xss="512m")
    if sim.violated:
        raise vlib.InfraError("framing simulation violated %s in the model" % sim.violated)
    behs = sim.tagged("BEH")
    if len(behs) < num:
        raise vlib.InfraError("framing simulation printed %d of %d behaviours" % (len(behs), num))
    ck.add_tlc(sim, "Framing_sim (behaviours for replay)")
    uniq = {json.dumps(b, sort_keys=True) for b in behs}
    bpath = os.path.join(sc, "beh.ndjson")
    with open(bpath, "w") as fh:
        for b in behs:
            fh.write(json.dumps(b, sort_keys=True) + "\n")
    splits = 100000 if thorough else 6
    pr = vlib.run([binp, "framing", bpath, str(ck.seed), str(splits)], check=False, timeout=1500)
    s = vlib.harness_results(ck, pr, "framing: ")
    if s["behaviours"] != len(uniq):
        raise vlib.InfraError("framing harness replayed %d of %d behaviours" % (s["behaviours"], len(uniq)))
    need = {"none", "nocolon", "nonnumeric", "zero", "negative", "missing", "trunc-hdr", "trunc-body", "extra-before", "extra-after"}
    if not need <= set(s["variants"]):
        raise vlib.InfraError("variants never exercised: %s" % sorted(need - set(s["variants"])))
    if s["pipe_runs"] != s["behaviours"] or s["roundtrips"] != s["behaviours"]:
        raise vlib.InfraError("pipe/round-trip replays incomplete: %s" % s)
    ck.set("framing_behaviours_replayed", s["behaviours"])
    ck.set("framing_stream_runs", s["stream_runs"] + s["pipe_runs"] + s["roundtrips"])
    ck.set("framing_variants", s["variants"])
    ck.set("framing_error_classes", s["errors"])
    ck.set("framing_catalogue", [{k: r[k] for k in ("kind", "idk", "blen", "rlen")} for r in rows])

    # binding self-test: a behaviour whose expectation was corrupted must be reported
    bad = next((b for b in behs if b["class"] == "bad" and b["variant"] in ("zero", "nocolon", "missing", "negative")), None)
    if bad is None:
        raise vlib.InfraError("no malformed behaviour available for the binding self-test")
    forged = dict(bad)
    forged["class"] = "good"
    fpath = os.path.join(sc, "forged.ndjson")
    write_lines(fpath, [forged])
    pf = vlib.run([binp, "framing", fpath, str(ck.seed), "2"], check=False)
    if b'"kind":"fail"' not in pf.stdout:
        raise vlib.InfraError("binding self-test failed: a forged expectation (malformed frame expected to decode) was not reported")
    ck.set("framing_binding_selftest", "forged expectation reported")
    return s["behaviours"]


def classify_reject(case, hwm):
    """Name the invariant behind the first event of a rejected trace that no interleaving could match."""
    ev = case["ev"]
    if hwm < 1 or hwm > len(ev):
        return "JsonRpc.TraceRejected", "no event could be matched"
    e = ev[hwm - 1]
    before = ev[:hwm - 1]
    what = "event %d %s(%s) of the recorded execution has no matching step in JsonRpc.tla" % (hwm, e["e"], e["w"])
    if e["e"] == "wbeg":
        open_w = None
        for x in before:
            if x["e"] == "wbeg":
                open_w = x["w"]
            elif x["e"] == "wend":
                open_w = None
        if open_w is not None:
            return "JsonRpc.FramesNeverInterleave", what + ": writer %s is still between wbeg and wend (two writers inside stream.Write)" % open_w
        if 1 <= e["w"] <= 9 and not any(x["e"] == "reg" and x["w"] == e["w"] for x in before):
            return "JsonRpc.RegisteredBeforeSending", what + ": the call is written before its id is in pending"
    if e["e"] in ("reg", "del", "disp"):
        return "JsonRpc.PendingExact", what + ": pending map is %s (found=%s)" % (e["pend"], e["found"])
    if e["e"] == "ret":
        return "JsonRpc.Matched", what + ": Call returned %s" % e["res"]
    return "JsonRpc.TraceRejected." + e["e"], what


def conn(ck, thorough):
    sc = vlib.scratch()
    # --- MC ---------------------------------------------------------------------------------------
    mcfg = open(os.path.join(vlib.SPEC, "JsonRpc_mc.cfg")).read()
    if thorough:
        mcfg = mcfg.replace("NC = 2", "NC = 3").replace("NN = 1", "NN = 2")
    mc = vlib.tlc("JsonRpc", "mc.cfg", files={"mc.cfg": mcfg}, workers=16 if thorough else 8, timeout=1500, xmx="12g" if thorough else "4g")
    if not mc.ok:
        raise vlib.InfraError("JsonRpc model violates %s" % mc.violated)
    ck.add_tlc(mc, "JsonRpc_mc " + ("3 callers x 2 notifiers" if thorough else "2 callers x 1 notifier"))
    lcfg = open(os.path.join(vlib.SPEC, "JsonRpc_live.cfg")).read()
    if thorough:
        lcfg = lcfg.replace("NC = 2", "NC = 3").replace("NN = 0", "NN = 0").replace("MaxPN = 1", "MaxPN = 0")
    live = vlib.tlc("JsonRpc", "live.cfg", files={"live.cfg": lcfg}, workers=8, timeout=1500, xmx="8g")
    if not live.ok:
        raise vlib.InfraError("JsonRpc liveness (CallsReturn) does not hold in the model: %s" % live.violated)
    ck.add_tlc(live, "JsonRpc_live (CallsReturn)")
    for cfg, inv in (("JsonRpc_neg_nomutex.cfg", "FramesNeverInterleave"), ("JsonRpc_neg_unbuffered.cfg", "ReaderNeverBlocks"),
                     ("JsonRpc_neg_latereg.cfg", "RegisteredBeforeSending")):
        neg = vlib.tlc("JsonRpc", cfg, workers=1, timeout=300)
        if neg.violated != inv:
            raise vlib.InfraError("negative config %s was not rejected by %s (got %s)" % (cfg, inv, neg.violated))
    ck.set("conn_negative_configs_rejected", ["no writeMu", "unbuffered reply channel", "register after sending"])

    # --- hooks present? ---------------------------------------------------------------------------
    missing = hooks_present()
    if missing:
        raise vlib.InfraError("conn half of C18 not bound to the code: %s -- apply /verif/hooks/C18-jsonrpc2-conn.diff to %s "
                              "(the framing half and the model checks above were completed)" % (missing, vlib.REPO))

    # --- GEN: peer scripts on the real conn -------------------------------------------------------
    num = 2500 if thorough else 300
    sim = vlib.tlc("MCJsonRpcSim", "JsonRpc_sim.cfg", workers=1, simulate="num=%d" % num, depth=90, tlc_seed=ck.seed, timeout=900)
    if sim.violated:
        raise vlib.InfraError("conn simulation violated %s in the model" % sim.violated)
    hists = sim.tagged("HIST")
    uniq = sorted({json.dumps(h, sort_keys=True) for h in hists})
    if len(uniq) < num // 2:
        raise vlib.InfraError("conn simulation printed only %d settled behaviours" % len(uniq))
    ck.add_tlc(sim, "JsonRpc_sim (peer scripts)")
    hpath = os.path.join(sc, "hist.ndjson")
    with open(hpath, "w") as fh:
        for h in uniq:
            fh.write(h + "\n")
    binr = vlib.go_build("./c18", "c18race", tags=("verif", "c18hooks"), race=True)
    tpath = os.path.join(sc, "c18trace.ndjson")
    env = vlib.goenv()
    env["GORACE"] = "halt_on_error=1 exitcode=66"
    pr = vlib.run([binr, "conn", hpath, str(ck.seed), tpath, "6"], check=False, timeout=1500, env=env)
    if pr.returncode == 66 or b"WARNING: DATA RACE" in pr.stderr:
        m = re.search(rb"WARNING: DATA RACE.*?(?:\n\n|\Z)", pr.stderr, re.S)
        text = (m.group(0) if m else pr.stderr)[-3000:].decode(errors="replace")
        if "lsp/jsonrpc2" in text:
            ck.violation("JsonRpc.DataRace", "the race detector reports a data race inside lsp/jsonrpc2 while replaying peer scripts",
                         {"report": text})
            return 0
        raise vlib.InfraError("data race outside lsp/jsonrpc2 (harness bug?):\n" + text)
    s = vlib.harness_results(ck, pr, "conn: ")
    if s["fails"] == 0 and (s["cases"] != len(uniq) or s["traces"] != len(uniq)):
        raise vlib.InfraError("conn harness replayed %d of %d scripts" % (s["cases"], len(uniq)))
    ck.set("conn_scripts_replayed", s["cases"])
    ck.set("conn_hook_and_env_events", s["events"])
    ck.set("conn_script_steps", s["script_steps"])
    ck.set("conn_steps_not_realised_in_order", s["unrealised_steps"])
    ck.set("conn_outcome_other_side_of_race", s["diverged"])
    if s["fails"]:
        return s["cases"]
    if s["events"] < 10 * s["cases"]:
        raise vlib.InfraError("hooks silent: only %d events in %d cases" % (s["events"], s["cases"]))

    # --- VAL: TLC validates every recorded execution ---------------------------------------------
    cases = {}
    kinds = {}
    with open(tpath) as fh:
        for line in fh:
            c = json.loads(line)
            cases[c["id"]] = c
            for e in c["ev"]:
                kinds[e["e"]] = kinds.get(e["e"], 0) + 1
    for k in ("reg", "wbeg", "wend", "disp", "del", "cancel", "reply", "ret"):
        if kinds.get(k, 0) < len(cases) // 4:
            raise vlib.InfraError("event kind %s recorded only %d times in %d cases: a hook never fired" % (k, kinds.get(k, 0), len(cases)))
    ck.set("conn_event_kinds", kinds)
    trace_text = open(tpath).read()
    tv = vlib.tlc("TraceJsonRpc", "JsonRpc_trace.cfg", files={"c18trace.ndjson": trace_text}, workers=1, timeout=1500)
    if not tv.ok:
        raise vlib.InfraError("trace validation run failed: %s" % (tv.violated,))
    ck.add_tlc(tv, "TraceJsonRpc (recorded executions)")
    accepted = {a["id"] for a in tv.tagged("ACCEPT")}
    rejected = sorted(set(cases) - accepted)
    ck.set("conn_traces_accepted", len(accepted))
    if rejected:
        sub = [cases[i] for i in rejected[:20]]
        diag = vlib.tlc("TraceJsonRpc", "JsonRpc_tracediag.cfg", files={"c18trace.ndjson": "".join(json.dumps(c) + "\n" for c in sub)},
                        workers=1, timeout=600)
        hwm = {}
        for a in diag.tagged("AT"):
            hwm[a["id"]] = max(hwm.get(a["id"], 0), a["i"])
        for c in sub:
            sig, what = classify_reject(c, hwm.get(c["id"], 0))
            ck.violation(sig, "conn: " + what, {"events": ["%s(%s)%s" % (e["e"], e["w"], " pending=%s" % e["pend"] if e["e"] in ("reg", "del", "disp") else
                                                                         (" res=%s" % e["res"] if e["e"] == "ret" else "")) for e in c["ev"]],
                                                "rejected_at_event": hwm.get(c["id"], 0), "rejected_cases_this_run": len(rejected)})

    # binding self-test: a forged trace (a call returning another call's response) must be rejected
    donor = next((c for c in cases.values() if c["id"] in accepted and any(e["e"] == "ret" and e["res"] == e["w"] for e in c["ev"])), None)
    if donor is None:
        raise vlib.InfraError("no accepted trace with a matched response available for the binding self-test")
    forged = json.loads(json.dumps(donor))
    for e in forged["ev"]:
        if e["e"] == "ret" and e["res"] == e["w"]:
            e["res"] = e["w"] % 3 + 1
            break
    st = vlib.tlc("TraceJsonRpc", "JsonRpc_trace.cfg", files={"c18trace.ndjson": json.dumps(donor) + "\n" + json.dumps(dict(forged, id=-5)) + "\n"},
                  workers=1, timeout=300)
    acc = {a["id"] for a in st.tagged("ACCEPT")}
    if donor["id"] not in acc or -5 in acc:
        raise vlib.InfraError("binding self-test failed: forged trace (response delivered to the wrong call) was not rejected")
    ck.set("conn_binding_selftest", "forged trace rejected, original accepted")
    return len(accepted)


def main():
    ck = vlib.Check("C18", "model_checking")
    thorough = ck.tier == "thorough"
    binp = vlib.go_build("./c18", "c18")
    n1 = framing(ck, thorough, binp)
    try:
        n2 = conn(ck, thorough)
    except vlib.InfraError:
        if ck._nviol:      # the framing half already found a violation of the real code: report it
            ck.finish()
        raise
    ck.set("traces_validated_against_impl", n1 + n2)
    ck.set("bounds", {"framing": "closed reader: all inputs; bounded: <=%d messages x 20 variants x all cut points x chunks 1..%d|rest"
                                 % ((3, 2) if thorough else (2, 2)),
                      "conn": "%s, peer 1 notification + 1 call, cancel at every point" % ("3 callers x 2 notifiers" if thorough else "2 callers x 1 notifier (MC); 3 x 2 (scripts)")})
    ck.assume("header whitespace is ASCII; ParseInt's int32 boundary is modelled as 'more than 10 significant digits'")
    ck.assume("a body is decodable exactly when the bytes handed to the decoder are the complete JSON body that was sent")
    ck.assume("the peer answers each call at most once and drains its input (writes to the peer do not block forever)")
    ck.assume("real goroutine schedules are steered through the hook points and sampled, not enumerated; the exhaustive interleaving claim is for the model, tied to the code by trace validation")
    ck.finish()


vlib.main(main)
