\* C15 negative config: a worker that failed keeps its semaphore slot; with #failing files >= W the dispatcher blocks on the
\* acquire forever: TLC must report a deadlock (only the type invariant is listed, so that the deadlock itself is the verdict).
CONSTANTS
  MaxFiles = 2
  Trees <- TreesNegSlot
  Ws = {1, 2}
  FlagSets <- AllFlags
  Mutex = TRUE
  ErrsCloser = "postgen"
  MainReadsErrs = TRUE
  GenVariants = {1}
  SlotRelease = "onsuccess"
  TargetRule = "trimsuffix"
  WalkRule = "filesonly"
  OrphanStat = "fileonly"
  RootRule = "exempt"
  RootTrees <- TreesRoot
  SkipRule = "coded"
  TwoRuns = FALSE
  EmitCases = FALSE
INIT Init
NEXT Next
VIEW View
INVARIANTS TypeOK NoPanic
