#!/usr/bin/env python3
"""C17 -- the language server's document copy tracks the editor (spec/LspDoc.tla).

MC   : TLC checks ServerTracksEditor on the two-layer spec (reference splice vs transcribed
       documentcontents.go) for every document up to MaxLen x every range x the replacement texts;
       the negative config (original `||` in isWholeDocument) must be rejected.
GEN  : every transition TLC explored is printed and replayed on the real proxy.Document; random walks
       over the emitted graph run on ONE live Document and through DocumentContents.Apply batches;
       simulated long behaviours (documents up to ~25 chars, 40 edits) are replayed too.
"""
import json, os, sys
sys.path.insert(0, os.path.join(os.path.dirname(os.path.abspath(__file__)), "..", "lib"))
import vlib


def main():
    ck = vlib.Check("C17", "model_checking")
    thorough = ck.tier == "thorough"
    maxlen = 5 if thorough else 4

    def cfg(name):
        text = open(os.path.join(vlib.SPEC, name)).read()
        return text.replace("MaxLen = 4", "MaxLen = %d" % maxlen)

    # --- MC: design check and its negative twin -------------------------------------------------
    mc = vlib.tlc("MCLspDoc", "mc.cfg", files={"mc.cfg": cfg("LspDoc_mc.cfg")}, workers=8, timeout=900)
    if not mc.ok:
        raise vlib.InfraError("LspDoc model does not satisfy its invariants (%s): spec and code model disagree" % mc.violated)
    ck.add_tlc(mc, "LspDoc_mc MaxLen=%d" % maxlen)
    neg = vlib.tlc("MCLspDoc", "LspDoc_neg.cfg", workers=1, timeout=300)
    if neg.violated != "ServerTracksEditor":
        raise vlib.InfraError("negative config (|| in isWholeDocument) was not rejected: the invariant is vacuous")
    ck.set("negative_config_rejected", True)

    # --- GEN: every explored transition replayed on the real code ------------------------------
    gen = vlib.tlc("MCLspDoc", "gen.cfg", files={"gen.cfg": cfg("LspDoc_gen.cfg")}, workers=1, timeout=1800)
    edges = gen.tagged("EDGE")
    if not gen.ok or len(edges) != gen.generated - 1:
        raise vlib.InfraError("edge emission incomplete: %d edges for %d generated states" % (len(edges), gen.generated))
    ck.add_tlc(gen, "LspDoc_gen (edge emission)")
    sc = vlib.scratch()
    epath = os.path.join(sc, "edges.ndjson")
    with open(epath, "w") as fh:
        for e in edges:
            fh.write(json.dumps(e) + "\n")
    binp = vlib.go_build("./c17", "c17")
    walks, walklen = (4000, 40) if thorough else (800, 30)
    p = vlib.run([binp, "edges", epath, str(ck.seed), str(walks), str(walklen)], check=False)
    s = vlib.harness_results(ck, p)
    if s["edges"] != len(edges):
        raise vlib.InfraError("harness replayed %d of %d edges" % (s["edges"], len(edges)))
    if set(s["branches"]) < {"whole", "insert", "delete", "overwrite", "noop", "nil-range"}:
        raise vlib.InfraError("a branch of Document.Apply was never exercised: %s" % s["branches"])
    ck.set("edges_replayed", s["edges"])
    ck.set("model_drift_cases", s["drift"])
    ck.set("branches", s["branches"])
    ck.set("walk_steps", s["walk_steps"])

    # --- GEN: simulated long behaviours ---------------------------------------------------------
    num = 2000 if thorough else 300
    sim = vlib.tlc("MCLspDocSim", "LspDoc_sim.cfg", workers=1, simulate="num=%d" % num, depth=41,
                   tlc_seed=ck.seed, timeout=900)
    if sim.violated:
        raise vlib.InfraError("simulation violated %s in the model" % sim.violated)
    hists = sim.tagged("HIST")
    if len(hists) < num:
        raise vlib.InfraError("simulation printed %d of %d behaviours" % (len(hists), num))
    hpath = os.path.join(sc, "hist.ndjson")
    with open(hpath, "w") as fh:
        for h in hists:
            fh.write(json.dumps(h) + "\n")
    p = vlib.run([binp, "hist", hpath], check=False)
    s2 = vlib.harness_results(ck, p)
    if s2["behaviours"] != len(hists):
        raise vlib.InfraError("harness replayed %d of %d behaviours" % (s2["behaviours"], len(hists)))
    ck.set("simulated_behaviours", s2["behaviours"])
    ck.set("simulated_steps", s2["steps"])
    ck.set("max_doc_len_simulated", s2["max_doc_len"])

    # --- LspSession.tla: the document's life cycle on a real proxy.Server ------------------------------------
    smc = vlib.tlc("LspSession", "LspSession_mc.cfg", workers=1, timeout=300)
    ck.add_tlc(smc, "LspSession_mc")
    if not smc.ok:
        raise vlib.InfraError("LspSession_mc: %s violated in the model" % smc.violated)
    sneg = vlib.tlc("LspSession", "LspSession_neg.cfg", workers=1, timeout=300)
    if sneg.violated != "ServerTracksEditor":
        raise vlib.InfraError("LspSession_neg (DidOpen keeps the preloaded copy) was not rejected by ServerTracksEditor")
    snum = 1500 if thorough else 300
    ssim = vlib.tlc("MCLspSession", "LspSession_sim.cfg", workers=1, simulate="num=%d" % snum, depth=20,
                    tlc_seed=ck.seed, timeout=600)
    if ssim.violated:
        raise vlib.InfraError("LspSession simulation violated %s in the model" % ssim.violated)
    sh = []
    seen = set()
    for h in ssim.tagged("HIST"):
        k = json.dumps(h, sort_keys=True)
        if k not in seen:
            seen.add(k)
            sh.append(h)
    if len(sh) < snum // 2:
        raise vlib.InfraError("LspSession simulation printed only %d distinct behaviours" % len(sh))
    spath = vlib.write_ndjson(os.path.join(sc, "session.ndjson"), sh)
    p = vlib.run([binp, "session", spath], check=False)
    s3 = vlib.harness_results(ck, p, "document life cycle: ")
    if s3["behaviours"] != len(sh):
        raise vlib.InfraError("session harness replayed %d of %d behaviours" % (s3["behaviours"], len(sh)))
    ck.set("session_behaviours", s3["behaviours"])
    ck.set("session_steps", s3["steps"])
    ck.set("session_negative_config", "DidOpen that keeps the preloaded copy violates ServerTracksEditor")
    if thorough:
        ck.set("session_apalache_obligations", vlib.apalache_inductive(
            "LspSession", "LspSession_apalache.cfg", "IndInit", "IndInv", "ServerTracksEditor",
            ('OpenRule = "replace"', 'OpenRule = "keepPreloaded"')))

    ck.set("traces_validated_against_impl", len(edges) + s2["behaviours"] + walks + s3["behaviours"])
    ck.set("exhaustive", True)
    ck.set("bounds", {"MaxLen": maxlen, "coordinates": "0..MaxLen+1", "texts": 7})
    ck.set("rule", "every (document <= MaxLen over {letter,newline}) x (start<=end range, each coordinate 0..MaxLen+1) x 7 texts, "
                   "each replayed as NewDocument(from).Apply(range,text); plus walks/simulated sequences on one live Document")
    ck.assume("ASCII documents: UTF-16 units = bytes (the property's quantifier is {letter, newline})")
    ck.assume("LSP ranges have start <= end")
    ck.finish()


vlib.main(main)
