---------------------------- MODULE RenderPoolOps ----------------------------
(* Pool protocol shared by the process-level model (RenderPool.tla, C14) and the trace spec that
   validates the `verif` pool-hook events of the real code (TraceRenderPool.tla, C10 + C14).

   h  : the holding relation, a set of pairs <<buffer object, render>>: the render currently holds
        (= may still touch) the buffer
   p  : set of buffer objects inside sync.Pool
   A render holds a buffer from Get until its last use; Put makes the object available to others.  *)
EXTENDS Integers, FiniteSets

HoldersOf(h, b) == {x[2] : x \in {y \in h : y[1] = b}}
\* sync.Pool.Get hands r the object b (a pooled one, or a new one that nobody has seen yet)
HGet(h, r, b)  == h \cup {<<b, r>>}
PGet(p, b)     == p \ {b}
\* r will not touch b any more
HDrop(h, r, b) == h \ {<<b, r>>}
\* sync.Pool.Put
PPut(p, b)     == p \cup {b}

\* the same for a pool kept as a bag [object -> number of times it is in the pool]
BGet(p, b)     == [p EXCEPT ![b] = @ - 1]
BPut(p, b)     == [p EXCEPT ![b] = @ + 1]

GetLegal(h, r, b) == HoldersOf(h, b) = {}        \* nobody holds what the pool hands out
UseLegal(h, r, b) == HoldersOf(h, b) = {r}       \* only its single holder touches a buffer
Holds(h, r) == \E x \in h : x[2] = r

\* C14 ExclusiveBuffer: no buffer object is held by two renders at once
Exclusive(h) == \A x, y \in h : x[1] = y[1] => x = y
\* a pooled object is not held by anybody (Put happens after the last use)
PooledUnheld(h, p) == \A x \in h : x[1] \notin p
BagUnheld(h, p) == \A x \in h : p[x[1]] = 0
=============================================================================
