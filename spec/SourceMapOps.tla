---------------------------- MODULE SourceMapOps ----------------------------
(* Operators shared by SourceMap.tla (model checking) and TraceSourceMap.tla (validation of lookups
   recorded from the real code): the position algebra, RangeWriter.write and SourceMap.Add, each
   transcribed rune by rune.  See SourceMap.tla for the description.                              *)
EXTENDS Integers, Sequences, FiniteSets, TLC

CONSTANTS ColMode,    \* "bytes" = the code; "runes" = columns advanced by 1 per rune (negative config)
          EolEntry    \* TRUE = the code; FALSE = no entry past the end of a line (negative config)

-----------------------------------------------------------------------------
(* positions and the position algebra *)
Pos(i, l, c) == [idx |-> i, line |-> l, col |-> c]
NL == 0                       \* the newline symbol (a rune is its width 1..4)
IsNL(s) == s = NL
W(s) == IF IsNL(s) THEN 1 ELSE s

Advance(p, s) == IF IsNL(s) THEN Pos(p.idx + 1, p.line + 1, 0)
                 ELSE Pos(p.idx + s, p.line, p.col + s)
RECURSIVE AdvanceAll(_, _)
AdvanceAll(p, ss) == IF ss = <<>> THEN p ELSE AdvanceAll(Advance(p, Head(ss)), Tail(ss))

RECURSIVE Flatten(_)
Flatten(ls) == IF Len(ls) = 1 THEN ls[1] ELSE ls[1] \o <<NL>> \o Flatten(Tail(ls))

-----------------------------------------------------------------------------
(* generator/rangewriter.go: write(s) *)
WriteRune(c, s) ==
    LET c1 == [c EXCEPT !.col = @ + W(s)]                                 \* rw.Current.Col += uint32(rlen)
        c2 == IF IsNL(s) THEN [c1 EXCEPT !.line = @ + 1, !.col = 0] ELSE c1   \* if c == '\n' { Line++; Col = 0 }
    IN  [c2 EXCEPT !.idx = @ + W(s)]                                      \* rw.Current.Index += int64(rlen)

\* returns [cur, log]: the writer position after ss and the position each symbol was written at
RECURSIVE WriteAll(_, _, _)
WriteAll(c, ss, log) == IF ss = <<>> THEN [cur |-> c, log |-> log]
                        ELSE WriteAll(WriteRune(c, Head(ss)), Tail(ss), Append(log, c))

-----------------------------------------------------------------------------
(* parser/v2/sourcemap.go: tables keyed by <<line, col>> *)
Empty == [k \in {} |-> Pos(0, 0, 0)]
Put(f, l, c, v) == (<<l, c>> :> v) @@ f          \* a later entry for the same key overwrites (Go map assignment)
HasLine(f, l) == \E k \in DOMAIN f : k[1] = l

\* loop state of Add: [s2t, t2s, sc, tc, si, ti]
AddRune(st, sl, tl, w) ==                          \* body of `for _, r := range line`
    LET dc == IF ColMode = "bytes" THEN w ELSE 1
    IN  [s2t |-> Put(st.s2t, sl, st.sc, Pos(st.ti, tl, st.tc)),
         t2s |-> Put(st.t2s, tl, st.tc, Pos(st.si, sl, st.sc)),
         sc |-> st.sc + dc, tc |-> st.tc + dc, si |-> st.si + w, ti |-> st.ti + w]

RECURSIVE AddRunes(_, _, _, _)
AddRunes(st, sl, tl, line) == IF line = <<>> THEN st
                              ELSE AddRunes(AddRune(st, sl, tl, Head(line)), sl, tl, Tail(line))

AddEol(st, sl, tl) ==                              \* "LSPs include the newline char as a col", then srcIndex++, tgtIndex++
    LET st1 == IF EolEntry
               THEN [st EXCEPT !.s2t = Put(st.s2t, sl, st.sc, Pos(st.ti, tl, st.tc)),
                               !.t2s = Put(st.t2s, tl, st.tc, Pos(st.si, sl, st.sc))]
               ELSE st
    IN  [st1 EXCEPT !.si = @ + 1, !.ti = @ + 1]

\* for lineIndex, line := range lines
RECURSIVE AddLines(_, _, _, _, _)
AddLines(st, ls, k, sfrom, tfrom) ==
    IF k > Len(ls) THEN st
    ELSE LET sl == sfrom.line + (k - 1)
             tl == tfrom.line + (k - 1)
             st0 == [st EXCEPT !.sc = IF k = 1 THEN sfrom.col ELSE 0,      \* "First line can have an offset."
                               !.tc = IF k = 1 THEN tfrom.col ELSE 0]
         IN  AddLines(AddEol(AddRunes(st0, sl, tl, ls[k]), sl, tl), ls, k + 1, sfrom, tfrom)

\* SourceMap.Add(src, tgt) on tables (a, b): uses src.Range.From, tgt.From and the lines of src.Value
AddTables(a, b, ls, sfrom, tfrom) ==
    AddLines([s2t |-> a, t2s |-> b, sc |-> 0, tc |-> 0, si |-> sfrom.idx, ti |-> tfrom.idx], ls, 1, sfrom, tfrom)

TargetFromSource(f, l, c) == IF <<l, c>> \in DOMAIN f THEN [ok |-> TRUE, p |-> f[<<l, c>>]]
                             ELSE [ok |-> FALSE, p |-> Pos(0, 0, 0)]
\* "If a source exists on the line but not the col, the function will search backwards."
RECURSIVE SearchBack(_, _, _)
SearchBack(f, l, c) == IF <<l, c>> \in DOMAIN f THEN [ok |-> TRUE, p |-> f[<<l, c>>]]
                       ELSE IF c = 0 THEN [ok |-> FALSE, p |-> Pos(0, 0, 0)]
                       ELSE SearchBack(f, l, c - 1)
SourceFromTarget(f, l, c) == IF ~HasLine(f, l) THEN [ok |-> FALSE, p |-> Pos(0, 0, 0)] ELSE SearchBack(f, l, c)

-----------------------------------------------------------------------------
(* parser/v2/sourcemap.go: AddSymbolRange / SymbolTargetRangeFromSource.  The table is a map of
   per-line maps keyed by the column: <<line, col>> -> range.  SymLineMap = "recreate" transcribes
       sm.SourceSymbolRangeToTarget[src.From.Line] = make(map[uint32]Range)
   executed on EVERY call: a second declaration starting on the same templ line drops the first
   one's entry.  "keep" creates the per-line map only when the line has none.                  *)
CONSTANT SymLineMap
DropLine(f, l) == [k \in {x \in DOMAIN f : x[1] # l} |-> f[k]]
AddSym(f, l, c, r) == (<<l, c>> :> r) @@ (IF SymLineMap = "recreate" THEN DropLine(f, l) ELSE f)
SymFound(f, l, c) == <<l, c>> \in DOMAIN f
=============================================================================
