---------------------------- MODULE MCRenderPool ----------------------------
EXTENDS RenderPool
G2 == {1, 2}
G3 == {1, 2, 3}
Fail12 == <<1, 2>>      \* the writer of goroutine 1's second render fails midway
Fail11 == <<1, 1>>
NoStall == <<0, 0>>
Stall11 == <<1, 1>>
PlainOnly == {"plain"}
AllDests == {"plain", "bufioBig", "bufioSmall", "buffer"}
BufioDests == {"plain", "bufioBig"}
=============================================================================
