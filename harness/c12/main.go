// c12 replays TLC-generated transitions and histories of spec/RenderCtxRegistry.tla on the real runtime of the
// repository under test: every use kind is a real generated template (uses.templ), rendered in contexts
// created as the model says (initialised once / made by CSSMiddleware inside a real HTTP request / not
// initialised); the output is tokenised with x/net/html and projected to def/use/body tokens.
//
//	c12 edges <edges.ndjson> <seed>      every explored transition (path to the source state is reconstructed)
//	c12 hist  <hist.ndjson> <seed>       simulated long histories
package main

import (
	"bytes"
	"context"
	"encoding/json"
	"fmt"
	"io"
	"net/http"
	"net/http/httptest"
	"os"
	"sort"
	"strconv"
	"strings"
	"sync"

	"github.com/a-h/templ"
	"golang.org/x/net/html"

	"verifharness/vhlib"
)

// ---------------------------------------------------------------------------------------------------
// spec records
// ---------------------------------------------------------------------------------------------------
type tok struct {
	T string `json:"t"`
	X string `json:"x"`
}

func (t tok) String() string { return t.T + "(" + t.X + ")" }

type item struct {
	F string `json:"f"`
	K string `json:"k"`
	B bool   `json:"b"`
}

type args struct {
	S1 string   `json:"s"`
	S  []string `json:"S"`
	E  struct {
		Cont  string `json:"cont"`
		Items []item `json:"items"`
	} `json:"e"`
	K string `json:"k"`
	H string `json:"h"`
	// second id (else-arm) and condition of a use inside a conditional attribute
	T    string `json:"t"`
	Cond bool   `json:"cond"`
}

type label struct {
	A      string   `json:"a"`
	C      string   `json:"c"`
	Args   args     `json:"args"`
	Toks   []tok    `json:"toks"`
	Before []string `json:"before"`
	Must   []string `json:"must"`
	// once handles used by this step: a handle not yet in the context's document renders its content now
	MustBody []string `json:"mustbody"`
	Tags   []string `json:"tags"`
	Viol   []string `json:"viol"`
	// uses: how many times WithNonce has been applied to the context so far (0 = none); SetNonce: the index it sets
	Nonce int `json:"nonce"`
}

type ctxState struct {
	M string `json:"m"`
}

type state struct {
	Init bool       `json:"init"`
	Ctx  []ctxState `json:"ctx"`
}

type edge struct {
	From    json.RawMessage `json:"from"`
	Lbl     label           `json:"lbl"`
	To      json.RawMessage `json:"to"`
	fromKey string
	toKey   string
	from    state
}

func toksString(ts []tok) string {
	ss := make([]string, len(ts))
	for i, t := range ts {
		ss[i] = t.String()
	}
	return strings.Join(ss, " ")
}

// ---------------------------------------------------------------------------------------------------
// concretisation of the abstract ids
// ---------------------------------------------------------------------------------------------------
type world struct {
	name    string
	scripts map[string]templ.ComponentScript
	classes map[string]templ.ComponentCSSClass
	funcs   map[string]func() templ.CSSClass
	handles map[string]*templ.OnceHandle
	reg     []string // classes registered with the middleware, in order
	srv     *httptest.Server
	mu      sync.Mutex
	sess    map[string]*session
	nsess   int
}

const unknownTypeClassName = "--templ-css-class-unknown-type"

func newWorld(name string, reg []string) *world {
	w := &world{name: name, scripts: map[string]templ.ComponentScript{}, classes: map[string]templ.ComponentCSSClass{},
		funcs: map[string]func() templ.CSSClass{}, handles: map[string]*templ.OnceHandle{}, reg: reg, sess: map[string]*session{}}
	switch name {
	case "colliding":
		// a script and a class that share ONE name: the registry must still keep them apart
		for id, nm := range map[string]string{"1": "vx_a", "2": "vx_b"} {
			w.scripts["s"+id] = templ.ComponentScript{Name: nm, Function: "function " + nm + "(){}", Call: nm + "()", CallInline: nm + "()"}
			cc := templ.ComponentCSSClass{ID: nm, Class: templ.SafeCSS("." + nm + "{color:red;}")}
			w.classes["k"+id] = cc
			w.funcs["k"+id] = func() templ.CSSClass { return cc }
		}
	case "generated":
		w.scripts["s1"], w.scripts["s2"] = gs1(), gs2()
		w.classes["k1"], w.classes["k2"] = gk1().(templ.ComponentCSSClass), gk2().(templ.ComponentCSSClass)
		w.funcs["k1"], w.funcs["k2"] = gk1, gk2
	}
	w.handles["h1"] = templ.NewOnceHandle()
	w.handles["h2"] = templ.NewOnceHandle()
	w.handles["g1"] = templ.NewOnceHandle(templ.WithComponent(fixedBody("g1")))
	// zero-value handles: OnceHandle is an exported struct whose zero value is usable; every such handle has id 0,
	// distinct variables are distinct handles
	var z1 templ.OnceHandle
	w.handles["z1"] = &z1
	w.handles["z2"] = new(templ.OnceHandle)
	var regClasses []templ.CSSClass
	for _, k := range reg {
		regClasses = append(regClasses, w.classes[k])
	}
	next := http.HandlerFunc(func(rw http.ResponseWriter, r *http.Request) {
		w.mu.Lock()
		s := w.sess[r.URL.Path]
		w.mu.Unlock()
		if s == nil {
			http.Error(rw, "no session", 599)
			return
		}
		// the uses of this context are rendered while the request is being served; a command may derive a new
		// context for the rest of the request (templ.WithNonce: a nonce middleware inside the CSS middleware)
		ctx := r.Context()
		for f := range s.cmds {
			ctx = f(ctx)
		}
		io.WriteString(rw, "done")
	})
	w.srv = httptest.NewServer(templ.NewCSSMiddleware(next, regClasses...))
	return w
}

// session = one HTTP request through CSSMiddleware whose handler renders what the harness asks for
type session struct {
	cmds     chan func(context.Context) context.Context
	finished chan error
}

func (w *world) openSession() *session {
	s := &session{cmds: make(chan func(context.Context) context.Context), finished: make(chan error, 1)}
	w.mu.Lock()
	w.nsess++
	path := "/s/" + strconv.Itoa(w.nsess)
	w.sess[path] = s
	w.mu.Unlock()
	go func() {
		res, err := w.srv.Client().Get(w.srv.URL + path)
		if err == nil {
			b, _ := io.ReadAll(res.Body)
			res.Body.Close()
			if res.StatusCode != 200 || string(b) != "done" {
				err = fmt.Errorf("session response %d %q", res.StatusCode, b)
			}
		}
		w.mu.Lock()
		delete(w.sess, path)
		w.mu.Unlock()
		s.finished <- err
	}()
	return s
}

func (s *session) do(f func(context.Context)) {
	s.doCtx(func(ctx context.Context) context.Context { f(ctx); return ctx })
}

// doCtx runs f inside the request; the context f returns is the request's context from then on.
func (s *session) doCtx(f func(context.Context) context.Context) {
	done := make(chan struct{})
	select {
	case s.cmds <- func(ctx context.Context) context.Context { defer close(done); return f(ctx) }:
		<-done
	case err := <-s.finished:
		vhlib.Fatal("middleware session ended early: %v", err)
	}
}

func (s *session) close() {
	close(s.cmds)
	if err := <-s.finished; err != nil {
		vhlib.Fatal("middleware session: %v", err)
	}
}

// rctx is one context of the model, realised.
type rctx struct {
	mode string
	ctx  context.Context
	sess *session
}

func (w *world) newCtx(mode string) *rctx {
	switch mode {
	case "plain":
		return &rctx{mode: mode, ctx: templ.InitializeContext(context.Background())}
	case "fresh":
		return &rctx{mode: mode, ctx: context.Background()}
	case "mw":
		return &rctx{mode: mode, sess: w.openSession()}
	}
	vhlib.Fatal("unknown mode %s", mode)
	return nil
}

func (c *rctx) render(comp templ.Component) (string, error) {
	var buf bytes.Buffer
	var err error
	if c.sess != nil {
		c.sess.do(func(ctx context.Context) { err = comp.Render(ctx, &buf) })
	} else {
		err = comp.Render(c.ctx, &buf)
	}
	return buf.String(), err
}

func nonceValue(ctxName string, idx int) string {
	if idx == 0 {
		return ""
	}
	return fmt.Sprintf("nonce-%s-%d", ctxName, idx)
}

// setNonce is the model's SetNonce: ctx = templ.WithNonce(ctx, nonce) at this point of the history. It returns what
// templ.GetNonce reports for the derived context.
func (c *rctx) setNonce(nonce string) string {
	var got string
	if c.sess != nil {
		c.sess.doCtx(func(ctx context.Context) context.Context {
			ctx = templ.WithNonce(ctx, nonce)
			got = templ.GetNonce(ctx)
			return ctx
		})
	} else {
		c.ctx = templ.WithNonce(c.ctx, nonce)
		got = templ.GetNonce(c.ctx)
	}
	return got
}

func (c *rctx) close() {
	if c.sess != nil {
		c.sess.close()
	}
}

// component builds the real generated template call for one action of the model.
func (w *world) component(l label, nest int) templ.Component {
	var c templ.Component
	switch l.A {
	case "RenderScriptComponent":
		c = scriptComp(w.scripts[l.Args.S1])
	case "ElementWithOnAttrs":
		if len(l.Args.S) == 1 {
			c = onAttrs1(w.scripts[l.Args.S[0]])
		} else {
			c = onAttrs2(w.scripts[l.Args.S[0]], w.scripts[l.Args.S[1]])
		}
	case "ElementWithClasses":
		vals := make([]any, len(l.Args.E.Items))
		for i, it := range l.Args.E.Items {
			vals[i] = w.itemValue(it)
		}
		switch l.Args.E.Cont {
		case "list":
			if len(vals) == 1 {
				c = classList1(vals[0])
			} else {
				c = classList2(vals[0], vals[1])
			}
		case "classes":
			if len(vals) == 1 {
				c = classClasses1(vals[0])
			} else {
				c = classClasses2(vals[0], vals[1])
			}
		case "sliceCSSClass":
			var s []templ.CSSClass
			for _, it := range l.Args.E.Items {
				s = append(s, w.classes[it.K])
			}
			c = classList1(s)
		case "sliceKV":
			var s []templ.KeyValue[templ.CSSClass, bool]
			for _, it := range l.Args.E.Items {
				s = append(s, templ.KV(templ.CSSClass(w.classes[it.K]), it.B))
			}
			c = classList1(s)
		default:
			vhlib.Fatal("unknown container %q", l.Args.E.Cont)
		}
	case "ElementWithClassAndOn":
		c = classAndOn(w.classes[l.Args.K], w.scripts[l.Args.S1])
	case "ElementWithCondOn":
		c = condOn(l.Args.Cond, w.scripts[l.Args.S1], w.scripts[l.Args.T])
	case "ElementWithCondClass":
		c = condClass(l.Args.Cond, w.classes[l.Args.K], w.classes[l.Args.T])
	case "OnceWithBlock":
		c = onceBlock(w.handles[l.Args.H], l.Args.H)
	case "OnceNested":
		inner := onceBlock(w.handles[l.Args.T], l.Args.T)
		if nest != 0 {
			inner = section(inner) // the use of the handle sits deeper inside the guarded content
		}
		c = onceNested(w.handles[l.Args.H], l.Args.H, inner)
	case "OnceWithComponent":
		c = onceFixed(w.handles[l.Args.H])
	default:
		vhlib.Fatal("unknown action %q", l.A)
	}
	switch nest {
	case 1:
		return section(c)
	case 2:
		return viaBlock(c)
	}
	return c
}

func (w *world) itemValue(it item) any {
	cc := w.classes[it.K]
	switch it.F {
	case "comp":
		return cc
	case "func":
		return w.funcs[it.K]
	case "kv":
		return templ.KV(templ.CSSClass(cc), it.B)
	case "kvComp":
		return templ.KV(cc, it.B)
	}
	vhlib.Fatal("unknown item form %q", it.F)
	return nil
}

// tagInfo is one emitted <script>/<style> start tag and its nonce attribute.
type tagInfo struct {
	Tag      string
	HasNonce bool
	Nonce    string
}

// project turns rendered bytes into the specification's tokens (and lists the script/style start tags).
func (w *world) project(doc string) ([]tok, []tagInfo, error) {
	var out []tok
	var tags []tagInfo
	z := html.NewTokenizer(strings.NewReader(doc))
	in := ""
	type hit struct {
		pos int
		t   tok
	}
	for {
		switch z.Next() {
		case html.ErrorToken:
			return out, tags, nil
		case html.StartTagToken, html.SelfClosingTagToken:
			t := z.Token()
			in = ""
			switch t.Data {
			case "script", "style":
				in = t.Data
				ti := tagInfo{Tag: t.Data}
				for _, a := range t.Attr {
					if a.Key == "nonce" {
						ti.HasNonce, ti.Nonce = true, a.Val
					}
				}
				tags = append(tags, ti)
			case "section", "article":
			case "b":
				for _, a := range t.Attr {
					if a.Key == "data-once" {
						out = append(out, tok{"body", a.Val})
					}
				}
			case "button", "div":
				for _, a := range t.Attr {
					switch {
					case a.Key == "class":
						for _, nm := range strings.Fields(a.Val) {
							found := false
							for _, k := range []string{"k1", "k2"} {
								if w.classes[k].ID == nm {
									out = append(out, tok{"use", k})
									found = true
								}
							}
							if nm == unknownTypeClassName {
								out = append(out, tok{"unknown", ""})
								found = true
							}
							if !found {
								return nil, nil, fmt.Errorf("unexpected class name %q", nm)
							}
						}
					case strings.HasPrefix(a.Key, "on"):
						found := false
						for _, s := range []string{"s1", "s2"} {
							if w.scripts[s].Call == a.Val {
								out = append(out, tok{"use", s})
								found = true
							}
						}
						if !found {
							return nil, nil, fmt.Errorf("unexpected handler %q", a.Val)
						}
					}
				}
			default:
				return nil, nil, fmt.Errorf("unexpected element <%s>", t.Data)
			}
		case html.EndTagToken:
			in = ""
		case html.TextToken:
			txt := string(z.Text())
			switch in {
			case "script":
				var hits []hit
				for _, s := range []string{"s1", "s2"} {
					sc := w.scripts[s]
					if txt == sc.CallInline {
						hits = append(hits, hit{0, tok{"use", s}})
						continue
					}
					needle := "function " + sc.Name + "("
					for off := 0; ; {
						i := strings.Index(txt[off:], needle)
						if i < 0 {
							break
						}
						hits = append(hits, hit{off + i, tok{"def", s}})
						off += i + len(needle)
					}
				}
				if len(hits) == 0 {
					return nil, nil, fmt.Errorf("unexpected script %q", txt)
				}
				sort.Slice(hits, func(a, b int) bool { return hits[a].pos < hits[b].pos })
				for _, h := range hits {
					out = append(out, h.t)
				}
			case "style":
				ts, err := w.rules(txt, "def")
				if err != nil {
					return nil, nil, err
				}
				out = append(out, ts...)
			default:
				if strings.TrimSpace(txt) != "" && txt != "x" {
					return nil, nil, fmt.Errorf("unexpected text %q", txt)
				}
			}
		}
	}
}

// rules lists the CSS rules of known classes in a stylesheet text, in order.
func (w *world) rules(txt, kind string) ([]tok, error) {
	type hit struct {
		pos int
		t   tok
	}
	var hits []hit
	total := 0
	for _, k := range []string{"k1", "k2"} {
		rule := string(w.classes[k].Class)
		for off := 0; ; {
			i := strings.Index(txt[off:], rule)
			if i < 0 {
				break
			}
			hits = append(hits, hit{off + i, tok{kind, k}})
			off += i + len(rule)
			total += len(rule)
		}
	}
	if total != len(txt) {
		return nil, fmt.Errorf("unexpected css %q", txt)
	}
	sort.Slice(hits, func(a, b int) bool { return hits[a].pos < hits[b].pos })
	var out []tok
	for _, h := range hits {
		out = append(out, h.t)
	}
	return out, nil
}

// violations evaluates the step properties of C12 on real tokens.
func violations(toks []tok, before, must, mustBody []string, mode string, reg []string) []string {
	has := func(xs []string, x string) bool {
		for _, v := range xs {
			if v == x {
				return true
			}
		}
		return false
	}
	var v []string
	add := func(s string) {
		if !has(v, s) {
			v = append(v, s)
		}
	}
	for i, t := range toks {
		earlier := func(tt tok) bool {
			for j := 0; j < i; j++ {
				if toks[j] == tt {
					return true
				}
			}
			return false
		}
		switch t.T {
		case "def", "body":
			if has(before, t.X) || earlier(t) {
				add("AtMostOnce")
			}
			if t.T == "def" && mode == "mw" && has(reg, t.X) {
				add("MiddlewareNeverInlined")
			}
		case "use":
			if !has(before, t.X) && !earlier(tok{"def", t.X}) && !(mode == "mw" && has(reg, t.X)) {
				add("DefBeforeFirstUse")
			}
		}
	}
	for _, h := range mustBody {
		if !has(before, h) {
			found := false
			for _, t := range toks {
				if t == (tok{"body", h}) {
					found = true
				}
			}
			if !found {
				add("DefBeforeFirstUse") // first use of the handle in this document, but its content is not emitted
			}
		}
	}
	for _, m := range must {
		found := false
		for _, t := range toks {
			if t == (tok{"use", m}) {
				found = true
			}
		}
		if !found {
			add("EveryUseHasCallOrName")
		}
	}
	sort.Strings(v)
	return v
}

// ---------------------------------------------------------------------------------------------------
type report struct {
	World   string   `json:"concretisation"`
	Modes   []string `json:"context_modes"`
	Path    []string `json:"history"`
	Action  string   `json:"action"`
	Ctx     string   `json:"context"`
	Nesting string   `json:"nesting"`
	Before  []string `json:"defined_before"`
	Spec    string   `json:"spec_tokens"`
	Real    string   `json:"real_tokens"`
	Output  string   `json:"real_output"`
	Viol    []string `json:"violated"`
	Nonce   string   `json:"nonce_in_force,omitempty"`
}

func describe(l label) string {
	b, _ := json.Marshal(l.Args)
	return l.A + "@" + l.C + " " + string(b)
}

var nestNames = []string{"direct", "inside a component", "inside a child block"}

type runner struct {
	w        *world
	ctxNames []string
	fails    int
	drift    int
	steps    int
	samples  int
	tagStats map[string]*[2]int // tag -> {real == as-predicted, real != predicted}
	sigs     map[string]int
	actions  map[string]int
	// nonce binding (bonus, never a verdict about C12): the start tags of the last step, what GetNonce said after the last
	// SetNonce, and counters
	lastTags     []tagInfo
	lastGetNonce string
	nonceScripts int // <script> tags that carried the nonce in force
	nonceSets    int // SetNonce steps applied (checked steps and history prefixes)
	afterNonce   int // checked uses in a context whose nonce had been set before
}

// step performs one action on the realised contexts and returns the real tokens.
func (r *runner) step(ctxs map[string]*rctx, l label, nest int) ([]tok, string, error) {
	r.lastTags = nil
	if l.A == "StylesheetRequest" {
		res, err := r.w.srv.Client().Get(r.w.srv.URL + "/styles/templ.css")
		if err != nil {
			return nil, "", err
		}
		b, _ := io.ReadAll(res.Body)
		res.Body.Close()
		if ct := res.Header.Get("Content-Type"); ct != "text/css" {
			return nil, string(b), fmt.Errorf("stylesheet content type %q", ct)
		}
		ts, err := r.w.rules(string(b), "served")
		return ts, string(b), err
	}
	c := ctxs[l.C]
	if c == nil {
		return nil, "", fmt.Errorf("no context %q", l.C)
	}
	if l.A == "SetNonce" {
		// ctx = templ.WithNonce(ctx, nonce) at this point of the history; nothing is written
		r.lastGetNonce = c.setNonce(nonceValue(l.C, l.Nonce))
		r.nonceSets++
		return nil, "", nil
	}
	doc, err := c.render(r.w.component(l, nest))
	if err != nil {
		return nil, doc, err
	}
	ts, tags, err := r.w.project(doc)
	r.lastTags = tags
	return ts, doc, err
}

// withoutNonce replays the same history with every SetNonce left out and evaluates the step properties on the last
// step: tells a violation that WithNonce causes from one that is there anyway. ok = the comparison is meaningful.
func (r *runner) withoutNonce(modes []string, labels []label, l label, nest int) (viol []string, ok bool) {
	set := false
	for _, p := range labels {
		if p.A == "SetNonce" && p.C == l.C {
			set = true
		}
	}
	mode := ""
	for i, n := range r.ctxNames {
		if n == l.C && i < len(modes) {
			mode = modes[i]
		}
	}
	if !set || mode == "fresh" || l.A == "SetNonce" || l.A == "StylesheetRequest" {
		return nil, false // (a fresh context is initialised by WithNonce: without it the history means something else)
	}
	ctxs := map[string]*rctx{}
	for i, m := range modes {
		ctxs[r.ctxNames[i]] = r.w.newCtx(m)
	}
	defer func() {
		for _, c := range ctxs {
			c.close()
		}
	}()
	sets := r.nonceSets
	defer func() { r.nonceSets = sets }()
	for _, p := range labels {
		if p.A == "SetNonce" {
			continue
		}
		if _, _, err := r.step(ctxs, p, 0); err != nil {
			return nil, false
		}
	}
	ts, _, err := r.step(ctxs, l, nest)
	if err != nil {
		return nil, false
	}
	return violations(ts, l.Before, l.Must, l.MustBody, mode, r.w.reg), true
}

// replay runs a history (path) and then checks the last label against the real code.
func (r *runner) replay(modes []string, path []label, last label, nest int) {
	ctxs := map[string]*rctx{}
	for i, m := range modes {
		ctxs[r.ctxNames[i]] = r.w.newCtx(m)
	}
	defer func() {
		for _, c := range ctxs {
			c.close()
		}
	}()
	var hist []string
	for _, l := range path {
		ts, doc, err := r.step(ctxs, l, 0)
		if err != nil {
			vhlib.Fatal("%s: %v in %q", describe(l), err, doc)
		}
		hist = append(hist, describe(l))
		if toksString(ts) != toksString(l.Toks) {
			return // reported where this transition itself is replayed
		}
	}
	r.check(ctxs, modes, hist, path, last, nest)
}

func (r *runner) check(ctxs map[string]*rctx, modes []string, hist []string, labels []label, l label, nest int) bool {
	ts, doc, err := r.step(ctxs, l, nest)
	if err != nil {
		vhlib.Fatal("%s: %v in %q", describe(l), err, doc)
	}
	r.steps++
	r.actions[l.A]++
	real, spec := toksString(ts), toksString(l.Toks)
	mode := ""
	for i, n := range r.ctxNames {
		if n == l.C && i < len(modes) {
			mode = modes[i]
		}
	}
	rep := report{World: r.w.name, Modes: modes, Path: hist, Action: describe(l), Ctx: l.C, Nesting: nestNames[nest], Before: l.Before,
		Spec: spec, Real: real, Output: doc, Nonce: nonceValue(l.C, l.Nonce)}
	// nonce binding (expectation taken from the unchanged code: scripttemplate.go writes nonce="..." on every <script> it
	// emits when the context has a nonce, runtime.go's <style type="text/css"> never carries one). Not part of C12: drift.
	if l.A == "SetNonce" {
		if r.lastGetNonce != rep.Nonce {
			r.drift++
			vhlib.Drift(fmt.Sprintf("templ.GetNonce reports %q after templ.WithNonce(ctx, %q)", r.lastGetNonce, rep.Nonce), rep)
		}
	} else if l.A != "StylesheetRequest" {
		if l.Nonce > 0 {
			r.afterNonce++
		}
		for _, ti := range r.lastTags {
			wantAttr := ti.Tag == "script" && l.Nonce > 0
			if ti.HasNonce != wantAttr || (wantAttr && ti.Nonce != rep.Nonce) {
				r.drift++
				vhlib.Drift(fmt.Sprintf("nonce attribute of an emitted <%s>: present=%v value=%q, the model of the unchanged code expects present=%v value=%q",
					ti.Tag, ti.HasNonce, ti.Nonce, wantAttr, rep.Nonce), rep)
				break
			} else if wantAttr {
				r.nonceScripts++
			}
		}
	}
	if len(l.Tags) == 1 {
		st := r.tagStats[l.Tags[0]]
		if st == nil {
			st = &[2]int{}
			r.tagStats[l.Tags[0]] = st
		}
		if real == spec {
			st[0]++
		} else {
			st[1]++
		}
	}
	if l.A == "StylesheetRequest" {
		if real != spec {
			r.fails++
			r.sigs["Registry.Stylesheet"]++
			vhlib.Fail("Registry.Stylesheet", "the stylesheet endpoint does not serve exactly the classes registered with the middleware", rep)
		}
		return real == spec
	}
	viol := violations(ts, l.Before, l.Must, l.MustBody, mode, r.w.reg)
	rep.Viol = viol
	switch {
	case len(viol) > 0 && real == spec && len(l.Tags) > 0:
		r.fails++
		for _, t := range l.Tags {
			r.sigs["Registry."+t]++
			vhlib.Fail("Registry."+t, "a use of a CSS component violates "+strings.Join(viol, ", "), rep)
		}
	case len(viol) > 0:
		r.fails++
		if v2, ok := r.withoutNonce(modes, labels, l, nest); ok && len(v2) == 0 {
			// the same history without templ.WithNonce satisfies the step properties: SetNonce does not leave the registry untouched
			for _, v := range viol {
				r.sigs["Registry.SetNonce."+v]++
				vhlib.Fail("Registry.SetNonce."+v, "after templ.WithNonce on the context the real output violates "+v+
					" (the same history without WithNonce does not): WithNonce does not keep the registry of emitted scripts, classes and once handles", rep)
			}
			break
		}
		for _, v := range viol {
			r.sigs["Registry.Unmodelled."+v]++
			vhlib.Fail("Registry.Unmodelled."+v, "the real output violates "+v+" and is not what the model of the code predicts", rep)
		}
	case real != spec:
		r.drift++
		vhlib.Drift("real tokens differ from the model's although the step properties hold", rep)
	default:
		if r.samples < 3 && len(hist) >= 3 && len(ts) >= 3 && r.steps%997 == 0 {
			r.samples++
			vhlib.Sample(rep)
		}
	}
	return real == spec
}

func (r *runner) summary(extra map[string]any) map[string]any {
	ts := map[string]any{}
	for k, v := range r.tagStats {
		ts[k] = map[string]int{"as_predicted": v[0], "different": v[1]}
	}
	m := map[string]any{"fails": r.fails, "drift": r.drift, "steps": r.steps, "tags": ts, "sigs": r.sigs, "actions": r.actions,
		"nonce_sets": r.nonceSets, "uses_after_nonce": r.afterNonce, "scripts_with_nonce": r.nonceScripts}
	for k, v := range extra {
		m[k] = v
	}
	return m
}

func merge(rs []*runner, extra map[string]any) map[string]any {
	tot := &runner{tagStats: map[string]*[2]int{}, sigs: map[string]int{}, actions: map[string]int{}}
	for _, r := range rs {
		tot.fails += r.fails
		tot.drift += r.drift
		tot.steps += r.steps
		tot.nonceSets += r.nonceSets
		tot.afterNonce += r.afterNonce
		tot.nonceScripts += r.nonceScripts
		for k, v := range r.tagStats {
			if tot.tagStats[k] == nil {
				tot.tagStats[k] = &[2]int{}
			}
			tot.tagStats[k][0] += v[0]
			tot.tagStats[k][1] += v[1]
		}
		for k, v := range r.sigs {
			tot.sigs[k] += v
		}
		for k, v := range r.actions {
			tot.actions[k] += v
		}
	}
	return tot.summary(extra)
}

func newRunner(w *world, names []string) *runner {
	return &runner{w: w, ctxNames: names, tagStats: map[string]*[2]int{}, sigs: map[string]int{}, actions: map[string]int{}}
}

func main() {
	if len(os.Args) < 4 {
		vhlib.Fatal("usage: c12 edges|hist <file> <seed> [reg...]")
	}
	seed, _ := strconv.Atoi(os.Args[3])
	reg := os.Args[4:]
	worlds := []*world{newWorld("colliding", reg), newWorld("generated", reg)}
	defer func() {
		for _, w := range worlds {
			w.srv.Close()
		}
	}()
	switch os.Args[1] {
	case "edges":
		edgesMode(worlds, seed)
	case "hist":
		histMode(worlds, seed)
	default:
		vhlib.Fatal("unknown mode")
	}
}

func canon(raw json.RawMessage) string {
	var v any
	if err := json.Unmarshal(raw, &v); err != nil {
		vhlib.Fatal("%v", err)
	}
	b, _ := json.Marshal(v)
	return string(b)
}

func edgesMode(worlds []*world, seed int) {
	var edges []*edge
	if err := vhlib.Each(os.Args[2], func(line []byte) error {
		e := &edge{}
		if err := json.Unmarshal(line, e); err != nil {
			return err
		}
		e.fromKey, e.toKey = canon(e.From), canon(e.To)
		if err := json.Unmarshal(e.From, &e.from); err != nil {
			return err
		}
		edges = append(edges, e)
		return nil
	}); err != nil {
		vhlib.Fatal("%v", err)
	}
	// shortest label path from an initial state to every source state (BFS over the emitted graph)
	byFrom := map[string][]*edge{}
	for _, e := range edges {
		byFrom[e.fromKey] = append(byFrom[e.fromKey], e)
	}
	pred := map[string]*edge{}
	var queue []string
	seen := map[string]bool{}
	for _, e := range edges {
		if e.from.Init && !seen[e.fromKey] {
			seen[e.fromKey] = true
			queue = append(queue, e.fromKey)
		}
	}
	for len(queue) > 0 {
		k := queue[0]
		queue = queue[1:]
		for _, e := range byFrom[k] {
			if !seen[e.toKey] {
				seen[e.toKey] = true
				pred[e.toKey] = e
				queue = append(queue, e.toKey)
			}
		}
	}
	// the path and the initial state it starts from (contexts are created in the modes of THAT state: SetNonce turns a
	// fresh context into an initialised one on the way)
	pathTo := func(k string) ([]label, string) {
		var rev []label
		for pred[k] != nil {
			rev = append(rev, pred[k].Lbl)
			k = pred[k].fromKey
		}
		for i, j := 0, len(rev)-1; i < j; i, j = i+1, j-1 {
			rev[i], rev[j] = rev[j], rev[i]
		}
		return rev, k
	}
	stateOf := map[string]state{}
	for _, e := range edges {
		stateOf[e.fromKey] = e.from
	}
	names := []string{"c1", "c2"}
	var rs []*runner
	maxPath := 0
	for _, w := range worlds {
		r := newRunner(w, names)
		rs = append(rs, r)
		for i, e := range edges {
			if !seen[e.fromKey] {
				vhlib.Fatal("source state of edge %d is not reachable in the emitted graph", i)
			}
			p, root := pathTo(e.fromKey)
			rs0 := stateOf[root]
			if !rs0.Init {
				vhlib.Fatal("path to the source state of edge %d does not start in an initial state", i)
			}
			modes := make([]string, len(rs0.Ctx))
			for j, c := range rs0.Ctx {
				modes[j] = c.M
			}
			if len(p) > maxPath {
				maxPath = len(p)
			}
			r.replay(modes, p, e.Lbl, (i+seed)%3)
		}
	}
	vhlib.Summary(merge(rs, map[string]any{"edges": len(edges), "worlds": len(worlds), "max_path": maxPath}))
}

type histLine struct {
	Modes []string `json:"modes"`
	Hist  []label  `json:"hist"`
}

func histMode(worlds []*world, seed int) {
	names := []string{"c1", "c2"}
	var rs []*runner
	n := 0
	seenHist := map[string]bool{}
	for wi, w := range worlds {
		r := newRunner(w, names)
		rs = append(rs, r)
		if err := vhlib.Each(os.Args[2], func(line []byte) error {
			if wi == 0 {
				if seenHist[string(line)] {
					return nil
				}
				seenHist[string(line)] = true
				n++
			}
			var h histLine
			if err := json.Unmarshal(line, &h); err != nil {
				return err
			}
			ctxs := map[string]*rctx{}
			for i, m := range h.Modes {
				ctxs[names[i]] = w.newCtx(m)
			}
			var hist []string
			for i, l := range h.Hist {
				ok := r.check(ctxs, h.Modes, hist, h.Hist[:i], l, (i+seed+wi)%3)
				hist = append(hist, describe(l))
				if !ok {
					break // the real registry may have left the modelled state
				}
			}
			for _, c := range ctxs {
				c.close()
			}
			return nil
		}); err != nil {
			vhlib.Fatal("%v", err)
		}
		seenHist = map[string]bool{}
	}
	vhlib.Summary(merge(rs, map[string]any{"behaviours": n, "worlds": len(worlds)}))
}
