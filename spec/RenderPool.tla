------------------------------ MODULE RenderPool ------------------------------
(* C14 -- concurrent renders are isolated and race-free (process-level model).

   Goroutines G render M components each, at the same time.  What they share:
     * pools of per-render scratch objects.  A sync.Pool is a BAG of objects of one kind: Get returns any pooled
       object or a new one, Put adds one (an object that is Put twice is in the bag twice).  Two kinds are modelled:
         "buf"      the runtime buffer of a render: GetBuffer = Get + Reset(w), ReleaseBuffer = Flush + Put
                    (runtime/bufferpool.go); held for the whole render,
         "scratch"  any pooled object that one step of a render fills, reads back into its output and releases
                    (the bytes.Buffer of templ.ToGoHTML / the buffered handler; a pooled class-name processor,
                    string builder, ...): Get, Add own data, Read (the result goes into the document), Clear + Put,
     * the development-mode literal cache: watchStateMutex, watchModeCache (cached?, modTime, strings),
       os.Stat, reload (runtime/watchmode.go: getWatchedStrings / cacheStrings),
     * the once-handle id counter (once.go: atomic.AddInt64).
   Everything else a render touches is per render: its frame, its context value, its writer.

   A document is DocLen literals; literal i of render <<g, m>> is the token <<g, m, i, version>>
   (version = the literal-file version it was read from; 0 outside development mode).
   Seeded defects (Bug) for the negative configs:
     "putfirst"       ReleaseBuffer puts the buffer into the pool before flushing it
     "noreset"        GetBuffer does not Reset a pooled buffer
     "cacheunlocked"  getWatchedStrings reads the cache map before taking the mutex
     "idrace"         the once-handle id is read and written in two steps
     "doubleput"      a scratch object is released twice for one Get (by the step and by its caller)
     "adoptbufio"     Buffer.Reset builds the private bufio.Writer of a new pool buffer with
                      bufio.NewWriterSize(w, size), which returns w itself when the destination w is a
                      *bufio.Writer of at least that size: the pool buffer adopts the caller's writer

     "lockacrosswrite" development-mode WriteString keeps watchStateMutex while it writes the string to the caller's writer

     "sharederr"      a library component that is created once and rendered by all goroutines (templ.Join) keeps
                      the error of the part it rendered in a variable of the COMPONENT instead of the call

   Shared components.  What every goroutine renders is one component value created once (a package-level
   templ.Join(...) around the parts): it sets err from the part it rendered and then returns err.  Isolated
   covers the returned error: a render fails iff its own writer failed.

   Stalled writers.  The writer of render Stall does not accept anything until the environment action Unstall
   happens -- which may be never.  Its document is larger than the buffer, so each of its writes (and its flush)
   waits for the writer.  Invariant IndependentOfStalledWriters: no render waits for a lock whose holder is
   waiting for its own writer, i.e. a render blocked on ITS writer does not block renders to other writers.

   Destinations.  Every goroutine renders into a destination of one kind (DestKinds):
     "plain"       a fresh io.Writer per render,
     "bufioBig"    the goroutine's long-lived *bufio.Writer (size >= the pool buffer's) in front of its output,
     "bufioSmall"  the same with a smaller size,
     "buffer"      the goroutine's own *runtime.Buffer (GetBuffer finds it: no pool involved);
   for the last three the caller flushes its writer after Render.  Invariant OwnDestinationOnly: the bytes
   of a render reach its own destination only.                                                        *)
EXTENDS Integers, Sequences, FiniteSets, TLC, RenderPoolOps

CONSTANTS G, M, DocLen, NBuf, FailAt, DevMode, MaxVer, Bug,
          Scratch,    \* TRUE: every render has one step that uses a pooled scratch object
          DestKinds,  \* kinds of destination writers explored (each goroutine gets one)
          Stall       \* the render whose writer is stalled (NoR: none)

Render == G \X (1..M)
Bufs == 1..NBuf
\* pooled objects of both kinds: <<"buf", id>> and <<"scratch", id>>
Obj == ({"buf"} \X Bufs) \cup ({"scratch"} \X Bufs)
BufObj(b) == <<"buf", b>>
ScrObj(b) == <<"scratch", b>>

VARIABLES pc,        \* per goroutine
          m,         \* per goroutine: index of the render in progress
          i,         \* per goroutine: next literal
          held,      \* per goroutine: buffer object its render uses (0 = none)
          holders, pooled, made,   \* pool protocol state (RenderPoolOps): holding relation over Obj, the bag [Obj -> count],
                                   \* made = runtime buffers created so far
          sheld, smade, scr,       \* scratch kind: per goroutine the object in use (0 = none), objects created, per object its content
          buf,       \* per buffer object: [data, w, alias]  data = tokens buffered in its private bufio.Writer, w = the
                     \* destination it points at (a reference), alias = goroutine whose bufio.Writer it uses INSTEAD (0 = none)
          lerr, sherr, \* err of the shared component: per call (as coded) / one variable of the component ("sharederr")
          stalled,   \* the writer of render Stall does not accept bytes (yet)
          dk,        \* per goroutine: kind of its destination
          bw,        \* per goroutine: its own buffered writer in front of its output: [data, tgt]
          sink,      \* per render: tokens its writer received
          res,       \* per render: "run" | "nil" | "err"
          mutex,     \* watchStateMutex: holder or 0
          cache,     \* watchModeCache entry: [cached, ver]
          file,      \* current version of the literal text file
          inmap,     \* goroutines currently reading or writing the cache map
          lit,       \* per goroutine: version of the literal list it got from getWatchedStrings
          nextid, ids, tmpid       \* once-handle ids: counter, ids handed out (bag as sequence), per-goroutine read

vars == <<pc, m, i, held, holders, pooled, made, sheld, smade, scr, buf, lerr, sherr, stalled, dk, bw, sink, res, mutex, cache, file, inmap, lit, nextid, ids, tmpid>>

R(g) == <<g, m[g]>>
\* tokens without the 4th component (literal: file version; scratch step 0: the data read back from the object)
Doc(r) == (IF Scratch THEN << <<r[1], r[2], 0>> >> ELSE <<>>) \o [k \in 1..DocLen |-> <<r[1], r[2], k>>]
Strip(s) == [k \in 1..Len(s) |-> <<s[k][1], s[k][2], s[k][3]>>]
NoR == <<0, 0>>
\* references to writers: a render's fresh plain writer, a goroutine's buffered writer, a goroutine's output behind it
NoRef == <<"none", 0>>
SinkRef(r) == <<"sink", r>>
BwRef(g) == <<"bw", g>>
UndRef(g) == <<"und", g>>

Init == /\ pc = [g \in G |-> "id"] /\ m = [g \in G |-> 1] /\ i = [g \in G |-> 1]
        /\ held = [g \in G |-> 0]
        /\ holders = {} /\ pooled = [o \in Obj |-> 0] /\ made = 0
        /\ sheld = [g \in G |-> 0] /\ smade = 0 /\ scr = [b \in Bufs |-> {}]
        /\ buf = [b \in Bufs |-> [data |-> <<>>, w |-> NoRef, alias |-> 0]]
        /\ lerr = [g \in G |-> "nil"] /\ sherr = "nil"
        /\ stalled = (Stall # <<0, 0>>)
        /\ dk \in [G -> DestKinds]
        /\ bw = [g \in G |-> [data |-> <<>>, tgt |-> UndRef(g)]]
        /\ sink = [r \in Render |-> <<>>] /\ res = [r \in Render |-> "run"]
        /\ mutex = 0 /\ cache = [cached |-> FALSE, ver |-> 0] /\ file = 1 /\ inmap = {}
        /\ lit = [g \in G |-> 0]
        /\ nextid = 0 /\ ids = <<>> /\ tmpid = [g \in G |-> 0]

Goto(g, l) == pc' = [pc EXCEPT ![g] = l]

\* templ.NewOnceHandle(): id = atomic.AddInt64(&onceHandleIndex, 1)
NewHandle(g) ==
    /\ pc[g] = "id"
    /\ IF Bug = "idrace"
       THEN /\ tmpid' = [tmpid EXCEPT ![g] = nextid] /\ Goto(g, "id2") /\ UNCHANGED <<lerr, sherr, stalled, dk, bw, sheld, smade, scr, nextid, ids>>
       ELSE /\ nextid' = nextid + 1 /\ ids' = Append(ids, nextid + 1) /\ Goto(g, "get") /\ UNCHANGED tmpid
    /\ UNCHANGED <<lerr, sherr, stalled, dk, bw, sheld, smade, scr, m, i, held, holders, pooled, made, buf, sink, res, mutex, cache, file, inmap, lit>>
NewHandle2(g) ==
    /\ pc[g] = "id2"
    /\ nextid' = tmpid[g] + 1 /\ ids' = Append(ids, tmpid[g] + 1) /\ Goto(g, "get")
    /\ UNCHANGED <<lerr, sherr, stalled, dk, bw, sheld, smade, scr, m, i, held, holders, pooled, made, buf, sink, res, mutex, cache, file, inmap, lit, tmpid>>

\* b = bufferPool.Get().(*Buffer)
DestRef(g) == IF dk[g] = "plain" THEN SinkRef(R(g)) ELSE BwRef(g)
Body(g) == IF Scratch THEN "sget" ELSE IF DevMode THEN "lock" ELSE "write"

\* GetBuffer(w) when w is the caller's own *runtime.Buffer: it is used as it is, no pool
Existing(g) ==
    /\ pc[g] = "get" /\ dk[g] = "buffer"
    /\ i' = [i EXCEPT ![g] = 1]
    /\ Goto(g, Body(g))
    /\ UNCHANGED <<lerr, sherr, stalled, dk, bw, sheld, smade, scr, m, held, holders, pooled, made, buf, sink, res, mutex, cache, file, inmap, lit, nextid, ids, tmpid>>

Get(g) ==
    /\ pc[g] = "get" /\ dk[g] # "buffer"
    /\ \E b \in {x \in Bufs : pooled[BufObj(x)] > 0} \cup (IF made < NBuf THEN {made + 1} ELSE {}) :
          /\ held' = [held EXCEPT ![g] = b]
          /\ holders' = HGet(holders, R(g), BufObj(b))
          /\ pooled' = IF pooled[BufObj(b)] > 0 THEN BGet(pooled, BufObj(b)) ELSE pooled
          /\ made' = IF pooled[BufObj(b)] = 0 THEN made + 1 ELSE made
    /\ Goto(g, "reset")
    /\ UNCHANGED <<lerr, sherr, stalled, dk, bw, sheld, smade, scr, m, i, buf, sink, res, mutex, cache, file, inmap, lit, nextid, ids, tmpid>>

\* b.Reset(w)
Reset(g) ==
    /\ pc[g] = "reset"
    /\ LET b == held[g]
           fresh == buf[b].w = NoRef
           \* b.b = bufio.NewWriterSize(..., DefaultBufferSize) on first use
           a == IF fresh /\ Bug = "adoptbufio" /\ dk[g] = "bufioBig" THEN g ELSE buf[b].alias
       IN
       IF Bug = "noreset" /\ ~fresh THEN UNCHANGED <<buf, bw>>
       ELSE /\ buf' = [buf EXCEPT ![b] = [data |-> <<>>, w |-> DestRef(g), alias |-> a]]
            \* b.b.Reset(w): on an adopted writer this empties and re-points the CALLER's bufio.Writer
            \* (bufio.Writer.Reset(w) does nothing when w is the writer itself)
            /\ bw' = IF a = 0 \/ DestRef(g) = BwRef(a) THEN bw
                      ELSE [bw EXCEPT ![a] = [data |-> <<>>, tgt |-> DestRef(g)]]
    /\ i' = [i EXCEPT ![g] = 1]
    /\ Goto(g, Body(g))
    /\ UNCHANGED <<lerr, sherr, stalled, dk, sheld, smade, scr, m, held, holders, pooled, made, sink, res, mutex, cache, file, inmap, lit, nextid, ids, tmpid>>

\* a write of the render: into the caller's own Buffer (kind "buffer"), else into the pool buffer's bufio.Writer --
\* which is the adopting goroutine's writer if there is an alias
Emit(g, tok) ==
    IF dk[g] = "buffer" THEN bw' = [bw EXCEPT ![g].data = Append(@, tok)] /\ UNCHANGED buf
    ELSE IF buf[held[g]].alias = 0 THEN buf' = [buf EXCEPT ![held[g]].data = Append(@, tok)] /\ UNCHANGED bw
    ELSE bw' = [bw EXCEPT ![buf[held[g]].alias].data = Append(@, tok)] /\ UNCHANGED buf

(* a step of the render that works in a pooled scratch object *)
\* o = pool.Get()
SGet(g) ==
    /\ pc[g] = "sget"
    /\ \E b \in {x \in Bufs : pooled[ScrObj(x)] > 0} \cup (IF smade < NBuf THEN {smade + 1} ELSE {}) :
          /\ sheld' = [sheld EXCEPT ![g] = b]
          /\ holders' = HGet(holders, R(g), ScrObj(b))
          /\ pooled' = IF pooled[ScrObj(b)] > 0 THEN BGet(pooled, ScrObj(b)) ELSE pooled
          /\ smade' = IF pooled[ScrObj(b)] = 0 THEN smade + 1 ELSE smade
    /\ Goto(g, "sadd")
    /\ UNCHANGED <<lerr, sherr, stalled, dk, bw, scr, m, i, held, made, buf, sink, res, mutex, cache, file, inmap, lit, nextid, ids, tmpid>>

\* the render puts its own data into the object (class names, rendered bytes, ...)
SAdd(g) ==
    /\ pc[g] = "sadd"
    /\ scr' = [scr EXCEPT ![sheld[g]] = @ \cup {R(g)}]
    /\ Goto(g, "sread")
    /\ UNCHANGED <<lerr, sherr, stalled, dk, bw, sheld, smade, m, i, held, holders, pooled, made, buf, sink, res, mutex, cache, file, inmap, lit, nextid, ids, tmpid>>

\* ... and reads the result back into its document
SRead(g) ==
    /\ pc[g] = "sread"
    /\ Emit(g, <<g, m[g], 0, scr[sheld[g]]>>)
    /\ Goto(g, "sput")
    /\ UNCHANGED <<lerr, sherr, stalled, dk, sheld, smade, scr, m, i, held, holders, pooled, made, sink, res, mutex, cache, file, inmap, lit, nextid, ids, tmpid>>

\* release: clear the object and Put it; the render does not touch it afterwards
SPut(g) ==
    /\ pc[g] = "sput"
    /\ scr' = [scr EXCEPT ![sheld[g]] = {}]
    /\ pooled' = BPut(pooled, ScrObj(sheld[g]))
    /\ holders' = HDrop(holders, R(g), ScrObj(sheld[g]))
    /\ IF Bug = "doubleput" THEN Goto(g, "sput2") /\ UNCHANGED sheld
                            ELSE Goto(g, IF DevMode THEN "lock" ELSE "write") /\ sheld' = [sheld EXCEPT ![g] = 0]
    /\ UNCHANGED <<lerr, sherr, stalled, dk, bw, smade, m, i, held, made, buf, sink, res, mutex, cache, file, inmap, lit, nextid, ids, tmpid>>

\* "doubleput": the caller's deferred release clears and Puts the same object once more
SPut2(g) ==
    /\ pc[g] = "sput2"
    /\ scr' = [scr EXCEPT ![sheld[g]] = {}]
    /\ pooled' = BPut(pooled, ScrObj(sheld[g]))
    /\ sheld' = [sheld EXCEPT ![g] = 0]
    /\ Goto(g, IF DevMode THEN "lock" ELSE "write")
    /\ UNCHANGED <<lerr, sherr, stalled, dk, bw, smade, m, i, held, holders, made, buf, sink, res, mutex, cache, file, inmap, lit, nextid, ids, tmpid>>

(* development mode: runtime.WriteString -> getWatchedStrings(txtFilePath) *)
CacheLock(g) ==
    /\ pc[g] = "lock"
    /\ IF Bug = "cacheunlocked"
       THEN Goto(g, "lookup") /\ UNCHANGED mutex            \* fast path reads the map before locking
       ELSE mutex = 0 /\ mutex' = g /\ Goto(g, "lookup")
    /\ UNCHANGED <<lerr, sherr, stalled, dk, bw, sheld, smade, scr, m, i, held, holders, pooled, made, buf, sink, res, cache, file, inmap, lit, nextid, ids, tmpid>>

\* state, cached := watchModeCache[txtFilePath]  ... begins touching the map
CacheLookup(g) ==
    /\ pc[g] = "lookup"
    /\ inmap' = inmap \cup {g}
    /\ Goto(g, "decide")
    /\ UNCHANGED <<lerr, sherr, stalled, dk, bw, sheld, smade, scr, m, i, held, holders, pooled, made, buf, sink, res, mutex, cache, file, lit, nextid, ids, tmpid>>

\* hit (fresh enough / not modified): return state.strings; miss or modified: cacheStrings writes the map
CacheDecide(g) ==
    /\ pc[g] = "decide"
    /\ \/ /\ cache.cached                                   \* time.Since(modTime) < 100ms, or ModTime not after
          /\ lit' = [lit EXCEPT ![g] = cache.ver] /\ UNCHANGED <<lerr, sherr, stalled, dk, bw, sheld, smade, scr, cache, mutex>>
       \/ /\ ~cache.cached \/ file > cache.ver              \* cacheStrings: read the file, store it
          /\ (Bug = "cacheunlocked") => (mutex = 0 \/ mutex = g)
          /\ cache' = [cached |-> TRUE, ver |-> file]
          /\ lit' = [lit EXCEPT ![g] = file]
          /\ mutex' = IF Bug = "cacheunlocked" THEN g ELSE mutex
    /\ Goto(g, IF Bug = "lockacrosswrite" THEN "write" ELSE "unlock")      \* the seeded defect unlocks after the write only
    /\ UNCHANGED <<lerr, sherr, stalled, dk, bw, sheld, smade, scr, m, i, held, holders, pooled, made, buf, sink, res, file, inmap, nextid, ids, tmpid>>

CacheUnlock(g) ==
    /\ pc[g] = "unlock"
    /\ inmap' = inmap \ {g}
    /\ mutex' = IF mutex = g THEN 0 ELSE mutex
    /\ Goto(g, "write")
    /\ UNCHANGED <<lerr, sherr, stalled, dk, bw, sheld, smade, scr, m, i, held, holders, pooled, made, buf, sink, res, cache, file, lit, nextid, ids, tmpid>>

\* "lockacrosswrite": defer watchStateMutex.Unlock() runs when WriteString returns, after io.WriteString(w, s)
CacheUnlockAfterWrite(g) ==
    /\ pc[g] = "unlockw"
    /\ inmap' = inmap \ {g}
    /\ mutex' = IF mutex = g THEN 0 ELSE mutex
    /\ Goto(g, IF i[g] <= DocLen THEN "lock" ELSE IF dk[g] = "buffer" THEN "cflush" ELSE "release")
    /\ UNCHANGED <<lerr, sherr, stalled, dk, bw, sheld, smade, scr, m, i, held, holders, pooled, made, buf, sink, res, cache, file, lit, nextid, ids, tmpid>>

\* the environment: the stalled writer starts accepting bytes (this may never happen)
Unstall ==
    /\ stalled /\ stalled' = FALSE
    /\ UNCHANGED <<lerr, sherr, dk, bw, sheld, smade, scr, pc, m, i, held, holders, pooled, made, buf, sink, res, mutex, cache, file, inmap, lit, nextid, ids, tmpid>>

\* a render whose writer is stalled waits inside its write
WaitsForWriter(g) == R(g) = Stall /\ stalled

\* `templ generate --watch` rewrites the literal file
FileWrite ==
    /\ DevMode /\ file < MaxVer
    /\ file' = file + 1
    /\ UNCHANGED <<lerr, sherr, stalled, dk, bw, sheld, smade, scr, pc, m, i, held, holders, pooled, made, buf, sink, res, mutex, cache, inmap, lit, nextid, ids, tmpid>>

\* io.WriteString(buffer, literal i): buffered in the render's buffer object
Write(g) ==
    /\ pc[g] = "write" /\ ~WaitsForWriter(g)
    /\ Emit(g, <<g, m[g], i[g], lit[g]>>)
    /\ i' = [i EXCEPT ![g] = @ + 1]
    /\ Goto(g, IF DevMode /\ Bug = "lockacrosswrite" THEN "unlockw"
                ELSE IF i[g] < DocLen THEN (IF DevMode THEN "lock" ELSE "write")
                ELSE IF dk[g] = "buffer" THEN "cflush" ELSE "release")
    /\ UNCHANGED <<lerr, sherr, stalled, dk, sheld, smade, scr, m, held, holders, pooled, made, sink, res, mutex, cache, file, inmap, lit, nextid, ids, tmpid>>

\* ReleaseBuffer: err = b.Flush(); bufferPool.Put(b)      ("putfirst": the other way round)
\* moving buffered tokens on to where a writer points: a render's plain writer (the writer of render FailAt fails
\* midway: it accepts all but the last token), a goroutine's output, or another buffered writer
Accepted(tgt, data) == IF tgt = SinkRef(FailAt) /\ data # <<>> THEN SubSeq(data, 1, Len(data) - 1) ELSE data
SinkAfter(tgt, data) == CASE tgt[1] = "sink" -> [sink EXCEPT ![tgt[2]] = @ \o Accepted(tgt, data)]
                          [] tgt[1] = "und"  -> [sink EXCEPT ![<<tgt[2], m[tgt[2]]>>] = @ \o data]
                          [] OTHER -> sink
BwAfter(b0, tgt, data) == IF tgt[1] = "bw" THEN [b0 EXCEPT ![tgt[2]].data = @ \o data] ELSE b0

Flush(g) ==
    /\ pc[g] = IF Bug = "putfirst" THEN "flush2" ELSE "release"
    /\ ~WaitsForWriter(g)
    /\ LET b == held[g]
           a == buf[b].alias
           data == IF a = 0 THEN buf[b].data ELSE bw[a].data
           tgt  == IF a = 0 THEN buf[b].w ELSE bw[a].tgt
       IN
       /\ sink' = SinkAfter(tgt, data)
       /\ buf' = [buf EXCEPT ![b].data = <<>>]
       /\ bw' = BwAfter(IF a = 0 THEN bw ELSE [bw EXCEPT ![a].data = <<>>], tgt, data)
       \* the shared component: err = part.Render(ctx, w)
       /\ LET e == IF tgt = SinkRef(FailAt) THEN "err" ELSE "nil" IN
          IF dk[g] # "plain" THEN UNCHANGED <<lerr, sherr>>
          ELSE IF Bug = "sharederr" THEN sherr' = e /\ UNCHANGED lerr
          ELSE lerr' = [lerr EXCEPT ![g] = e] /\ UNCHANGED sherr
    /\ IF Bug = "putfirst"
       THEN /\ holders' = HDrop(holders, R(g), BufObj(held[g])) /\ held' = [held EXCEPT ![g] = 0] /\ Goto(g, IF dk[g] = "plain" THEN "jret" ELSE "end")
       ELSE /\ holders' = HDrop(holders, R(g), BufObj(held[g])) /\ UNCHANGED held /\ Goto(g, "put")
    /\ UNCHANGED <<res, stalled, dk, sheld, smade, scr, m, i, pooled, made, mutex, cache, file, inmap, lit, nextid, ids, tmpid>>

Put(g) ==
    /\ pc[g] = IF Bug = "putfirst" THEN "release" ELSE "put"
    /\ pooled' = BPut(pooled, BufObj(held[g]))
    /\ IF Bug = "putfirst"
       THEN Goto(g, "flush2") /\ UNCHANGED held
       ELSE Goto(g, IF dk[g] = "plain" THEN "jret" ELSE "cflush") /\ held' = [held EXCEPT ![g] = 0]
    /\ UNCHANGED <<lerr, sherr, stalled, dk, bw, sheld, smade, scr, m, i, holders, made, buf, sink, res, mutex, cache, file, inmap, lit, nextid, ids, tmpid>>

\* the shared component returns: return err
JoinReturn(g) ==
    /\ pc[g] = "jret"
    /\ res' = [res EXCEPT ![R(g)] = IF Bug = "sharederr" THEN sherr ELSE lerr[g]]
    /\ Goto(g, "end")
    /\ UNCHANGED <<lerr, sherr, stalled, dk, bw, sheld, smade, scr, m, i, held, holders, pooled, made, buf, sink, mutex, cache, file, inmap, lit, nextid, ids, tmpid>>

\* Render has returned; the caller flushes its own buffered writer
CallerFlush(g) ==
    /\ pc[g] = "cflush"
    /\ sink' = SinkAfter(bw[g].tgt, bw[g].data)
    /\ bw' = BwAfter([bw EXCEPT ![g].data = <<>>], bw[g].tgt, bw[g].data)
    /\ res' = [res EXCEPT ![R(g)] = "nil"]
    /\ Goto(g, "end")
    /\ UNCHANGED <<lerr, sherr, stalled, dk, sheld, smade, scr, m, i, held, holders, pooled, made, buf, mutex, cache, file, inmap, lit, nextid, ids, tmpid>>

\* the goroutine starts its next render
EndRender(g) ==
    /\ pc[g] = "end"
    /\ IF m[g] < M THEN m' = [m EXCEPT ![g] = @ + 1] /\ Goto(g, "get")
                   ELSE UNCHANGED m /\ Goto(g, "done")
    /\ UNCHANGED <<lerr, sherr, stalled, dk, bw, sheld, smade, scr, i, held, holders, pooled, made, buf, sink, res, mutex, cache, file, inmap, lit, nextid, ids, tmpid>>

Next == \/ \E g \in G : \/ NewHandle(g) \/ NewHandle2(g) \/ Existing(g) \/ Get(g) \/ Reset(g) \/ SGet(g) \/ SAdd(g) \/ SRead(g) \/ SPut(g) \/ SPut2(g)
                        \/ CacheLock(g) \/ CacheLookup(g)
                        \/ CacheDecide(g) \/ CacheUnlock(g) \/ CacheUnlockAfterWrite(g) \/ Write(g) \/ Flush(g) \/ Put(g) \/ JoinReturn(g) \/ CallerFlush(g) \/ EndRender(g)
        \/ FileWrite \/ Unstall

Spec == Init /\ [][Next]_vars

-----------------------------------------------------------------------------
IsPrefix(s, t) == Len(s) <= Len(t) /\ SubSeq(t, 1, Len(s)) = s

\* C14: no pooled object (of any kind) is owned by two renders at once; objects in a pool are not in use
ExclusiveBuffer == Exclusive(holders) /\ BagUnheld(holders, pooled)

\* C14: every render's writer receives its own document (a prefix while running or when it failed), nothing else
Isolated == \A r \in Render :
               /\ IsPrefix(Strip(sink[r]), Doc(r))
               /\ res[r] = "nil" => Strip(sink[r]) = Doc(r)
               /\ res[r] = "err" => r = FailAt
               /\ (res[r] # "run" /\ r = FailAt /\ dk[r[1]] = "plain") => res[r] = "err"    \* the returned error is the render's own
               \* what a render read back from its scratch object is its own data only
               /\ \A k \in 1..Len(sink[r]) : sink[r][k][3] = 0 => sink[r][k][4] = {r}

\* C14: the bytes of a render reach its own destination only: no pool buffer uses somebody's writer as its own, and a
\* goroutine's buffered writer points at its own output and holds its own bytes (sink[r] is covered by Isolated)
OwnDestinationOnly == /\ \A b \in Bufs : buf[b].alias = 0
                      /\ \A g \in G : /\ bw[g].tgt = UndRef(g)
                                       /\ \A k \in 1..Len(bw[g].data) : bw[g].data[k][1] = g

\* C14: a render that is blocked on ITS writer does not block renders to other writers: nobody waits for a lock
\* whose holder is waiting for its writer (the stalled writer may never come back: Unstall need not happen)
IndependentOfStalledWriters ==
    \A g, h \in G : (g # h /\ pc[g] = "lock" /\ mutex = h) => ~(pc[h] = "write" /\ WaitsForWriter(h))

\* C14: the cache map is only touched by the holder of watchStateMutex
MutexProtectsCache == /\ Cardinality(inmap) <= 1
                      /\ \A g \in inmap : mutex = g
\* the literal list a render got is a version of the file that existed
LiteralsAreAVersion == \A g \in G : lit[g] \in 0..file

\* once-handle ids are unique
UniqueIds == \A a, b \in 1..Len(ids) : a # b => ids[a] # ids[b]

TypeOK == /\ \A o \in Obj : pooled[o] \in 0..2
          /\ made \in 0..NBuf /\ smade \in 0..NBuf
          /\ \A g \in G : held[g] \in 0..NBuf
=============================================================================
