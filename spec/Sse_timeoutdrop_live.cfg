\* C19 negative config: a delivery gives up while its client is still connected: liveness twin: TLC must reject the temporal property Delivered.
CONSTANTS
  Clients = {"c1", "c2"}
  NB = 2
  Design = "timeoutdrop"
  MaxPings = 0
  PingFirst = FALSE
  NoRaces = FALSE
  ServerCuts = FALSE
  Slow = {"c1"}
  EmitEdges = FALSE
SPECIFICATION Spec
VIEW View
INVARIANTS TypeOK
PROPERTIES Delivered
CHECK_DEADLOCK FALSE
