package main

import (
	"fmt"
	"math/rand"
	"reflect"
	"sort"
	"strings"

	"github.com/a-h/templ/parser/v2"
)

// reparseLimit bounds how often one parse may start the same loop at the same input index (see
// ParseCursor.tla, ReparseBound).  Ordered alternatives legitimately start attributesParser /
// expressionParser a few times at one index; the corpus, its truncations and mutations stay below 8.
const reparseLimit = 16

var endSuffixes = []string{"", "\n", "\r", "\r\n"}

// constructs that can end a file (after the package clause) ...
var topLevelEnds = []string{
	"templ x() {\n\t<p>a</p>\n}", "css c() {\n\tcolor: red;\n}", "css c() {\n\tcolor: { v };\n}", "script s(a string) {\n\talert(a);\n}",
	"var v = 1", "func f() string {\n\treturn \"\"\n}", "// comment", "type T struct{}", "import \"fmt\"", "const c = `x`", "/* c */",
	"templ (t T) x(a string) {\n}", "var é = \"世\"",
}

// ... and node kinds that can be the last node of a template body
var nodeEnds = []string{
	"<div>", "<div></div>", "<br/>", "<br>", "<input disabled?={ a }/>", "{ a }", "{{ a := 1 }}", "@c()", "@c() {\n<p></p>\n}",
	"if a {\n<p></p>\n}", "if a {\n<p></p>\n} else {\n<p></p>\n}", "if a {\n<p></p>\n} else if b {\n<p></p>\n}", "for _, v := range a {\n<p></p>\n}",
	"switch a {\ncase 1:\n<p></p>\n}", "switch a {\ndefault:\n<p></p>\n}", "<!-- c -->", "// c", "/* c */", "text", "<script>var a = {{ a }};</script>",
	"<style>p{}</style>", "<!DOCTYPE html>", "{ children... }", "<div { a... }></div>", "<div if a {\nclass=\"c\"\n}></div>", "{! c() }",
	"<a href={ templ.URL(a) }>x</a>", "<p class={ a } title=\"t\" data-x={ b }>é</p>", "<div\nclass=\"a\"", "<p>{ \"世\" }",
}

// endsOfConstructs: inputs that end exactly where a construct ends, without a final newline, with a
// final newline, with a final CR and with CRLF.
func endsOfConstructs(corpus []input, thorough bool) []input {
	var out []input
	add := func(origin, data string) {
		out = append(out, input{kind: "ends", origin: origin, data: data})
	}
	for _, sfx := range endSuffixes {
		add("package-clause", "package main"+sfx)
		add("header", "// h"+sfx)
		add("header+package", "// h\npackage main"+sfx)
		for _, s := range topLevelEnds {
			add("top:"+s, "package main\n\n"+s+sfx)
		}
		for _, s := range nodeEnds {
			for _, tail := range []string{"", "\n}", "\n}\n\nvar last = 1"} {
				add("node:"+s, "package main\n\ntempl x() {\n\t"+s+tail+sfx)
			}
		}
	}
	// every truncation of the small synthetic files, bare and with a final CR
	for _, s := range append(append([]string{}, topLevelEnds...), nodeEnds...) {
		full := "package main\n\ntempl x() {\n\t" + s + "\n}"
		if strings.HasPrefix(s, "templ") || strings.HasPrefix(s, "css") || strings.HasPrefix(s, "script") || !strings.ContainsAny(s, "<{@") {
			full = "package main\n\n" + s
		}
		for k := 0; k <= len(full); k++ {
			add("cut:"+s, full[:k])
			add("cut:"+s, full[:k]+"\r")
		}
	}
	// corpus files cut at the end of every construct the parser records (and after closing tokens)
	for ci, c := range corpus {
		tf, err := parser.ParseString(c.data)
		if err != nil {
			continue
		}
		cuts := map[int]bool{len(c.data): true, len(strings.TrimRight(c.data, "\r\n")): true}
		var recs []rangeRec
		walkRanges(reflect.ValueOf(tf), "tf", c.data, &recs)
		for _, r := range recs {
			if len(r.B) == 3 && r.B[0] >= 0 && r.B[0] <= len(c.data) {
				cuts[r.B[0]] = true
			}
			if r.T == "expr" && r.A[0]+len(r.V) <= len(c.data) {
				cuts[r.A[0]+len(r.V)] = true
			}
		}
		off := 0
		for _, t := range tokens(c.data) {
			off += len(t)
			switch t {
			case "}", ">", ")", "\"", "}}", "/>", "*/", "-->", "`":
				cuts[off] = true
			case "\n", "\r\n":
				cuts[off-len(t)] = true // end of a line, without its newline
			}
		}
		var ks []int
		for k := range cuts {
			ks = append(ks, k)
		}
		sort.Ints(ks)
		if !thorough && len(ks) > 24 {
			r := rand.New(rand.NewSource(int64(ci) + 7))
			r.Shuffle(len(ks), func(i, j int) { ks[i], ks[j] = ks[j], ks[i] })
			keep := append([]int{len(c.data), len(strings.TrimRight(c.data, "\r\n"))}, ks[:22]...)
			ks = keep
		}
		for _, k := range ks {
			for _, sfx := range endSuffixes {
				add(fmt.Sprintf("%s[:%d]+%q", c.origin, k, sfx), c.data[:k]+sfx)
			}
		}
	}
	return out
}

// nestings: one construct kind nested d levels deep, d = 1..depth.  The work of the parser (loop
// tops, entries of one loop at one index) must grow polynomially with d.
func nestings(depth int) []input {
	type kind struct{ name, open, mid, close string }
	kinds := []kind{
		{"if-else", "if a {\n<b></b>\n} else {\n", "<i></i>\n", "}\n"},
		{"if-elseif", "if a {\n<b></b>\n} else if b {\n", "<i></i>\n", "}\n"},
		{"if", "if a {\n", "<i></i>\n", "}\n"},
		{"for", "for _, v := range a {\n", "<i></i>\n", "}\n"},
		{"switch", "switch a {\ncase 1:\n", "<i></i>\n", "}\n"},
		{"element", "<div>\n", "<i></i>\n", "</div>\n"},
		{"block-call", "@c() {\n", "<i></i>\n", "}\n"},
		{"else-chain", "if a {\n<b></b>\n} else {\nif b {\n<u></u>\n}\n", "<i></i>\n", "}\n"},
	}
	var out []input
	for _, k := range kinds {
		for d := 1; d <= depth; d++ {
			src := "package main\n\ntempl x(a bool, b bool) {\n" + strings.Repeat(k.open, d) + k.mid + strings.Repeat(k.close, d) + "}\n"
			out = append(out, input{kind: fmt.Sprintf("nest:%s:%d", k.name, d), origin: k.name, data: src})
		}
	}
	return out
}
