#!/usr/bin/env python3
"""Generates /verif/MANIFEST.json from the table below (kept in one place so it stays valid)."""
import json, os, subprocess
VERIF = os.path.dirname(os.path.dirname(os.path.abspath(__file__)))

CHECKS = {
    "C17": dict(
        level="model_checking",
        technique="TLA+ two-layer spec (editor splice vs transcribed documentcontents.go) model-checked by TLC; every TLC transition and simulated behaviour replayed on the real proxy.Document",
        text="TLC enumerates every document up to MaxLen over {letter,newline} x every start<=end range (coordinates up to one past the maximum, so clamping is exercised) x 7 replacement texts, checks that the transcribed implementation layer equals the reference splice, and every one of those transitions is replayed on the real Document (exhaustive for the bound); random walks over the emitted graph and TLC-simulated 40-edit behaviours run on one live Document and through DocumentContents.Apply batches.",
        note="Trusted: TLC, the reference splice semantics in LspDoc.tla (pinned in DESIGN.md appendix), the harness concretisation (distinct letters per position). ASCII only (UTF-16 = bytes) as in the property's quantifier.",
        design="DESIGN.md §4 C17",
        modules=["LspDoc", "MCLspDoc", "MCLspDocSim"], pkgs=["c17"]),
    "C02": dict(
        level="translation_validation",
        technique="TLA+ denotational semantics of the templ language (TemplLang.tla: builder state machine + Denote) evaluated by TLC per program and environment; the repository's generator output is compiled, rendered and matched token-by-token against the denotation",
        text="TLC enumerates templates from the language specification and computes, for each and for several environments (condition valuations, list lengths, switch keys), the denoted document as a token sequence with must/mustnot/may separator requirements plus the list of expression evaluations. Each program is printed as templ source (three spellings), generated with the working tree's templ CLI, compiled (~500 templates per package), rendered, tokenised with x/net/html and matched against the denotation; evaluation multisets are compared. A generated file that does not compile is a violation attributed to its template.",
        note="Trusted: Denote (reviewed against the property text; the whitespace clause is encoded as a relation so only what the property states is demanded), the concretiser, x/net/html, the Go compiler. Language subset as listed in the evidence assumptions; values are fixed strings with markup metacharacters, escaping itself is C01's business.",
        design="DESIGN.md §4 C02",
        modules=["TemplLang", "MCTemplLang", "TemplVocab"], pkgs=["c02", "templang"]),
    "C06": dict(
        level="exploration",
        technique="TLA+ cursor-progress contract (ParseCursor.tla) and position algebra (SourceMapPos.tla) model-checked by TLC; real parser run over corpus, all truncations and seeded structural mutations with loop-top events (verif hook) and recorded ranges validated by TLC trace specs",
        text="TLC checks that under the per-loop progress contract every parser loop terminates within n+1 tops (negative config: a sub-parser matching without consuming is rejected) and that parse.Input positions follow the Advance algebra. The real parser.ParseString is run over the repository's templates/test data/fuzz seeds, their truncations and token-level mutations (~10^5 inputs quick, ~10^6 thorough) with recover + watchdog (a hang is only reported when goroutine dumps confirm it); loop-top events from the verif hook are validated by TraceParseCursor.tla, error positions and every recorded expression/name range by the harness and TraceRanges.tla.",
        note="Exploration, not proof: absence of panics is observed on the explored inputs; coverage-guided random bytes are not covered (a different technique). Loops inside the a-h/parse combinator library are not hooked.",
        design="DESIGN.md §4 C06",
        modules=["ParseCursor", "MCParseCursor", "SourceMapPos", "SourceMapOps", "TraceParseCursor", "TraceRanges"], pkgs=["c06"]),
    "C07": dict(
        level="translation_validation",
        technique="TLA+ transcription of RangeWriter.write and SourceMap.Add (SourceMap.tla) model-checked by TLC over expression shape grids; lookups recorded from the real parser+generator for TLC-enumerated (slot, shape) templates and all repo templates, validated by a TLC trace spec",
        text="The Add/write algorithm is model-checked for all shapes in the bounds (SameByte, Consecutive, RoundTrip, EndOfLineMapped, SymbolRangeEncloses; negative configs rejected). For every TLC-enumerated (syntactic slot, multi-line/multi-byte shape) template (25 slots) and every .templ file of the repository the real parser and generator run, every rune-boundary position of every Go expression (and the position past each line end) is looked up both ways and the tuples, with the bytes at both ends, are judged by TraceSourceMap.tla; coverage of every expression of the parse tree is checked.",
        note="Trusted: the concretiser of (slot, shape) cases, TLC. The full 3x4x4 shape grid is sampled in the binding, model-checked within smaller bounds. UTF-16 conversion of LSP clients is outside the property.",
        design="DESIGN.md §4 C07",
        modules=["SourceMapOps", "SourceMap", "MCSourceMap", "SourceMapGen", "MCSourceMapGen", "TraceSourceMap"], pkgs=["c07"]),
    "C11": dict(
        level="model_checking",
        technique="TLA+ step model of ServeHTTPBuffered/Streamed over a ResponseWriter model (Handler.tla) exhaustively model-checked; every terminal state replayed against the real templ.Handler through httptest and a real net/http server",
        text="The configuration space (status x content type x error-handler behaviour x streaming x component writing k chunks then ok/fail x 3-request sequences over the buffer pool) is small: TLC enumerates it completely, checks AllOrNothing / UntouchedWhileRendering / PooledBuffersAreEmpty / StreamedAsDocumented (4 negative configs rejected), and every terminal state is replayed on the real handler with several chunk-size profiles, through ResponseRecorder and through a real server+client; status, Content-Type and body compared. exhaustive for the stated bounds.",
        note="Trusted: net/http's ResponseWriter semantics as modelled (first Write implies 200, headers frozen after WriteHeader), the harness components. Streaming mode mismatches are drift (the property is about the buffered handler).",
        design="DESIGN.md §4 C11",
        modules=["Handler"], pkgs=["c11"]),
    "C12": dict(
        level="model_checking",
        technique="TLA+ registry model (RenderCtxRegistry.tla) of emitted scripts/classes/once handles per context, model-checked; every transition and simulated long histories replayed on real generated templates and the real runtime, output tokenised and projected to Def/Use/Body",
        text="TLC explores histories of uses (script component, on* attributes, class expressions in every container form, once handles with block or fixed component, middleware and stylesheet requests) over 2 scripts x 2 classes x 2 handles, one or two contexts in every mode; AtMostOnce, DefBeforeFirstUse, EveryUseHasCallOrName, MiddlewareNeverInlined, ContextsIndependent are step properties (6 negative configs rejected). Every edge of two sub-graphs is replayed from its re-established source state on real generated code in two concretisations (rendered directly, inside a component, inside a child block), plus simulated 40-use histories; the properties are evaluated on the real token stream.",
        note="Trusted: x/net/html tokenizer, the projection to Def/Use/Body. The full two-context product is model-checked in thorough only. Nonce handling is not covered.",
        design="DESIGN.md §4 C12",
        modules=["RenderCtxRegistry", "MCRenderCtxRegistry", "MCRenderCtxRegistrySim"], pkgs=["c12"]),
    "C13": dict(
        level="model_checking",
        technique="TLA+ two-layer model of the children slot (RenderCtxChildren.tla: lexical Ideal vs one mutable slot as coded, one action per component kind) model-checked; every TLC-enumerated call tree compiled from its own templ source with the repository's generator and rendered",
        text="TLC enumerates all call trees within the bounds over 13 callee kinds (generated components using/ignoring/repeating the slot, Once first/again with block or fixed component, Flush, Join, Raw, Nop, script, JSON script, protocol-following func component) x with/without block, checks ImplEqualsIdeal/NoDoubleRender/NoStaleSlot for the repaired design and rejects the as-coded and no-ClearChildren designs. Each tree is printed as templ source (never assembled from combinators, which would mask leaks), generated, compiled (thousands of templates per run) and rendered; marker placement is compared with Ideal and with the as-coded model; failing trees are attributed to the action that kept the slot.",
        note="Trusted: the tree concretiser, marker parsing. Which actions are repaired in the code under test is detected from isolating trees; a wrong guess cannot hide a violation (verdicts compare with Ideal; unmatched outputs get *.Unmodelled signatures).",
        design="DESIGN.md §4 C13",
        modules=["RenderCtxChildren"], pkgs=["c13"]),
    "C08": dict(
        level="translation_validation",
        technique="TLA+ builder spec of the templ language (TemplLang.tla) enumerated by TLC; every program, in three concrete spellings, is formatted by the real formatter and the real generator's output for original and formatted source is compared",
        text="Programs are enumerated by TLC from the language specification (BFS within node budgets per focus family: whitespace, single-line specials, control flow, attributes, components; plus seeded simulation of deep programs), concretised in three spellings, and for each the repository's fmtcmd formatter output must be accepted by parser+generator+gofmt and generate the same Go program (positions in templ.Error masked, gofmt layout); all .templ files of the repository are checked the same way. Failures are attributed to a root cause by re-running the oracle on an AST with the suspect feature removed.",
        note="Trusted: the concretiser (AST -> source, harness/templang), go/format, the masking regex for templ.Error positions. The enumerated language is a subset of templ (no css/script templates, one-line Go expressions). Known, unrepaired formatter defects are listed in known-findings.json by root cause.",
        design="DESIGN.md §4 C08",
        modules=["TemplLang", "MCTemplLang", "TemplVocab", "FmtLayout", "MCFmtLayout"], pkgs=["c08", "templang"]),
    "C09": dict(
        level="model_checking",
        technique="TLA+ builder spec of the templ language (TemplLang.tla) enumerated by TLC; fmt(fmt(x)) = fmt(x) checked with the real formatter on every enumerated program spelling",
        text="Same program stream as C08 (TLC enumeration of TemplLang.tla families + seeded simulation, three spellings each, plus the repository's templates); the oracle is byte equality of the formatter's output with the formatter applied to its own output, through the real fmtcmd.Run path.",
        note="Stage 1 of DESIGN.md §4 C09 only (no layout model of the formatter yet): the specification supplies the program space and TLC checks the language model's own invariants; idempotence itself is decided on the real formatter. imports.Process is not exercised (stdin path).",
        design="DESIGN.md §4 C09",
        modules=["TemplLang", "MCTemplLang", "TemplVocab", "FmtLayout", "MCFmtLayout"], pkgs=["c08", "templang"]),
    "C19": dict(
        level="model_checking",
        technique="TLA+ process model of the SSE registry, broadcaster, delivery goroutines and client handlers (Sse.tla) model-checked incl. liveness; TLC behaviours replayed step by step on the real handler through a blocking gate hook; stress traces validated by a TLC trace spec",
        text="TLC checks NoPanic, BroadcasterNeverBlocks, OthersUnaffected, NoLeak and, under fairness, Delivered/SendReturns for 2 clients x 2 broadcasts with a slow client (3 clients in thorough); the original close-on-exit design, the naive never-close repair and send-under-mutex are rejected as negative configs. Every transition of the race-free replay model is covered by complete TLC behaviours that are replayed in -race -tags verif subprocesses: the harness drives client connect/cancel, controlled writes, SendSSE, and releases each delivery goroutine and exiting handler through the gate hook in the prescribed order, observing events per client, exit status and goroutines at quiescence. Seeded stress episodes are logged through the hook and validated line by line by TraceSse.tla.",
        note="Trusted: the gate hook placement (inside the delivery goroutine before the send; register/unregister under the mutex), the Go race detector. States where a handler's select has two ready cases are covered by MC and validated stress traces, not by deterministic replay.",
        design="DESIGN.md §4 C19",
        modules=["Sse", "TraceSse"], pkgs=["c19"]),
    "C20": dict(
        level="model_checking",
        technique="TLA+ pipeline model of the live-reload proxy (Proxy.tla) over an abstract configuration space enumerated exhaustively by TLC; every configuration replayed end to end through the real proxy handler",
        text="Initial states are the configuration space (content type x content encoding {none, gzip, br, unsupported} x request kind x skip marker x 6 CSP shapes x 7 body shapes x Accept-Encoding): 5 376 configurations; TLC checks PassThroughIsIdentity, HtmlGetsExactlyOneScript, LengthMatchesBody, EncodingHeaderDescribesBody (negative configs: fall-through on unsupported encoding, stale length). Every configuration is replayed: httptest backend -> real proxy.New handler -> HTTP client without transparent decompression, with body sizes around the 4 KiB/32 KiB/64 KiB boundaries and multi-MiB bodies; pass-through judged by byte identity, rewrites by DOM equality (x/net/html) plus exactly one reload script with the page's nonce.",
        note="Trusted: x/net/html for DOM comparison (the same parser the proxy uses), the document generator. Content-Type sniffing by net/http is recorded as drift. exhaustive over the abstract configuration space.",
        design="DESIGN.md §4 C20",
        modules=["Proxy"], pkgs=["c20"]),
}

NOT_YET = "check not built yet in this round (planned in DESIGN.md §7); not claimed until its spec and conformance harness exist"
NA = {}

def main():
    ids = ["C%02d" % i for i in range(1, 21)]
    hooks = []
    try:
        out = subprocess.run(["git", "-C", "/repo", "log", "--format=%h %s"], stdout=subprocess.PIPE).stdout.decode()
        hooks = [l.split()[0] for l in out.splitlines() if l.split(" ", 1)[1].startswith("verif hook")]
    except Exception:
        pass
    m = {
        "version": 1,
        "setup_cmd": "bin/setup",
        "hooks": {
            "guard": "verif",
            "enable": "go build -tags verif (harness binaries are built by the checks with -tags verif against /repo's working tree)",
            "baseline_off_cmd": "for m in . ./runtime/fuzzing; do (cd /repo/$m && GOFLAGS=-mod=mod go test -json -vet=off -count=1 -timeout 25m ./...); done",
            "source_commits": hooks,
            "add_only": True,
        },
        "engines": [
            {"name": "tlc-mc", "path": "spec/", "serves_properties": sorted(CHECKS), "kind_free_text": "explicit TLA+ specifications model-checked by TLC (invariants, negative configs)"},
            {"name": "tlc-gen", "path": "lib/vlib.py", "serves_properties": sorted(CHECKS), "kind_free_text": "TLC-generated transitions/behaviours (ACTION_CONSTRAINT edge emission, -simulate histories) replayed on the real code by Go harnesses under harness/"},
            {"name": "tlc-trace", "path": "spec/", "serves_properties": sorted(CHECKS), "kind_free_text": "ndjson traces recorded from the real code validated by TLC against trace specifications"},
        ],
        "checks": [],
        "not_applicable": [],
        "notes": "Technique family: model-based verification with explicit TLA+ specifications (spec/), decided by TLC and bound to the code by replay/trace validation. See DESIGN.md. known-findings.json lists genuine defects (fixed or recorded).",
    }
    for i in ids:
        if i in CHECKS:
            c = CHECKS[i]
            m["checks"].append({
                "property_id": i,
                "quick_cmd": "bin/check %s quick" % i,
                "thorough_cmd": "bin/check %s thorough" % i,
                "evidence_file": "evidence/%s.json" % i,
                "replay_cmd_template": "bin/replay {path}",
                "engine": "tlc-mc+tlc-gen",
                "level_claimed": {"category": c["level"], "text": c["text"], "design_ref": c["design"]},
                "level_note": c["note"],
                "technique": c["technique"],
            })
        else:
            m["not_applicable"].append({"property_id": i, "reason": NA.get(i, NOT_YET)})
    claimed = {"modules": sorted({x for c in CHECKS.values() for x in c.get("modules", [])}),
               "pkgs": sorted({x for c in CHECKS.values() for x in c.get("pkgs", [])} | {"vhlib"})}
    with open(os.path.join(VERIF, "lib", "claimed.json"), "w") as fh:
        json.dump(claimed, fh, indent=1)
        fh.write("\n")
    with open(os.path.join(VERIF, "MANIFEST.json"), "w") as fh:
        json.dump(m, fh, indent=1)
        fh.write("\n")

main()
