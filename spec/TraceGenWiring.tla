--------------------------- MODULE TraceGenWiring ---------------------------
(* C01 binding 3 -- wiring audit of GENERATED code by trace validation.

   For every component body the repository's generator produced for a corpus of templates (all .templ files of
   the repository + the sink galleries, regenerated at check time) the harness logs the writes in source order:
     [k |-> "lit", s |-> symbols]      a literal the generator writes
     [k |-> "dyn", w |-> wrapper]      any other write to the buffer, with the outermost function applied
     [k |-> "attrs"|"cssitems"|"scriptitems"|"component"]   runtime helpers that write markup themselves
     [k |-> "bs"] / [k |-> "be"]       start / end of a branch or loop body
   This spec runs HtmlTok over the literals and requires
     WrapperAllowed   at every dyn the wrapper is one that C01/C03's closed automata cover for the tokenizer
                      context reached:  templ.EscapeString in Data / RCDATA / RAWTEXT / a double-quoted attribute
                      value;  <ComponentScript>.Call in a double-quoted attribute value;  the script-content
                      functions in script data;  nothing else anywhere (a raw variable, an unquoted or
                      single-quoted attribute position, a tag name, a comment are rejected);
                      RenderAttributes only inside a tag between attributes; components and the css/script item
                      helpers only in the data state.
     BranchNeutral    a branch or loop body leaves the tokenizer in the same class of state it started in, so the
                      linear reading of the code is sound and zero or many iterations tokenise alike.
     EndsAtRest       a component body ends in the state class it began in (Data).
   A dynamic write itself leaves the tokenizer state unchanged: that is NeutralAfterFeed of SinksHtml.tla.  *)
EXTENDS HtmlTok, Json
LOCAL INSTANCE SequencesExt

Trace == ndJsonDeserialize("trace.ndjson")

VARIABLES i, fails
vars == <<i, fails>>

InTagStates == {"TagName", "BeforeAttrName", "AttrName", "AfterAttrName", "AfterAttrValQ", "SelfClosingStartTag"}
ScriptStates == {"ScriptData"} \cup ScriptEscStates
Class(q) == IF q.s \in InTagStates THEN "InTag"
            ELSE IF q.s \in ScriptStates THEN "Script"
            ELSE q.s

EscapeOK  == {"Data", "Rcdata", "Rawtext", "AttrValDQ"}
Allowed(w, q) ==
    CASE w = "templ.EscapeString" -> q.s \in EscapeOK
      [] w = ".Call" -> q.s = "AttrValDQ"
      [] w \in {"var<-templruntime.ScriptContentInsideStringLiteral", "var<-templruntime.ScriptContentOutsideStringLiteral"} -> q.s \in ScriptStates
      [] OTHER -> FALSE

\* one literal symbol through the preprocessing and the tokenizer (events are not needed here)
LitOp(a, c) ==
    LET pr == PreStep(a.p, c) IN
    IF pr.out = <<>> THEN [a EXCEPT !.p = pr.p] ELSE [q |-> Step(a.q, pr.out[1]).q, p |-> pr.p]

Op(acc, e) ==
    IF e.k = "lit" THEN LET r == FoldLeft(LitOp, [q |-> acc.q, p |-> acc.p], e.s) IN [acc EXCEPT !.q = r.q, !.p = r.p, !.n = acc.n + 1]
    ELSE IF e.k = "dyn"
         THEN [acc EXCEPT !.n = acc.n + 1,
                          !.bad = IF Allowed(e.w, acc.q) THEN acc.bad
                                  ELSE Append(acc.bad, [at |-> acc.n + 1, why |-> "WrapperAllowed", w |-> e.w, st |-> acc.q.s])]
    ELSE IF e.k = "attrs"
         THEN [acc EXCEPT !.n = acc.n + 1,
                          !.bad = IF Class(acc.q) = "InTag" THEN acc.bad
                                  ELSE Append(acc.bad, [at |-> acc.n + 1, why |-> "WrapperAllowed", w |-> "templ.RenderAttributes", st |-> acc.q.s])]
    ELSE IF e.k \in {"cssitems", "scriptitems", "component"}
         THEN [acc EXCEPT !.n = acc.n + 1,
                          !.bad = IF acc.q.s = "Data" THEN acc.bad
                                  ELSE Append(acc.bad, [at |-> acc.n + 1, why |-> "WrapperAllowed", w |-> e.k, st |-> acc.q.s])]
    ELSE IF e.k = "bs" THEN [acc EXCEPT !.n = acc.n + 1, !.stack = Append(acc.stack, Class(acc.q))]
    ELSE IF e.k = "be"
         THEN LET top == acc.stack[Len(acc.stack)] IN
              [acc EXCEPT !.n = acc.n + 1, !.stack = SubSeq(acc.stack, 1, Len(acc.stack) - 1),
                          !.bad = IF Class(acc.q) = top THEN acc.bad
                                  ELSE Append(acc.bad, [at |-> acc.n + 1, why |-> "BranchNeutral", w |-> top, st |-> acc.q.s])]
    ELSE [acc EXCEPT !.n = acc.n + 1]

Audit(t) ==
    LET r == FoldLeft(Op, [q |-> InitTok, p |-> FALSE, n |-> 0, stack |-> <<>>, bad |-> <<>>], t.evs) IN
    IF r.q.s = "Data" THEN r.bad
    ELSE Append(r.bad, [at |-> r.n, why |-> "EndsAtRest", w |-> "", st |-> r.q.s])

Init == i = 1 /\ fails = <<>>
Next == /\ i <= Len(Trace)
        /\ LET b == Audit(Trace[i]) IN
           fails' = IF b = <<>> THEN fails ELSE Append(fails, [id |-> Trace[i].id, bad |-> b])
        /\ i' = i + 1
        /\ (i = Len(Trace) => PrintT(<<"DONE", ToJson([consumed |-> i, fails |-> fails'])>>))
Spec == Init /\ [][Next]_vars
AllConsumed == TLCGet("stats").distinct = Len(Trace) + 1
=============================================================================
