\* C07 trace validation of recorded lookups.
CONSTANTS
  ColMode = "bytes"
  EolEntry = TRUE
  SymLineMap = "keep"
  PredictMaxSyms = 40
INIT Init
NEXT Next
INVARIANTS Summary
POSTCONDITION AllConsumed
CHECK_DEADLOCK FALSE
