--------------------------- MODULE TraceRenderPool ---------------------------
(* Trace validation (VAL) of the pool protocol for C10 and C14.

   trace.ndjson holds the events of the `verif` pool hooks of the real code (runtime.GetBuffer /
   ReleaseBuffer, templ.GetBuffer / ReleaseBuffer) in the order of a global sequence number taken at
   the hook, plus begin/end markers of each render written by the harness:
       begin r | acquire b | existing b | flush b err | release b | get b | put b | end r err
   Every event carries the render r that was running on the calling goroutine.  The state is the
   holding relation of RenderPool.tla (module RenderPoolOps) for each of the two pools and each event
   applies the corresponding operator (the content of sync.Pool itself is not tracked: an object the
   garbage collector dropped from the pool is indistinguishable from one that is never taken again).  The spec consumes the whole trace and collects every line at
   which the real code left the protocol:
       ExclusiveBuffer.*   a buffer handed out while held / touched by a render that does not hold it
                           (flush after release = Put before the last use)
       NoCarryOver.*       an acquired buffer is not empty with a nil error / not attached to this render's writer
       OneOwner.*          a nested component acquired a second buffer, a render returned while holding one *)
EXTENDS Integers, Sequences, FiniteSets, TLC, Json, RenderPoolOps

CONSTANTS NB,         \* buffer object ids are 1..NB (informative only)
          CheckWriter \* TRUE: the harness gives writer id = render id, so acquire must report it (0 = a writer without id)

Trace == ndJsonDeserialize("trace.ndjson")

VARIABLES i, hr, hb, active, viol, cnt
vars == <<i, hr, hb, active, viol, cnt>>

Kinds == {"begin", "end", "acquire", "existing", "flush", "release", "get", "put"}

Init == /\ i = 0
        /\ hr = {} /\ hb = {}
        /\ active = {} /\ viol = <<>>
        /\ cnt = [k \in Kinds |-> 0]

V(line, kind) == [line |-> line, kind |-> kind]
\* optional fields: an event kind that has no use for a field may omit it
IsDirty(e) == "dirty" \in DOMAIN e /\ e.dirty
WriterOf(e) == IF "w" \in DOMAIN e THEN e.w ELSE 0
BufOf(e) == IF "buf" \in DOMAIN e THEN e.buf ELSE 0
AddIf(s, c, v) == IF c THEN Append(s, v) ELSE s

Step ==
    /\ i < Len(Trace)
    /\ LET e == Trace[i + 1]
           n == i + 1
           r == e.r
           b == BufOf(e)
       IN
       /\ i' = n
       /\ cnt' = [cnt EXCEPT ![e.ev] = @ + 1]
       /\ CASE e.ev = "begin" ->
                 /\ active' = active \cup {r}
                 /\ viol' = AddIf(viol, r \in active, V(n, "Harness.RenderBeginTwice"))
                 /\ UNCHANGED <<hr, hb>>
            [] e.ev = "end" ->
                 /\ active' = active \ {r}
                 /\ viol' = AddIf(viol, Holds(hr, r) \/ Holds(hb, r), V(n, "OneOwner.HeldAfterReturn"))
                 /\ UNCHANGED <<hr, hb>>
            [] e.ev = "acquire" ->                                   \* GetBuffer: Get + Reset
                 /\ hr' = HGet(hr, r, b)
                 /\ viol' = AddIf(AddIf(AddIf(AddIf(viol,
                                ~GetLegal(hr, r, b), V(n, "ExclusiveBuffer.AcquireWhileHeld")),
                                IsDirty(e), V(n, "NoCarryOver.DirtyAcquire")),
                                CheckWriter /\ WriterOf(e) # 0 /\ WriterOf(e) # r, V(n, "NoCarryOver.WrongWriter")),
                                Holds(hr, r), V(n, "OneOwner.SecondAcquire"))
                 /\ UNCHANGED <<hb, active>>
            [] e.ev = "existing" ->                                  \* GetBuffer: the writer already is a *Buffer
                 /\ viol' = AddIf(viol, ~UseLegal(hr, r, b), V(n, "ExclusiveBuffer.UseNotHeld"))
                 /\ UNCHANGED <<hr, hb, active>>
            [] e.ev = "flush" ->                                     \* ReleaseBuffer: b.Flush()
                 /\ viol' = AddIf(viol, ~UseLegal(hr, r, b), V(n, "ExclusiveBuffer.UseAfterRelease"))
                 /\ UNCHANGED <<hr, hb, active>>
            [] e.ev = "release" ->                                   \* ReleaseBuffer: bufferPool.Put(b)
                 /\ hr' = HDrop(hr, r, b)
                 /\ viol' = AddIf(viol, ~UseLegal(hr, r, b), V(n, "ExclusiveBuffer.ReleaseNotHeld"))
                 /\ UNCHANGED <<hb, active>>
            [] e.ev = "get" ->                                       \* templ.GetBuffer (bytes.Buffer pool)
                 /\ hb' = HGet(hb, r, b)
                 /\ viol' = AddIf(AddIf(viol,
                                ~GetLegal(hb, r, b), V(n, "ExclusiveBuffer.BytesAcquireWhileHeld")),
                                IsDirty(e), V(n, "NoCarryOver.DirtyBytesBuffer"))
                 /\ UNCHANGED <<hr, active>>
            [] e.ev = "put" ->                                       \* templ.ReleaseBuffer: Reset + Put
                 /\ hb' = HDrop(hb, r, b)
                 /\ viol' = AddIf(AddIf(viol,
                                ~UseLegal(hb, r, b), V(n, "ExclusiveBuffer.BytesReleaseNotHeld")),
                                IsDirty(e), V(n, "NoCarryOver.PutWithoutReset"))
                 /\ UNCHANGED <<hr, active>>

Next == Step
Spec == Init /\ [][Next]_vars

\* the same invariants as RenderPool.tla, evaluated on every state of the trace; a violation is also
\* collected in viol by the step that caused it, so the run goes on and reports every offending line
ExclusiveNow == Exclusive(hr) /\ Exclusive(hb)

Done == i = Len(Trace)
Report == Done => PrintT(<<"TRACE", ToJson([lines |-> i, viol |-> viol, cnt |-> cnt,
                                            exclusive |-> ExclusiveNow,
                                            stillheld |-> Cardinality(hr) + Cardinality(hb)])>>)
=============================================================================
